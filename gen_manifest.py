#!/usr/bin/env python3
"""Regenerates MANIFEST.json from checks_config.py (single source of truth)."""
import json, os, sys
ROOT = os.path.dirname(os.path.abspath(__file__))
sys.path.insert(0, ROOT)
from checks_config import CHECKS, NOT_APPLICABLE, HOOK_COMMITS

baseline = json.load(open("/root/.vp/BASELINE.json"))["cmd"] if os.path.exists("/root/.vp/BASELINE.json") else ""
props = [json.loads(l)["id"] for l in open(os.path.join(ROOT, "properties.jsonl"))]
checks = []
for pid in props:
    if pid not in CHECKS:
        continue
    c = CHECKS[pid]
    checks.append({
        "property_id": pid,
        "quick_cmd": f"./check {pid} --tier quick",
        "thorough_cmd": f"./check {pid} --tier thorough",
        "evidence_file": f"/verif/evidence/{pid}.json",
        "replay_cmd_template": f"./check {pid} --replay {{path}}",
        "engine": "rapid-harness",
        "level_claimed": {"category": c.get("level", "exploration"), "text": c["level_text"], "design_ref": c.get("design_ref", "DESIGN.md §2 " + pid)},
        "level_note": c.get("level_note", "; ".join(c.get("assumptions", []))),
        "technique": c.get("technique", "property-based testing (rapid) against a reference model"),
    })
na = [{"property_id": p, "reason": r} for p, r in NOT_APPLICABLE.items() if p not in CHECKS]
for pid in props:
    if pid not in CHECKS and pid not in NOT_APPLICABLE:
        na.append({"property_id": pid, "reason": "check not built yet in this session (planned, see DESIGN.md §2)"})
m = {
    "version": 1,
    "setup_cmd": "./check --build",
    "hooks": {"guard": "verif", "enable": "go test -tags verif (the driver builds the harness test binary with -tags verif against /repo through a replace directive)",
              "baseline_off_cmd": baseline, "source_commits": HOOK_COMMITS, "add_only": True},
    "engines": [{"name": "rapid-harness", "path": "/verif/harness", "serves_properties": [c["property_id"] for c in checks],
                 "kind_free_text": "Go module (pgregory.net/rapid v1.3.0, native go fuzzing, porcupine as history checker) importing /repo through a replace directive; driver ./check shards rapid by PRNG value, merges evidence, classifies known findings"}],
    "checks": checks,
    "notes": "All checks rebuild from /repo's working tree (go test -c through a replace directive). Exit 2 = inconclusive (build failure / time-out), never a violation.",
    "not_applicable": na,
}
json.dump(m, open(os.path.join(ROOT, "MANIFEST.json"), "w"), indent=1)
print("checks:", len(checks), "not_applicable:", len(na))
