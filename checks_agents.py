# Run configuration of the checks that live in their own package (harness/pNN).
# Merged into CHECKS by checks_config.py.


def _r(test, q, t, qs=4, ts=16, race=False, qt=900, tt=3000, **kw):
    d = {"test": test, "quick": {"checks": q, "shards": qs, "timeout": qt},
         "thorough": {"checks": t, "shards": ts, "timeout": tt}, "race": race}
    d.update(kw)
    return d


AGENT_CHECKS = {
    "C06": {
        "pkg": "p06",
        "runs": [_r("TestC06", 2000, 100000)],
        "rule": "rapid draws a world (half: shared generator G; half: a family of the same space weighted towards typed wildcards under "
                "intersection/exclusion, nested exclusions, exclusions reached through usersets, recursive usersets/TTU; valid + left-over tuples) "
                "and 2-5 queries (object biased to the data, relation biased to non-direct rewrites, request context that "
                "satisfies/falsifies/omits/mistypes parameters, optional contextual tuples), each asked once per user filter drawn from "
                "{every type, every type#relation} (about 28 ListUsers requests per case). Every returned entry must match the filter, be unique and "
                "hold per the independent three-valued least-fixpoint evaluator (a returned T:* is evaluated as the subject T:* as the API "
                "documentation prescribes); every concrete user of the filter type occurring in the valid/contextual tuples with reference value "
                "true must be returned or covered by T:*. Userset completeness is only observed. Non-trivial: some request targets a relation "
                "with a non-direct rewrite and its truth has at least one user. Distinct: hash of the canonical JSON of the whole case.",
        "level_text": "exploration: generated models/tuples/filters compared with an independent least-fixpoint evaluator per candidate subject; "
                      "shrunk counterexamples are replayable; absence of further violations is not proven",
        "technique": "property-based testing (rapid), differential against reference semantics R-sem (soundness per returned entry, completeness per concrete user in the data)",
        "assumptions": ["reference semantics R-sem (harness/refsem) is the specification",
                        "memory datastore, default server options (max results 1000, deadline 3 s: neither applies to <= 30 tuples; a response slower than 2 s makes the case inconclusive)",
                        "a returned typed wildcard is judged as the subject T:* (ListUsers API documentation: negations may exist)",
                        "a failed request is accepted only as 'resolution too complex' (counted) or as a condition-evaluation error when some tuple really has an unevaluable condition",
                        "mismatches with an open known-finding signature are counted inside the check and the rest of the case is still checked"],
    },
    "C12": {
        "pkg": "p12",
        "runs": [_r("TestC12", 400, 20000, qt=1500), _r("TestC12Faults", 40, 2000, qt=1500, tt=6000)],
        "rule": "TestC12: rapid draws a sequence of 3-10 (thorough 3-16) Write requests over 6 tuple keys x {no condition, c1{x:1}, "
                "c1{x:2}, c1 without context, c1 with empty context}: 0-3 deletes, 0-3 writes, on_duplicate/on_missing in {\"\", error, ignore} "
                "plus rarely a junk string, rarely a repeated key / a key both deleted and written, and idempotent retries with ignore. Every "
                "sequence runs on 4 targets (Server.Write over memory, Server.Write over a per-case copy of a migrated sqlite file, datastore.Write "
                "on both); after every request Read(all)+ReadChanges(all pages) are compared with the reference model R-store. Non-trivial: some "
                "request has >=1 delete and >=1 write and >=1 item hits an option path. TestC12Faults: initial state S + one datastore.Write W on "
                "sqlite; a wrapping database/sql driver counts the statement boundaries N of W (begin, select, delete, insert, changelog insert, "
                "commit, after-commit), then for EVERY k<N W is re-run on a fresh copy with (a) an error at k, (b) connection closed + ErrBadConn at k, "
                "(c) a child process that os.Exit(137)s at k (quick: 2 sampled k per write, thorough: all k); evidence counts (write,k,kind) triples. "
                "Non-trivial: W applies >=1 delete and >=1 insert and k is strictly inside the transaction. Distinct: hash of the case.",
        "level": "fault_enumeration",
        "level_text": "histories: exploration against the reference store model; faults: exhaustive over every driver-level statement boundary of each "
                      "generated sqlite write for three fault kinds (injected error, dropped connection, real process crash)",
        "technique": "property-based testing (rapid): model-based stateful histories + exhaustive fault/crash-point enumeration through a wrapping SQL driver and a re-exec'd child process",
        "assumptions": ["a failing COMMIT leaves the connection outside the transaction (driver contract)",
                        "process crash = os.Exit(137) (no OS/power loss, so fsync durability is not exercised)",
                        "postgres/mysql are not run; the fault plan covers the sqlite write path only",
                        "order of changelog entries inside one request is not asserted",
                        "datastore-level requests with a repeated key are undocumented: only error=>unchanged and self-consistency are asserted"],
    },
    "C13": {
        "pkg": "p13",
        "runs": [_r("TestC13", 1500, 80000, qt=1500)],
        "rule": "rapid draws a write history (1-4 datastore.Write batches, thorough 1-6; tuples over 3 types x ids 0-3 x r0-r2, users as objects / "
                "typed wildcards / usersets, 45% conditioned with nil/empty/nested JSON contexts; neighbours of stored tuples; deletes; occasionally a "
                "batch that must be rejected) applied identically to a memory and a migrated sqlite datastore, then 6-12 read calls built around stored "
                "tuples: Read/ReadPage, ReadUserTuple, ReadUsersetTuples (relation and wildcard restrictions, duplicates with/without condition, "
                "Conditions nil/['']/names/duplicates), ReadStartingWithUser (object / userset / wildcard / duplicate UserFilter entries, ObjectIDs "
                "nil/empty/subset/superset, Conditions). Every call: memory == sqlite == R-store as multisets of (key, condition, canonical context "
                "JSON). Undocumented shapes compare memory vs sqlite only. Non-trivial: at least one documented call selects a strict non-empty subset "
                "of the store with >= 2 filter dimensions. Distinct: hash of the canonical JSON of the whole case.",
        "level_text": "exploration: generated histories and filters compared three-way with an independent model of the documented filter meaning; "
                      "mismatches are attributed to a named root cause by exact re-derivation; absence of further divergences is not proven",
        "technique": "property-based testing (rapid), three-way differential: memory vs sqlite vs reference model R-store",
        "assumptions": ["the doc comments of pkg/storage/storage.go are the specification",
                        "sqlite (modernc, in-process) stands for the SQL family; postgres/mysql are not run",
                        "cases of one process share one sqlite database and are isolated by a fresh store id (replays use a private copy)",
                        "a nil and an empty condition context are the same value"],
    },
    "C17": {
        "pkg": "p17",
        "runs": [_r("TestC17", 1500, 20000), _r("TestC17ColdLatest", 600, 20000, qt=600, tt=3000)],
        "rule": "rapid draws 4-14 (thorough 4-20) steps over 1-2 fresh stores on one process-wide server with default model/typesystem caches: "
                "WriteAuthorizationModel with a shared-generator model (~60%) or an invalid-by-construction mutant tagged with one of 17 documented "
                "validation rules, ReadAuthorizationModel (accepted / unknown / other store's id), ReadAuthorizationModels (all pages), model-less "
                "Check / ListObjects / Write. Every submission carries a version probe (condition vx == K, relation only<K>). Non-trivial: a store has two "
                "consecutive accepted models with a model-less request while each was the latest. Distinct: hash of the case.",
        "level_text": "exploration: generated write/read/model-less sequences compared with an independent reference validator and a reference history; "
                      "the model used by model-less requests is observed through the resolved-model-id header and through version-identifying answers",
        "technique": "property-based testing (rapid), stateful sequence vs reference model, mutation of valid models per documented rule, capturing gateway.Transport",
        "assumptions": ["reference model validator harness/p17/refval_test.go (documented rules; entrypoints as least fixpoint) is the specification of 'passes model validation'",
                        "memory datastore; ULIDs minted by one process (monotonic)"],
    },
    "C18": {
        "pkg": "p18",
        "runs": [_r("TestC18", 1500, 60000, qt=1500)],
        "rule": "rapid draws a model (shared generator G, boosted self-userset and string-conditioned restrictions) and ~25 candidate tuples: tuples built "
                "from a restriction, one-field mutants of each (object/relation/user/condition/context), tuples sampled from the full grid and usersets "
                "pointing at themselves. Each candidate is written alone (and, if rejected, in a batch next to a valid tuple) and submitted as the single "
                "contextual tuple of Check, BatchCheck, ListObjects, ListUsers, Expand (default engine) and Check, BatchCheck (weighted_graph_check). "
                "Accept/reject is compared with R-val-write (independent restatement of the property sentence); rejected writes must leave Read unchanged "
                "and fail with a validation error. Non-trivial: accepted and rejected candidates both exist and a rejected one differs from an accepted one "
                "in exactly one field. Distinct: hash of model + candidates.",
        "level_text": "exploration: every API surface that validates tuples is compared with an independent validator on generated models and "
                      "systematically mutated tuples; absence of further mismatches is not proven",
        "technique": "property-based testing (rapid), differential against reference validator R-val-write, one-field mutation of valid tuples",
        "assumptions": ["R-val-write (harness/p18/rvalwrite.go) is the specification; grammar and 32 KiB context limit taken from the API documentation",
                        "memory datastore, caches off, schema 1.1 models accepted by WriteAuthorizationModel"],
    },
    "C19": {
        "pkg": "p19",
        "runs": [_r("TestC19", 300, 12000, qs=8, ts=16, qt=1500, tt=9000)],
        "fuzz": [{"target": "FuzzC19Check", "seconds": 1200}, {"target": "FuzzC19Write", "seconds": 1200},
                 {"target": "FuzzC19Model", "seconds": 1200}, {"target": "FuzzC19Read", "seconds": 1200}],
        "rule": "one case = a hostile scenario built from small replayable recipes: server options (caches, weighted check, pipeline/optimised ListObjects); a model that is "
                "valid (shared generator / recursive hand-written), mutated (14 mutations: deep wrap up to depth 300 quick / 2000 thorough and sometimes the transport maximum 4990, "
                "wide unions, cyclic definitions, hostile names, bad references, hostile conditions/parameters, nil parts, ...) or hostile (DAG and TTU blow-ups, deep chains, "
                "direct-operand towers, heavy conditions, type rings, degenerate), written through the API and/or straight into the datastore; 0-5 groups of tuples written "
                "straight into the datastore (userset/TTU rings, chains, 1000-wide fan-outs, malformed / invalid-UTF-8 / huge strings, unknown conditions, contexts nested to "
                "2000-3330, wide, NaN/Inf, extreme numbers); 3-10 requests over all 24 RPCs incl. AuthZEN with hostile strings, tokens (negative offsets, huge numbers), page "
                "sizes, nil sub-messages, 100+ contextual tuples, duplicate/empty correlation ids, up to 300 repetitions with distinct values. Every request is delivered as gRPC "
                "would (marshal/unmarshal) to the public Server method on a fresh server+memory datastore inside a worker process. Non-trivial: a hostile request, or a request "
                "against hostile state, passed req.Validate() and reached a handler (counted per RPC). Distinct: hash of the case.",
        "level_text": "exploration: generated hostile scenarios; a panic, process death (stack overflow, goroutine panic, OOM), a call that is still running 5 s after its 1.5 s deadline, or "
                      ">= 256 MiB heap growth is a violation; clock/heap verdicts must reproduce in a fresh process with a 20 s bound; requests the transport cannot deliver are counted only",
        "technique": "property-based testing (rapid) with process isolation and fatal-error attribution; 4 native fuzz targets share generator and oracle through a byte data-provider",
        "assumptions": ["memory datastore", "internal errors (code 4000) count as an answer", "inputs capped by what gRPC delivers (4 MiB, protobuf recursion limit 10000)",
                        "wall-clock bounds: deadline 1.5 s, +5 s violation, confirmation bound +20 s"],
    },
    "C22": {
        "pkg": "p22",
        "runs": [_r("TestC22", 20000, 300000, race=True, qt=1500, tt=6000)],
        "rule": "rapid draws a small concurrent program: target mpmc.Queue (capacity 2/4, extensions 0/1/-1, 1-3 producers, 1-3 consumers; 30% in the exact "
                "medium.go configuration MustQueue(cap,-1) with ONE consumer) or mpsc.Accumulator (1-3 producers, 1 consumer); 1-6 calls per goroutine, "
                "per-call schedule byte -> 0..12 runtime.Gosched, Close at a drawn point, Send with a cancelled context, double Close; the program runs "
                "with real goroutines. Every call is recorded as [invoke,return] on an atomic logical clock. Oracle: counting (no phantom/torn/duplicate "
                "item, sent-ok = received + drained), porcupine linearizability against a sequential channel model (mpmc: bounded FIFO; mpsc: FIFO per "
                "producer), and a quiescence monitor (pending Recv with an item buffered, pending Send with room) confirmed by 3 stalls of the same "
                "program, else inconclusive. Non-trivial: the history has >= 2 overlapping calls of different goroutines. Distinct: hash of the program.",
        "level_text": "exploration: sampled real schedules of generated programs; safety decided per history by counting + linearizability checking, "
                      "liveness only at quiescent states and only after triple confirmation; absence of violations is not proven",
        "technique": "property-based testing (rapid) of concurrent programs, histories checked with porcupine, race detector in the thorough tier",
        "assumptions": ["schedules are sampled by the Go scheduler (Gosched perturbation), not enumerated",
                        "medium.go is covered by generating exactly its container configurations",
                        "accumulator: Close is issued only after all producers' sends completed (documented contract)"],
    },
    "C23": {
        "pkg": "p23",
        "runs": [_r("TestC23", 60000, 1000000), _r("TestC23Concurrent", 10000, 100000, race=True)],
        "rule": "case = adapter (static, tuple-key view, Concat, NewCombinedIterator, Merge, OrderedCombinedIterator, iterator.NewFilteredIterator, Validate, "
                "NewFilteredTupleKeyIterator, ConditionsFilteredTupleKeyIterator, SkipTo, FromChannel, Stream, FanInIteratorChannels, shared iterator through "
                "the shared-iterator datastore wrapper) + input sequences (len<=12, alphabet 0..5, sorted where required) + one injected input error at k in "
                "{none,0,inside,len} + call script of next/head/stop/drain/skip/fetch (shared: 2-4 clones, harness-owned interleaving). Non-trivial: script "
                "mixes Head and Next and the error is strictly inside an input (shared: >=2 clones with different stop points). Distinct by hash of the case. "
                "TestC23Concurrent: 2-4 goroutine consumers with own stop points over 0-260 items.",
        "level_text": "every adapter's observed Next/Head/Stop results equal a slice-level specification written from its doc comment for all generated inputs, "
                      "error positions and call scripts; every shared-iterator consumer sees the full underlying sequence under harness-chosen and real interleavings",
        "technique": "property-based testing (rapid), model-based script oracle over counting fake iterators; concurrent variant for -race",
        "assumptions": ["nothing asserted after an adapter returned an error, nor for Head after Stop",
                        "Merge / OrderedCombinedIterator: where an input failure surfaces is unspecified"],
    },
    "C25": {
        "pkg": "p25",
        "runs": [_r("TestC25", 20000, 2000000)],
        "fuzz": [{"target": "FuzzC25", "seconds": 600}],
        "rule": "1-4 declared parameters over bool/string/int/uint/double/duration/timestamp/ipaddress/any/list<T>/map<T>; a type-correct CEL expression "
                "from a typed grammar (comparisons, && || ! ?: with error absorption, in on lists/maps, map lookup/select/has, list index, checked int/uint "
                "arithmetic, double arithmetic, string functions, timestamp/duration arithmetic, ipaddress.in_cidr, dyn operands); request and stored "
                "contexts drawn per parameter as request-only / stored-only / agree / conflict / omit / mistyped, plus undeclared keys and nil vs empty "
                "contexts. Non-trivial: both contexts non-empty with >=1 conflicting declared key, or >=1 omitted parameter, or >=1 mistyped effective value. "
                "Distinct = hash of the whole case.",
        "level_text": "eval.EvaluateTupleCondition (plain and with the optimising options the type system uses) agrees with an independent CEL evaluator on "
                      "True/False/error for every generated case; 10% of the cases are also run end-to-end through Server.Check",
        "technique": "property-based testing (rapid) against an independent reference evaluator (R-cel), differential on three outcomes; native fuzz target FuzzC25",
        "assumptions": ["integers outside the int64 range: only 'no True from a failed conversion' is asserted",
                        "the CEL cost limit of Server.Check is lifted in the test process"],
    },
    "C27": {
        "pkg": "p27",
        "runs": [_r("TestC27", 15000, 300000)],
        "rule": "rapid draws a credential *description*, never a token. OIDC (70%): alg {RS256,RS384,HS256 keyed with the RSA public-key PEM,none} x signer "
                "{published key A, published key B, unpublished key, bit-flipped / truncated / emptied signature, payload swapped after signing} x kid x exp "
                "{future, absent, past, 0, string, bool, null} x iat {absent, past, future} x aud x iss {issuer, alias, other, absent} x sub x authenticator "
                "config; the JWT is assembled by hand inside the check, JWKS served by one loopback httptest issuer per process. Pre-shared keys (30%): token "
                "derived from a key by {equal, prefix, suffix, case swap, whitespace, empty, extended, ...} x header shape. Each case is authenticated through "
                "Authenticate(ctx) and through middleware/authn.AuthFunc. Non-trivial: at most one invalid dimension (OIDC) / token derived from a configured "
                "key (pre-shared). Distinct: hash of the description.",
        "level_text": "exploration: every generated combination of valid/invalid signature, algorithm, expiry, issued-at, audience, issuer, subject is compared "
                      "with a predicate over the description; absence of violations is not proven",
        "technique": "property-based testing (rapid), model-based accept/reject oracle over credential descriptions, direct API vs middleware agreement",
        "assumptions": ["kid absent / unknown / naming another published key: nothing asserted when all other dimensions are valid",
                        "nbf never emitted; exp/iat kept >= 1 hour from the wall clock",
                        "key set is static (no rotation)"],
    },
    "C28": {
        "pkg": "p28",
        "runs": [_r("TestC28", 50000, 5000000), _r("TestC28Issued", 800, 20000, qt=600, tt=3000)],
        "fuzz": [{"target": "FuzzC28", "seconds": 300}],
        "rule": "rapid draws (encoder: base64 only | AES-GCM key + base64; position: ULID / offset / arbitrary string / JSON; type filter incl. '|' and "
                "hostile unicode; a second issued token; a foreign key) and one positional mutation of the issued token: bit/byte flip in nonce / "
                "ciphertext / tag, truncations, extensions, splices of two tokens, token issued under the foreign key, forged raw bytes, base64 respelling. "
                "Oracle: Deserialize(Decode(Encode(Serialize(p,t)))) = (p,t); with a key every not-issued token must make Decode fail. Non-trivial: payload "
                "non-empty and (no mutation, or with a key the mutation changed at least one byte of the nonce/ciphertext/tag region). Distinct: hash of the case.",
        "level_text": "exploration: generated positions, keys and byte-level mutations of freshly issued tokens; absence of violations is not a proof",
        "technique": "property-based testing (rapid) + native fuzzing, round-trip + tamper oracle",
        "assumptions": ["positions issued by the server are non-empty and never contain '|'",
                        "without a key no integrity is promised: mutated tokens are only exercised for panics"],
    },
    "C29": {
        "pkg": "p29",
        "runs": [_r("TestC29", 100000, 10000000)],
        "fuzz": [{"target": "FuzzC29", "seconds": 300}],
        "rule": "rapid draws an arbitrary string (well-formed shapes, separator soup, corner strings or any unicode string, then 0-2 edits inserting "
                "':' '#' '@' '*' '|' space, control, multi-byte characters at start / end / next to a separator / anywhere) plus a structured tuple. Oracle: "
                "IsValidObject/Relation/Userset/User, IsObjectRelation, IsTypedWildcard, IsWildcard and ParseTupleString acceptance equal the three-valued "
                "grammar written from the doc comments; parse(render(v)) = v and render(parse(s)) = s; User proto <-> string round trips. Non-trivial: the "
                "string or the rendered tuple has a separator / space / control character in a non-canonical position. Distinct: hash of the case.",
        "level_text": "exploration: generated strings and values compared with an independent documented grammar; absence of violations is not a proof",
        "technique": "property-based testing (rapid) + native fuzzing, differential against a documented-grammar recogniser, round-trip laws",
        "assumptions": ["'spaces' = U+0020, 'control characters' = Unicode Cc; other Unicode space separators, invalid UTF-8 and '*' inside a userset are unspecified by the docs"],
    },
    "C14": {
        "pkg": "p14",
        "runs": [_r("TestC14", 600, 30000, qt=1500, tt=5000), _r("TestC14Tokens", 2000, 200000, qt=1500, tt=5000),
                 _r("TestC14Concurrent", 150, 5000, qt=1500, tt=5000)],
        "fuzz": [{"target": "FuzzC14Token", "seconds": 300}],
        "rule": "TestC14Concurrent: 2-8 concurrent writers x 5-25 single-tuple Writes on the memory backend, then ReadChanges walked with drawn page sizes: every walk visits every written tuple exactly once and in the order of one oversized page. TestC14: one API (Read/ReadChanges/ListStores/ReadAuthorizationModels) x backend (memory/sqlite, fresh datastore per case) x data set "
                "(write/delete history in batches, decoy store, extra/deleted stores, models; n<=40 quick, <=200 thorough) x filter; EVERY page size 1..n+1 when "
                "n<=12, else 3 sizes aimed at n mod size in {0,1,size-1}. Non-trivial: listing spans >= 2 pages. TestC14Tokens: small data set holding all four "
                "kinds of items + decoy store, 4-12 attacks per case (bit flips, truncation, extension on raw and decoded tokens, tokens swapped between "
                "APIs/stores/type filters, re-encoded payloads with numeric/ULID edge values, arbitrary bytes); non-trivial: >= 2 pages and >= 1 token the server "
                "never issued for that listing. Distinct = hash of the whole case.",
        "level_text": "exhaustive over page sizes for listings up to 12 items and sampled at page-boundary classes up to 200 items, on both in-process backends, "
                      "against an independent model of the documented listing/order; hostile tokens judged only by documented behaviour (error, or an in-order "
                      "slice whose continuation delivers exactly the rest; never a panic or a foreign item)",
        "technique": "property-based testing (rapid): model-based paging oracle + token tamper oracle; native fuzzing of the token decoder path",
        "assumptions": ["static data set while paging", "Read has no documented order: only exactly-once is required for it",
                        "ReadChanges ends with a page without changes that echoes the request token", "postgres/mysql backends not exercised"],
    },
    "C15": {
        "pkg": "p15",
        "runs": [_r("TestC15", 500, 30000, qt=1500, tt=5000), _r("TestC15Concurrent", 120, 3000, qt=600, tt=3000)],
        "rule": "history of 1-12 (thorough 24) Server.Write calls of 1-3 ops over ~40 tuples (conditions with/without context), built by simulating the store so "
                "that deletes of written tuples, re-writes of deleted tuples and no-ops ignored via on_duplicate/on_missing=ignore occur; backend memory/sqlite; "
                "type filter or none; page size in {1,2,3,5,50,100}; a few % of cases also do the horizon experiment (two batches 400 ms apart, datastore "
                "HorizonOffset 150 ms). Non-trivial: >= 1 delete of a previously written tuple and >= 1 re-write of a deleted one. Distinct: hash of the case.",
        "level_text": "changelog reconstructed and compared entry by entry with an independent model of the Write semantics over random histories on both backends: "
                      "entry count, per-call content incl. condition, replay == Read, descending == reverse(ascending), horizon withholding from returned timestamps",
        "technique": "property-based testing (rapid), model-based replay oracle; timing-window oracle for the horizon",
        "assumptions": ["horizon tested at datastore level (server option is in minutes); entries inside the [before,after] +-3 ms window may go either way",
                        "order inside one Write call is not prescribed"],
    },
    "C24": {
        "pkg": "p24",
        "runs": [_r("TestC24", 50000, 5000000)],
        "fuzz": [{"target": "FuzzC24", "seconds": 300}],
        "rule": "rapid draws a key kind (INV invariant, SP/REQ sub-problem, EDGE, BATCH de-dup via BatchCheckQuery, READ/RSWU/RUT iterator keys, "
                "IQ/IQOR/IQUOT/CC/MG invalidation/changelog/model-graph keys, ENC raw keys.Builder stream) and an input x, then derives y by one labelled edit: "
                "identical, semantic no-op (reordered context fields at any depth, reordered contextual tuples / condition / object-id / user-filter / restriction "
                "lists, nil vs empty context) or near miss (character or separator byte moved across a field boundary, separator- and tag-like bytes, string "
                "embedding the TLV of its neighbour, [ab] vs [a,b], nil vs [\"\"], number vs numeric string, bool vs \"true\", nested vs flattened, value moved from "
                "request context into a tuple's condition context, cross-kind pair). Non-trivial: derived pair whose members differ as written and both accepted "
                "by the builder. Distinct: hash of the case JSON.",
        "level_text": "exploration: final keys compared against the harness's own canonical form (equal iff semantically equal) and the pre-hash byte streams "
                      "(outer keys directly; hashed parts rebuilt with the exported encoders and confirmed by digest) decoded by an independent TLV decoder back "
                      "to the canonical input; absence of violations is not proven",
        "technique": "property-based testing (rapid) + native fuzz target, metamorphic pair oracle + decode(encode(x)) == canonical(x)",
        "assumptions": ["a 64-bit digest collision (2^-64 per pair) is reported as a violation",
                        "nil vs empty Conditions, duplicate list members, -0 vs 0, condition name \"\" vs no condition are not asserted",
                        "plan keys (unexported, not answer-relevant) are covered only through the flat EncodeString kinds"],
    },
    "C26": {
        "pkg": "p26",
        "runs": [_r("TestC26", 1500, 20000, qt=1500)],
        "rule": "case = 2-3 target stores (3 model templates with type- and relation-level module metadata) + 0-8 grant draws in a real access-control store "
                "(FGA-on-FGA model of server_authz_test.go; per-store can_call_* / roles; per-module grants; system-level grants; grants on a store not in the "
                "case) + 12-28 calls over every store-scoped RPC + CreateStore/ListStores, caller in {A,B,empty client id,no claims}, writes spanning 0-4 modules, "
                "optional datastore-failure injection on the access-control store. Non-trivial: some call is denied although the caller holds a grant on another "
                "store or only a module grant, or a write passes on a module grant alone. Distinct = hash of the whole case.",
        "level_text": "every RPC x caller x grant kind is compared with an independent evaluation (harness reference semantics) of the access-control model over the "
                      "grant tuples: passes authorization <=> granted; denied => forbidden, no datastore operation on the target store except the model read of Write "
                      "(recording datastore), state unchanged; failing access-control datastore => denied; ListStores = stores with can_call_get_store",
        "technique": "property-based testing (rapid), reference-model oracle (R-sem on the access-control model) + recording/fault-injecting datastore",
        "assumptions": ["in-memory datastore; a fresh server with access control enabled per case",
                        "module of a tuple = relation-level module if set, else type-level module",
                        "the outcome under 'late' partial failure depends on goroutine scheduling; the oracle accepts both outcomes when the caller is granted"],
    },
    "C30": {
        "pkg": "p30",
        "runs": [_r("TestC30", 8000, 100000)],
        "rule": "shared generator G (model + valid tuples + left-overs); one focus (object, relation), preferably with >= 2 operator levels, gets extra valid "
                "tuples and extra tuples NOT valid for the model on exactly the relations its Expand reads (itself, its TTU tuplesets); 2-5 Expand queries "
                "with contextual tuples on the read relations and elsewhere. Non-trivial: the expanded rewrite has >= 2 operator levels and a direct leaf that "
                "must list >= 2 users while the store holds an invalid tuple on that very object#relation. Distinct: hash of the case JSON.",
        "level_text": "exploration: every returned tree is compared node by node with the relation's rewrite and with the R-val-valid stored + contextual tuples",
        "technique": "property-based testing (rapid), model-based oracle (rewrite mirror + R-val tuple filter)",
        "assumptions": ["R-val (refsem.ValidForRead) is the specification of 'valid for the model'",
                        "users of VALID conditional tuples are neither required nor forbidden in leaves (documentation silent)",
                        "order of a TTU leaf's computed list is not asserted"],
    },
    "C32": {
        "pkg": "p32",
        "runs": [_r("TestC32", 4000, 40000)],
        "rule": "shared generator G, some condition parameters renamed to subject_/resource_/action_<p> so AuthZEN properties matter; a batch of 2-6 AuthZEN "
                "items derived from native requests with each prefixed context key placed in the request context, a properties object, or both; top-level "
                "defaults with per-item inheritance or override; every item as a single Evaluation and the batch with no options, execute_all, "
                "deny_on_first_deny, permit_on_first_permit; 1-4 subject/resource/action searches. Non-trivial: native decisions of the batch are mixed AND "
                "some search returns a non-empty strict subset of its candidates. Distinct: hash of the case JSON.",
        "level_text": "exploration: differential against Server.Check / ListUsers / ListObjects on the same server and store for the request obtained with the "
                      "documented mapping, plus native Check against R-sem",
        "technique": "property-based testing (rapid), differential (AuthZEN vs native API) + reference semantics for Check",
        "assumptions": ["the mapping in docs/authzen and the authzen proto descriptions is the specification",
                        "userset subjects and contextual tuples are not expressible in AuthZEN and outside the case space"],
    },
    "C31": {
        "pkg": "p31",
        "runs": [_r("TestC31", 1500, 30000, qt=1500)],
        "rule": "rapid draws a backend (memory | sqlite: migrated template copied per case), 2 stores x 1-3 models (in ~1/3 of cases store 1 re-uses store 0's "
                "model ids) and 3-10 steps: WriteAssertions with 0-20 assertions valid for the model (contextual tuples, nested contexts) or a list spoiled in "
                "one of 10 ways (must be rejected), and ReadAssertions. After every step every (store, model) pair is read back. Non-trivial: >= 2 pairs "
                "written with different lists and one pair overwritten with a different list. Distinct: hash of the case JSON.",
        "level_text": "exploration: interleaved assertion writes/reads over two stores, several models and both embedded backends compared element-wise "
                      "(proto.Equal) with a reference map (store, model) -> last list",
        "technique": "property-based testing (rapid), stateful sequence vs reference store R-store, differential over memory and sqlite backends",
        "assumptions": ["postgres/mysql backends are not exercised"],
    },
}
