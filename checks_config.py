# Per-property run configuration for ./check (tests, case counts, shards).
# "rule" is copied into the evidence file: how cases are generated and what
# makes one non-trivial / distinct.

def _r(test, q, t, qs=4, ts=16, race=False, qt=900, tt=3000, **kw):
    d = {"test": test, "quick": {"checks": q, "shards": qs, "timeout": qt},
         "thorough": {"checks": t, "shards": ts, "timeout": tt}, "race": race}
    d.update(kw)
    return d


from checks_agents import AGENT_CHECKS  # noqa: E402

NOT_APPLICABLE = {}
HOOK_COMMITS = ["verif: scheduling/trace hook points in the ListObjects pipeline cycle-group code (no-ops without the verif build tag)"]

CHECKS = {
    "C01": {
        "runs": [_r("TestC01", 20000, 240000)],
        "rule": "rapid draws a model (shared generator G: 1-3 object types, tupleset/TTU, usersets, wildcards, "
                "conditions, union/intersection/exclusion, stratification-repaired), valid + left-over tuples and 4-10 "
                "Check requests (object/wildcard/userset subjects, contexts that satisfy/falsify/omit/mistype parameters, "
                "contextual tuples); each answer of Server.Check is compared with the independent three-valued "
                "least-fixpoint evaluator. Non-trivial: the model has a non-direct rewrite and the batch's reference "
                "answers contain both true and false. Distinct: hash of the canonical JSON of the whole case.",
        "level_text": "exploration: generated models/tuples/requests compared with an independent least-fixpoint evaluator; "
                      "shrunk counterexamples are replayable; absence of violations is not proven",
        "technique": "property-based testing (rapid), differential against reference semantics R-sem",
        "assumptions": ["reference semantics R-sem (harness/refsem) is the specification; validated against the repository's YAML matrix by TestRefsemSelfTest",
                        "memory datastore, default engine, caches off"],
    },
    "C02": {
        "runs": [_r("TestC02", 5000, 60000, qt=1500, tt=5000)],
        "rule": "rapid draws a world (generator G), 2-5 Check requests, 1-2 ListObjects requests and 2-4 configurations: deterministic "
                "planner policy (always default / prefer weight2 / prefer recursive / per-key bits / alternate), breadth limit {1,2,3,10,100}, "
                "read concurrency {1,2,1000}, dispatch throttling (threshold 1-5, 1us-1ms), datastore throttling, ListObjects engine "
                "{classic, weighted, pipeline} with chunk {1,2,100}, buffer {1,2,3,4,128}, numProcs {1,2,4}; each request runs under the baseline "
                "and every configuration at the commands layer (where the planner is an interface), twice, and for one configuration from 8 goroutines. "
                "Oracle: every configuration's answer satisfies the reference semantics, repeats/bursts give the same answer, any two configurations that "
                "return a decision return the same one, ListObjects sets are equal. Non-trivial: a planner Select offered >= 2 strategies and a non-default "
                "one was chosen and ran to completion. Distinct: hash of the case.",
        "level_text": "exploration of strategy assignments and tuning knobs by generated configurations; schedules are sampled (real goroutines), not enumerated",
        "technique": "property-based testing (rapid), differential across configurations with a deterministic injected planner + reference semantics",
        "assumptions": ["strategy forcing happens at the commands/graph layer (Server only accepts the concrete planner)",
                        "an error caused by an unevaluable condition is not counted as a different answer (see DESIGN.md C01/C02)"],
    },
    "C03": {
        "runs": [_r("TestC03", 8000, 100000)],
        "rule": "rapid draws a world (generator G) and 4-10 Check requests (object, wildcard and userset subjects, contexts, contextual tuples); each "
                "request goes through Server.Check with the weighted_graph_check flag (capturing logger; real adaptive planner, fall-back enabled) and "
                "through the default engine on the same store. Object subjects: the returned decision must satisfy the reference semantics. Userset / "
                "wildcard subjects: a difference between the two servers must come with the breaking-change warning in the log. The flag-on server may "
                "fail only where the default engine fails. Non-trivial: the weighted path itself answered (no fall-back logged) and the model has a "
                "non-direct rewrite. Distinct: hash of the case.",
        "level_text": "exploration: generated worlds through both engines and the reference semantics; detector hits are counted per reason; "
                      "the weighted engine's strategies are chosen by the real planner (sampled, not enumerated)",
        "technique": "property-based testing (rapid), three-way differential: weighted engine vs default engine vs reference semantics, log-capture oracle for the detector",
        "assumptions": ["R-sem is the specification for object subjects", "the server-level fall-back is enabled as in production"],
    },
    "C04": {
        "runs": [_r("TestC04", 4000, 50000, qt=1500, tt=5000), _r("TestC04Links", 4000, 60000, qs=8, qt=900, tt=3000)],
        "rule": "rapid draws a world (generator G), a split of its valid tuples into stored S and contextual X (<= 20), Check requests, a ListObjects "
                "request, a ListUsers request and an Expand request. Metamorphic oracle: every query on (store=S, contextual=X) answers like the same "
                "query on (store=S+X, no contextual tuples): Check (default engine behind query+iterator caches, weighted engine), BatchCheck, ListObjects "
                "(classic, weighted, pipeline), ListUsers, Expand (trees equal up to the undocumented order of TTU computed usersets). Leak/persistence: on "
                "the caching server the request is issued with X, without X (must answer for S alone per the reference semantics) and with X again; Read shows "
                "exactly S afterwards. Non-trivial: X non-empty and some request's reference answer differs between S and S+X. Distinct: hash of the case.",
        "level_text": "exploration: metamorphic relation stored<->contextual over all query APIs and engines on generated worlds and splits",
        "technique": "property-based testing (rapid), metamorphic relation (split stored/contextual) + reference semantics for the no-leak part",
        "assumptions": ["requests whose tuples have an unevaluable condition are skipped here (error-vs-answer is C01's business)",
                        "keys of contextual tuples are disjoint from stored ones"],
    },
    "C07": {
        "runs": [_r("TestC07", 5000, 40000, qt=1500, tt=5000)],
        "rule": "rapid draws a world (generator G) and a batch of 1-14 (thorough 1-50) items built from 1-4 base requests and near-duplicates: other "
                "context, other contextual tuples, reversed contextual tuples (semantically equal), no context, or a contextual tuple that grants the request. "
                "The batch runs on a cache-free and on a query-caching server. Oracle per correlation id: outcome satisfies the reference semantics and "
                "equals a standalone Check; the result map has exactly the submitted ids. Non-trivial: two items with the same tuple key have different "
                "reference outcomes and two items are semantically equal. Distinct: hash of the case.",
        "level_text": "exploration: generated batches with deliberate near-duplicates against standalone Check and the reference semantics",
        "technique": "property-based testing (rapid), differential (batch vs standalone) + reference semantics",
        "assumptions": ["R-sem is the specification"],
    },
    "C08": {
        "runs": [_r("TestC08", 3000, 20000, race=True, qt=1500, tt=6000), _r("TestC08Cycles", 6000, 60000, qs=8, qt=600, tt=3000)],
        "rule": "rapid draws a world (generator G), a configuration (query cache on; engine default or weighted; breadth limit 1/2/10) and a history of "
                "4-14 operations against the unchanged store on a fresh server: Check (sometimes a burst of 6 concurrent copies), BatchCheck, ListObjects, "
                "with contexts, contextual tuples and requests derived from earlier ones (same request again, same subject/other object, same object/other "
                "subject, other relation) so that cached sub-problems are reused under other paths. Oracle: every answer satisfies the reference semantics "
                "(weighted engine with userset/wildcard subject: equals the same engine without caches). Non-trivial: some step was served with a cache hit "
                "(counting cache wrapper) and the model has a non-direct rewrite. Distinct: hash of the case. Second run (TestC08Cycles): worlds with mutually "
                "recursive relations (through a TTU or through usersets) whose tuples form cycles; one subject is asked about every (object, relation) of the "
                "cycle in a drawn order (breadth limit 1 in half the cases) so that sub-results computed inside a cycle meet requests entering it elsewhere.",
        "level_text": "exploration of request histories over a caching server against the reference semantics; bursts run on the real scheduler (-race in thorough)",
        "technique": "property-based testing (rapid), stateful history vs reference semantics, counting cache wrapper for non-triviality",
        "assumptions": ["R-sem is the specification (= the uncached answer, see C01)", "fresh server per case: caches start empty"],
    },
    "C09": {
        "runs": [_r("TestC09", 3000, 15000, qt=1500, tt=6000)],
        "rule": "rapid draws a world, a configuration (check + list-objects iterator caches and shared iterators on, maxResults 2/5/1000, query cache drawn, "
                "engine drawn) and a history of Check/ListObjects steps on a fresh server over a fault datastore placed below every cache layer. A faulted "
                "step arms the datastore: at the n-th (1-6) tuple-iterator Next after arming the request's context is cancelled and, optionally, that Next "
                "returns an error; the same request follows clean, optionally after a yield that lets background cache fills finish. Oracle: a faulted "
                "request fails or answers per the reference; every clean request answers exactly per the reference (a partially read or failed read is "
                "never served later). Non-trivial: a request was cut inside its reads and a later step was served from the cache. Distinct: hash of the case.",
        "level_text": "exploration of histories with deterministic cancellation/fault triggers (n-th datastore read) against the reference semantics",
        "technique": "property-based testing (rapid), stateful history with injected cancellation and read faults vs reference semantics",
        "assumptions": ["the trigger counts datastore Next calls globally while armed (single foreground request at a time)",
                        "R-sem is the specification"],
    },
    "C10": {
        "runs": [_r("TestC10", 3000, 20000, qt=1500, tt=6000)],
        "rule": "rapid draws a world, every cache flag (query, check-iterator, list-objects-iterator, shared iterator, controller) and the engine, and 2-5 "
                "rounds of: cached Check (and ListObjects) to populate caches, a Write/Delete chosen to flip the answer (grant the request directly or delete "
                "the granting tuple), the same request cached (unjudged: may be stale by design) and with HIGHER_CONSISTENCY through Check, BatchCheck and "
                "ListObjects. Oracle: every HIGHER_CONSISTENCY answer equals the reference for the store state at that moment. Non-trivial: a "
                "HIGHER_CONSISTENCY Check follows a write that flipped its reference answer after the identical cached request ran. Distinct: hash of the case.",
        "level_text": "exploration of write/read interleavings over all cache-flag combinations against the reference semantics of the current state",
        "technique": "property-based testing (rapid), stateful history with writes vs reference model of the store + reference semantics",
        "assumptions": ["ListUsers has no cache path and is covered by C06"],
    },
    "C16": {
        "runs": [_r("TestC16", 2000, 15000, qt=1500, tt=5000)],
        "rule": "three stores share one model with the SAME model id (planted through the datastore) and the same type/relation/object/user names but hold "
                "different generated tuple sets; a fresh server with every cache on (engine drawn); the same 3-8 Check requests, a ListObjects and a "
                "ListUsers request are issued against all stores in drawn interleavings; Read and ReadChanges per store; DeleteStore of a drawn store at "
                "the end. Oracle: every answer matches the reference semantics of its own store; Read/ReadChanges show exactly the own tuples; the deleted "
                "store disappears from GetStore/ListStores while the others answer as before. Non-trivial: some request has different reference answers in "
                "two stores and a cache hit occurred. Distinct: hash of the case.",
        "level_text": "exploration of interleaved multi-store histories with all caches enabled against per-store reference models",
        "technique": "property-based testing (rapid), per-store reference model + reference semantics, counting cache wrapper",
        "assumptions": ["equal model ids in several stores are created through the datastore interface (the API mints unique ids)",
                        "memory datastore (sqlite isolation is covered by C13/C31 store-id sharing)"],
    },
    "C20": {
        "runs": [_r("TestC20", 600, 10000, qt=1800, tt=7000)],
        "rule": "case = model family (recursive userset / recursive TTU / mutually recursive types under an exclusion), chain length 3-40 optionally closed "
                "into a cycle, fan-out 0-300, Check engine (default/weighted), ListObjects engine (classic/weighted/pipeline), deadline 2-300 ms, caches on in "
                "1/4 of the cases, and 2-6 calls over Check, BatchCheck, ListObjects, StreamedListObjects, ListUsers, Expand, half of them cancelled by the "
                "client at the n-th (1-40) datastore read of the call (deterministic trigger in a datastore wrapper). Oracle: every call returns within "
                "deadline + 5 s (1-5 s over: inconclusive); after Server.Close the number of goroutines with openfga frames is back at the pre-case baseline "
                "within 6 s; every datastore iterator opened was stopped. Non-trivial: a cancellation or deadline landed during a call. Distinct: hash of the case.",
        "level_text": "exploration of long-cycle / large-fan-out worlds with short deadlines and read-triggered client cancellation; goroutine census and iterator "
                      "accounting after every case; real scheduler (-race in thorough)",
        "technique": "property-based testing (rapid), liveness-by-timeout + resource census oracle with deterministic cancellation triggers",
        "assumptions": ["a time budget hit between deadline+1s and deadline+5s is inconclusive, beyond that a violation",
                        "goroutine census counts stacks with github.com/openfga/openfga frames; process-wide servers form the baseline"],
    },
    "C21": {
        "runs": [_r("TestC21", 8000, 60000, race=True, qt=1800, tt=7000)],
        "rule": "case = cyclic model family (self-recursive userset, two- and three-type userset rings, recursive TTU, userset+TTU mix, computed relation "
                "inside the cycle; optionally an intersection/exclusion on top of the cycle), generated tuples over 5 (thorough 8) ids per type, a user, "
                "pipeline tuning (chunk 1/2/3/100, buffer 1/2/4/128, numProcs 1-4, read concurrency), GOMAXPROCS in {1,2,4,16} and schedule bytes that choose "
                "at every hook point of the cycle-group code (verif build tag: StatusPool inc/dec/quiescence/set, SignalReady, Sleep, Wake, allready, "
                "cleanup) between nothing, 1-3 Gosched and a 20-200us sleep; the request runs 1-3 times. Oracle: the call returns within the hang limit "
                "(teardown completes), the output equals the reference set, and the recorded event trace satisfies: counter never negative, no increment "
                "after a pool's quiescence latch closed, no cleanup before a quiescence event, every member that signalled ready cleans up exactly once, "
                "leader before followers. Non-trivial: >= 2 cycle members were torn down and >= 2 objects are derivable only through cyclic tuples. "
                "Distinct: hash of the case.",
        "level_text": "exploration: sampled (perturbed) real schedules of the whole pipeline on cyclic models with trace predicates over hook events; "
                      "interleavings are not enumerated",
        "technique": "property-based testing (rapid) with hook-driven schedule perturbation, reference-set oracle + event-trace invariants",
        "assumptions": ["hooks are compiled in with -tags verif (internal/verifhook)", "models without conditions; memory datastore",
                        "schedules are perturbed, not owned: the protocol-level exhaustive tier described in DESIGN.md was not built"],
    },
    "C11": {
        "runs": [_r("TestC11", 1200, 6000, qs=8, qt=1800, tt=7000)],
        "rule": "server with the cache controller (minimum interval 0) and exactly one of {query cache, iterator caches (TTL 1h or 150 ms)}, engine drawn; "
                "1-4 rounds of: cached Check (+ListObjects) to populate, optionally a sleep past the iterator TTL, a write/delete chosen to flip the answer "
                "(sometimes plus a bulk write of 60 tuples = more than one changelog page), await until invalidation runs that read the write have "
                "completed (observed through the changelog cache entry: three distinct LastChecked values with LastModified >= the write; runs are "
                "serialised per store), then the same and all earlier requests again, cached. Oracle: after the await every cached answer equals the "
                "reference for the current state; rounds without a write answer exactly per the reference. Non-trivial: the write flipped the reference "
                "answer of a request answered before it. Distinct: hash of the case.",
        "level_text": "exploration with the real clock: invalidation completion is observed, not assumed; TTL-window straddling is sampled at two TTL settings",
        "technique": "property-based testing (rapid), stateful history vs reference model + reference semantics, completion of invalidation observed through the shared cache",
        "assumptions": ["real clock (no add-only way to virtualise time.Now in the controller): an await that does not complete in 3 s makes the case inconclusive",
                        "the completion of a run is inferred from the changelog cache entry it writes (no hook)"],
    },
    "C05": {
        "runs": [_r("TestC05", 3000, 160000), _r("TestC05Limit", 400, 8000, qs=8, qt=600, tt=3000)],
        "rule": "rapid draws a world (generator G) and 2-6 ListObjects calls: engine in {classic reverse expansion, its weighted-graph "
                "variant, streaming pipeline}, unary or streamed, result limit in {1,2,3,default}, sometimes a 1 ms deadline "
                "(soundness only), object/wildcard/userset subjects, contexts, contextual tuples. Oracle: returned objects are "
                "distinct and hold the relation under R-sem (True, never merely Unknown); without limit/deadline and with every "
                "condition evaluable the response equals the reference set; with a limit k the response has min(k,|truth|) objects. "
                "Non-trivial: |truth| >= 2 and truth is a strict subset of the candidates (or the limit cuts it). Distinct: hash of the case. "
                "Second run (TestC05Limit): one subject, 10-60 candidate objects most of which hold an intersection/exclusion/union relation, the same call with "
                "limit 1-3 repeated 3-8 times on each engine, so that the per-candidate evaluations finish concurrently on the real scheduler.",
        "level_text": "exploration: generated worlds and calls over all three ListObjects engines compared with the reference set; no proof of absence",
        "technique": "property-based testing (rapid), differential against reference semantics R-sem, three engines on one store",
        "assumptions": ["R-sem is the specification", "memory datastore; caches off", "streamed API ignores the result limit (documented)"],
    },
}

CHECKS.update(AGENT_CHECKS)
