# Per-property run configuration for ./check (tests, case counts, shards).
# "rule" is copied into the evidence file: how cases are generated and what
# makes one non-trivial / distinct.

def _r(test, q, t, qs=4, ts=16, race=False, qt=900, tt=3000, **kw):
    d = {"test": test, "quick": {"checks": q, "shards": qs, "timeout": qt},
         "thorough": {"checks": t, "shards": ts, "timeout": tt}, "race": race}
    d.update(kw)
    return d


NOT_APPLICABLE = {}
HOOK_COMMITS = []

CHECKS = {
    "C01": {
        "runs": [_r("TestC01", 4000, 240000)],
        "rule": "rapid draws a model (shared generator G: 1-3 object types, tupleset/TTU, usersets, wildcards, "
                "conditions, union/intersection/exclusion, stratification-repaired), valid + left-over tuples and 4-10 "
                "Check requests (object/wildcard/userset subjects, contexts that satisfy/falsify/omit/mistype parameters, "
                "contextual tuples); each answer of Server.Check is compared with the independent three-valued "
                "least-fixpoint evaluator. Non-trivial: the model has a non-direct rewrite and the batch's reference "
                "answers contain both true and false. Distinct: hash of the canonical JSON of the whole case.",
        "level_text": "exploration: generated models/tuples/requests compared with an independent least-fixpoint evaluator; "
                      "shrunk counterexamples are replayable; absence of violations is not proven",
        "technique": "property-based testing (rapid), differential against reference semantics R-sem",
        "assumptions": ["reference semantics R-sem (harness/refsem) is the specification; validated against the repository's YAML matrix by TestRefsemSelfTest",
                        "memory datastore, default engine, caches off"],
    },
}
