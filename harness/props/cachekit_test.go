package props

import (
	"context"
	"errors"
	"fmt"
	"sync"
	"sync/atomic"
	"time"

	openfgav1 "github.com/openfga/api/proto/openfga/v1"

	"github.com/openfga/openfga/pkg/server"
	"github.com/openfga/openfga/pkg/storage"
	"github.com/openfga/openfga/pkg/storage/cache/keys"

	"github.com/openfga/openfga/verifharness/fw"
	"github.com/openfga/openfga/verifharness/gen"
	"github.com/openfga/openfga/verifharness/m"
	"github.com/openfga/openfga/verifharness/refsem"
	"github.com/openfga/openfga/verifharness/semkit"
	"github.com/openfga/openfga/verifharness/sut"
)

// ---- counting cache -------------------------------------------------------

type countingCache struct {
	inner storage.InMemoryCache[any]
	hits  atomic.Int64
	sets  atomic.Int64
}

func newCountingCache() *countingCache {
	c, err := storage.NewInMemoryLRUCache[any](storage.WithMaxCacheSize[any](100000))
	if err != nil {
		panic(err)
	}
	return &countingCache{inner: c}
}

func (c *countingCache) Get(k keys.Key) any {
	v := c.inner.Get(k)
	if v != nil {
		c.hits.Add(1)
	}
	return v
}
func (c *countingCache) Set(k keys.Key, v any, ttl time.Duration) {
	c.sets.Add(1)
	c.inner.Set(k, v, ttl)
}
func (c *countingCache) Delete(k keys.Key) { c.inner.Delete(k) }
func (c *countingCache) Stop()             { c.inner.Stop() }

// ---- fault / cancellation datastore --------------------------------------

// faultDS wraps a datastore below every cache layer. When armed, it counts the
// Next calls of all tuple iterators opened since arming and, at the n-th one,
// cancels the armed request's context and/or returns an error from that Next.
type faultDS struct {
	storage.OpenFGADatastore
	mu       sync.Mutex
	armed    bool
	count    int
	at       int
	cancel   context.CancelFunc
	failErr  error
	fired    bool
	opened   atomic.Int64
	stopped  atomic.Int64
	maxLenAt int // length of the iterator in which the trigger fired
	// open faults: the n-th iterator open after armOpen fails with errInjected
	slowNs     atomic.Int64 // > 0: every Next sleeps that long first (a slow datastore)
	panicOnFire bool        // the fired trigger panics inside the datastore iterator instead of returning an error
	nexts       atomic.Int64 // number of iterator Next calls served (a measure of the work a query causes)
	noClose     bool         // Close does not close the wrapped (shared) datastore
	openArmed  bool
	openCount  int
	failOpenAt int
	openFired  bool
}

func (f *faultDS) armOpen(at int) {
	f.mu.Lock()
	defer f.mu.Unlock()
	f.openArmed, f.openCount, f.failOpenAt, f.openFired = true, 0, at, false
}

func (f *faultDS) disarmOpen() bool {
	f.mu.Lock()
	defer f.mu.Unlock()
	f.openArmed = false
	return f.openFired
}

// preOpen is called before every iterator open; a non-nil error is returned to the caller instead of an iterator.
func (f *faultDS) preOpen() error {
	f.mu.Lock()
	defer f.mu.Unlock()
	if !f.openArmed || f.openFired {
		return nil
	}
	f.openCount++
	if f.openCount < f.failOpenAt {
		return nil
	}
	f.openFired = true
	return errInjected
}

var errInjected = errors.New("verif: injected datastore read failure")

func (f *faultDS) arm(at int, cancel context.CancelFunc, fail bool) {
	f.armErr(at, cancel, fail, false)
}

// armErr: like arm; with ctxErr the injected read error is context.Canceled and it is sticky for the
// iterator that hit it (a result set that died with the query's context keeps failing).
func (f *faultDS) armErr(at int, cancel context.CancelFunc, fail, ctxErr bool) {
	f.mu.Lock()
	defer f.mu.Unlock()
	f.armed, f.count, f.at, f.cancel, f.fired = true, 0, at, cancel, false
	f.failErr = nil
	if fail {
		f.failErr = errInjected
		if ctxErr {
			f.failErr = context.Canceled
		}
	}
}

func (f *faultDS) disarm() (fired bool) {
	f.mu.Lock()
	defer f.mu.Unlock()
	f.armed = false
	return f.fired
}

// onNext is called before every Next of a wrapped iterator.
func (f *faultDS) onNext() error {
	f.mu.Lock()
	defer f.mu.Unlock()
	if !f.armed || f.fired {
		return nil
	}
	f.count++
	if f.count < f.at {
		return nil
	}
	f.fired = true
	if f.cancel != nil {
		f.cancel()
	}
	if f.panicOnFire {
		panic("verif: injected datastore panic")
	}
	return f.failErr
}

type faultIter struct {
	storage.TupleIterator
	ds   *faultDS
	once sync.Once
	dead atomic.Bool // hit an injected context error: keeps failing
}

func (it *faultIter) Next(ctx context.Context) (*openfgav1.Tuple, error) {
	it.ds.nexts.Add(1)
	if it.dead.Load() {
		return nil, context.Canceled
	}
	if d := it.ds.slowNs.Load(); d > 0 {
		time.Sleep(time.Duration(d))
		if err := ctx.Err(); err != nil {
			return nil, err
		}
	}
	if err := it.ds.onNext(); err != nil {
		if errors.Is(err, context.Canceled) {
			it.dead.Store(true)
		}
		return nil, err
	}
	return it.TupleIterator.Next(ctx)
}

func (it *faultIter) Stop() {
	it.once.Do(func() { it.ds.stopped.Add(1) })
	it.TupleIterator.Stop()
}

func (f *faultDS) wrap(it storage.TupleIterator, err error) (storage.TupleIterator, error) {
	if err != nil {
		return nil, err
	}
	f.opened.Add(1)
	return &faultIter{TupleIterator: it, ds: f}, nil
}

func (f *faultDS) Read(ctx context.Context, store string, filter storage.ReadFilter, o storage.ReadOptions) (storage.TupleIterator, error) {
	if err := f.preOpen(); err != nil {
		return nil, err
	}
	return f.wrap(f.OpenFGADatastore.Read(ctx, store, filter, o))
}
func (f *faultDS) ReadUsersetTuples(ctx context.Context, store string, filter storage.ReadUsersetTuplesFilter, o storage.ReadUsersetTuplesOptions) (storage.TupleIterator, error) {
	if err := f.preOpen(); err != nil {
		return nil, err
	}
	return f.wrap(f.OpenFGADatastore.ReadUsersetTuples(ctx, store, filter, o))
}
func (f *faultDS) ReadStartingWithUser(ctx context.Context, store string, filter storage.ReadStartingWithUserFilter, o storage.ReadStartingWithUserOptions) (storage.TupleIterator, error) {
	if err := f.preOpen(); err != nil {
		return nil, err
	}
	return f.wrap(f.OpenFGADatastore.ReadStartingWithUser(ctx, store, filter, o))
}

// ---- cache configuration --------------------------------------------------

// CacheCfg is a drawn cache configuration.
type CacheCfg struct {
	Query      bool   `json:"query"`
	CheckIter  bool   `json:"check_iter"`
	LOIter     bool   `json:"lo_iter"`
	Shared     bool   `json:"shared"`
	Controller bool   `json:"controller"`
	IterMax    int    `json:"iter_max"`
	Engine     string `json:"engine"` // v1 | v2
	Breadth    int    `json:"breadth"`
	// Backend: "" memory, "sqlite": the process-wide sqlite datastore (rows bound to the query's context)
	Backend string `json:"backend,omitempty"`
}

func (c CacheCfg) options() []server.OpenFGAServiceV1Option {
	o := []server.OpenFGAServiceV1Option{
		server.WithCheckQueryCacheEnabled(c.Query), server.WithCheckQueryCacheTTL(time.Hour),
		server.WithCheckIteratorCacheEnabled(c.CheckIter), server.WithCheckIteratorCacheTTL(time.Hour),
		server.WithListObjectsIteratorCacheEnabled(c.LOIter), server.WithListObjectsIteratorCacheTTL(time.Hour),
		server.WithSharedIteratorEnabled(c.Shared),
		server.WithCacheControllerEnabled(c.Controller), server.WithCacheControllerTTL(time.Hour),
		server.WithListObjectsDeadline(30 * time.Second),
		server.WithMaxChecksPerBatchCheck(50),
	}
	if c.IterMax > 0 {
		o = append(o, server.WithCheckIteratorCacheMaxResults(uint32(c.IterMax)), server.WithListObjectsIteratorCacheMaxResults(uint32(c.IterMax)))
	}
	if c.Breadth > 0 {
		o = append(o, server.WithResolveNodeBreadthLimit(uint32(c.Breadth)))
	}
	if c.Engine == "v2" {
		o = append(o, server.WithExperimentals("weighted_graph_check"))
	}
	return o
}

// newCachedSUT builds a fresh server (empty caches) over the shared memory
// datastore, optionally through a fault wrapper. The caller closes it.
func newCachedSUT(cfg CacheCfg, withFaults bool) (*sut.SUT, *countingCache, *faultDS) {
	cc := newCountingCache()
	var ds storage.OpenFGADatastore = semkit.Plain().DS
	var fd *faultDS
	if cfg.Backend == "sqlite" {
		if sp, _, err := sqliteServers(); err == nil {
			// the process-wide sqlite datastore must survive the Close of this case's server
			fd = &faultDS{OpenFGADatastore: sp.DS, noClose: true}
			ds = fd
		}
	}
	if withFaults && fd == nil {
		fd = &faultDS{OpenFGADatastore: ds}
		ds = fd
	}
	s := sut.NewWithDS(ds, append(cfg.options(), server.WithCheckCache(cc))...)
	if !withFaults {
		fd = nil
	}
	return s, cc, fd
}

// Close leaves a shared datastore open.
func (f *faultDS) Close() {
	if !f.noClose {
		f.OpenFGADatastore.Close()
	}
}

// ---- operations -----------------------------------------------------------

// QOp is one step of a cache history.
type QOp struct {
	Kind   string        `json:"kind"` // check | batch | list | write | delete | yield
	Req    m.Request     `json:"req,omitempty"`
	LO     sut.LORequest `json:"lo,omitempty"`
	HC     bool          `json:"hc,omitempty"`     // HIGHER_CONSISTENCY
	Burst  int           `json:"burst,omitempty"`  // concurrent copies of a check
	Tuples []m.Tuple     `json:"tuples,omitempty"` // write / delete
	At     int           `json:"at,omitempty"`     // fault trigger: n-th datastore Next (0 = none)
	Fail   bool          `json:"fail,omitempty"`   // trigger also returns a read error (else only cancels the request)
	// FailCtx: the read error is context.Canceled (a datastore whose result set is bound to the query's context)
	FailCtx bool `json:"fail_ctx,omitempty"`
	// DeadlineUs > 0 (with Burst > 1): copy 0 of the burst runs under a real deadline that far away while every
	// datastore Next takes SlowUs; the other copies are clean requests sharing its reads.
	DeadlineUs int `json:"deadline_us,omitempty"`
	SlowUs     int `json:"slow_us,omitempty"`
}

func consistency(hc bool) openfgav1.ConsistencyPreference {
	if hc {
		return openfgav1.ConsistencyPreference_HIGHER_CONSISTENCY
	}
	return openfgav1.ConsistencyPreference_MINIMIZE_LATENCY
}

func checkWithConsistency(s *sut.SUT, ctx context.Context, storeID, modelID string, r m.Request, hc bool) (bool, error) {
	req := sut.CheckReq(storeID, modelID, r)
	req.Consistency = consistency(hc)
	resp, err := s.Srv.Check(ctx, req)
	if err != nil {
		return false, err
	}
	return resp.GetAllowed(), nil
}

// judgeCheckAgainst compares one Check answer with the reference for world w.
func judgeCheckAgainst(w gen.World, r m.Request, allowed bool, err error, what string) *fw.Failure {
	if semkit.IsTooComplex(err) {
		return nil
	}
	exp, unk := semkit.RefCheck(w, r)
	if ok, why := semkit.CompareCheck(exp, unk, allowed, err); !ok {
		return fw.Failf(semkit.ClassifyCheck(w, r, exp, allowed, err), "%s Check(%s): %s\n%s", what, r, why, semkit.Describe(w))
	}
	return nil
}

func isCancelled(err error) bool {
	if err == nil {
		return false
	}
	s := err.Error()
	return errors.Is(err, context.Canceled) || errors.Is(err, context.DeadlineExceeded) ||
		containsAny(s, "context canceled", "context cancelled", "Request Cancelled", "request cancelled", "deadline exceeded", "Request Deadline Exceeded", "injected datastore read failure", "Internal Server Error")
}

func containsAny(s string, subs ...string) bool {
	for _, x := range subs {
		if len(x) > 0 && len(s) >= len(x) {
			for i := 0; i+len(x) <= len(s); i++ {
				if s[i:i+len(x)] == x {
					return true
				}
			}
		}
	}
	return false
}

// applyWrite mutates the reference world like a successful Write/Delete.
func applyWrite(w *gen.World, kind string, ts []m.Tuple) {
	switch kind {
	case "write":
		w.Tuples = append(w.Tuples, ts...)
	case "delete":
		var keep []m.Tuple
		for _, t := range w.Tuples {
			del := false
			for _, d := range ts {
				if d.Key() == t.Key() {
					del = true
				}
			}
			if !del {
				keep = append(keep, t)
			}
		}
		w.Tuples = keep
	}
	m.SortTuples(w.Tuples)
}

var _ = refsem.True
var _ = fmt.Sprint

func loFromRequest(objectType string, r m.Request) sut.LORequest {
	return sut.LORequest{Type: objectType, Relation: r.Relation, User: r.User, Ctx: r.Ctx}
}
