package props

import (
	"context"
	"fmt"
	"runtime"
	"strings"
	"testing"
	"time"

	openfgav1 "github.com/openfga/api/proto/openfga/v1"
	"pgregory.net/rapid"

	"github.com/openfga/openfga/pkg/server"
	"github.com/openfga/openfga/pkg/storage"
	"github.com/openfga/openfga/verifharness/fw"
	"github.com/openfga/openfga/verifharness/gen"
	"github.com/openfga/openfga/verifharness/m"
	"github.com/openfga/openfga/verifharness/semkit"
	"github.com/openfga/openfga/verifharness/sut"
)

// C20 — Queries terminate and release their resources.
//
// Worlds with long userset / TTU chains and cycles (20-40 hops) and fan-out
// (50-300 tuples); every query API on a fresh server (engine drawn) whose
// deadlines are drawn from {2ms .. 300ms}; half of the calls are cancelled by
// the client when the n-th datastore read of the call happens. Oracle: the
// call returns (a result or an error) within its deadline plus slack; after
// the server is closed no goroutine started for the case is left (census of
// goroutines with openfga frames returns to the pre-case baseline within a
// grace period); every datastore iterator opened was stopped.
//
// Non-trivial: a cancellation or deadline landed while the call was running
// (the call failed with a cancellation/deadline error after >= 1 read).

type C20Call struct {
	API      string `json:"api"` // check | batch | list | stream | users | expand
	Object   string `json:"object"`
	Relation string `json:"relation"`
	User     string `json:"user"`
	CancelAt int    `json:"cancel_at"` // cancel the client context at the n-th datastore read (0 = never)
	// FailOpenAt: the n-th iterator open of the call fails with a datastore error (0 = never)
	FailOpenAt int `json:"fail_open_at,omitempty"`
	// UsersetSubject: the subject is a userset instead of a user
	UsersetSubject bool `json:"userset_subject,omitempty"`
	// FailNextAt: the n-th datastore Next of the call fails with a datastore error, the request is not cancelled (0 = never)
	FailNextAt int `json:"fail_next_at,omitempty"`
}

type C20Case struct {
	Family   int       `json:"family"`
	Chain    int       `json:"chain"`
	Cycle    bool      `json:"cycle"`
	Fanout   int       `json:"fanout"`
	Engine   string    `json:"engine"`    // v1 | v2
	LOEngine string    `json:"lo_engine"` // classic | weighted | pipeline
	Deadline int       `json:"deadline_ms"`
	Caches   bool      `json:"caches"`
	Calls    []C20Call `json:"calls"`
}

func genC20(t *rapid.T) C20Case {
	c := C20Case{
		Family:   rapid.IntRange(0, 4).Draw(t, "family"),
		Chain:    rapid.IntRange(3, 40).Draw(t, "chain"),
		Cycle:    rapid.Bool().Draw(t, "cycle"),
		Fanout:   []int{0, 5, 50, 150, 300}[rapid.IntRange(0, 4).Draw(t, "fanout")],
		Engine:   []string{"v1", "v2"}[rapid.IntRange(0, 1).Draw(t, "engine")],
		LOEngine: loEngines[rapid.IntRange(0, 2).Draw(t, "loEngine")],
		Deadline: []int{2, 10, 50, 300}[rapid.IntRange(0, 3).Draw(t, "deadline")],
		Caches:   rapid.IntRange(0, 3).Draw(t, "caches") == 0,
	}
	n := rapid.IntRange(2, 6).Draw(t, "nCalls")
	apis := []string{"check", "check", "batch", "list", "stream", "users", "expand"}
	for i := 0; i < n; i++ {
		call := C20Call{API: apis[rapid.IntRange(0, len(apis)-1).Draw(t, "api")]}
		call.Object = fmt.Sprintf("%d", rapid.IntRange(0, c.Chain).Draw(t, "obj"))
		call.User = fmt.Sprintf("%d", rapid.IntRange(0, 3).Draw(t, "user"))
		if rapid.IntRange(0, 4).Draw(t, "usersetSubject") == 0 {
			call.UsersetSubject = true // the subject is the userset <type>:<User>#<relation> of the family's recursive relation
		}
		switch rapid.IntRange(0, 3).Draw(t, "fault") {
		case 0, 1:
			call.CancelAt = rapid.IntRange(1, 40).Draw(t, "cancelAt")
		case 2:
			if rapid.Bool().Draw(t, "failAtNext") {
				call.FailNextAt = rapid.IntRange(1, 12).Draw(t, "failNextAt")
			} else {
				call.FailOpenAt = rapid.IntRange(1, 8).Draw(t, "failOpenAt")
			}
		}
		c.Calls = append(c.Calls, call)
	}
	return c
}

// c20World builds the model and tuples of a case.
func c20World(c C20Case) (gen.World, string, string) {
	var mo *m.Model
	var ts []m.Tuple
	objType, rel := "group", "member"
	switch c.Family {
	case 0: // recursive userset
		mo = &m.Model{Types: []m.TypeDef{{Name: "user"}, {Name: "group", Relations: []m.Relation{
			{Name: "member", Rewrite: &m.Rewrite{Kind: m.This}, Restr: []m.Restriction{{Type: "user"}, {Type: "group", Rel: "member"}}},
		}}}}
		for i := 0; i < c.Chain; i++ {
			ts = append(ts, m.Tuple{Object: fmt.Sprintf("group:%d", i), Relation: "member", User: fmt.Sprintf("group:%d#member", i+1)})
		}
		if c.Cycle {
			ts = append(ts, m.Tuple{Object: fmt.Sprintf("group:%d", c.Chain), Relation: "member", User: "group:0#member"})
		}
		for j := 0; j < c.Fanout; j++ {
			ts = append(ts, m.Tuple{Object: fmt.Sprintf("group:%d", c.Chain), Relation: "member", User: fmt.Sprintf("user:f%d", j)})
		}
		ts = append(ts, m.Tuple{Object: fmt.Sprintf("group:%d", c.Chain/2), Relation: "member", User: "user:1"})
	case 1: // recursive TTU
		objType, rel = "folder", "viewer"
		mo = &m.Model{Types: []m.TypeDef{{Name: "user"},
			{Name: "group", Relations: []m.Relation{{Name: "member", Rewrite: &m.Rewrite{Kind: m.This}, Restr: []m.Restriction{{Type: "user"}}}}},
			{Name: "folder", Relations: []m.Relation{
				{Name: "parent", Rewrite: &m.Rewrite{Kind: m.This}, Restr: []m.Restriction{{Type: "folder"}}},
				{Name: "viewer", Rewrite: &m.Rewrite{Kind: m.Union, Children: []*m.Rewrite{{Kind: m.This}, {Kind: m.TTU, Tupleset: "parent", Rel: "viewer"}}}, Restr: []m.Restriction{{Type: "user"}, {Type: "group", Rel: "member"}}},
			}}}}
		ts = append(ts, m.Tuple{Object: fmt.Sprintf("folder:%d", c.Chain), Relation: "viewer", User: "group:0#member"}, m.Tuple{Object: "group:0", Relation: "member", User: "user:2"})
		for i := 0; i < c.Chain; i++ {
			ts = append(ts, m.Tuple{Object: fmt.Sprintf("folder:%d", i), Relation: "parent", User: fmt.Sprintf("folder:%d", i+1)})
		}
		if c.Cycle {
			ts = append(ts, m.Tuple{Object: fmt.Sprintf("folder:%d", c.Chain), Relation: "parent", User: "folder:0"})
		}
		for j := 0; j < c.Fanout; j++ {
			ts = append(ts, m.Tuple{Object: fmt.Sprintf("folder:f%d", j), Relation: "parent", User: fmt.Sprintf("folder:%d", c.Chain)})
		}
		ts = append(ts, m.Tuple{Object: fmt.Sprintf("folder:%d", c.Chain/2), Relation: "viewer", User: "user:1"})
	case 3: // relations reached through several parent / userset types (weight-2 fast paths open one read per type)
		objType, rel = "doc", "viewer"
		if c.Cycle {
			rel = "editor"
		}
		member := func() []m.Relation {
			return []m.Relation{{Name: "member", Rewrite: &m.Rewrite{Kind: m.This}, Restr: []m.Restriction{{Type: "user"}}}}
		}
		mo = &m.Model{Types: []m.TypeDef{{Name: "user"}, {Name: "group", Relations: member()}, {Name: "org", Relations: member()}, {Name: "team", Relations: member()},
			{Name: "doc", Relations: []m.Relation{
				{Name: "parent", Rewrite: &m.Rewrite{Kind: m.This}, Restr: []m.Restriction{{Type: "group"}, {Type: "org"}, {Type: "team"}}},
				{Name: "viewer", Rewrite: &m.Rewrite{Kind: m.TTU, Tupleset: "parent", Rel: "member"}},
				{Name: "editor", Rewrite: &m.Rewrite{Kind: m.This}, Restr: []m.Restriction{{Type: "group", Rel: "member"}, {Type: "org", Rel: "member"}, {Type: "team", Rel: "member"}}},
			}}}}
		for i := 0; i <= c.Chain; i++ {
			for _, pt := range []string{"group", "org", "team"} {
				ts = append(ts, m.Tuple{Object: fmt.Sprintf("doc:%d", i), Relation: "parent", User: fmt.Sprintf("%s:%d", pt, i)},
					m.Tuple{Object: fmt.Sprintf("doc:%d", i), Relation: "editor", User: fmt.Sprintf("%s:%d#member", pt, i)})
			}
			ts = append(ts, m.Tuple{Object: fmt.Sprintf("team:%d", i), Relation: "member", User: fmt.Sprintf("user:%d", i%4)})
		}
		for j := 0; j < c.Fanout; j++ {
			ts = append(ts, m.Tuple{Object: fmt.Sprintf("group:%d", j%(c.Chain+1)), Relation: "member", User: fmt.Sprintf("user:f%d", j)})
		}
	case 4: // a userset whose target relation is a set operation (the weight-2 strategy merges sorted operand streams)
		objType, rel = "doc", "viewer"
		op := m.Difference
		if c.Cycle {
			op = m.Intersection
		}
		direct := func(n string) m.Relation {
			return m.Relation{Name: n, Rewrite: &m.Rewrite{Kind: m.This}, Restr: []m.Restriction{{Type: "user"}}}
		}
		mo = &m.Model{Types: []m.TypeDef{{Name: "user"},
			{Name: "group", Relations: []m.Relation{direct("a"), direct("b"), direct("c"),
				{Name: "member", Rewrite: &m.Rewrite{Kind: op, Children: []*m.Rewrite{
					{Kind: m.Union, Children: []*m.Rewrite{{Kind: m.Computed, Rel: "a"}, {Kind: m.Computed, Rel: "b"}}}, {Kind: m.Computed, Rel: "c"}}}}}},
			{Name: "doc", Relations: []m.Relation{{Name: "viewer", Rewrite: &m.Rewrite{Kind: m.This}, Restr: []m.Restriction{{Type: "group", Rel: "member"}}}}}}}
		for i := 0; i <= c.Chain; i++ {
			ts = append(ts, m.Tuple{Object: fmt.Sprintf("doc:%d", i), Relation: "viewer", User: fmt.Sprintf("group:%d#member", i)},
				m.Tuple{Object: fmt.Sprintf("doc:%d", i), Relation: "viewer", User: fmt.Sprintf("group:%d#member", (i+1)%(c.Chain+1))})
			for u := 0; u < 4; u++ {
				ts = append(ts, m.Tuple{Object: fmt.Sprintf("group:%d", i), Relation: []string{"a", "b", "c"}[(i+u)%3], User: fmt.Sprintf("user:%d", u)})
			}
		}
		for j := 0; j < c.Fanout; j++ {
			ts = append(ts, m.Tuple{Object: fmt.Sprintf("group:f%d", j), Relation: "a", User: "user:1"})
		}
	default: // two mutually recursive types with exclusion on top
		objType, rel = "doc", "can"
		mo = &m.Model{Types: []m.TypeDef{{Name: "user"},
			{Name: "group", Relations: []m.Relation{
				{Name: "member", Rewrite: &m.Rewrite{Kind: m.This}, Restr: []m.Restriction{{Type: "user"}, {Type: "group", Rel: "member"}, {Type: "doc", Rel: "viewer"}}},
			}},
			{Name: "doc", Relations: []m.Relation{
				{Name: "viewer", Rewrite: &m.Rewrite{Kind: m.This}, Restr: []m.Restriction{{Type: "user"}, {Type: "group", Rel: "member"}}},
				{Name: "blocked", Rewrite: &m.Rewrite{Kind: m.This}, Restr: []m.Restriction{{Type: "user"}}},
				{Name: "can", Rewrite: &m.Rewrite{Kind: m.Difference, Children: []*m.Rewrite{{Kind: m.Computed, Rel: "viewer"}, {Kind: m.Computed, Rel: "blocked"}}}},
			}}}}
		for i := 0; i < c.Chain; i++ {
			ts = append(ts, m.Tuple{Object: fmt.Sprintf("doc:%d", i), Relation: "viewer", User: fmt.Sprintf("group:%d#member", i)})
			ts = append(ts, m.Tuple{Object: fmt.Sprintf("group:%d", i), Relation: "member", User: fmt.Sprintf("doc:%d#viewer", i+1)})
		}
		if c.Cycle {
			ts = append(ts, m.Tuple{Object: fmt.Sprintf("doc:%d", c.Chain), Relation: "viewer", User: "group:0#member"})
		}
		for j := 0; j < c.Fanout; j++ {
			ts = append(ts, m.Tuple{Object: fmt.Sprintf("doc:%d", c.Chain), Relation: "viewer", User: fmt.Sprintf("user:f%d", j)})
		}
		ts = append(ts, m.Tuple{Object: fmt.Sprintf("doc:%d", c.Chain/2), Relation: "viewer", User: "user:1"}, m.Tuple{Object: "doc:0", Relation: "blocked", User: "user:2"})
	}
	return gen.World{Model: mo, Tuples: ts}, objType, rel
}

// openfgaGoroutines counts goroutines whose stack has an openfga frame other
// than the harness's own.
func openfgaGoroutines() (int, string) {
	buf := make([]byte, 8<<20)
	n := runtime.Stack(buf, true)
	cnt := 0
	var sample []string
	for _, g := range strings.Split(string(buf[:n]), "\n\n") {
		if strings.Contains(g, "github.com/openfga/openfga/") && !strings.Contains(g, "verifharness/props.openfgaGoroutines") {
			cnt++
			if len(sample) < 6 {
				sample = append(sample, g)
			}
		}
	}
	return cnt, strings.Join(sample, "\n\n")
}

func checkC20(env *fw.Env, c C20Case) *fw.Failure {
	w, objType, rel := c20World(c)
	plainSrv := semkit.Plain()
	storeID, modelID, f := semkit.SetupWorld(env, plainSrv, w)
	if f != nil || storeID == "" {
		return f
	}
	runtime.GC()
	base, _ := openfgaGoroutines()
	fd := &faultDS{OpenFGADatastore: plainSrv.DS}
	dl := time.Duration(c.Deadline) * time.Millisecond
	opts := []server.OpenFGAServiceV1Option{
		server.WithRequestTimeout(dl), server.WithListObjectsDeadline(dl), server.WithListUsersDeadline(dl),
		server.WithResolveNodeLimit(25), server.WithMaxChecksPerBatchCheck(50),
	}
	opts = append(opts, engineOpts(c.LOEngine)...)
	if c.Engine == "v2" {
		opts = append(opts, server.WithExperimentals(append([]string{"weighted_graph_check"}, loExperimental(c.LOEngine)...)...))
	}
	if c.Caches {
		opts = append(opts, CacheCfg{Query: true, CheckIter: true, LOIter: true, Shared: true, IterMax: 5}.options()...)
		opts = append(opts, server.WithListObjectsDeadline(dl))
	}
	s := sut.NewWithDS(storage.OpenFGADatastore(fd), opts...)
	classes := []string{fmt.Sprintf("family:%d", c.Family), "engine:" + c.Engine, "lo:" + c.LOEngine, fmt.Sprintf("deadline:%dms", c.Deadline)}
	if c.Cycle {
		classes = append(classes, "cycle")
	}
	if c.Chain >= 20 {
		classes = append(classes, "chain>=20")
	}
	if c.Fanout >= 150 {
		classes = append(classes, "fanout>=150")
	}
	landed := false
	slack := 5 * time.Second
	for _, call := range c.Calls {
		obj := objType + ":" + call.Object
		user := "user:" + call.User
		if call.UsersetSubject {
			user = usersetSubject(c.Family, "x"+call.User) // an object outside the data: never reached, the whole closure is walked
		}
		ctx, cancel := context.WithCancel(context.Background())
		if call.CancelAt > 0 {
			fd.arm(call.CancelAt, cancel, false)
		}
		if call.FailOpenAt > 0 {
			fd.armOpen(call.FailOpenAt)
		}
		if call.FailNextAt > 0 && call.CancelAt == 0 {
			fd.arm(call.FailNextAt, nil, true)
		}
		var err error
		nexts0 := fd.nexts.Load()
		t0 := time.Now()
		returned := semkit.Watchdog(dl+slack+20*time.Second, func() {
			switch call.API {
			case "check":
				_, err = s.Check(ctx, storeID, modelID, m.Request{Object: obj, Relation: rel, User: user})
			case "batch":
				_, err = s.BatchCheck(ctx, storeID, modelID, []sut.BatchItem{{ID: "a", Req: m.Request{Object: obj, Relation: rel, User: user}}, {ID: "b", Req: m.Request{Object: obj, Relation: rel, User: "user:1"}}}, openfgav1.ConsistencyPreference_UNSPECIFIED)
			case "list":
				_, err = s.ListObjects(ctx, storeID, modelID, sut.LORequest{Type: objType, Relation: rel, User: user}, openfgav1.ConsistencyPreference_UNSPECIFIED)
			case "stream":
				_, err = s.StreamedListObjects(ctx, storeID, modelID, sut.LORequest{Type: objType, Relation: rel, User: user}, openfgav1.ConsistencyPreference_UNSPECIFIED)
			case "users":
				_, err = s.ListUsers(ctx, storeID, modelID, sut.LURequest{Object: obj, Relation: rel, Filter: "user"}, openfgav1.ConsistencyPreference_UNSPECIFIED)
			case "expand":
				_, err = s.Expand(ctx, storeID, modelID, obj, rel, nil)
			}
		})
		dt := time.Since(t0)
		// work bound: these families are resolved with a visited set, so a query reads every tuple a bounded
		// number of times; a resolution that only the deadline stops reads orders of magnitude more
		if reads, bound := fd.nexts.Load()-nexts0, int64(400*(len(w.Tuples)+50)); reads > bound {
			return fw.Failf("", "%s(%s#%s@%s) made %d datastore reads on a world of %d tuples (bound %d) before it returned after %v (deadline %v, engine %s/%s): the resolution does not terminate on its own",
				call.API, obj, rel, user, reads, len(w.Tuples), bound, dt, dl, c.Engine, c.LOEngine)
		}
		fired := false
		if call.CancelAt > 0 {
			fired = fd.disarm()
		}
		if call.FailNextAt > 0 && call.CancelAt == 0 && fd.disarm() {
			classes = append(classes, "datastore-read-failed")
			if err != nil {
				landed = true
			}
		}
		if call.FailOpenAt > 0 && fd.disarmOpen() {
			classes = append(classes, "datastore-open-failed")
			if err != nil {
				landed = true
			}
		}
		cancel()
		classes = append(classes, "api:"+call.API)
		if !returned {
			return fw.Failf("", "%s(%s#%s@%s) did not return within %v (deadline %v, engine %s/%s, client cancel at read %d fired=%v)\nstuck goroutines:\n%s",
				call.API, obj, rel, user, dl+slack+20*time.Second, dl, c.Engine, c.LOEngine, call.CancelAt, fired, semkit.GoroutineDump("openfga/openfga/"))
		}
		if dt > dl+slack {
			// wall-clock verdicts are confirmed: the same call (without the injected fault) is repeated twice;
			// an overrun that does not repeat is put down to the load of the machine (inconclusive)
			repeats := 0
			for try := 0; try < 2; try++ {
				t1 := time.Now()
				semkit.Watchdog(dl+slack+20*time.Second, func() {
					switch call.API {
					case "check", "batch":
						_, _ = s.Check(context.Background(), storeID, modelID, m.Request{Object: obj, Relation: rel, User: user})
					case "list", "stream":
						_, _ = s.ListObjects(context.Background(), storeID, modelID, sut.LORequest{Type: objType, Relation: rel, User: user}, openfgav1.ConsistencyPreference_UNSPECIFIED)
					case "users":
						_, _ = s.ListUsers(context.Background(), storeID, modelID, sut.LURequest{Object: obj, Relation: rel, Filter: "user"}, openfgav1.ConsistencyPreference_UNSPECIFIED)
					case "expand":
						_, _ = s.Expand(context.Background(), storeID, modelID, obj, rel, nil)
					}
				})
				if time.Since(t1) > dl+slack {
					repeats++
				}
			}
			if repeats == 2 {
				return fw.Failf("", "%s(%s#%s@%s) returned after %v, its deadline is %v, and overran it again in two repetitions (engine %s/%s)", call.API, obj, rel, user, dt, dl, c.Engine, c.LOEngine)
			}
			env.Rec.Inconclusive()
			classes = append(classes, "deadline-overrun-not-repeated")
		}
		if dt > dl+time.Second {
			env.Rec.Inconclusive()
		}
		if err != nil && isCancelled(err) {
			landed = true
			classes = append(classes, "cancel-or-deadline-landed")
		}
		if err == nil {
			classes = append(classes, "completed")
		}
	}
	if msg := s.CloseChecked(); msg != "" {
		return fw.Failf("C20/server-close-panics-waitgroup-reused", "Server.Close panicked after the calls had returned: %s; case %+v", msg, c)
	}
	// resources: goroutines back to the baseline, iterators stopped
	var now int
	var dump string
	deadline := time.Now().Add(6 * time.Second)
	for {
		now, dump = openfgaGoroutines()
		if (now <= base && fd.opened.Load() == fd.stopped.Load()) || time.Now().After(deadline) {
			break
		}
		time.Sleep(20 * time.Millisecond)
	}
	if now > base {
		return fw.Failf("", "%d goroutines with openfga frames are still alive 6 s after the server was closed (baseline %d); case %+v\n%s", now-base, base, c, dump)
	}
	if o, st := fd.opened.Load(), fd.stopped.Load(); o != st {
		return fw.Failf("", "%d datastore iterators were opened but only %d stopped; case %+v", o, st, c)
	}
	var sample any
	if landed {
		sample = c
	}
	env.Rec.Case(c, landed, sample, semkit.SortedSet(classes)...)
	return nil
}

// usersetSubject names a userset of the family's recursive relation.
func usersetSubject(family int, id string) string {
	switch family {
	case 0:
		return "group:" + id + "#member"
	case 1:
		return "group:" + id + "#member"
	case 3:
		return "team:" + id + "#member"
	}
	return "group:" + id + "#member"
}

func loExperimental(engine string) []string {
	switch engine {
	case "weighted":
		return []string{"enable-list-objects-optimizations"}
	case "pipeline":
		return []string{"pipeline_list_objects"}
	}
	return nil
}

func TestC20(t *testing.T) { fw.Run(t, "C20", genC20, checkC20) }
