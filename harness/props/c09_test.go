package props

import (
	"testing"

	"pgregory.net/rapid"

	"github.com/openfga/openfga/verifharness/fw"
	"github.com/openfga/openfga/verifharness/gen"
	"github.com/openfga/openfga/verifharness/m"
	"github.com/openfga/openfga/verifharness/refsem"
)

// ---- C09: iterator caches never change answers ------------------------------
//
// Server with check + list-objects iterator caches and shared iterators on
// (small maxResults so the discard path is hit) over a fault datastore placed
// below every cache layer. A faulted step arms the datastore: at the n-th
// tuple-iterator Next issued after arming, the request's context is cancelled
// (and, optionally, that Next fails). Oracle: a faulted request fails or
// answers per the reference; every clean request — including the same request
// right after the faulted one and after a yield that lets background cache
// fills finish — answers exactly per the reference: a partially read result
// is never served as complete.
//
// Non-trivial: some request was cut strictly inside its reads and a later
// step was served from the cache.

func genC09(t *rapid.T) CacheCase {
	o := worldOpts()
	o.MaxTuples = 20
	w := gen.AnyWorld(t, o)
	c := CacheCase{World: w, Cfg: genCacheCfg(t, false, true)}
	n := rapid.IntRange(4, 12).Draw(t, "nOps")
	var prev []m.Request
	for i := 0; i < n; i++ {
		switch k := rapid.IntRange(0, 9).Draw(t, "opKind"); {
		case k < 4: // faulted check followed by the same request clean
			r := closureRequest(t, w, o, prev)
			prev = append(prev, r)
			c.Ops = append(c.Ops, QOp{Kind: "check", Req: r, At: rapid.IntRange(1, 6).Draw(t, "at"), Fail: rapid.Bool().Draw(t, "fail")})
			if rapid.Bool().Draw(t, "yieldBetween") {
				c.Ops = append(c.Ops, QOp{Kind: "yield"})
			}
			c.Ops = append(c.Ops, QOp{Kind: "check", Req: r})
		case k < 8:
			r := closureRequest(t, w, o, prev)
			prev = append(prev, r)
			c.Ops = append(c.Ops, QOp{Kind: "check", Req: r})
		case k < 9:
			c.Ops = append(c.Ops, QOp{Kind: "list", LO: genLORequest(t, w, o)})
		default:
			c.Ops = append(c.Ops, QOp{Kind: "yield"})
		}
	}
	return c
}

func checkC09(env *fw.Env, c CacheCase) *fw.Failure { return runCacheHistory(env, c, true, true) }

func TestC09(t *testing.T) { fw.Run(t, "C09", genC09, checkC09) }

// ---- C10: higher-consistency requests are never stale -----------------------
//
// History with writes and deletes (valid tuples) between cached
// (MINIMIZE_LATENCY) and HIGHER_CONSISTENCY requests; every cache flag and the
// engine are drawn. Oracle: every HIGHER_CONSISTENCY answer equals the
// reference for the store state at that moment. Cached requests after a write
// are not judged (they may be stale by design).
//
// Non-trivial: a HIGHER_CONSISTENCY request follows a write that flips its
// reference answer, after the identical cached request had run before the
// write.

type C10Case struct {
	CacheCase
}

func genC10(t *rapid.T) CacheCase {
	o := worldOpts()
	w := gen.AnyWorld(t, o)
	c := CacheCase{World: w, Cfg: genCacheCfg(t, false, false)}
	c.Cfg.Controller = rapid.Bool().Draw(t, "controller")
	cur := append([]m.Tuple{}, w.Tuples...)
	n := rapid.IntRange(2, 5).Draw(t, "nRounds")
	for i := 0; i < n; i++ {
		r := gen.RequestFor(t, gen.World{Model: w.Model, Tuples: cur, Left: w.Left}, o)
		r.Contextual = nil
		// populate the caches
		c.Ops = append(c.Ops, QOp{Kind: "check", Req: r})
		if rapid.Bool().Draw(t, "alsoList") {
			ot, _ := m.SplitObject(r.Object)
			c.Ops = append(c.Ops, QOp{Kind: "list", LO: loFromRequest(ot, r)})
		}
		// a write that tends to flip the answer: grant the request directly, or delete a tuple
		g := m.Tuple{Object: r.Object, Relation: r.Relation, User: r.User}
		exists := -1
		for j, tu := range cur {
			if tu.Key() == g.Key() {
				exists = j
			}
		}
		switch {
		case exists >= 0:
			c.Ops = append(c.Ops, QOp{Kind: "delete", Tuples: []m.Tuple{cur[exists]}})
			cur = append(append([]m.Tuple{}, cur[:exists]...), cur[exists+1:]...)
		case refsem.ValidForRead(w.Model, g) == refsem.OK && g.User != g.Object+"#"+g.Relation && !inLeft(w.Left, g):
			c.Ops = append(c.Ops, QOp{Kind: "write", Tuples: []m.Tuple{g}})
			cur = append(cur, g)
		case len(cur) > 0:
			j := rapid.IntRange(0, len(cur)-1).Draw(t, "delIdx")
			c.Ops = append(c.Ops, QOp{Kind: "delete", Tuples: []m.Tuple{cur[j]}})
			cur = append(append([]m.Tuple{}, cur[:j]...), cur[j+1:]...)
		}
		// the same request: cached, then with higher consistency
		if rapid.Bool().Draw(t, "cachedAfter") {
			c.Ops = append(c.Ops, QOp{Kind: "check", Req: r})
		}
		c.Ops = append(c.Ops, QOp{Kind: "check", Req: r, HC: true})
		if rapid.Bool().Draw(t, "batchHC") {
			c.Ops = append(c.Ops, QOp{Kind: "batch", Req: r, HC: true})
		}
		if rapid.Bool().Draw(t, "listHC") {
			ot, _ := m.SplitObject(r.Object)
			c.Ops = append(c.Ops, QOp{Kind: "list", LO: loFromRequest(ot, r), HC: true})
		}
	}
	return c
}

func inLeft(left []m.Tuple, g m.Tuple) bool {
	for _, t := range left {
		if t.Key() == g.Key() {
			return true
		}
	}
	return false
}

func checkC10(env *fw.Env, c CacheCase) *fw.Failure { return runCacheHistory(env, c, false, false) }

func TestC10(t *testing.T) { fw.Run(t, "C10", genC10, checkC10) }
