package props

import (
	"fmt"
	"testing"

	"pgregory.net/rapid"

	"github.com/openfga/openfga/verifharness/fw"
	"github.com/openfga/openfga/verifharness/gen"
	"github.com/openfga/openfga/verifharness/m"
	"github.com/openfga/openfga/verifharness/refsem"
	"github.com/openfga/openfga/verifharness/semkit"
)

// ---- C09: iterator caches never change answers ------------------------------
//
// Server with check + list-objects iterator caches and shared iterators on
// (small maxResults so the discard path is hit) over a fault datastore placed
// below every cache layer. A faulted step arms the datastore: at the n-th
// tuple-iterator Next issued after arming, the request's context is cancelled
// (and, optionally, that Next fails). Oracle: a faulted request fails or
// answers per the reference; every clean request — including the same request
// right after the faulted one and after a yield that lets background cache
// fills finish — answers exactly per the reference: a partially read result
// is never served as complete.
//
// Non-trivial: some request was cut strictly inside its reads and a later
// step was served from the cache.

func genC09(t *rapid.T) CacheCase {
	o := worldOpts()
	o.MaxTuples = 20
	w := gen.AnyWorld(t, o)
	c := CacheCase{World: w, Cfg: genCacheCfg(t, false, true)}
	c.Cfg.Shared = rapid.IntRange(0, 3).Draw(t, "shared") > 0 // mostly on; off isolates the iterator caches
	// (Cfg.Backend = "sqlite" is supported by the history runner but not generated: on the process-wide sqlite
	// datastore clean requests of these histories run into "Request Deadline Exceeded" while earlier requests'
	// iterators are still being drained in the background - not understood well enough to be asserted either way)
	n := rapid.IntRange(4, 12).Draw(t, "nOps")
	var prev []m.Request
	for i := 0; i < n; i++ {
		switch k := rapid.IntRange(0, 9).Draw(t, "opKind"); {
		case k < 4: // faulted check followed by the same request clean
			r := closureRequest(t, w, o, prev)
			prev = append(prev, r)
			fop := QOp{Kind: "check", Req: r, At: rapid.IntRange(1, 6).Draw(t, "at"), Fail: rapid.Bool().Draw(t, "fail")}
			fop.FailCtx = fop.Fail && rapid.Bool().Draw(t, "failCtx")
			c.Ops = append(c.Ops, fop)
			if rapid.Bool().Draw(t, "yieldBetween") {
				c.Ops = append(c.Ops, QOp{Kind: "yield"})
			}
			c.Ops = append(c.Ops, QOp{Kind: "check", Req: r})
		case k < 8:
			r := closureRequest(t, w, o, prev)
			prev = append(prev, r)
			c.Ops = append(c.Ops, QOp{Kind: "check", Req: r})
		case k < 9:
			if rapid.Bool().Draw(t, "deadlinePair") {
				// a burst in which one copy runs out of time inside a slow read the others share
				r := closureRequest(t, w, o, prev)
				prev = append(prev, r)
				c.Ops = append(c.Ops, QOp{Kind: "check", Req: r, Burst: rapid.IntRange(2, 4).Draw(t, "burst"),
					DeadlineUs: rapid.IntRange(100, 4000).Draw(t, "deadlineUs"), SlowUs: rapid.IntRange(20, 300).Draw(t, "slowUs")}, QOp{Kind: "check", Req: r})
				break
			}
			c.Ops = append(c.Ops, QOp{Kind: "list", LO: genLORequest(t, w, o)})
		default:
			c.Ops = append(c.Ops, QOp{Kind: "yield"})
		}
	}
	return c
}

func checkC09(env *fw.Env, c CacheCase) *fw.Failure { return runCacheHistory(env, c, true, true) }

func TestC09(t *testing.T) { fw.Run(t, "C09", genC09, checkC09) }

// ---- C10: higher-consistency requests are never stale -----------------------
//
// History with writes and deletes (valid tuples) between cached
// (MINIMIZE_LATENCY) and HIGHER_CONSISTENCY requests; every cache flag and the
// engine are drawn. Oracle: every HIGHER_CONSISTENCY answer equals the
// reference for the store state at that moment. Cached requests after a write
// are not judged (they may be stale by design).
//
// Non-trivial: a HIGHER_CONSISTENCY request follows a write that flips its
// reference answer, after the identical cached request had run before the
// write.

type C10Case struct {
	CacheCase
}

// genC10Links: the writes are chosen, with the reference evaluator, among the link tuples (a new or
// removed parent / member userset of the requested object) that flip the request's answer; the
// check iterator cache is on, because an object's own links are what it caches.
func genC10Links(t *rapid.T, o gen.Opts) CacheCase {
	w := gen.CycleWorld(t, o)
	c := CacheCase{World: w, Cfg: genCacheCfg(t, false, false)}
	c.Cfg.CheckIter = true
	tn := gen.CycleType(w)
	td := w.Model.Type(tn)
	cur := gen.World{Model: w.Model, Tuples: append([]m.Tuple{}, w.Tuples...), Left: w.Left}
	type cand struct {
		req m.Request
		tu  m.Tuple
		del bool
	}
	for round, n := 0, rapid.IntRange(1, 3).Draw(t, "nRounds"); round < n; round++ {
		var flips, all []cand
		for i := 0; i < o.MaxIDs; i++ {
			obj := fmt.Sprintf("%s:%d", tn, i)
			var links []cand
			for _, rel := range td.Relations {
				if !rel.Rewrite.HasThis() {
					continue
				}
				for _, re := range rel.Restr {
					if re.Type == "user" || re.Wildcard || re.Cond != "" {
						continue
					}
					for j := 0; j < o.MaxIDs; j++ {
						u := fmt.Sprintf("%s:%d", re.Type, j)
						if re.Rel != "" {
							u += "#" + re.Rel
						}
						tu := m.Tuple{Object: obj, Relation: rel.Name, User: u}
						if u == obj+"#"+rel.Name {
							continue
						}
						present := false
						for _, x := range cur.Tuples {
							present = present || x.Key() == tu.Key()
						}
						links = append(links, cand{tu: tu, del: present})
					}
				}
			}
			for _, rel := range td.Relations {
				req := m.Request{Object: obj, Relation: rel.Name, User: "user:0"}
				before, _ := semkit.RefCheck(cur, req)
				for _, l := range links {
					l.req = req
					all = append(all, l)
					next := gen.World{Model: cur.Model, Tuples: append([]m.Tuple{}, cur.Tuples...), Left: cur.Left}
					applyWrite(&next, map[bool]string{true: "delete", false: "write"}[l.del], []m.Tuple{l.tu})
					if after, _ := semkit.RefCheck(next, req); after != before {
						flips = append(flips, l)
					}
				}
			}
		}
		pick := flips
		if len(pick) == 0 {
			pick = all
		}
		if len(pick) == 0 {
			break
		}
		ch := pick[rapid.IntRange(0, len(pick)-1).Draw(t, "flip")]
		c.Ops = append(c.Ops, QOp{Kind: "check", Req: ch.req})
		if rapid.Bool().Draw(t, "populateTwice") {
			c.Ops = append(c.Ops, QOp{Kind: "yield"}, QOp{Kind: "check", Req: ch.req})
		}
		kind := map[bool]string{true: "delete", false: "write"}[ch.del]
		c.Ops = append(c.Ops, QOp{Kind: kind, Tuples: []m.Tuple{ch.tu}})
		applyWrite(&cur, kind, []m.Tuple{ch.tu})
		c.Ops = append(c.Ops, QOp{Kind: "check", Req: ch.req, HC: true})
		if rapid.Bool().Draw(t, "batchHC") {
			c.Ops = append(c.Ops, QOp{Kind: "batch", Req: ch.req, HC: true})
		}
	}
	return c
}

// genC10Flips: any world; the write is chosen, with the reference evaluator, among the deletions of
// stored tuples and the direct grants on the requested object (any relation: an operand of an
// intersection or exclusion counts) that flip the request's answer; the request is asked as Check
// and as ListObjects before the write (populating the caches) and with HIGHER_CONSISTENCY after it.
func genC10Flips(t *rapid.T, o gen.Opts) CacheCase {
	w := gen.AnyWorld(t, o)
	c := CacheCase{World: w, Cfg: genCacheCfg(t, false, false)}
	c.Cfg.Query = true
	cur := gen.World{Model: w.Model, Tuples: append([]m.Tuple{}, w.Tuples...), Left: w.Left}
	type cand struct {
		tu  m.Tuple
		del bool
	}
	for round, n := 0, rapid.IntRange(1, 3).Draw(t, "nRounds"); round < n; round++ {
		r := gen.RequestFor(t, cur, o)
		r.Contextual = nil
		if m.UserKind(r.User) != "object" {
			continue
		}
		before, unk := semkit.RefCheck(cur, r)
		if unk {
			continue
		}
		var cands []cand
		for _, tu := range cur.Tuples {
			cands = append(cands, cand{tu, true})
		}
		ot, _ := m.SplitObject(r.Object)
		if td := w.Model.Type(ot); td != nil {
			for _, rel := range td.Relations {
				g := m.Tuple{Object: r.Object, Relation: rel.Name, User: r.User}
				present := false
				for _, x := range cur.Tuples {
					present = present || x.Key() == g.Key()
				}
				if !present && refsem.ValidForRead(w.Model, g) == refsem.OK && !inLeft(w.Left, g) {
					cands = append(cands, cand{g, false})
				}
			}
		}
		var flips []cand
		for _, cd := range cands {
			next := gen.World{Model: cur.Model, Tuples: append([]m.Tuple{}, cur.Tuples...), Left: cur.Left}
			applyWrite(&next, map[bool]string{true: "delete", false: "write"}[cd.del], []m.Tuple{cd.tu})
			if after, u2 := semkit.RefCheck(next, r); !u2 && after != before {
				flips = append(flips, cd)
			}
		}
		if len(flips) == 0 {
			continue
		}
		ch := flips[rapid.IntRange(0, len(flips)-1).Draw(t, "flip")]
		lo := loFromRequest(ot, r)
		c.Ops = append(c.Ops, QOp{Kind: "check", Req: r}, QOp{Kind: "list", LO: lo})
		kind := map[bool]string{true: "delete", false: "write"}[ch.del]
		c.Ops = append(c.Ops, QOp{Kind: kind, Tuples: []m.Tuple{ch.tu}})
		applyWrite(&cur, kind, []m.Tuple{ch.tu})
		// the listing first: a HIGHER_CONSISTENCY Check of the same request would refresh the cached answer
		c.Ops = append(c.Ops, QOp{Kind: "list", LO: lo, HC: true}, QOp{Kind: "batch", Req: r, HC: true}, QOp{Kind: "check", Req: r, HC: true})
	}
	return c
}

func genC10(t *rapid.T) CacheCase {
	o := worldOpts()
	switch rapid.IntRange(0, 3).Draw(t, "linkScenario") {
	case 0:
		if c := genC10Links(t, o); len(c.Ops) > 0 {
			return c
		}
	case 1:
		if c := genC10Flips(t, o); len(c.Ops) > 0 {
			return c
		}
	}
	var w gen.World
	if rapid.Bool().Draw(t, "cyclic") {
		w = gen.CycleWorld(t, o) // recursive relations over densely linked objects: a new link often changes the answer
	} else {
		w = gen.AnyWorld(t, o)
	}
	c := CacheCase{World: w, Cfg: genCacheCfg(t, false, false)}
	c.Cfg.Controller = rapid.Bool().Draw(t, "controller")
	cur := append([]m.Tuple{}, w.Tuples...)
	n := rapid.IntRange(2, 5).Draw(t, "nRounds")
	for i := 0; i < n; i++ {
		r := gen.RequestFor(t, gen.World{Model: w.Model, Tuples: cur, Left: w.Left}, o)
		r.Contextual = nil
		// populate the caches
		c.Ops = append(c.Ops, QOp{Kind: "check", Req: r})
		if rapid.Bool().Draw(t, "alsoList") {
			ot, _ := m.SplitObject(r.Object)
			c.Ops = append(c.Ops, QOp{Kind: "list", LO: loFromRequest(ot, r)})
		}
		if rapid.Bool().Draw(t, "yieldAfterPopulate") {
			c.Ops = append(c.Ops, QOp{Kind: "yield"}) // lets background cache fills of the requests above finish
		}
		// a write that tends to flip the answer: grant the request directly, or delete a tuple
		g := m.Tuple{Object: r.Object, Relation: r.Relation, User: r.User}
		if rapid.Bool().Draw(t, "indirectWrite") {
			// ... or link the object to another one (a new parent / member userset): the answer then changes
			// through reads of the object's own tuples that an earlier request may have left in an iterator cache
			ot, _ := m.SplitObject(r.Object)
			var links []m.Tuple
			if td := w.Model.Type(ot); td != nil {
				for _, rel := range td.Relations {
					if !rel.Rewrite.HasThis() {
						continue
					}
					for _, re := range rel.Restr {
						if re.Type == "user" || re.Wildcard || re.Cond != "" {
							continue
						}
						for i := 0; i < o.MaxIDs; i++ {
							u := fmt.Sprintf("%s:%d", re.Type, i)
							if re.Rel != "" {
								u += "#" + re.Rel
							}
							if u != r.Object+"#"+rel.Name {
								links = append(links, m.Tuple{Object: r.Object, Relation: rel.Name, User: u})
							}
						}
					}
				}
			}
			if len(links) > 0 {
				g = links[rapid.IntRange(0, len(links)-1).Draw(t, "link")]
			}
		}
		exists := -1
		for j, tu := range cur {
			if tu.Key() == g.Key() {
				exists = j
			}
		}
		switch {
		case exists >= 0:
			c.Ops = append(c.Ops, QOp{Kind: "delete", Tuples: []m.Tuple{cur[exists]}})
			cur = append(append([]m.Tuple{}, cur[:exists]...), cur[exists+1:]...)
		case refsem.ValidForRead(w.Model, g) == refsem.OK && g.User != g.Object+"#"+g.Relation && !inLeft(w.Left, g):
			c.Ops = append(c.Ops, QOp{Kind: "write", Tuples: []m.Tuple{g}})
			cur = append(cur, g)
		case len(cur) > 0:
			j := rapid.IntRange(0, len(cur)-1).Draw(t, "delIdx")
			c.Ops = append(c.Ops, QOp{Kind: "delete", Tuples: []m.Tuple{cur[j]}})
			cur = append(append([]m.Tuple{}, cur[:j]...), cur[j+1:]...)
		}
		// the same request: cached, then with higher consistency
		if rapid.Bool().Draw(t, "cachedAfter") {
			c.Ops = append(c.Ops, QOp{Kind: "check", Req: r})
		}
		c.Ops = append(c.Ops, QOp{Kind: "check", Req: r, HC: true})
		if rapid.Bool().Draw(t, "batchHC") {
			c.Ops = append(c.Ops, QOp{Kind: "batch", Req: r, HC: true})
		}
		if rapid.Bool().Draw(t, "listHC") {
			ot, _ := m.SplitObject(r.Object)
			c.Ops = append(c.Ops, QOp{Kind: "list", LO: loFromRequest(ot, r), HC: true})
		}
	}
	return c
}

func inLeft(left []m.Tuple, g m.Tuple) bool {
	for _, t := range left {
		if t.Key() == g.Key() {
			return true
		}
	}
	return false
}

func checkC10(env *fw.Env, c CacheCase) *fw.Failure { return runCacheHistory(env, c, false, false) }

func TestC10(t *testing.T) { fw.Run(t, "C10", genC10, checkC10) }
