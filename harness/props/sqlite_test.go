package props

import (
	"os"
	"path/filepath"
	"sync"
	"time"

	"github.com/openfga/openfga/pkg/server"
	"github.com/openfga/openfga/pkg/storage/migrate"
	"github.com/openfga/openfga/pkg/storage/sqlcommon"
	"github.com/openfga/openfga/pkg/storage/sqlite"
	"github.com/openfga/openfga/verifharness/sut"
)

// A process-wide sqlite datastore (one file, migrated once) with a default-engine
// and a weighted-engine server over it: the engines read through the SQL
// backend's own ordering and filtering instead of the memory backend's.

var (
	sqlOnce         sync.Once
	sqlDir          string
	sqlPlain, sqlV2 *sut.SUT
	sqlErr          error
)

func sqliteServers() (*sut.SUT, *sut.SUT, error) {
	sqlOnce.Do(func() {
		sqlDir, sqlErr = os.MkdirTemp("", "verif-props-sqlite-")
		if sqlErr != nil {
			return
		}
		uri := "file:" + filepath.Join(sqlDir, "props.db")
		if sqlErr = migrate.RunMigrations(migrate.MigrationConfig{Engine: "sqlite", URI: uri, Timeout: 30 * time.Second, PingTimeout: 5 * time.Second}); sqlErr != nil {
			return
		}
		ds, err := sqlite.New(uri+"?_pragma=synchronous(OFF)", sqlcommon.NewConfig())
		if err != nil {
			sqlErr = err
			return
		}
		sqlPlain = sut.NewWithDS(ds)
		sqlV2 = sut.NewWithDS(ds, server.WithExperimentals("weighted_graph_check"))
	})
	return sqlPlain, sqlV2, sqlErr
}

func cleanupSQLite() {
	if sqlDir != "" {
		_ = os.RemoveAll(sqlDir)
	}
}
