package props

import (
	"context"
	"fmt"
	"reflect"
	"sort"
	"testing"
	"time"

	openfgav1 "github.com/openfga/api/proto/openfga/v1"
	"google.golang.org/protobuf/proto"
	"pgregory.net/rapid"

	"github.com/openfga/openfga/pkg/server"
	"github.com/openfga/openfga/verifharness/fw"
	"github.com/openfga/openfga/verifharness/gen"
	"github.com/openfga/openfga/verifharness/m"
	"github.com/openfga/openfga/verifharness/refsem"
	"github.com/openfga/openfga/verifharness/semkit"
	"github.com/openfga/openfga/verifharness/sut"
)

// C04 — Contextual tuples behave exactly like stored tuples.
//
// Metamorphic: the valid tuple set T of a world is split into S (stored) and X
// (contextual). Every query on (store=S, contextual=X) must give the answer of
// the same query on (store=S∪X, contextual=∅): Check (default and weighted
// engine), BatchCheck, ListObjects (three engines), ListUsers, Expand.
// Non-persistence and no leak: the S-store is served by a server with the
// query cache and iterator caches on; X-carrying requests are interleaved with
// the same requests without contextual tuples, which must answer for S alone
// (reference semantics), and Read must still show exactly S at the end.
//
// Non-trivial: X is non-empty and some request's answer differs between S and
// S∪X (the contextual tuples matter).

type C04Case struct {
	World  gen.World       `json:"world"`
	Split  []bool          `json:"split"` // Split[i] => World.Tuples[i] is contextual
	Checks []m.Request     `json:"checks"`
	Lists  []sut.LORequest `json:"lists"`
	Users  []sut.LURequest `json:"users"`
	Expand []m.Request     `json:"expand"`
}

func genC04(t *rapid.T) C04Case {
	o := worldOpts()
	var w gen.World
	cyclic := rapid.IntRange(0, 3).Draw(t, "cyclic") == 0
	if cyclic {
		o.ForceLinkConds = rapid.Bool().Draw(t, "linkConds")
		w = gen.CycleWorld(t, o) // recursive relations over densely (and conditionally) linked objects
	} else {
		w = gen.AnyWorld(t, o)
	}
	c := C04Case{World: w}
	for _, tu := range w.Tuples {
		p := 3
		if cyclic && tu.Cond != "" {
			p = 2 // conditioned links and grants are the interesting contextual tuples there
		}
		c.Split = append(c.Split, rapid.IntRange(0, p-1).Draw(t, "ctx") == 0)
	}
	for _, r := range genRequests(t, w, o, 2, 5) {
		r.Contextual = nil
		c.Checks = append(c.Checks, r)
	}
	lr := genLORequest(t, w, o)
	lr.Contextual = nil
	c.Lists = []sut.LORequest{lr}
	r := gen.RequestFor(t, w, o)
	var filters []string
	for _, td := range w.Model.Types {
		filters = append(filters, td.Name)
	}
	c.Users = []sut.LURequest{{Object: r.Object, Relation: r.Relation, Filter: filters[rapid.IntRange(0, len(filters)-1).Draw(t, "luFilter")], Ctx: r.Ctx}}
	c.Expand = []m.Request{gen.RequestFor(t, w, o)}
	return c
}

// genC04Links: only Check requests, on recursive relations whose links (parent objects, member
// usersets) are conditioned: the contextual tuples are mostly conditioned links, one or more levels
// below the requested object.
func genC04Links(t *rapid.T) C04Case {
	o := worldOpts()
	o.ForceLinkConds = true
	w := gen.CycleWorld(t, o)
	c := C04Case{World: w}
	for _, tu := range w.Tuples {
		p := 4
		if tu.Cond != "" {
			p = 2
		}
		c.Split = append(c.Split, rapid.IntRange(0, p-1).Draw(t, "ctx") == 0)
	}
	tn := gen.CycleType(w)
	for i, n := 0, rapid.IntRange(3, 6).Draw(t, "nChecks"); i < n; i++ {
		r := gen.RequestFor(t, w, o)
		r.Contextual = nil
		r.Object = fmt.Sprintf("%s:%d", tn, rapid.IntRange(0, o.MaxIDs-1).Draw(t, "obj"))
		if rapid.IntRange(0, 3).Draw(t, "subjectZero") > 0 {
			r.User = "user:0"
		}
		c.Checks = append(c.Checks, r)
	}
	return c
}

func TestC04Links(t *testing.T) { fw.Run(t, "C04", genC04Links, checkC04) }

func cachedServer() *sut.SUT {
	return pooled("cached-all", func() []server.OpenFGAServiceV1Option {
		return []server.OpenFGAServiceV1Option{
			server.WithCheckQueryCacheEnabled(true), server.WithCheckQueryCacheTTL(time.Hour), server.WithCheckCacheLimit(100000),
			server.WithCheckIteratorCacheEnabled(true), server.WithCheckIteratorCacheTTL(time.Hour), server.WithCheckIteratorCacheMaxResults(1000),
			server.WithListObjectsIteratorCacheEnabled(true), server.WithListObjectsIteratorCacheTTL(time.Hour), server.WithListObjectsIteratorCacheMaxResults(1000),
			server.WithSharedIteratorEnabled(true),
			server.WithListObjectsDeadline(30 * time.Second),
		}
	})
}

type answer struct {
	val string
	err bool
}

func ansCheck(a bool, err error) answer {
	if err != nil {
		return answer{err: true, val: err.Error()}
	}
	return answer{val: fmt.Sprint(a)}
}

func ansList(xs []string, err error) answer {
	if err != nil {
		return answer{err: true, val: err.Error()}
	}
	ys := append([]string{}, xs...)
	sort.Strings(ys)
	return answer{val: fmt.Sprint(ys)}
}

func checkC04(env *fw.Env, c C04Case) *fw.Failure {
	if len(c.Split) != len(c.World.Tuples) {
		return nil
	}
	var S, X []m.Tuple
	for i, t := range c.World.Tuples {
		if c.Split[i] && len(X) < 20 {
			X = append(X, t)
		} else {
			S = append(S, t)
		}
	}
	wS := gen.World{Model: c.World.Model, Tuples: S, Left: c.World.Left}
	plainSrv := semkit.Plain()
	storeS, modelS, f := semkit.SetupWorld(env, plainSrv, wS)
	if f != nil || storeS == "" {
		return f
	}
	storeT, modelT, f := semkit.SetupWorld(env, plainSrv, c.World)
	if f != nil || storeT == "" {
		return f
	}
	ctx := context.Background()
	cached := cachedServer()
	v2, _ := v2Server()
	classes := semkit.ModelClasses(c.World.Model)
	matters := false
	mismatch := func(api string, req any, a, b answer) *fw.Failure {
		if a.err && b.err {
			return nil
		}
		if a.err != b.err || a.val != b.val {
			return fw.Failf("", "%s(%+v): with the tuples %v passed as contextual tuples the answer is %q (error=%v), with the same tuples stored it is %q (error=%v)\n%s",
				api, req, X, a.val, a.err, b.val, b.err, semkit.Describe(wS))
		}
		return nil
	}
	for _, r := range c.Checks {
		rx := r
		rx.Contextual = X
		expS, unkS := semkit.RefCheck(wS, r)
		expT, unkT := semkit.RefCheck(c.World, r)
		if expS != expT {
			matters = true
		}
		if unkS || unkT {
			classes = append(classes, "unevaluable-condition")
			continue // error-vs-answer divergences under unevaluable conditions are C01's business
		}
		// default engine through the cached server: X, then no X (leak), then X again
		a1 := ansCheck(cached.Check(ctx, storeS, modelS, rx))
		leak := ansCheck(cached.Check(ctx, storeS, modelS, r))
		a1b := ansCheck(cached.Check(ctx, storeS, modelS, rx))
		b := ansCheck(plainSrv.Check(ctx, storeT, modelT, r))
		if semkit.IsTooComplex(fmt.Errorf("%s", a1.val)) && a1.err || b.err && semkit.IsTooComplex(fmt.Errorf("%s", b.val)) {
			env.Rec.Add("depth_excluded", 1)
			continue
		}
		// a mismatch is attributed to the side that deviates from the reference (root-cause signature, if recorded)
		classify := func(f *fw.Failure, a answer) *fw.Failure {
			switch {
			case !a.err && (a.val == "true") != (expT == refsem.True):
				f.Signature = semkit.ClassifyCheck(wS, rx, expT, a.val == "true", nil)
			case !b.err && (b.val == "true") != (expT == refsem.True):
				f.Signature = semkit.ClassifyCheck(c.World, r, expT, b.val == "true", nil)
			}
			return f
		}
		if f := mismatch("Check", r, a1, b); f != nil {
			return classify(f, a1)
		}
		if f := mismatch("Check(repeated after a request without contextual tuples)", r, a1b, b); f != nil {
			return classify(f, a1b)
		}
		if !leak.err {
			if ok, why := semkit.CompareCheck(expS, unkS, leak.val == "true", nil); !ok {
				return fw.Failf(semkit.ClassifyCheck(wS, r, expS, leak.val == "true", nil), "Check(%s) WITHOUT contextual tuples, issued right after the same request with contextual tuples %v on a caching server: %s\n%s", r, X, why, semkit.Describe(wS))
			}
		}
		// weighted engine
		if m.UserKind(r.User) == "object" {
			a2 := ansCheck(v2.Check(ctx, storeS, modelS, rx))
			b2 := ansCheck(v2.Check(ctx, storeT, modelT, r))
			if f := mismatch("weighted-graph Check", r, a2, b2); f != nil {
				return f
			}
		}
		// BatchCheck
		bo, err := cached.BatchCheck(ctx, storeS, modelS, []sut.BatchItem{{ID: "a", Req: rx}, {ID: "b", Req: r}}, openfgav1.ConsistencyPreference_UNSPECIFIED)
		if err == nil {
			ba := answer{val: fmt.Sprint(bo["a"].Allowed), err: bo["a"].Err != ""}
			if f := mismatch("BatchCheck", r, ba, b); f != nil {
				return f
			}
			if bo["b"].Err == "" && bo["b"].Allowed != (expS == refsem.True) {
				return fw.Failf("", "BatchCheck item without contextual tuples (next to the same item with contextual tuples %v) answered %v, reference for the stored tuples alone is %v: Check(%s)\n%s", X, bo["b"].Allowed, expS, r, semkit.Describe(wS))
			}
		}
	}
	for _, lr := range c.Lists {
		lx := lr
		lx.Contextual = X
		tS, tT := semkit.RefListObjects(wS, lr), semkit.RefListObjects(c.World, lr)
		if !reflect.DeepEqual(tS.True, tT.True) {
			matters = true
		}
		if tS.HasUnknown || tT.HasUnknown {
			continue
		}
		for _, eng := range loEngines {
			if skipKnownPipelineHang(env, eng, c.World.Model) {
				continue
			}
			var a, b answer
			srv := loServer(eng, 0, false)
			if !semkit.Watchdog(semkit.HangLimit(), func() {
				a = ansList(srv.ListObjects(ctx, storeS, modelS, lx, openfgav1.ConsistencyPreference_UNSPECIFIED))
				b = ansList(srv.ListObjects(ctx, storeT, modelT, lr, openfgav1.ConsistencyPreference_UNSPECIFIED))
			}) {
				sig := ""
				if eng == "pipeline" && hasDuplicateDirectOperands(c.World.Model) {
					sig = SigPipelineHangDuplicateDirect
				}
				return fw.Failf(sig, "ListObjects(%+v) engine=%s hung\n%s", lr, eng, semkit.Describe(c.World))
			}
			classes = append(classes, "lo:"+eng)
			if (a.err || b.err) && eng == "weighted" && hasDuplicateDirectOperands(c.World.Model) {
				continue // recorded finding C05/weighted-listobjects-internal-error-duplicate-direct-operands
			}
			if f := mismatch("ListObjects["+eng+"]", lr, a, b); f != nil {
				return f
			}
		}
		// cached server, interleaved
		a := ansList(cached.ListObjects(ctx, storeS, modelS, lx, openfgav1.ConsistencyPreference_UNSPECIFIED))
		leak := ansList(cached.ListObjects(ctx, storeS, modelS, lr, openfgav1.ConsistencyPreference_UNSPECIFIED))
		if !a.err && a.val != fmt.Sprint(tT.True) && len(tT.True) > 0 {
			return fw.Failf("", "ListObjects(%+v) with contextual tuples %v on the caching server returned %s, reference %v\n%s", lr, X, a.val, tT.True, semkit.Describe(wS))
		}
		if !leak.err && leak.val != fmt.Sprint(tS.True) && !(len(tS.True) == 0 && leak.val == "[]") {
			return fw.Failf("", "ListObjects(%+v) WITHOUT contextual tuples right after the same request with %v returned %s, reference for the stored tuples alone %v\n%s", lr, X, leak.val, tS.True, semkit.Describe(wS))
		}
	}
	for _, lu := range c.Users {
		lx := lu
		lx.Contextual = X
		a := ansList(plainSrv.ListUsers(ctx, storeS, modelS, lx, openfgav1.ConsistencyPreference_UNSPECIFIED))
		b := ansList(plainSrv.ListUsers(ctx, storeT, modelT, lu, openfgav1.ConsistencyPreference_UNSPECIFIED))
		if !(a.err || b.err) {
			if f := mismatch("ListUsers", lu, a, b); f != nil {
				// ListUsers' bookkeeping of exclusions below the queried relation loses or adds entries
				// depending on evaluation order (recorded under C06); such a model cannot tell anything
				// about contextual versus stored tuples
				if semkit.ExclusionBelow(c.World.Model, lu.Object, lu.Relation) {
					f.Signature = "C06/permitted-user-not-returned/nested-exclusion"
				}
				return f
			}
		}
		classes = append(classes, "listusers")
	}
	for _, r := range c.Expand {
		ta, ea := plainSrv.Expand(ctx, storeS, modelS, r.Object, r.Relation, X)
		tb, eb := plainSrv.Expand(ctx, storeT, modelT, r.Object, r.Relation, nil)
		if (ea != nil) != (eb != nil) {
			return fw.Failf("", "Expand(%s#%s): error with contextual tuples %v = %v, with stored tuples = %v\n%s", r.Object, r.Relation, X, ea, eb, semkit.Describe(wS))
		}
		if ea == nil {
			ta, tb = proto.Clone(ta).(*openfgav1.UsersetTree), proto.Clone(tb).(*openfgav1.UsersetTree)
			sortTTUComputed(ta.GetRoot())
			sortTTUComputed(tb.GetRoot())
		}
		if ea == nil && !proto.Equal(ta, tb) {
			return fw.Failf("", "Expand(%s#%s): tree with contextual tuples %v differs from the tree with the same tuples stored:\n%v\nvs\n%v\n%s", r.Object, r.Relation, X, ta, tb, semkit.Describe(wS))
		}
		classes = append(classes, "expand")
	}
	// non-persistence
	got, err := plainSrv.ReadAll(storeS)
	if err != nil {
		return fw.Failf("harness/read", "ReadAll: %v", err)
	}
	want := append(append([]m.Tuple{}, S...), c.World.Left...)
	if len(got) != len(want) {
		return fw.Failf("", "after the requests the store holds %d tuples, expected the %d stored ones (contextual tuples must not persist): %v", len(got), len(want), got)
	}
	nt := len(X) > 0 && matters
	var sample any
	if nt {
		sample = map[string]any{"model": c.World.Model.DSL(), "stored": semkit.TupleStrings(S), "contextual": semkit.TupleStrings(X), "check0": c.Checks[0].String()}
	}
	env.Rec.Case(c, nt, sample, semkit.SortedSet(classes)...)
	return nil
}

func TestC04(t *testing.T) { fw.Run(t, "C04", genC04, checkC04) }

// sortTTUComputed orders the computed usersets of tuple-to-userset leaves (the
// API does not document their order).
func sortTTUComputed(n *openfgav1.UsersetTree_Node) {
	if n == nil {
		return
	}
	if ttu := n.GetLeaf().GetTupleToUserset(); ttu != nil {
		sort.Slice(ttu.Computed, func(i, j int) bool { return ttu.Computed[i].GetUserset() < ttu.Computed[j].GetUserset() })
	}
	for _, c := range n.GetUnion().GetNodes() {
		sortTTUComputed(c)
	}
	for _, c := range n.GetIntersection().GetNodes() {
		sortTTUComputed(c)
	}
	sortTTUComputed(n.GetDifference().GetBase())
	sortTTUComputed(n.GetDifference().GetSubtract())
}
