package props

import (
	"context"
	"fmt"
	"testing"
	"time"

	openfgav1 "github.com/openfga/api/proto/openfga/v1"
	"pgregory.net/rapid"

	"github.com/openfga/openfga/pkg/server"
	"github.com/openfga/openfga/pkg/storage"
	"github.com/openfga/openfga/verifharness/fw"
	"github.com/openfga/openfga/verifharness/gen"
	"github.com/openfga/openfga/verifharness/m"
	"github.com/openfga/openfga/verifharness/refsem"
	"github.com/openfga/openfga/verifharness/semkit"
	"github.com/openfga/openfga/verifharness/sut"
)

// C11 — The cache controller bounds staleness after writes.
//
// Server with the cache controller (minimum interval 0, so every cached
// request triggers an invalidation run) and exactly one of {query cache,
// iterator caches}. Rounds of: cached Check/ListObjects (populate), a write or
// delete chosen to flip the answer (sometimes a bulk write of 60 tuples, more
// than one changelog page; sometimes preceded by a sleep longer than the
// iterator-cache TTL so that only part of the changes fall inside the TTL
// window), then "await": keep triggering until TWO invalidation runs that read
// the write have finished (runs are serialised per store, so the first of
// them has completed entirely), then the same requests again, cached. Oracle:
// after the await every cached answer equals the reference for the current
// store state; with no write in the history every answer equals the reference.
//
// Non-trivial: the reference answer of a re-asked request was flipped by the
// write and the request had been answered (cache populated) before the write.

type C11Round struct {
	Req    m.Request `json:"req"`
	List   bool      `json:"list"`
	Bulk   bool      `json:"bulk"`
	Sleep  bool      `json:"sleep"`   // sleep past the iterator TTL before the write
	NoWrite bool     `json:"nowrite"` // control round without a write
	Wild    bool     `json:"wild"`    // the write grants through the typed wildcard of the subject's type
	// Late: wait half the iterator TTL between the write and the invalidation runs, so that the
	// invalidation marker (and whatever is cached after it) is younger than the write.
	Late bool `json:"late,omitempty"`
	// Window: issue this round's write when the previous write has just left the iterator-TTL
	// window (its marker and the entries cached after it are still alive): the next invalidation
	// run is then partial and marks only what this write touches.
	Window bool `json:"window,omitempty"`
}

type C11Case struct {
	World   gen.World  `json:"world"`
	Query   bool       `json:"query"` // true: query cache, false: iterator caches
	Engine  string     `json:"engine"`
	ShortIt bool       `json:"short_iter_ttl"`
	Rounds  []C11Round `json:"rounds"`
}

func genC11(t *rapid.T) C11Case {
	o := worldOpts()
	w := gen.AnyWorld(t, o)
	c := C11Case{World: w, Query: rapid.Bool().Draw(t, "query"), Engine: []string{"v1", "v2"}[rapid.IntRange(0, 1).Draw(t, "engine")],
		ShortIt: rapid.IntRange(0, 2).Draw(t, "shortIter") == 0}
	if rapid.IntRange(0, 5).Draw(t, "windowScenario") == 0 {
		// two changes to the same request, the second one (through the wildcard where the model allows
		// it) issued in the window described at C11Round.Window
		c.Query, c.ShortIt = false, true
		r := gen.RequestFor(t, w, o)
		r.Contextual = nil
		r2 := r
		if ot, _ := m.SplitObject(r.Object); rapid.IntRange(0, 3).Draw(t, "otherObject") > 0 {
			r2.Object = ot + ":w" // another object of the type: the listing for the subject must grow
		}
		c.Rounds = []C11Round{{Req: r, List: true, Sleep: true, Late: true, Wild: rapid.Bool().Draw(t, "wild0")}, {Req: r2, List: true, Wild: rapid.Bool().Draw(t, "wild1"), Window: true}}
		return c
	}
	n := rapid.IntRange(1, 4).Draw(t, "rounds")
	for i := 0; i < n; i++ {
		r := gen.RequestFor(t, w, o)
		r.Contextual = nil
		if i > 0 && rapid.Bool().Draw(t, "sameRequest") {
			r = c.Rounds[i-1].Req // several changes touching the same subject/object: older ones age out of the TTL window
		}
		c.Rounds = append(c.Rounds, C11Round{Req: r, Wild: rapid.IntRange(0, 2).Draw(t, "wild") == 0, List: rapid.Bool().Draw(t, "list"), Bulk: rapid.IntRange(0, 4).Draw(t, "bulk") == 0,
			Sleep: c.ShortIt && rapid.Bool().Draw(t, "sleep"), NoWrite: rapid.IntRange(0, 5).Draw(t, "nowrite") == 0})
	}
	return c
}

func lastChangeTime(ds storage.OpenFGADatastore, storeID string) time.Time {
	ch, _, err := ds.ReadChanges(context.Background(), storeID, storage.ReadChangesFilter{}, storage.ReadChangesOptions{SortDesc: true, Pagination: storage.PaginationOptions{PageSize: 1}})
	if err != nil || len(ch) == 0 {
		return time.Time{}
	}
	return ch[0].GetTimestamp().AsTime()
}

// awaitInvalidation triggers invalidation runs until two runs that saw the
// latest change have finished. It returns false on time-out (inconclusive).
func awaitInvalidation(s *sut.SUT, cc *countingCache, storeID, modelID string, trigger m.Request) bool {
	want := lastChangeTime(s.DS, storeID)
	key := storage.ChangelogCacheKey(storeID)
	seen := map[time.Time]bool{}
	deadline := time.Now().Add(3 * time.Second)
	for time.Now().Before(deadline) {
		_, _ = checkWithConsistency(s, context.Background(), storeID, modelID, trigger, false)
		time.Sleep(2 * time.Millisecond)
		if e, ok := cc.inner.Get(key).(*storage.ChangelogCacheEntry); ok && e != nil && !e.LastModified.Before(want) {
			seen[e.LastChecked] = true
			if len(seen) >= 3 {
				return true
			}
		}
	}
	return false
}

func checkC11(env *fw.Env, c C11Case) *fw.Failure {
	storeID, modelID, f := semkit.SetupWorld(env, semkit.Plain(), c.World)
	if f != nil || storeID == "" {
		return f
	}
	iterTTL := time.Hour
	if c.ShortIt {
		iterTTL = 150 * time.Millisecond
		for _, r := range c.Rounds {
			if r.Window {
				iterTTL = 400 * time.Millisecond
			}
		}
	}
	var lastWrite time.Time
	cc := newCountingCache()
	opts := []server.OpenFGAServiceV1Option{
		server.WithCheckCache(cc),
		server.WithCacheControllerEnabled(true), server.WithCacheControllerTTL(time.Nanosecond),
		server.WithCheckQueryCacheEnabled(c.Query), server.WithCheckQueryCacheTTL(time.Hour),
		server.WithCheckIteratorCacheEnabled(!c.Query), server.WithCheckIteratorCacheTTL(iterTTL), server.WithCheckIteratorCacheMaxResults(1000),
		server.WithListObjectsIteratorCacheEnabled(!c.Query), server.WithListObjectsIteratorCacheTTL(iterTTL), server.WithListObjectsIteratorCacheMaxResults(1000),
		server.WithListObjectsDeadline(30 * time.Second),
	}
	if c.Engine == "v2" {
		opts = append(opts, server.WithExperimentals("weighted_graph_check"))
	}
	s := sut.NewWithDS(semkit.Plain().DS, opts...)
	defer s.Close()
	cur := gen.World{Model: c.World.Model, Tuples: append([]m.Tuple{}, c.World.Tuples...), Left: c.World.Left}
	classes := []string{"engine:" + c.Engine, fmt.Sprintf("query-cache:%v", c.Query), fmt.Sprintf("short-iter-ttl:%v", c.ShortIt)}
	ctx := context.Background()
	trigger := m.Request{Object: "", Relation: "", User: ""}
	flipped := false
	ask := func(r C11Round, phase string) *fw.Failure {
		if c.Engine == "v2" && m.UserKind(r.Req.User) != "object" {
			return nil
		}
		a, err := checkWithConsistency(s, ctx, storeID, modelID, r.Req, false)
		if f := judgeCheckAgainst(cur, r.Req, a, err, phase+" cached"); f != nil {
			if f.Signature == "" && c.Engine == "v2" && err != nil {
				_, unk := semkit.RefCheck(cur, r.Req)
				f.Signature = semkit.ClassifyV2Error(cur, err, unk)
			}
			return f
		}
		if r.List && !hasDuplicateDirectOperands(c.World.Model) {
			ot, _ := m.SplitObject(r.Req.Object)
			lo := loFromRequest(ot, r.Req)
			objs, err := s.ListObjects(ctx, storeID, modelID, lo, openfgav1.ConsistencyPreference_MINIMIZE_LATENCY)
			truth := semkit.RefListObjects(cur, lo)
			if sig, why := judgeLO(cur, LOCall{Req: lo, Engine: "classic"}, truth, objs, err); why != "" && !semkit.IsTooComplex(err) {
				return fw.Failf(sig, "%s cached ListObjects(%+v): %s\n%s", phase, lo, why, semkit.Describe(cur))
			}
		}
		return nil
	}
	for i, r := range c.Rounds {
		if trigger.Object == "" {
			trigger = r.Req
		}
		// populate (store unchanged since the last await: answers must be exact)
		if f := ask(r, fmt.Sprintf("round %d before the write:", i)); f != nil {
			return f
		}
		if r.NoWrite {
			classes = append(classes, "round-without-write")
			continue
		}
		if r.Sleep {
			time.Sleep(iterTTL + 60*time.Millisecond)
			classes = append(classes, "sleep-past-iterator-ttl")
		}
		if r.Window && c.ShortIt && !lastWrite.IsZero() {
			time.Sleep(time.Until(lastWrite.Add(iterTTL + iterTTL/4)))
			classes = append(classes, "write-just-after-previous-left-ttl-window")
		}
		lastWrite = time.Now()
		writeFailed := false
		before, _ := semkit.RefCheck(cur, r.Req)
		g := m.Tuple{Object: r.Req.Object, Relation: r.Req.Relation, User: r.Req.User}
		if r.Wild && m.UserKind(r.Req.User) == "object" {
			if wg := (m.Tuple{Object: r.Req.Object, Relation: r.Req.Relation, User: m.UserType(r.Req.User) + ":*"}); refsem.ValidForRead(c.World.Model, wg) == refsem.OK {
				g = wg
				classes = append(classes, "wildcard-write")
			}
		}
		idx := -1
		for j, tu := range cur.Tuples {
			if tu.Key() == g.Key() {
				idx = j
			}
		}
		switch {
		case idx >= 0:
			if err := s.DeleteAPI(storeID, modelID, []m.Tuple{cur.Tuples[idx]}); err != nil {
				writeFailed = true
			} else {
				applyWrite(&cur, "delete", []m.Tuple{g})
				classes = append(classes, "delete")
			}
		case refsem.ValidForRead(c.World.Model, g) == refsem.OK && g.User != g.Object+"#"+g.Relation && !inLeft(c.World.Left, g):
			if err := s.WriteAPI(storeID, modelID, []m.Tuple{g}); err != nil {
				writeFailed = true
			} else {
				applyWrite(&cur, "write", []m.Tuple{g})
				classes = append(classes, "write")
			}
		case len(cur.Tuples) > 0:
			d := cur.Tuples[0]
			if err := s.DeleteAPI(storeID, modelID, []m.Tuple{d}); err != nil {
				writeFailed = true
			} else {
				applyWrite(&cur, "delete", []m.Tuple{d})
				classes = append(classes, "delete-other")
			}
		default:
			continue
		}
		if r.Bulk {
			// more recent changes than one changelog page: 60 unrelated tuples on a fresh object
			slot := firstDirectUserSlot(c.World.Model)
			if slot != nil {
				var bulk []m.Tuple
				for k := 0; k < 60; k++ {
					bulk = append(bulk, m.Tuple{Object: fmt.Sprintf("%s:bulk%d", slot.typ, i), Relation: slot.rel, User: fmt.Sprintf("%s:b%d", slot.user, k)})
				}
				if err := s.WriteAPI(storeID, modelID, bulk); err != nil {
				writeFailed = true
			} else {
					applyWrite(&cur, "write", bulk)
					classes = append(classes, "bulk-write>page")
				}
			}
		}
		if writeFailed {
			// a Write that reports an error may or may not have been applied (e.g. a request time-out on a
			// loaded machine): the reference state is unknown from here on
			env.Rec.Inconclusive()
			env.Rec.Case(c, false, nil, append(classes, "write-error")...)
			return nil
		}
		after, _ := semkit.RefCheck(cur, r.Req)
		if r.Late && c.ShortIt {
			time.Sleep(iterTTL / 2)
			classes = append(classes, "late-invalidation")
		}
		if !awaitInvalidation(s, cc, storeID, modelID, trigger) {
			env.Rec.Inconclusive()
			env.Rec.Case(c, false, nil, append(classes, "await-timeout")...)
			return nil
		}
		if before != after {
			flipped = true
			classes = append(classes, "answer-flipped-by-write")
		}
		if f := ask(r, fmt.Sprintf("round %d after a completed invalidation run:", i)); f != nil {
			return f
		}
		// earlier rounds' requests too
		for j := 0; j < i; j++ {
			if f := ask(c.Rounds[j], fmt.Sprintf("round %d (request of round %d) after a completed invalidation run:", i, j)); f != nil {
				return f
			}
		}
	}
	var sample any
	if flipped {
		sample = map[string]any{"model": c.World.Model.DSL(), "tuples": semkit.TupleStrings(c.World.Tuples), "query_cache": c.Query, "engine": c.Engine, "rounds": c.Rounds}
	}
	env.Rec.Case(c, flipped, sample, semkit.SortedSet(classes)...)
	return nil
}

type directSlot struct{ typ, rel, user string }

// firstDirectUserSlot finds a relation that accepts plain, unconditioned objects of some type.
func firstDirectUserSlot(mo *m.Model) *directSlot {
	for _, td := range mo.Types {
		for _, r := range td.Relations {
			if !r.Rewrite.HasThis() {
				continue
			}
			for _, re := range r.Restr {
				if re.Kind() == "object" && re.Cond == "" {
					return &directSlot{td.Name, r.Name, re.Type}
				}
			}
		}
	}
	return nil
}

func TestC11(t *testing.T) { fw.Run(t, "C11", genC11, checkC11) }
