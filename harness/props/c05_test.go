package props

import (
	"context"
	"fmt"
	"strings"
	"sync"
	"testing"
	"time"

	openfgav1 "github.com/openfga/api/proto/openfga/v1"
	"pgregory.net/rapid"

	"github.com/openfga/openfga/pkg/server"
	"github.com/openfga/openfga/verifharness/fw"
	"github.com/openfga/openfga/verifharness/gen"
	"github.com/openfga/openfga/verifharness/m"
	"github.com/openfga/openfga/verifharness/semkit"
	"github.com/openfga/openfga/verifharness/sut"
)

// C05 — ListObjects returns exactly the permitted objects.
//
// Non-trivial: the reference truth has >= 2 objects and is a strict subset of
// the candidate objects of the type (or the result limit cuts a truth of >= 2).

type LOCall struct {
	Req      sut.LORequest `json:"req"`
	Engine   string        `json:"engine"` // classic | weighted | pipeline
	Limit    int           `json:"limit"`  // 0 = server default (1000)
	Streamed bool          `json:"streamed"`
	ShortDL  bool          `json:"short_deadline"` // 1ms deadline: soundness only
}

type C05Case struct {
	World gen.World `json:"world"`
	Calls []LOCall  `json:"calls"`
	// Parallel > 1: every call is issued that many times at once (each response is judged)
	Parallel int `json:"parallel,omitempty"`
}

var loEngines = []string{"classic", "weighted", "pipeline"}

func engineOpts(engine string) []server.OpenFGAServiceV1Option {
	switch engine {
	case "weighted":
		return []server.OpenFGAServiceV1Option{server.WithExperimentals("enable-list-objects-optimizations")}
	case "pipeline":
		return []server.OpenFGAServiceV1Option{server.WithExperimentals("pipeline_list_objects"), server.WithListObjectsPipelineEnabled(true)}
	}
	return nil
}

var (
	srvMu   sync.Mutex
	srvPool = map[string]*sut.SUT{}
)

// pooled returns a process-wide server for the given key, built over the
// datastore shared with semkit.Plain() so that one world serves every
// configuration.
func pooled(key string, opts func() []server.OpenFGAServiceV1Option) *sut.SUT {
	srvMu.Lock()
	defer srvMu.Unlock()
	if s, ok := srvPool[key]; ok {
		return s
	}
	s := sut.NewWithDS(semkit.Plain().DS, opts()...)
	srvPool[key] = s
	return s
}

func loServer(engine string, limit int, shortDL bool) *sut.SUT {
	return pooled(fmt.Sprintf("lo/%s/%d/%v", engine, limit, shortDL), func() []server.OpenFGAServiceV1Option {
		o := engineOpts(engine)
		if limit > 0 {
			o = append(o, server.WithListObjectsMaxResults(uint32(limit)))
		}
		if shortDL {
			o = append(o, server.WithListObjectsDeadline(time.Millisecond))
		} else {
			o = append(o, server.WithListObjectsDeadline(30*time.Second))
		}
		return o
	})
}

func genLORequest(t *rapid.T, w gen.World, o gen.Opts) sut.LORequest {
	r := gen.RequestFor(t, w, o)
	typ, _ := m.SplitObject(r.Object)
	lr := sut.LORequest{Type: typ, Relation: r.Relation, User: r.User, Ctx: r.Ctx}
	if rapid.IntRange(0, 3).Draw(t, "loWithContextual") == 0 {
		lr.Contextual = gen.Contextual(t, w, o, 3)
	}
	return lr
}

func genC05(t *rapid.T) C05Case {
	o := worldOpts()
	w := gen.AnyWorld(t, o)
	c := C05Case{World: w}
	n := rapid.IntRange(2, 6).Draw(t, "nCalls")
	for i := 0; i < n; i++ {
		call := LOCall{Req: genLORequest(t, w, o), Engine: loEngines[rapid.IntRange(0, 2).Draw(t, "engine")]}
		switch rapid.IntRange(0, 9).Draw(t, "limitKind") {
		case 0, 1:
			call.Limit = 1
		case 2:
			call.Limit = 2
		case 3:
			call.Limit = 3
		}
		call.Streamed = rapid.IntRange(0, 3).Draw(t, "streamed") == 0
		if call.Streamed {
			call.Limit = 0 // documented: the result limit applies to the non-streaming API only
		}
		call.ShortDL = rapid.IntRange(0, 11).Draw(t, "shortDeadline") == 0
		c.Calls = append(c.Calls, call)
	}
	return c
}

// runLO executes one call.
func runLO(s *sut.SUT, storeID, modelID string, call LOCall) ([]string, error, time.Duration) {
	t0 := time.Now()
	var objs []string
	var err error
	if call.Streamed {
		objs, err = s.StreamedListObjects(context.Background(), storeID, modelID, call.Req, openfgav1.ConsistencyPreference_UNSPECIFIED)
	} else {
		objs, err = s.ListObjects(context.Background(), storeID, modelID, call.Req, openfgav1.ConsistencyPreference_UNSPECIFIED)
	}
	return objs, err, time.Since(t0)
}

// judgeLO applies the C05 oracle to one response. complete=false skips the
// completeness clause (deadline-truncated calls).
func judgeLO(w gen.World, call LOCall, truth semkit.LOTruth, objs []string, err error) (string, string) {
	if err != nil {
		if truth.HasUnknown {
			// the pipeline engine reports an unevaluable condition as an internal
			// error, the others as a validation error; the property does not
			// prescribe the error kind
			return "", ""
		}
		if call.ShortDL {
			return "", "" // a 1ms deadline may surface as an error
		}
		sig := ""
		if call.Engine == "weighted" && strings.Contains(err.Error(), "Internal Server Error") && hasDuplicateDirectOperands(w.Model) {
			sig = SigWeightedLODuplicateDirect
		}
		return sig, fmt.Sprintf("request failed: %v", err)
	}
	if d := semkit.Dups(objs); len(d) > 0 {
		return "", fmt.Sprintf("objects returned twice: %v (response %v)", d, objs)
	}
	for _, o := range objs {
		if !semkit.Contains(truth.True, o) {
			if semkit.Contains(truth.Unknown, o) {
				sig := ""
				if semkit.SwallowedNextToValidSiblingGrants(w, m.Request{Object: o, Relation: call.Req.Relation, User: call.Req.User, Ctx: call.Req.Ctx, Contextual: call.Req.Contextual}) {
					// the per-candidate Check loses the unevaluable member of a subtracted set next to a
					// valid sibling of the same read (recorded under C01, grant variant)
					sig = semkit.SigSwallowedConditionError
				}
				return sig, fmt.Sprintf("returned %s whose permission hinges on a condition that cannot be evaluated (truth=%v)", o, truth.True)
			}
			sig := ""
			if semkit.ExclusionGrantThroughSortedReadDedup(w, m.Request{User: call.Req.User, Ctx: call.Req.Ctx, Contextual: call.Req.Contextual}) {
				// the per-candidate Check loses a member of a subtracted set (recorded under C01: sorted read keeps
				// the first tuple per object before filtering)
				sig = semkit.SigSortedReadDedup
			}
			return sig, fmt.Sprintf("returned %s which does not hold the relation (truth=%v)", o, truth.True)
		}
	}
	if call.ShortDL {
		return "", ""
	}
	if truth.HasUnknown {
		return "", "" // completeness is only asserted when every condition is evaluable
	}
	want := len(truth.True)
	if call.Limit > 0 && call.Limit < want {
		want = call.Limit
	}
	if len(objs) != want {
		sig := ""
		if len(objs) < want && semkit.ExclusionOverTupleCycle(w, m.Request{Contextual: call.Req.Contextual}) {
			// an object is missing and the data has a tuple cycle under an exclusion: the per-candidate Check
			// denies on a cycle in the subtract branch (recorded under C01)
			sig = semkit.SigExclusionCycleDeny
		}
		return sig, fmt.Sprintf("returned %d objects %v, expected %d of truth=%v (limit %d)", len(objs), objs, want, truth.True, call.Limit)
	}
	return "", ""
}

// SigWeightedLODuplicateDirect: the weighted-graph ListObjects engine answers
// "Internal Server Error" for a model (accepted by WriteAuthorizationModel, not
// expressible in the DSL) whose relation repeats the direct-assignment operand
// under an intersection or exclusion, even on an empty store.
const SigWeightedLODuplicateDirect = "C05/weighted-listobjects-internal-error-duplicate-direct-operands"

// SigPipelineHangDuplicateDirect: the streaming ListObjects pipeline never
// returns (and ignores its deadline) for a model whose relation repeats the
// direct-assignment operand (API-only model shape), even on an empty store:
// workers of the cycle group wait for each other's media to close.
const SigPipelineHangDuplicateDirect = "C20/pipeline-listobjects-hang-duplicate-direct-operands"

// skipKnownPipelineHang excludes, by construction, the calls that would hit
// the recorded pipeline hang (each costs the whole hang limit and leaks
// goroutines); the exclusion is counted. Replays are never skipped.
func skipKnownPipelineHang(env *fw.Env, engine string, mo *m.Model) bool {
	if env.Replay || engine != "pipeline" || !hasDuplicateDirectOperands(mo) || !fw.IsKnown(SigPipelineHangDuplicateDirect) {
		return false
	}
	env.Rec.Known(SigPipelineHangDuplicateDirect)
	return true
}

func hasDuplicateDirectOperands(mo *m.Model) bool {
	// the recorded pipeline / weighted ListObjects findings live on relations whose rewrite names the same
	// operand twice: the direct assignment (API-only shape) or - same deadlock of the pipeline's cycle
	// group - the same computed relation / tuple-to-userset under one operator (r0 from parent or r0 from parent)
	for _, td := range mo.Types {
		for _, r := range td.Relations {
			dup := false
			r.Rewrite.Walk(func(n *m.Rewrite) {
				if n.Kind != m.Intersection && n.Kind != m.Difference && n.Kind != m.Union {
					return
				}
				cnt := 0
				n.Walk(func(x *m.Rewrite) {
					if x.Kind == m.This {
						cnt++
					}
				})
				if cnt >= 2 {
					dup = true
				}
				seen := map[string]bool{}
				for _, ch := range n.Children {
					if ch.Kind == m.Computed || ch.Kind == m.TTU {
						k := ch.Kind + "|" + ch.Tupleset + "|" + ch.Rel
						if seen[k] {
							dup = true
						}
						seen[k] = true
					}
				}
			})
			if dup {
				return true
			}
		}
	}
	return false
}

func checkC05(env *fw.Env, c C05Case) *fw.Failure {
	storeID, modelID, f := semkit.SetupWorld(env, semkit.Plain(), c.World)
	if f != nil || storeID == "" {
		return f
	}
	classes := semkit.ModelClasses(c.World.Model)
	nt := false
	var sample any
	for _, call := range c.Calls {
		truth := semkit.RefListObjects(c.World, call.Req)
		s := loServer(call.Engine, call.Limit, call.ShortDL)
		var objs []string
		var err error
		var dt time.Duration
		if skipKnownPipelineHang(env, call.Engine, c.World.Model) {
			continue
		}
		if c.Parallel > 1 {
			type res struct {
				objs []string
				err  error
			}
			out := make([]res, c.Parallel)
			done := semkit.Watchdog(semkit.HangLimit(), func() {
				var wg sync.WaitGroup
				for i := range out {
					wg.Add(1)
					go func(i int) {
						defer wg.Done()
						out[i].objs, out[i].err, _ = runLO(s, storeID, modelID, call)
					}(i)
				}
				wg.Wait()
			})
			if !done {
				return fw.Failf("", "%d concurrent ListObjects(%+v) engine=%s did not return within the hang limit\n%s", c.Parallel, call.Req, call.Engine, semkit.Describe(c.World))
			}
			for _, r := range out[1:] {
				if sig, why := judgeLO(c.World, call, truth, r.objs, r.err); why != "" && !semkit.IsTooComplex(r.err) {
					return fw.Failf(sig, "ListObjects(%+v) engine=%s limit=%d (one of %d concurrent calls): %s\n%s", call.Req, call.Engine, call.Limit, c.Parallel, why, semkit.Describe(c.World))
				}
			}
			objs, err = out[0].objs, out[0].err
			classes = append(classes, "concurrent-calls")
		} else if !semkit.Watchdog(semkit.HangLimit(), func() { objs, err, dt = runLO(s, storeID, modelID, call) }) {
			sig := ""
			if call.Engine == "pipeline" && hasDuplicateDirectOperands(c.World.Model) {
				sig = SigPipelineHangDuplicateDirect
			}
			return fw.Failf(sig, "ListObjects(%+v) engine=%s did not return within the hang limit (deadline %v)\n%s\nstuck goroutines:\n%s",
				call.Req, call.Engine, map[bool]string{true: "1ms", false: "30s"}[call.ShortDL], semkit.Describe(c.World), semkit.GoroutineDump("listobjects"))
		}
		if semkit.IsTooComplex(err) {
			env.Rec.Add("depth_excluded", 1)
			continue
		}
		if dt > 10*time.Second {
			env.Rec.Inconclusive()
			continue
		}
		classes = append(classes, "engine:"+call.Engine, "subject:"+m.UserKind(call.Req.User))
		if call.Streamed {
			classes = append(classes, "streamed")
		}
		if call.ShortDL {
			classes = append(classes, "short-deadline")
		}
		if err != nil {
			classes = append(classes, "error")
		}
		if call.Limit > 0 && call.Limit < len(truth.True) {
			classes = append(classes, "limit-applied")
		}
		if truth.HasUnknown {
			classes = append(classes, "has-unevaluable-condition")
		}
		if sig, why := judgeLO(c.World, call, truth, objs, err); why != "" {
			return fw.Failf(sig, "ListObjects(%+v) engine=%s limit=%d streamed=%v: %s\n%s", call.Req, call.Engine, call.Limit, call.Streamed, why, semkit.Describe(c.World))
		}
		if len(truth.True) >= 2 && (len(truth.True) < truth.Candidates || (call.Limit > 0 && call.Limit < len(truth.True))) && err == nil {
			nt = true
			if sample == nil {
				sample = map[string]any{"model": c.World.Model.DSL(), "tuples": semkit.TupleStrings(c.World.Tuples), "request": fmt.Sprintf("%+v", call.Req), "engine": call.Engine, "limit": call.Limit, "truth": truth.True, "returned": objs}
			}
		}
	}
	env.Rec.Case(c, nt, sample, semkit.SortedSet(classes)...)
	return nil
}

func TestC05(t *testing.T) { fw.Run(t, "C05", genC05, checkC05) }

// ---- C05 with many candidates under a small result limit -----------------
//
// One subject, 10-60 candidate objects most of which hold the relation, a
// relation that needs a per-candidate evaluation (intersection / exclusion) or
// not, and the same limited call repeated: the candidates' evaluations finish
// concurrently on the real scheduler, which is where a limit that is checked
// and counted in two steps lets extra objects through. Oracle as for C05.

func genC05Limit(t *rapid.T) C05Case {
	this := func() *m.Rewrite { return &m.Rewrite{Kind: m.This} }
	user := []m.Restriction{{Type: "user"}}
	op := []string{m.Intersection, m.Difference, m.Union}[rapid.IntRange(0, 2).Draw(t, "op")]
	mo := &m.Model{Types: []m.TypeDef{{Name: "user"}, {Name: "doc", Relations: []m.Relation{
		{Name: "r0", Rewrite: this(), Restr: user},
		{Name: "r1", Rewrite: this(), Restr: user},
		{Name: "r2", Rewrite: &m.Rewrite{Kind: op, Children: []*m.Rewrite{{Kind: m.Computed, Rel: "r0"}, {Kind: m.Computed, Rel: "r1"}}}},
	}}}}
	// a quarter of the cases: the second operand only has conditioned tuples whose parameter is missing
	// from the request, so every object that has one is neither in nor out (the call must fail or leave it out)
	unevaluable := rapid.IntRange(0, 3).Draw(t, "unevaluable") == 0
	if unevaluable {
		mo.Conds = []m.Condition{{Name: "c0", Params: []m.Param{{Name: "x", Type: "int"}}, Expr: m.Cmp("<", m.Var("x"), m.Lit("int", 10))}}
		mo.Types[1].Relations[1].Restr = []m.Restriction{{Type: "user"}, {Type: "user", Cond: "c0"}}
	}
	n := rapid.IntRange(10, 60).Draw(t, "nObjects")
	p1 := 85
	if op == m.Difference {
		p1 = 15
	}
	var ts []m.Tuple
	for i := 0; i < n; i++ {
		if chance100(t, "has0", 85) {
			ts = append(ts, m.Tuple{Object: fmt.Sprintf("doc:%d", i), Relation: "r0", User: "user:0"})
		}
		if chance100(t, "has1", p1) {
			tu := m.Tuple{Object: fmt.Sprintf("doc:%d", i), Relation: "r1", User: "user:0"}
			if unevaluable {
				tu.Cond = "c0"
			}
			ts = append(ts, tu)
		}
	}
	c := C05Case{World: gen.World{Model: mo, Tuples: ts}}
	call := LOCall{Req: sut.LORequest{Type: "doc", Relation: "r2", User: "user:0"}, Engine: loEngines[rapid.IntRange(0, 2).Draw(t, "engine")], Limit: rapid.IntRange(1, 3).Draw(t, "limit")}
	for i, k := 0, rapid.IntRange(2, 4).Draw(t, "repeats"); i < k; i++ {
		c.Calls = append(c.Calls, call)
	}
	c.Parallel = []int{1, 4, 8}[rapid.IntRange(0, 2).Draw(t, "parallel")]
	return c
}

func chance100(t *rapid.T, label string, pct int) bool {
	return rapid.IntRange(0, 99).Draw(t, label) < pct
}

func TestC05Limit(t *testing.T) { fw.Run(t, "C05", genC05Limit, checkC05) }
