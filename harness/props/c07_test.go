package props

import (
	"context"
	"fmt"
	"sort"
	"testing"
	"time"

	openfgav1 "github.com/openfga/api/proto/openfga/v1"
	"pgregory.net/rapid"

	"github.com/openfga/openfga/pkg/server"
	"github.com/openfga/openfga/verifharness/conv"
	"github.com/openfga/openfga/verifharness/fw"
	"github.com/openfga/openfga/verifharness/gen"
	"github.com/openfga/openfga/verifharness/m"
	"github.com/openfga/openfga/verifharness/refsem"
	"github.com/openfga/openfga/verifharness/semkit"
	"github.com/openfga/openfga/verifharness/sut"
)

// C07 — BatchCheck is equivalent to individual Checks.
//
// A batch of 1-50 items is built from a few base requests and deliberate
// near-duplicates of them: same tuple key with another context, other
// contextual tuples, the context fields or the contextual tuples in another
// order (semantically equal: must be de-duplicated, not answered differently).
// Oracle per correlation id: the outcome equals a standalone Check on a
// cache-free server and satisfies the reference semantics; the result map has
// exactly the submitted ids.
//
// Non-trivial: the batch holds two items with the same tuple key whose
// reference outcomes differ, and two items that are semantically equal.

type C07Case struct {
	World gen.World       `json:"world"`
	Items []sut.BatchItem `json:"items"`
	Burst bool            `json:"burst"`
}

func genC07(t *rapid.T) C07Case {
	o := worldOpts()
	w := gen.AnyWorld(t, o)
	base := genRequests(t, w, o, 1, 4)
	var items []sut.BatchItem
	n := rapid.IntRange(1, 14).Draw(t, "nItems")
	if fw.TierIsThorough() {
		n = rapid.IntRange(1, 50).Draw(t, "nItemsT")
	}
	for i := 0; i < n; i++ {
		r := base[rapid.IntRange(0, len(base)-1).Draw(t, "base")]
		switch rapid.IntRange(0, 5).Draw(t, "variant") {
		case 1: // another context
			r.Ctx = gen.RequestContext(t, w.Model)
		case 2: // other contextual tuples
			r.Contextual = gen.Contextual(t, w, o, 3)
		case 3: // reversed contextual tuples (semantically equal)
			ct := append([]m.Tuple{}, r.Contextual...)
			for a, b := 0, len(ct)-1; a < b; a, b = a+1, b-1 {
				ct[a], ct[b] = ct[b], ct[a]
			}
			r.Contextual = ct
		case 4: // no context at all
			r.Ctx = nil
		case 5: // a contextual tuple that grants the request directly (flips the outcome of an otherwise equal item)
			g := m.Tuple{Object: r.Object, Relation: r.Relation, User: r.User}
			stored := false
			for _, tu := range append(append([]m.Tuple{}, w.Tuples...), w.Left...) {
				if tu.Key() == g.Key() {
					stored = true
				}
			}
			if !stored && refsem.ValidForRead(w.Model, g) == refsem.OK && g.User != g.Object+"#"+g.Relation {
				r.Contextual = []m.Tuple{g}
			}
		}
		items = append(items, sut.BatchItem{ID: fmt.Sprintf("id%d", i), Req: r})
	}
	return C07Case{World: w, Items: items, Burst: rapid.IntRange(0, 4).Draw(t, "burst") == 0}
}

func batchServer() *sut.SUT {
	return pooled("batch", func() []server.OpenFGAServiceV1Option {
		return []server.OpenFGAServiceV1Option{server.WithMaxChecksPerBatchCheck(50), server.WithMaxConcurrentChecksPerBatchCheck(8)}
	})
}

func batchCachedServer() *sut.SUT {
	return pooled("batch-cached", func() []server.OpenFGAServiceV1Option {
		return []server.OpenFGAServiceV1Option{server.WithMaxChecksPerBatchCheck(50), server.WithMaxConcurrentChecksPerBatchCheck(8),
			server.WithCheckQueryCacheEnabled(true), server.WithCheckQueryCacheTTL(time.Hour), server.WithCheckCacheLimit(100000)}
	})
}

func semanticKey(r m.Request) string {
	ct := semkit.TupleStrings(r.Contextual)
	sort.Strings(ct)
	return fmt.Sprintf("%s#%s@%s|%v|%v", r.Object, r.Relation, r.User, conv.Normalize(r.Ctx), ct)
}

func checkC07(env *fw.Env, c C07Case) *fw.Failure {
	plainSrv := semkit.Plain()
	storeID, modelID, f := semkit.SetupWorld(env, plainSrv, c.World)
	if f != nil || storeID == "" {
		return f
	}
	ctx := context.Background()
	classes := semkit.ModelClasses(c.World.Model)
	for _, srv := range []*sut.SUT{batchServer(), batchCachedServer()} {
		res, err := srv.BatchCheck(ctx, storeID, modelID, c.Items, openfgav1.ConsistencyPreference_UNSPECIFIED)
		if err != nil {
			// a whole-request failure is legitimate only for request-level validation problems
			return fw.Failf("", "BatchCheck of %d valid items failed as a whole: %v\n%s", len(c.Items), err, semkit.Describe(c.World))
		}
		if len(res) != len(c.Items) {
			return fw.Failf("", "BatchCheck returned %d results for %d correlation ids: %v", len(res), len(c.Items), res)
		}
		byKeyOutcome := map[string]map[string]bool{}
		semSeen := map[string]int{}
		for _, it := range c.Items {
			out, ok := res[it.ID]
			if !ok {
				return fw.Failf("", "BatchCheck result misses correlation id %s", it.ID)
			}
			exp, unk := semkit.RefCheck(c.World, it.Req)
			a, e := plainSrv.Check(ctx, storeID, modelID, it.Req)
			if semkit.IsTooComplex(e) || (out.Err != "" && semkit.IsTooComplex(fmt.Errorf("%s", out.Err))) {
				env.Rec.Add("depth_excluded", 1)
				continue
			}
			var berr error
			if out.Err != "" {
				berr = fmt.Errorf("%s", out.Err)
			}
			// (1) agreement with the reference (names the wrong side)
			if ok, why := semkit.CompareCheck(exp, unk, out.Allowed, berr); !ok {
				return fw.Failf(semkit.ClassifyCheck(c.World, it.Req, exp, out.Allowed, berr), "BatchCheck item %s Check(%s): %s (standalone Check: allowed=%v err=%v)\n%s", it.ID, it.Req, why, a, e, semkit.Describe(c.World))
			}
			// (2) agreement with the standalone Check
			if (e != nil) != (berr != nil) {
				if !unk {
					return fw.Failf("", "BatchCheck item %s Check(%s): batch error=%v, standalone error=%v\n%s", it.ID, it.Req, berr, e, semkit.Describe(c.World))
				}
			} else if e == nil && a != out.Allowed {
				// the batch answer satisfied the reference above, so the standalone Check is the side that deviates
				return fw.Failf(semkit.ClassifyCheck(c.World, it.Req, exp, a, e), "BatchCheck item %s Check(%s): batch answered %v, standalone Check %v (reference %v)\n%s", it.ID, it.Req, out.Allowed, a, exp, semkit.Describe(c.World))
			}
			k := it.Req.Object + "#" + it.Req.Relation + "@" + it.Req.User
			if byKeyOutcome[k] == nil {
				byKeyOutcome[k] = map[string]bool{}
			}
			byKeyOutcome[k][exp.String()] = true
			semSeen[semanticKey(it.Req)]++
		}
		differing, dup := false, false
		for _, s := range byKeyOutcome {
			if len(s) > 1 {
				differing = true
			}
		}
		for _, n := range semSeen {
			if n > 1 {
				dup = true
			}
		}
		if differing {
			classes = append(classes, "same-key-different-outcome")
		}
		if dup {
			classes = append(classes, "semantic-duplicates")
		}
		_ = refsem.True
	}
	// A write that grants the first denied item directly, then the same batch with HIGHER_CONSISTENCY
	// on the caching server (its cache now holds the answers from before the write): every item must
	// answer for the store as it is now, like a standalone HIGHER_CONSISTENCY Check does.
	for _, it := range c.Items {
		g := m.Tuple{Object: it.Req.Object, Relation: it.Req.Relation, User: it.Req.User}
		if exp, unk := semkit.RefCheck(c.World, it.Req); exp != refsem.False || unk || len(it.Req.Contextual) > 0 ||
			refsem.ValidForRead(c.World.Model, g) != refsem.OK || g.User == g.Object+"#"+g.Relation || inLeft(c.World.Left, g) {
			continue
		}
		// (a contextual tuple with the same key as a stored one shadows it: keep the keys disjoint)
		shadowed := false
		for _, other := range c.Items {
			for _, ct := range other.Req.Contextual {
				shadowed = shadowed || ct.Key() == g.Key()
			}
		}
		if shadowed {
			continue
		}
		srv := batchCachedServer()
		if err := srv.WriteAPI(storeID, modelID, []m.Tuple{g}); err != nil {
			break
		}
		after := gen.World{Model: c.World.Model, Tuples: append(append([]m.Tuple{}, c.World.Tuples...), g), Left: c.World.Left}
		res, err := srv.BatchCheck(ctx, storeID, modelID, c.Items, openfgav1.ConsistencyPreference_HIGHER_CONSISTENCY)
		if err != nil {
			return fw.Failf("", "BatchCheck (HIGHER_CONSISTENCY) of %d valid items failed as a whole: %v", len(c.Items), err)
		}
		for _, it2 := range c.Items {
			out := res[it2.ID]
			var berr error
			if out.Err != "" {
				berr = fmt.Errorf("%s", out.Err)
			}
			if berr != nil && semkit.IsTooComplex(berr) {
				continue
			}
			exp2, unk2 := semkit.RefCheck(after, it2.Req)
			if ok, why := semkit.CompareCheck(exp2, unk2, out.Allowed, berr); !ok {
				if sig := semkit.ClassifyCheck(after, it2.Req, exp2, out.Allowed, berr); sig != "" {
					return fw.Failf(sig, "BatchCheck (HIGHER_CONSISTENCY) item %s Check(%s): %s", it2.ID, it2.Req, why)
				}
				return fw.Failf("", "after writing %s, BatchCheck with HIGHER_CONSISTENCY on the caching server, item %s Check(%s): %s\n%s", g, it2.ID, it2.Req, why, semkit.Describe(after))
			}
		}
		classes = append(classes, "higher-consistency-batch-after-answer-flipping-write")
		break
	}
	has := func(cl string) bool {
		for _, x := range classes {
			if x == cl {
				return true
			}
		}
		return false
	}
	nt := has("same-key-different-outcome") && has("semantic-duplicates")
	var sample any
	if nt {
		var its []string
		for _, it := range c.Items {
			its = append(its, it.ID+": "+it.Req.String())
		}
		sample = map[string]any{"model": c.World.Model.DSL(), "tuples": semkit.TupleStrings(c.World.Tuples), "items": its}
	}
	env.Rec.Case(c, nt, sample, semkit.SortedSet(classes)...)
	return nil
}

func TestC07(t *testing.T) { fw.Run(t, "C07", genC07, checkC07) }
