package props

import (
	"context"
	"encoding/json"
	"fmt"
	"reflect"
	"sort"
	"sync"
	"testing"

	openfgav1 "github.com/openfga/api/proto/openfga/v1"
	"pgregory.net/rapid"

	"github.com/openfga/openfga/verifharness/conv"
	"github.com/openfga/openfga/verifharness/fw"
	"github.com/openfga/openfga/verifharness/gen"
	"github.com/openfga/openfga/verifharness/m"
	"github.com/openfga/openfga/verifharness/refsem"
	"github.com/openfga/openfga/verifharness/semkit"
	"github.com/openfga/openfga/verifharness/sut"
)

// C16 — Stores are isolated from each other.
//
// Three stores share one model — the SAME model id, written straight into the
// datastore — and the same type, relation, object and user names, but hold
// different tuples. Every cache is on (fresh server per case). The same
// requests are issued against all three stores in an interleaved order;
// every answer must match the reference for its own store. Read and
// ReadChanges show only the store's own tuples, assertions are per store, and
// after DeleteStore the store is gone from GetStore/ListStores while the
// others answer as before.
//
// Non-trivial: some request has different reference answers in two stores and
// a cache hit occurred during the history.

type C16Case struct {
	Model  *m.Model        `json:"model"`
	Tuples [3][]m.Tuple    `json:"tuples"`
	Checks []m.Request     `json:"checks"`
	Lists  []sut.LORequest `json:"lists"`
	Users  []sut.LURequest `json:"users"`
	Order  []int           `json:"order"`  // store visiting order per request (permutation seeds)
	Delete int             `json:"delete"` // store index deleted at the end (-1 none)
	Cfg    CacheCfg        `json:"cfg"`
}

func genC16(t *rapid.T) C16Case {
	o := worldOpts()
	o.Leftovers = false
	mo := gen.Model(t, o)
	c := C16Case{Model: mo, Delete: rapid.IntRange(-1, 2).Draw(t, "delete")}
	for i := 0; i < 3; i++ {
		v, _ := gen.Tuples(t, mo, o)
		c.Tuples[i] = v
	}
	w0 := gen.World{Model: mo, Tuples: append(append(append([]m.Tuple{}, c.Tuples[0]...), c.Tuples[1]...), c.Tuples[2]...)}
	c.Checks = genRequests(t, w0, o, 3, 8)
	for i := range c.Checks {
		c.Checks[i].Contextual = nil
	}
	lr := genLORequest(t, w0, o)
	lr.Contextual = nil
	c.Lists = []sut.LORequest{lr}
	r := gen.RequestFor(t, w0, o)
	c.Users = []sut.LURequest{{Object: r.Object, Relation: r.Relation, Filter: "user", Ctx: r.Ctx}}
	n := len(c.Checks) + 2
	for i := 0; i < n; i++ {
		c.Order = append(c.Order, rapid.IntRange(0, 5).Draw(t, "order"))
	}
	c.Cfg = CacheCfg{Query: true, CheckIter: true, LOIter: true, Shared: true, Controller: rapid.Bool().Draw(t, "controller"),
		IterMax: 1000, Engine: []string{"v1", "v2"}[rapid.IntRange(0, 1).Draw(t, "engine")], Breadth: 10}
	return c
}

var perms3 = [6][3]int{{0, 1, 2}, {0, 2, 1}, {1, 0, 2}, {1, 2, 0}, {2, 0, 1}, {2, 1, 0}}

func checkC16(env *fw.Env, c C16Case) *fw.Failure {
	if !refsem.Stratified(c.Model) {
		env.Rec.Discard("not-stratified")
		return nil
	}
	s, cc, _ := newCachedSUT(c.Cfg, false)
	defer s.Close()
	ctx := context.Background()
	modelID := sut.NewULID()
	var stores [3]string
	var worlds [3]gen.World
	var models [3]*m.Model
	twisted, probe, probeReq := twistModel(c.Model)
	for i := 0; i < 3; i++ {
		stores[i] = s.CreateStore(fmt.Sprintf("verif%d", i))
		if i == 0 {
			// validate through the API once (another id), then plant the shared id everywhere
			if _, err := s.WriteModel(stores[i], c.Model); err != nil {
				env.Rec.Discard("model-rejected")
				return nil
			}
		}
		models[i] = c.Model
		if i > 0 {
			models[i] = twisted // same model id, different content
		}
		if err := s.DS.WriteAuthorizationModel(ctx, stores[i], conv.Model(models[i], modelID)); err != nil {
			return fw.Failf("harness/model-write", "datastore WriteAuthorizationModel: %v", err)
		}
		// de-duplicate keys per store
		seen := map[string]bool{}
		var ts []m.Tuple
		for _, t := range c.Tuples[i] {
			if !seen[t.Key()] {
				seen[t.Key()] = true
				ts = append(ts, t)
			}
		}
		if i > 0 && probe != nil {
			ts = append(ts, *probe)
		}
		worlds[i] = gen.World{Model: models[i], Tuples: ts}
		// written through the datastore so that the typesystem cache stays cold for the burst below
		if err := s.WriteRaw(stores[i], ts); err != nil {
			return fw.Failf("harness/raw-write-failed", "store %d: %v", i, err)
		}
	}
	// cold burst: the same request, same model id, all stores at once, before anything resolved the
	// model (the stores' models differ, so a typesystem resolved for another store gives a wrong answer)
	if probeReq != nil {
		type res struct {
			i   int
			a   bool
			err error
		}
		out := make(chan res, 12)
		var wg sync.WaitGroup
		for k := 0; k < 12; k++ {
			wg.Add(1)
			go func(i int) {
				defer wg.Done()
				a, err := checkWithConsistency(s, ctx, stores[i], modelID, *probeReq, true)
				out <- res{i, a, err}
			}(k % 3)
		}
		wg.Wait()
		close(out)
		for r := range out {
			exp, unk := semkit.RefCheck(worlds[r.i], *probeReq)
			if ok, why := semkit.CompareCheck(exp, unk, r.a, r.err); !ok && !semkit.IsTooComplex(r.err) {
				return fw.Failf("", "cold concurrent burst, store %d of 3 (same model id, different models): Check(%s): %s\n%s", r.i, *probeReq, why, semkit.Describe(worlds[r.i]))
			}
		}
	}
	classes := append(semkit.ModelClasses(c.Model), "engine:"+c.Cfg.Engine)
	differs := false
	order := func(k int) [3]int {
		if k < len(c.Order) {
			return perms3[c.Order[k]%6]
		}
		return perms3[0]
	}
	for k, r := range c.Checks {
		var refs [3]refsem.Outcome
		for _, i := range order(k) {
			exp, unk := semkit.RefCheck(worlds[i], r)
			refs[i] = exp
			a, err := checkWithConsistency(s, ctx, stores[i], modelID, r, false)
			if semkit.IsTooComplex(err) {
				continue
			}
			if c.Cfg.Engine == "v2" && m.UserKind(r.User) != "object" {
				continue
			}
			if ok, why := semkit.CompareCheck(exp, unk, a, err); !ok {
				sig := semkit.ClassifyCheck(worlds[i], r, exp, a, err)
				if sig == "" && c.Cfg.Engine == "v2" {
					sig = semkit.ClassifyV2Error(worlds[i], err, unk)
				}
				return fw.Failf(sig, "store %d of 3 (same model id, same names): Check(%s): %s\nother stores' references: %v\n%s", i, r, why, refs, semkit.Describe(worlds[i]))
			}
		}
		if refs[0] != refs[1] || refs[1] != refs[2] {
			differs = true
		}
	}
	if !hasDuplicateDirectOperands(c.Model) {
		for k, lr := range c.Lists {
			for _, i := range order(len(c.Checks) + k) {
				truth := semkit.RefListObjects(worlds[i], lr)
				objs, err := s.ListObjects(ctx, stores[i], modelID, lr, openfgav1.ConsistencyPreference_UNSPECIFIED)
				if sig, why := judgeLO(worlds[i], LOCall{Req: lr, Engine: "classic"}, truth, objs, err); why != "" && !semkit.IsTooComplex(err) {
					return fw.Failf(sig, "store %d: ListObjects(%+v): %s\n%s", i, lr, why, semkit.Describe(worlds[i]))
				}
			}
		}
	}
	for _, lu := range c.Users {
		for i := 0; i < 3; i++ {
			users, err := s.ListUsers(ctx, stores[i], modelID, lu, openfgav1.ConsistencyPreference_UNSPECIFIED)
			if err != nil {
				continue
			}
			for _, u := range users {
				// soundness only against the own store (completeness is C06's business)
				if m.UserKind(u) != "object" {
					continue
				}
				ev := refsem.NewEval(worlds[i].Model, semkit.EvalTuples(worlds[i], nil), u, lu.Ctx, lu.Object)
				if ev.Holds(lu.Object, lu.Relation) == refsem.False && !hasExclusion(c.Model) {
					return fw.Failf("", "store %d: ListUsers(%+v) returned %s which does not hold the relation in this store\n%s", i, lu, u, semkit.Describe(worlds[i]))
				}
			}
		}
	}
	// Read / ReadChanges / assertions per store
	for i := 0; i < 3; i++ {
		got, err := s.ReadAll(stores[i])
		if err != nil {
			return fw.Failf("harness/read", "ReadAll: %v", err)
		}
		want := append([]m.Tuple{}, worlds[i].Tuples...)
		m.SortTuples(want)
		if !reflect.DeepEqual(semkit.TupleStrings(got), semkit.TupleStrings(want)) && !(len(got) == 0 && len(want) == 0) {
			return fw.Failf("", "store %d: Read returned %v, the store holds %v", i, got, want)
		}
		ch, err := s.Srv.ReadChanges(ctx, &openfgav1.ReadChangesRequest{StoreId: stores[i]})
		if err == nil {
			var keys []string
			for _, x := range ch.GetChanges() {
				keys = append(keys, conv.FromTupleKey(x.GetTupleKey()).Key())
			}
			sort.Strings(keys)
			var wk []string
			for _, t := range want {
				wk = append(wk, t.Key())
			}
			sort.Strings(wk)
			if len(wk) <= 50 && !reflect.DeepEqual(keys, wk) && len(keys)+len(wk) > 0 {
				return fw.Failf("", "store %d: ReadChanges lists %v, the store's history is %v", i, keys, wk)
			}
		}
	}
	if c.Delete >= 0 {
		d := c.Delete
		if _, err := s.Srv.DeleteStore(ctx, &openfgav1.DeleteStoreRequest{StoreId: stores[d]}); err != nil {
			return fw.Failf("", "DeleteStore(store %d) failed: %v", d, err)
		}
		if _, err := s.Srv.GetStore(ctx, &openfgav1.GetStoreRequest{StoreId: stores[d]}); err == nil {
			return fw.Failf("", "GetStore still returns store %d after DeleteStore", d)
		}
		ls, err := s.Srv.ListStores(ctx, &openfgav1.ListStoresRequest{})
		if err == nil {
			for _, st := range ls.GetStores() {
				if st.GetId() == stores[d] {
					return fw.Failf("", "ListStores still returns store %d after DeleteStore", d)
				}
			}
		}
		classes = append(classes, "delete-store")
		// the other stores answer as before
		for i := 0; i < 3; i++ {
			if i == d || len(c.Checks) == 0 {
				continue
			}
			r := c.Checks[0]
			if c.Cfg.Engine == "v2" && m.UserKind(r.User) != "object" {
				continue
			}
			exp, unk := semkit.RefCheck(worlds[i], r)
			a, err := checkWithConsistency(s, ctx, stores[i], modelID, r, true)
			if ok, why := semkit.CompareCheck(exp, unk, a, err); !ok && !semkit.IsTooComplex(err) {
				return fw.Failf(semkit.ClassifyCheck(worlds[i], r, exp, a, err), "store %d after deleting store %d: Check(%s): %s", i, d, r, why)
			}
		}
	}
	hit := cc.hits.Load() > 0
	if hit {
		classes = append(classes, "cache-hit")
	}
	if differs {
		classes = append(classes, "same-request-different-truth-across-stores")
	}
	nt := hit && differs
	var sample any
	if nt {
		sample = map[string]any{"model": c.Model.DSL(), "store0": semkit.TupleStrings(worlds[0].Tuples), "store1": semkit.TupleStrings(worlds[1].Tuples), "store2": semkit.TupleStrings(worlds[2].Tuples), "check0": c.Checks[0].String()}
	}
	env.Rec.Case(c, nt, sample, semkit.SortedSet(classes)...)
	return nil
}

// twistModel returns a variant of the model in which one directly assignable
// relation R additionally includes a new relation "extra" (R: [..] or extra), a
// tuple on extra and the request whose answer tells the two models apart.
func twistModel(mo *m.Model) (*m.Model, *m.Tuple, *m.Request) {
	b, _ := json.Marshal(mo)
	var tw m.Model
	_ = json.Unmarshal(b, &tw)
	for ti := range tw.Types {
		td := &tw.Types[ti]
		for ri := range td.Relations {
			r := &td.Relations[ri]
			if r.Rewrite.Kind != m.This || tw.IsTupleset(td.Name, r.Name) {
				continue
			}
			plainUser := false
			for _, re := range r.Restr {
				if re.Type == "user" && re.Kind() == "object" && re.Cond == "" {
					plainUser = true
				}
			}
			if !plainUser {
				continue
			}
			r.Rewrite = &m.Rewrite{Kind: m.Union, Children: []*m.Rewrite{{Kind: m.This}, {Kind: m.Computed, Rel: "extra"}}}
			td.Relations = append(td.Relations, m.Relation{Name: "extra", Rewrite: &m.Rewrite{Kind: m.This}, Restr: []m.Restriction{{Type: "user"}}})
			obj := td.Name + ":0"
			return &tw, &m.Tuple{Object: obj, Relation: "extra", User: "user:9"}, &m.Request{Object: obj, Relation: td.Relations[ri].Name, User: "user:9"}
		}
	}
	return mo, nil, nil
}

func hasExclusion(mo *m.Model) bool {
	for _, td := range mo.Types {
		for _, r := range td.Relations {
			ex := false
			r.Rewrite.Walk(func(n *m.Rewrite) {
				if n.Kind == m.Difference {
					ex = true
				}
			})
			if ex {
				return true
			}
		}
	}
	return false
}

func TestC16(t *testing.T) { fw.Run(t, "C16", genC16, checkC16) }
