package props

import (
	"context"
	"strings"
	"sync"
	"testing"
	"time"

	"go.uber.org/zap"
	"go.uber.org/zap/zapcore"
	"go.uber.org/zap/zaptest/observer"
	"pgregory.net/rapid"

	"github.com/openfga/openfga/pkg/logger"
	"github.com/openfga/openfga/pkg/server"
	"github.com/openfga/openfga/verifharness/fw"
	"github.com/openfga/openfga/verifharness/gen"
	"github.com/openfga/openfga/verifharness/m"
	"github.com/openfga/openfga/verifharness/refsem"
	"github.com/openfga/openfga/verifharness/semkit"
	"github.com/openfga/openfga/verifharness/sut"
)

// C03 — Weighted-graph Check agrees with the default engine.
//
// Every request goes through Server.Check with the weighted_graph_check
// experimental flag (capturing logger) and without it.
//   - object subjects: a returned decision must satisfy the reference semantics;
//   - userset / wildcard subjects: if the flag-on answer differs from the
//     flag-off answer the log must carry the breaking-change warning;
//   - the flag-on path may fail only where the default engine fails too (it
//     falls back otherwise), except for documented request-shape errors.
//
// Non-trivial: the weighted path itself answered (no fall-back was logged) and
// the model has a non-direct rewrite.

type C03Case struct {
	World    gen.World   `json:"world"`
	Requests []m.Request `json:"requests"`
}

func genC03(t *rapid.T) C03Case {
	o := worldOpts()
	w := gen.AnyWorld(t, o)
	return C03Case{World: w, Requests: genRequests(t, w, o, 4, 10)}
}

var (
	v2Once sync.Once
	v2SUT  *sut.SUT
	v2Logs *observer.ObservedLogs
)

func v2Server() (*sut.SUT, *observer.ObservedLogs) {
	v2Once.Do(func() {
		core, logs := observer.New(zapcore.WarnLevel)
		v2Logs = logs
		v2SUT = sut.NewWithDS(semkit.Plain().DS,
			server.WithExperimentals("weighted_graph_check"),
			// a resolution that does not terminate must come back as a failed request (the default engine answers
			// these worlds in milliseconds), not wedge the process
			server.WithRequestTimeout(4*time.Second),
			server.WithLogger(&logger.ZapLogger{Logger: zap.New(core)}))
	})
	return v2SUT, v2Logs
}

const (
	msgBreaking = "potential v2 Check resolution breaking change"
	msgFallback = "Weighted graph check failed, falling back"
)

func checkC03(env *fw.Env, c C03Case) *fw.Failure {
	v1 := semkit.Plain()
	storeID, modelID, f := semkit.SetupWorld(env, v1, c.World)
	if f != nil || storeID == "" {
		return f
	}
	v2, logs := v2Server()
	classes := semkit.ModelClasses(c.World.Model)
	weightedAnswered := false
	for _, r := range c.Requests {
		exp, unk := semkit.RefCheck(c.World, r)
		a1, e1 := v1.Check(context.Background(), storeID, modelID, r)
		logs.TakeAll()
		a2, e2 := v2.Check(context.Background(), storeID, modelID, r)
		entries := logs.TakeAll()
		if semkit.IsTooComplex(e1) || semkit.IsTooComplex(e2) {
			env.Rec.Add("depth_excluded", 1)
			continue
		}
		fellBack, flagged, reason := false, false, ""
		for _, e := range entries {
			if strings.Contains(e.Message, msgFallback) {
				fellBack = true
			}
			if strings.Contains(e.Message, msgBreaking) {
				flagged = true
				if v, ok := e.ContextMap()["reason"].(string); ok {
					reason = v
				}
			}
		}
		kind := m.UserKind(r.User)
		classes = append(classes, "subject:"+kind)
		if fellBack {
			classes = append(classes, "fell-back")
		} else if e2 == nil {
			weightedAnswered = true
			classes = append(classes, "weighted-answered")
		}
		if flagged {
			classes = append(classes, "detector:"+reason)
		}
		describe := func() string {
			return semkit.Describe(c.World)
		}
		// errors: the flag-on server may fail only where the default engine fails
		if e2 != nil && e1 == nil {
			if unk && semkit.IsConditionError(e2) {
				classes = append(classes, "v2-condition-error-v1-decided")
			} else {
				return fw.Failf(semkit.ClassifyV2Error(c.World, e2, unk), "Check(%s): the weighted-graph server failed (%v) although the default engine answered %v (reference %v, fell back=%v)\n%s", r, e2, a1, exp, fellBack, describe())
			}
			continue
		}
		if e2 != nil {
			continue
		}
		if kind == "object" {
			if ok, why := semkit.CompareCheck(exp, unk, a2, e2); !ok {
				sig := semkit.ClassifyCheck(c.World, r, exp, a2, e2)
				return fw.Failf(sig, "weighted-graph Check(%s) (fell back=%v): %s\n%s", r, fellBack, why, describe())
			}
			continue
		}
		// userset / wildcard subjects
		if e1 == nil && a1 != a2 && !flagged {
			return fw.Failf(classifyC03Undetected(r, exp, a1, a2), "Check(%s): weighted-graph server answered %v, default engine %v (reference %v), and no breaking-change warning was logged (fell back=%v)\n%s",
				r, a2, a1, exp, fellBack, describe())
		}
		if e1 == nil && a1 != a2 {
			classes = append(classes, "divergence-reported:"+reason)
		}
	}
	// the same world on the sqlite backend (a fifth of the cases, decided by the case itself): object subjects only
	if len(c.Requests) > 0 && len(c.World.Tuples)%5 == 0 {
		if sp, sv2, err := sqliteServers(); err == nil {
			// written in the reverse order: a SQL backend returns rows in insertion order unless it sorts them
			rev := gen.World{Model: c.World.Model, Left: c.World.Left}
			for i := len(c.World.Tuples) - 1; i >= 0; i-- {
				rev.Tuples = append(rev.Tuples, c.World.Tuples[i])
			}
			if sStore, sModel, f := semkit.SetupWorld(env, sp, rev); f == nil && sStore != "" {
				for _, r := range c.Requests {
					if m.UserKind(r.User) != "object" {
						continue
					}
					exp, unk := semkit.RefCheck(c.World, r)
					for name, srv := range map[string]*sut.SUT{"default": sp, "weighted": sv2} {
						a, e := srv.Check(context.Background(), sStore, sModel, r)
						if semkit.IsTooComplex(e) || (e != nil && unk) {
							continue
						}
						if ok, why := semkit.CompareCheck(exp, unk, a, e); !ok {
							sig := semkit.ClassifyCheck(c.World, r, exp, a, e)
							if sig == "" && name == "weighted" && e != nil {
								sig = semkit.ClassifyV2Error(c.World, e, unk)
							}
							return fw.Failf(sig, "sqlite backend, %s engine: Check(%s): %s\n%s", name, r, why, semkit.Describe(c.World))
						}
					}
				}
				classes = append(classes, "backend:sqlite")
			}
		}
	}
	nt := weightedAnswered && semkit.NonDirect(c.World.Model)
	var sample any
	if nt {
		sample = map[string]any{"model": c.World.Model.DSL(), "tuples": semkit.TupleStrings(c.World.Tuples), "first_request": c.Requests[0].String()}
	}
	env.Rec.Case(c, nt, sample, semkit.SortedSet(classes)...)
	return nil
}

// SigUndetectedUsersetDivergence: for a userset subject the weighted engine
// answers false where the default engine (and the reference semantics) answer
// true, and the breaking-change detector logs nothing. The detector only
// inspects the target relation's own rewrite for four fixed shapes, while the
// weighted engine does not resolve a userset subject through any indirection
// (nested TTU/computed rewrites: r0: r1 from parent; r1: parent from parent;
// Check(group:0#r0@group:0#parent) — or a plain userset chain: r2:[user,
// group#r0]; r0:[group#r0, user]; tuples group:1#r2@group:0#r0,
// group:0#r0@group:1#r0; Check(group:1#r2@group:1#r0)).
const SigUndetectedUsersetDivergence = "C03/undetected-divergence-userset-subject-v1-true-v2-false"

// classifyC03Undetected recognises that signature: default engine true (in
// agreement with the reference), weighted engine false, userset subject that
// is not the target userset itself.
func classifyC03Undetected(r m.Request, exp refsem.Outcome, v1, v2 bool) string {
	if v1 && !v2 && exp == refsem.True && m.UserKind(r.User) == "userset" && r.User != r.Object+"#"+r.Relation {
		return SigUndetectedUsersetDivergence
	}
	return ""
}

func TestC03(t *testing.T) { fw.Run(t, "C03", genC03, checkC03) }
