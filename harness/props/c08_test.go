package props

import (
	"context"
	"fmt"
	"sync"
	"testing"
	"time"

	openfgav1 "github.com/openfga/api/proto/openfga/v1"
	"pgregory.net/rapid"

	"github.com/openfga/openfga/verifharness/fw"
	"github.com/openfga/openfga/verifharness/gen"
	"github.com/openfga/openfga/verifharness/m"
	"github.com/openfga/openfga/verifharness/semkit"
	"github.com/openfga/openfga/verifharness/sut"
)

// CacheCase is the case type of the cache properties C08, C09 and C10: a
// world, a cache configuration and a history of operations.
type CacheCase struct {
	World gen.World `json:"world"`
	Cfg   CacheCfg  `json:"cfg"`
	Ops   []QOp     `json:"ops"`
}

// closureRequest draws a request whose object/subject lies inside the data
// (that is where a cached sub-result of an earlier request gets reused).
func closureRequest(t *rapid.T, w gen.World, o gen.Opts, prev []m.Request) m.Request {
	r := gen.RequestFor(t, w, o)
	if len(prev) > 0 && rapid.IntRange(0, 2).Draw(t, "reuse") == 0 {
		p := prev[rapid.IntRange(0, len(prev)-1).Draw(t, "prevIdx")]
		switch rapid.IntRange(0, 3).Draw(t, "reuseKind") {
		case 0:
			r = p // identical request again
		case 1:
			r.User, r.Ctx = p.User, p.Ctx // same subject, other object
		case 2:
			r.Object, r.Relation = p.Object, p.Relation // same object, other subject
		default:
			r.Object, r.User, r.Ctx = p.Object, p.User, p.Ctx // same object and subject, other relation
			ot, _ := m.SplitObject(r.Object)
			if td := w.Model.Type(ot); td != nil && len(td.Relations) > 0 {
				r.Relation = td.Relations[rapid.IntRange(0, len(td.Relations)-1).Draw(t, "otherRel")].Name
			}
		}
	}
	if rapid.IntRange(0, 4).Draw(t, "ctxTuples") == 0 {
		r.Contextual = gen.Contextual(t, w, o, 2)
	}
	return r
}

func genCacheCfg(t *rapid.T, forceQuery, forceIter bool) CacheCfg {
	c := CacheCfg{
		Query:     forceQuery || rapid.Bool().Draw(t, "query"),
		CheckIter: forceIter || rapid.Bool().Draw(t, "checkIter"),
		LOIter:    forceIter || rapid.Bool().Draw(t, "loIter"),
		Shared:    forceIter || rapid.Bool().Draw(t, "shared"),
		IterMax:   []int{2, 5, 1000}[rapid.IntRange(0, 2).Draw(t, "iterMax")],
		Engine:    []string{"v1", "v2"}[rapid.IntRange(0, 1).Draw(t, "engine")],
		Breadth:   []int{1, 2, 10}[rapid.IntRange(0, 2).Draw(t, "breadth")],
	}
	return c
}

// ---- C08: the Check query cache never changes answers ----------------------
//
// Non-trivial: some step was served with at least one cache hit (counting
// cache wrapper) and the model has a non-direct rewrite.

func genC08(t *rapid.T) CacheCase {
	o := worldOpts()
	w := gen.AnyWorld(t, o)
	c := CacheCase{World: w, Cfg: genCacheCfg(t, true, false)}
	c.Cfg.CheckIter, c.Cfg.LOIter, c.Cfg.Shared = false, false, false
	n := rapid.IntRange(4, 14).Draw(t, "nOps")
	var prev []m.Request
	for i := 0; i < n; i++ {
		switch k := rapid.IntRange(0, 9).Draw(t, "opKind"); {
		case k < 6:
			r := closureRequest(t, w, o, prev)
			prev = append(prev, r)
			op := QOp{Kind: "check", Req: r}
			if rapid.IntRange(0, 5).Draw(t, "burst") == 0 {
				op.Burst = 6
			}
			c.Ops = append(c.Ops, op)
		case k < 8:
			r := closureRequest(t, w, o, prev)
			prev = append(prev, r)
			c.Ops = append(c.Ops, QOp{Kind: "batch", Req: r})
		default:
			c.Ops = append(c.Ops, QOp{Kind: "list", LO: genLORequest(t, w, o)})
		}
	}
	return c
}

func runCacheHistory(env *fw.Env, c CacheCase, withFaults bool, judgeMinimizeLatency bool) *fw.Failure {
	setup := semkit.Plain()
	if c.Cfg.Backend == "sqlite" {
		if sp, _, err := sqliteServers(); err == nil {
			setup = sp
		}
	}
	storeID, modelID, f := semkit.SetupWorld(env, setup, c.World)
	if f != nil || storeID == "" {
		return f
	}
	s, cc, fd := newCachedSUT(c.Cfg, withFaults)
	defer func() { s.Close() }()
	cur := gen.World{Model: c.World.Model, Tuples: append([]m.Tuple{}, c.World.Tuples...), Left: c.World.Left}
	classes := append(semkit.ModelClasses(c.World.Model), "engine:"+c.Cfg.Engine)
	hitSteps, faultedInside, hitAfterFault, staleWindow := 0, 0, 0, 0
	faultSeen := false
	written := false
	flipHC := 0
	readFailed := false
	ctxReadFailed := false // an earlier read failed with a context error of the datastore's own
	lastRef := map[string]string{}
	for i, op := range c.Ops {
		h0 := cc.hits.Load()
		what := fmt.Sprintf("step %d (%s, cfg %+v):", i, op.Kind, c.Cfg)
		switch op.Kind {
		case "write", "delete":
			var err error
			if op.Kind == "write" {
				err = s.WriteAPI(storeID, modelID, op.Tuples)
			} else {
				err = s.DeleteAPI(storeID, modelID, op.Tuples)
			}
			if err != nil {
				env.Rec.Add("write_rejected", 1)
				continue
			}
			applyWrite(&cur, op.Kind, op.Tuples)
			written = true
			classes = append(classes, "op:"+op.Kind)
		case "yield":
			time.Sleep(2 * time.Millisecond)
		case "reset": // a fresh server: empty caches, same store
			if !withFaults {
				s.Close()
				s, cc, fd = newCachedSUT(c.Cfg, false)
				h0 = 0
				classes = append(classes, "op:reset")
			}
		case "check":
			ctx, cancel := context.WithCancel(context.Background())
			faulted := withFaults && op.At > 0
			if faulted {
				fd.armErr(op.At, cancel, op.Fail, op.FailCtx)
			}
			n := 1
			if op.Burst > 1 && !faulted {
				n = op.Burst
				classes = append(classes, "burst")
			}
			ctx0 := ctx
			deadlined := withFaults && op.DeadlineUs > 0 && op.Burst > 1
			if deadlined {
				var cancel0 context.CancelFunc
				ctx0, cancel0 = context.WithTimeout(ctx, time.Duration(op.DeadlineUs)*time.Microsecond)
				defer cancel0()
				fd.slowNs.Store(int64(op.SlowUs) * 1000)
				classes = append(classes, "burst-with-one-copy-under-deadline+slow-datastore")
			}
			type res struct {
				a bool
				e error
			}
			out := make([]res, n)
			var wg sync.WaitGroup
			for j := 0; j < n; j++ {
				wg.Add(1)
				go func(j int) {
					defer wg.Done()
					c := ctx
					if j == 0 {
						c = ctx0
					}
					a, e := checkWithConsistency(s, c, storeID, modelID, op.Req, op.HC)
					out[j] = res{a, e}
				}(j)
			}
			if !semkit.Watchdog(semkit.HangLimit(), wg.Wait) {
				return fw.Failf("", "%s Check(%s) did not return within the hang limit\n%s\nstuck goroutines:\n%s", what, op.Req, semkit.Describe(cur), semkit.GoroutineDump("openfga/openfga/internal"))
			}
			if deadlined {
				fd.slowNs.Store(0)
			}
			fired := false
			if faulted {
				fired = fd.disarm()
			}
			cancel()
			if fired {
				readFailed = true
				if op.Fail && op.FailCtx {
					ctxReadFailed = true
				}
			}
			for j, o := range out {
				if deadlined && j == 0 {
					// the copy that ran out of time: its own outcome goes to a caller that has given up. Running
					// out of time is no datastore failure: it does not excuse later failures of clean requests
					if isCancelled(o.e) {
						faultSeen = true
						faultedInside++
						classes = append(classes, "deadlined-copy-failed")
					}
					continue
				}
				if !fired && o.e != nil && readFailed && c.Cfg.Shared && isCancelled(o.e) {
					return fw.Failf(SigSharedReplaysReadError, "%s clean Check(%s) failed with %v after an earlier request's datastore read had failed or been cancelled (shared iterators on)\n%s", what, op.Req, o.e, semkit.Describe(cur))
				}
				if fired {
					// the request whose own context was cancelled inside a read: whatever it returns goes to a
					// caller that has gone away; the property is about what LATER requests are served
					faultSeen = true
					faultedInside++
					if isCancelled(o.e) {
						classes = append(classes, "faulted-request-failed")
					} else {
						classes = append(classes, "faulted-request-answered")
					}
					continue
				}
				if op.HC || judgeMinimizeLatency || !written {
					if c.Cfg.Engine == "v2" && m.UserKind(op.Req.User) != "object" {
						// userset/wildcard subjects on the weighted engine legitimately differ from the
						// reference (C03): the oracle is the same engine with caching disabled
						nc, _ := v2Server()
						if c.Cfg.Backend == "sqlite" {
							if _, sv2, err := sqliteServers(); err == nil {
								nc = sv2
							}
						}
						ba, be := checkWithConsistency(nc, context.Background(), storeID, modelID, op.Req, true)
						// the weighted engine's answer for such subjects also varies with the strategy its planner
						// picks (recorded finding under C03), so an answer that satisfies the reference is accepted too
						condErr := func(e error) bool { return e != nil && containsAny(e.Error(), "failed to evaluate relationship condition") }
						if condErr(be) || condErr(o.e) {
							// which unevaluable tuple the engine meets first depends on evaluation order; error versus
							// answer under an unevaluable condition is C01's business, not the cache's
							classes = append(classes, "v2-nonobject-unevaluable-unjudged")
							continue
						}
						if ((be != nil) != (o.e != nil) || (be == nil && ba != o.a)) && judgeCheckAgainst(cur, op.Req, o.a, o.e, what) != nil {
							sig := ""
							if o.e == nil && ctxReadFailed && c.Cfg.Shared {
								sig = SigSharedReplaysReadError // see below: a replayed context error reads as the end of the list
							}
							return fw.Failf(sig, "%s weighted-engine Check(%s) answered %v (err %v) with caches, %v (err %v) without\n%s", what, op.Req, o.a, o.e, ba, be, semkit.Describe(cur))
						}
					} else if f := judgeCheckAgainst(cur, op.Req, o.a, o.e, fmt.Sprintf("%s [faulted=%v fired=%v earlier-read-failed=%v]", what, faulted, fired, readFailed)); f != nil {
						if c.Cfg.Engine == "v2" && f.Signature == "" && o.e != nil {
							_, unk := semkit.RefCheck(cur, op.Req)
							f.Signature = semkit.ClassifyV2Error(cur, o.e, unk)
						}
						if f.Signature == "" && o.e == nil && ctxReadFailed && c.Cfg.Shared {
							// the shared iterator keeps the context error of the failed read and replays it to later clones,
							// and the engine reads a context error as the end of the list: same recorded root cause
							f.Signature = SigSharedReplaysReadError
						}
						return f
					}
				} else {
					staleWindow++
				}
			}
			refNow, _ := semkit.RefCheck(cur, op.Req)
			if prev, ok := lastRef[op.Req.String()]; ok && op.HC && prev != refNow.String() {
				flipHC++
				classes = append(classes, "hc-after-answer-flipping-write")
			}
			lastRef[op.Req.String()] = refNow.String()
			if op.HC {
				classes = append(classes, "higher-consistency")
			}
		case "batch":
			res, err := s.BatchCheck(context.Background(), storeID, modelID, []sut.BatchItem{{ID: "x", Req: op.Req}}, consistency(op.HC))
			if err != nil {
				return fw.Failf("", "%s BatchCheck failed: %v", what, err)
			}
			if op.HC || judgeMinimizeLatency || !written {
				var e error
				if res["x"].Err != "" {
					e = fmt.Errorf("%s", res["x"].Err)
				}
				if c.Cfg.Engine == "v2" && m.UserKind(op.Req.User) != "object" {
					classes = append(classes, "batch-v2-nonobject-unjudged")
				} else if f := judgeCheckAgainst(cur, op.Req, res["x"].Allowed, e, what+" BatchCheck"); f != nil {
					return f
				}
			}
			classes = append(classes, "op:batch")
		case "list":
			if hasDuplicateDirectOperands(c.World.Model) {
				continue // recorded findings on this model shape (weighted error / pipeline hang)
			}
			var objs []string
			var err error
			if !semkit.Watchdog(semkit.HangLimit(), func() {
				objs, err = s.ListObjects(context.Background(), storeID, modelID, op.LO, consistency(op.HC))
			}) {
				return fw.Failf("", "%s ListObjects(%+v) hung\n%s", what, op.LO, semkit.Describe(cur))
			}
			if err != nil && readFailed && c.Cfg.Shared && isCancelled(err) {
				return fw.Failf(SigSharedReplaysReadError, "%s clean ListObjects(%+v) failed with %v after an earlier request's datastore read had failed or been cancelled (shared iterators on)\n%s", what, op.LO, err, semkit.Describe(cur))
			}
			if op.HC || judgeMinimizeLatency || !written {
				truth := semkit.RefListObjects(cur, op.LO)
				if sig, why := judgeLO(cur, LOCall{Req: op.LO, Engine: "classic"}, truth, objs, err); why != "" && !semkit.IsTooComplex(err) {
					return fw.Failf(sig, "%s ListObjects(%+v): %s\n%s", what, op.LO, why, semkit.Describe(cur))
				}
			}
			classes = append(classes, "op:list")
		}
		if cc.hits.Load() > h0 {
			hitSteps++
			if faultSeen {
				hitAfterFault++
			}
		}
	}
	if hitSteps > 0 {
		classes = append(classes, "cache-hit")
	}
	if hitAfterFault > 0 {
		classes = append(classes, "cache-hit-after-faulted-request")
	}
	if staleWindow > 0 {
		classes = append(classes, "cached-request-after-write(unjudged)")
	}
	nt := hitSteps > 0 && semkit.NonDirect(c.World.Model)
	if withFaults {
		nt = nt && faultedInside > 0 && hitAfterFault > 0
	}
	if !judgeMinimizeLatency {
		nt = flipHC > 0
	}
	var sample any
	if nt {
		var ops []string
		for _, op := range c.Ops {
			ops = append(ops, fmt.Sprintf("%s hc=%v at=%d %s%v", op.Kind, op.HC, op.At, op.Req.String(), op.Tuples))
		}
		sample = map[string]any{"model": c.World.Model.DSL(), "tuples": semkit.TupleStrings(c.World.Tuples), "cfg": c.Cfg, "ops": ops}
	}
	env.Rec.Case(c, nt, sample, semkit.SortedSet(classes)...)
	return nil
}

// SigSharedReplaysReadError: see known_findings.json.
const SigSharedReplaysReadError = "C09/shared-iterator-replays-read-error"

func checkC08(env *fw.Env, c CacheCase) *fw.Failure { return runCacheHistory(env, c, false, true) }

func TestC08(t *testing.T) { fw.Run(t, "C08", genC08, checkC08) }

var _ = openfgav1.ConsistencyPreference_UNSPECIFIED

// ---- C08 on cyclic data ------------------------------------------------------
//
// Worlds whose relations are mutually recursive and whose tuples form cycles;
// one subject is asked about every (object, relation) of the cycle, in a drawn
// order, so that later requests meet sub-results cached while an earlier
// request was inside the cycle. A sub-result that was cut short by cycle
// detection is only valid for the path it was computed on and must not be
// served to a request that enters the cycle elsewhere. Oracle as for C08.

func genC08Cycles(t *rapid.T) CacheCase {
	o := worldOpts()
	o.Leftovers = false
	w := gen.CycleWorld(t, o)
	c := CacheCase{World: w, Cfg: genCacheCfg(t, true, false)}
	c.Cfg.CheckIter, c.Cfg.LOIter, c.Cfg.Shared = false, false, false
	if rapid.Bool().Draw(t, "breadthOne") {
		c.Cfg.Breadth = 1
	}
	first := gen.RequestFor(t, w, o)
	first.Contextual = nil
	if rapid.IntRange(0, 3).Draw(t, "subjectZero") > 0 {
		first.User = "user:0"
	}
	var rels []string
	tn := gen.CycleType(w)
	for _, r := range w.Model.Type(tn).Relations {
		if r.Name != "parent" {
			rels = append(rels, r.Name)
		}
	}
	// several short histories, each against empty caches: what a request leaves
	// in the cache is then met by one or two other requests, not masked by many
	for h, nh := 0, rapid.IntRange(1, 5).Draw(t, "nHistories"); h < nh; h++ {
		if h > 0 {
			c.Ops = append(c.Ops, QOp{Kind: "reset"})
		}
		for i, n := 0, rapid.IntRange(2, 4).Draw(t, "nOps"); i < n; i++ {
			r := first
			r.Object = fmt.Sprintf("%s:%d", tn, rapid.IntRange(0, o.MaxIDs-1).Draw(t, "obj"))
			r.Relation = rels[rapid.IntRange(0, len(rels)-1).Draw(t, "rel")]
			if rapid.IntRange(0, 7).Draw(t, "otherSubject") == 0 {
				r.User = gen.RequestFor(t, w, o).User
			}
			kind := "check"
			if rapid.IntRange(0, 7).Draw(t, "batch") == 0 {
				kind = "batch"
			}
			c.Ops = append(c.Ops, QOp{Kind: kind, Req: r})
		}
	}
	return c
}

func TestC08Cycles(t *testing.T) { fw.Run(t, "C08", genC08Cycles, checkC08) }
