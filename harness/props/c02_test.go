package props

import (
	"context"
	"fmt"
	"reflect"
	"sync"
	"testing"

	"pgregory.net/rapid"

	"github.com/openfga/openfga/verifharness/fw"
	"github.com/openfga/openfga/verifharness/gen"
	"github.com/openfga/openfga/verifharness/m"
	"github.com/openfga/openfga/verifharness/refsem"
	"github.com/openfga/openfga/verifharness/semkit"
	"github.com/openfga/openfga/verifharness/sut"
)

// C02 — Check and ListObjects answers do not depend on strategy or tuning.
//
// Differential: every drawn configuration (deterministic planner policy,
// breadth limit, read concurrency, dispatch/datastore throttling, ListObjects
// engine and pipeline tuning) must give the answer of the baseline
// configuration; repeating a request and issuing it from 8 goroutines at once
// must not change it either.
//
// Non-trivial: at least one planner Select offered >= 2 strategies and a
// non-default strategy was chosen and ran to completion.

type C02Case struct {
	World   gen.World       `json:"world"`
	Checks  []m.Request     `json:"checks"`
	Lists   []sut.LORequest `json:"lists"`
	Tunings []semkit.Tuning `json:"tunings"`
	Burst   bool            `json:"burst"`
}

func genTuning(t *rapid.T) semkit.Tuning {
	tu := semkit.Tuning{
		Policy:   []string{"default", "weight2", "recursive", "bits", "alternate"}[rapid.IntRange(0, 4).Draw(t, "policy")],
		Breadth:  []uint32{1, 2, 3, 10, 100}[rapid.IntRange(0, 4).Draw(t, "breadth")],
		MaxReads: []uint32{1, 2, 1000}[rapid.IntRange(0, 2).Draw(t, "maxReads")],
		LOEngine: loEngines[rapid.IntRange(0, 2).Draw(t, "loEngine")],
		Chunk:    []int{1, 2, 100}[rapid.IntRange(0, 2).Draw(t, "chunk")],
		Buffer:   []int{1, 2, 3, 4, 128}[rapid.IntRange(0, 4).Draw(t, "buffer")],
		NumProcs: []int{1, 2, 4}[rapid.IntRange(0, 2).Draw(t, "numProcs")],
	}
	if tu.Policy == "bits" {
		tu.Bits = rapid.SliceOfN(rapid.Byte(), 1, 8).Draw(t, "bits")
	}
	if rapid.IntRange(0, 3).Draw(t, "throttle") == 0 {
		tu.Throttle = true
		tu.Threshold = uint32(rapid.IntRange(1, 5).Draw(t, "threshold"))
		tu.FreqUs = []int{1, 50, 1000}[rapid.IntRange(0, 2).Draw(t, "freq")]
	}
	tu.DSThrottl = rapid.IntRange(0, 5).Draw(t, "dsThrottle") == 0
	return tu
}

func genC02(t *rapid.T) C02Case {
	o := worldOpts()
	w := gen.AnyWorld(t, o)
	c := C02Case{World: w, Checks: genRequests(t, w, o, 2, 5)}
	nl := rapid.IntRange(1, 2).Draw(t, "nLists")
	for i := 0; i < nl; i++ {
		c.Lists = append(c.Lists, genLORequest(t, w, o))
	}
	nt := rapid.IntRange(2, 4).Draw(t, "nTunings")
	for i := 0; i < nt; i++ {
		c.Tunings = append(c.Tunings, genTuning(t))
	}
	c.Burst = rapid.IntRange(0, 3).Draw(t, "burst") == 0
	return c
}

type checkOutcome struct {
	allowed bool
	err     error
}

func (o checkOutcome) class() string {
	switch {
	case o.err != nil:
		return "error"
	case o.allowed:
		return "true"
	}
	return "false"
}

func checkC02(env *fw.Env, c C02Case) *fw.Failure {
	s := semkit.Plain()
	storeID, modelID, f := semkit.SetupWorld(env, s, c.World)
	if f != nil || storeID == "" {
		return f
	}
	ts, err := semkit.LoadTypesystem(s.DS, storeID, modelID)
	if err != nil {
		return fw.Failf("harness/typesystem", "cannot load the typesystem of an accepted model: %v", err)
	}
	ctx := context.Background()
	classes := semkit.ModelClasses(c.World.Model)
	nonDefaultRan := false
	noteEvents := func(evs []semkit.SelectEvent, ok bool) {
		for _, e := range evs {
			classes = append(classes, fmt.Sprintf("select:%s/of%d", e.Chosen, len(e.Offered)))
			if ok && len(e.Offered) >= 2 && e.Chosen != "default" {
				nonDefaultRan = true
			}
		}
	}
	tunings := append([]semkit.Tuning{semkit.Baseline()}, c.Tunings...)
	for _, r := range c.Checks {
		exp, unk := semkit.RefCheck(c.World, r)
		var firstDefinite *checkOutcome
		var firstTuning semkit.Tuning
		for ti, tu := range tunings {
			runs := 2
			burst := c.Burst && ti == 1
			if burst {
				runs = 8
			}
			outs := make([]checkOutcome, runs)
			evs := make([][]semkit.SelectEvent, runs)
			if burst {
				var wg sync.WaitGroup
				for i := 0; i < runs; i++ {
					wg.Add(1)
					go func(i int) {
						defer wg.Done()
						a, e, ev := semkit.CmdCheck(ctx, s.DS, ts, storeID, tu, r)
						outs[i], evs[i] = checkOutcome{a, e}, ev
					}(i)
				}
				wg.Wait()
				classes = append(classes, "burst")
			} else {
				for i := 0; i < runs; i++ {
					a, e, ev := semkit.CmdCheck(ctx, s.DS, ts, storeID, tu, r)
					outs[i], evs[i] = checkOutcome{a, e}, ev
				}
			}
			for i, o := range outs {
				if semkit.IsTooComplex(o.err) {
					env.Rec.Add("depth_excluded", 1)
					continue
				}
				noteEvents(evs[i], o.err == nil)
				// (1) every configuration's answer is judged by the reference (names the wrong side)
				if ok, why := semkit.CompareCheck(exp, unk, o.allowed, o.err); !ok {
					return fw.Failf(semkit.ClassifyCheck(c.World, r, exp, o.allowed, o.err), "Check(%s) under configuration %+v (run %d): %s; planner decisions=%v\n%s",
						r, tu, i, why, evs[i], semkit.Describe(c.World))
				}
				// (2) repeating / running concurrently never changes the answer
				if !semkit.IsTooComplex(outs[0].err) && o.class() != outs[0].class() {
					return fw.Failf("", "Check(%s) under configuration %+v answered %s (%v) on run 0 and %s (%v) on run %d (burst=%v)\n%s",
						r, tu, outs[0].class(), outs[0].err, o.class(), o.err, i, burst, semkit.Describe(c.World))
				}
				// (3) two configurations that both return a decision return the same decision
				if o.err == nil {
					if firstDefinite == nil {
						oc := o
						firstDefinite, firstTuning = &oc, tu
					} else if firstDefinite.allowed != o.allowed {
						return fw.Failf("", "Check(%s): configuration %+v answered %v but configuration %+v answered %v (reference %v)\n%s",
							r, firstTuning, firstDefinite.allowed, tu, o.allowed, exp, semkit.Describe(c.World))
					}
				} else if exp != refsem.Unknown {
					classes = append(classes, "condition-error-where-reference-is-definite")
				}
			}
		}
	}
	for _, lr := range c.Lists {
		truth := semkit.RefListObjects(c.World, lr)
		for _, tu := range tunings {
			var first []string
			var firstErr error
			for rep := 0; rep < 2; rep++ {
				var objs []string
				var err error
				var evs []semkit.SelectEvent
				if skipKnownPipelineHang(env, tu.LOEngine, c.World.Model) {
					break
				}
				if !semkit.Watchdog(semkit.HangLimit(), func() { objs, err, evs = semkit.CmdListObjects(ctx, s.DS, ts, storeID, tu, lr) }) {
					sig := ""
					if tu.LOEngine == "pipeline" && hasDuplicateDirectOperands(c.World.Model) {
						sig = SigPipelineHangDuplicateDirect
					}
					return fw.Failf(sig, "ListObjects(%+v) under configuration %+v did not return within the hang limit (its deadline is 30 s)\n%s\nstuck goroutines:\n%s",
						lr, tu, semkit.Describe(c.World), semkit.GoroutineDump("listobjects"))
				}
				if semkit.IsTooComplex(err) {
					env.Rec.Add("depth_excluded", 1)
					break
				}
				noteEvents(evs, err == nil)
				classes = append(classes, "lo-engine:"+tu.LOEngine)
				call := LOCall{Req: lr, Engine: tu.LOEngine}
				if sig, why := judgeLO(c.World, call, truth, objs, err); why != "" {
					return fw.Failf(sig, "ListObjects(%+v) under configuration %+v: %s\n%s", lr, tu, why, semkit.Describe(c.World))
				}
				if rep == 0 {
					first, firstErr = objs, err
				} else if (err != nil) != (firstErr != nil) || (err == nil && !reflect.DeepEqual(objs, first) && len(objs)+len(first) > 0) {
					return fw.Failf("", "ListObjects(%+v) under configuration %+v answered %v (err %v) and then %v (err %v)\n%s", lr, tu, first, firstErr, objs, err, semkit.Describe(c.World))
				}
			}
		}
	}
	var sample any
	if nonDefaultRan {
		sample = map[string]any{"model": c.World.Model.DSL(), "tuples": semkit.TupleStrings(c.World.Tuples), "tunings": c.Tunings, "check0": c.Checks[0].String()}
	}
	env.Rec.Case(c, nonDefaultRan, sample, semkit.SortedSet(classes)...)
	return nil
}

func TestC02(t *testing.T) { fw.Run(t, "C02", genC02, checkC02) }
