package props

import (
	"context"
	"testing"

	"pgregory.net/rapid"

	"github.com/openfga/openfga/verifharness/fw"
	"github.com/openfga/openfga/verifharness/gen"
	"github.com/openfga/openfga/verifharness/m"
	"github.com/openfga/openfga/verifharness/refsem"
	"github.com/openfga/openfga/verifharness/semkit"
)

// C01 — Check decisions match the model's relation semantics.

type C01Case struct {
	World    gen.World   `json:"world"`
	Requests []m.Request `json:"requests"`
}

func worldOpts() gen.Opts {
	o := gen.DefaultOpts()
	if fw.TierIsThorough() {
		o.MaxTuples = 24
		o.MaxIDs = 4
	}
	return o
}

func genRequests(t *rapid.T, w gen.World, o gen.Opts, lo, hi int) []m.Request {
	n := rapid.IntRange(lo, hi).Draw(t, "nRequests")
	var out []m.Request
	for i := 0; i < n; i++ {
		r := gen.RequestFor(t, w, o)
		if rapid.IntRange(0, 3).Draw(t, "withContextual") == 0 {
			r.Contextual = gen.Contextual(t, w, o, 3)
		}
		out = append(out, r)
	}
	return out
}

func genC01(t *rapid.T) C01Case {
	o := worldOpts()
	w := gen.AnyWorld(t, o)
	return C01Case{World: w, Requests: genRequests(t, w, o, 4, 10)}
}

func checkC01(env *fw.Env, c C01Case) *fw.Failure {
	s := semkit.Plain()
	storeID, modelID, f := semkit.SetupWorld(env, s, c.World)
	if f != nil || storeID == "" {
		return f
	}
	classes := semkit.ModelClasses(c.World.Model)
	if len(c.World.Left) > 0 {
		classes = append(classes, "leftover-tuples")
	}
	sawT, sawF := false, false
	for _, r := range c.Requests {
		exp, unk := semkit.RefCheck(c.World, r)
		allowed, err := s.Check(context.Background(), storeID, modelID, r)
		if semkit.IsTooComplex(err) {
			env.Rec.Add("depth_excluded", 1)
			continue
		}
		classes = append(classes, "expected:"+exp.String(), "subject:"+m.UserKind(r.User))
		if len(r.Contextual) > 0 {
			classes = append(classes, "with-contextual")
		}
		if ok, why := semkit.CompareCheck(exp, unk, allowed, err); !ok {
			return fw.Failf(semkit.ClassifyCheck(c.World, r, exp, allowed, err), "Check(%s): %s\n%s", r, why, semkit.Describe(c.World))
		}
		if exp == refsem.True {
			sawT = true
		}
		if exp == refsem.False {
			sawF = true
		}
	}
	nt := semkit.NonDirect(c.World.Model) && sawT && sawF
	var sample any
	if nt {
		sample = map[string]any{"model": c.World.Model.DSL(), "tuples": semkit.TupleStrings(c.World.Tuples), "leftover": semkit.TupleStrings(c.World.Left), "requests": len(c.Requests), "first_request": c.Requests[0].String()}
	}
	env.Rec.Case(c, nt, sample, classes...)
	return nil
}

func TestC01(t *testing.T) { fw.Run(t, "C01", genC01, checkC01) }
