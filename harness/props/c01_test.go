package props

import (
	"context"
	"fmt"
	"strings"
	"sync"
	"testing"

	"pgregory.net/rapid"

	"github.com/openfga/openfga/verifharness/gen"
	"github.com/openfga/openfga/verifharness/m"
	"github.com/openfga/openfga/verifharness/refsem"
	"github.com/openfga/openfga/verifharness/sut"
)

// C01 — Check decisions match the model's relation semantics.

type C01Case struct {
	World    gen.World   `json:"world"`
	Requests []m.Request `json:"requests"`
}

func genC01(t *rapid.T) C01Case {
	o := gen.DefaultOpts()
	if TierIsThorough() {
		o.MaxTuples = 24
		o.MaxIDs = 4
	}
	w := gen.GenWorld(t, o)
	n := rapid.IntRange(4, 10).Draw(t, "nRequests")
	c := C01Case{World: w}
	for i := 0; i < n; i++ {
		r := gen.RequestFor(t, w, o)
		if rapid.IntRange(0, 3).Draw(t, "withContextual") == 0 {
			r.Contextual = gen.Contextual(t, w, o, 3)
		}
		c.Requests = append(c.Requests, r)
	}
	return c
}

var (
	plainOnce sync.Once
	plainSUT  *sut.SUT
)

// plain returns the process-wide cache-free default-engine server.
func plain() *sut.SUT {
	plainOnce.Do(func() { plainSUT = sut.New() })
	return plainSUT
}

// setupWorld creates a store holding the world. It returns ("","",nil) when
// the model is rejected by model validation (outside the property's domain).
func setupWorld(env *Env, s *sut.SUT, w gen.World) (storeID, modelID string, f *Failure) {
	if !refsem.Stratified(w.Model) {
		env.Rec.Discard("not-stratified")
		return "", "", nil
	}
	storeID = s.CreateStore("verif")
	modelID, err := s.WriteModel(storeID, w.Model)
	if err != nil {
		env.Rec.Discard("model-rejected")
		return "", "", nil
	}
	if err := s.WriteRaw(storeID, w.Left); err != nil {
		return "", "", Failf("harness/raw-write-failed", "raw write: %v", err)
	}
	if err := s.WriteAPI(storeID, modelID, w.Tuples); err != nil {
		return "", "", Failf("harness/valid-tuple-rejected", "Write rejected tuples the reference validator accepts: %v", err)
	}
	return storeID, modelID, nil
}

func modelClasses(mo *m.Model) []string {
	set := map[string]bool{}
	for _, td := range mo.Types {
		for _, r := range td.Relations {
			r.Rewrite.Walk(func(n *m.Rewrite) {
				if n.Kind != m.This {
					set["rw:"+n.Kind] = true
				}
			})
			for _, re := range r.Restr {
				set["restr:"+re.Kind()] = true
				if re.Cond != "" {
					set["restr:conditional"] = true
				}
				if re.Type == td.Name && re.Rel == r.Name {
					set["recursive-userset"] = true
				}
			}
		}
	}
	return gen.SortedKeys(set)
}

func nonDirect(mo *m.Model) bool {
	for _, td := range mo.Types {
		for _, r := range td.Relations {
			if r.Rewrite.Kind != m.This {
				return true
			}
		}
	}
	return false
}

func isConditionError(err error) bool {
	return err != nil && strings.Contains(err.Error(), "failed to evaluate relationship condition")
}

func isTooComplex(err error) bool {
	return err != nil && strings.Contains(err.Error(), "too complex")
}

// compareCheck compares an observed Check outcome with the reference value.
//
// allowed=true requires the reference value True, allowed=false requires
// False (an Unknown reference value means the answer hinges on a condition
// that cannot be evaluated: the request must fail). A failed request is
// accepted when the reference value is Unknown, or when the failure is a
// condition-evaluation error and some tuple of the case really has an
// unevaluable condition under this request (the engine may evaluate a tuple's
// condition before it knows that the tuple cannot matter).
func compareCheck(exp refsem.Outcome, hasUnknownTuple bool, allowed bool, err error) (ok bool, why string) {
	switch {
	case err != nil && exp != refsem.Unknown:
		if hasUnknownTuple && isConditionError(err) {
			return true, ""
		}
		return false, fmt.Sprintf("reference=%v but the request failed: %v", exp, err)
	case err != nil:
		return true, ""
	case exp == refsem.Unknown:
		return false, fmt.Sprintf("reference=U (answer depends on a condition that cannot be evaluated) but allowed=%v was returned", allowed)
	case allowed != (exp == refsem.True):
		return false, fmt.Sprintf("reference=%v but allowed=%v", exp, allowed)
	}
	return true, ""
}

func checkC01(env *Env, c C01Case) *Failure {
	s := plain()
	storeID, modelID, f := setupWorld(env, s, c.World)
	if f != nil || storeID == "" {
		return f
	}
	classes := modelClasses(c.World.Model)
	if len(c.World.Left) > 0 {
		classes = append(classes, "leftover-tuples")
	}
	sawT, sawF := false, false
	for _, r := range c.Requests {
		exp, unk := refCheck(c.World, r)
		allowed, err := s.Check(context.Background(), storeID, modelID, r)
		if isTooComplex(err) {
			env.Rec.Add("depth_excluded", 1)
			continue
		}
		classes = append(classes, "expected:"+exp.String(), "subject:"+m.UserKind(r.User))
		if len(r.Contextual) > 0 {
			classes = append(classes, "with-contextual")
		}
		if ok, why := compareCheck(exp, unk, allowed, err); !ok {
			return Failf(classifyC01(c.World, r, exp, allowed, err), "Check(%s): %s\nmodel:\n%s\ntuples: %v\nleftover: %v", r, why, c.World.Model.DSL(), c.World.Tuples, c.World.Left)
		}
		if exp == refsem.True {
			sawT = true
		}
		if exp == refsem.False {
			sawF = true
		}
	}
	nt := nonDirect(c.World.Model) && sawT && sawF
	var sample any
	if nt {
		sample = map[string]any{"model": c.World.Model.DSL(), "tuples": tupleStrings(c.World.Tuples), "leftover": tupleStrings(c.World.Left), "requests": len(c.Requests), "first_request": c.Requests[0].String()}
	}
	env.Rec.Case(c, nt, sample, classes...)
	return nil
}

// refCheck returns the reference value and whether any tuple's condition is
// unevaluable under the request.
func refCheck(w gen.World, r m.Request) (refsem.Outcome, bool) {
	ts := append(refsem.FilterValid(w.Model, append(append([]m.Tuple{}, w.Tuples...), w.Left...)), r.Contextual...)
	ev := refsem.NewEval(w.Model, ts, r.User, r.Ctx, r.Object)
	return ev.Holds(r.Object, r.Relation), ev.HasUnknownTuple
}

func tupleStrings(ts []m.Tuple) []string {
	out := make([]string, len(ts))
	for i, t := range ts {
		out[i] = t.String()
	}
	return out
}

// classifyC01 assigns a root-cause signature to a mismatch (see known_findings.json).
func classifyC01(w gen.World, r m.Request, exp refsem.Outcome, allowed bool, err error) string {
	if err == nil && !allowed && exp == refsem.Unknown && swallowedNextToValidSibling(w, r) {
		return SigSwallowedConditionError
	}
	return ""
}

// SigSwallowedConditionError: a read that yields at least one tuple whose
// condition evaluates to true drops the evaluation errors of its sibling
// tuples (storage.ConditionsFilteredTupleKeyIterator), so a request whose
// answer hinges on the unevaluable sibling gets allowed=false instead of an
// error.
const SigSwallowedConditionError = "C01/condition-error-swallowed-next-to-valid-sibling"

// swallowedNextToValidSibling recognises that signature structurally: the
// reference value with every unevaluable tuple treated as absent is False, and
// some unevaluable tuple has a sibling in the same datastore read (same
// relation and same object, or same relation, object type and user) whose
// condition is absent or true.
func swallowedNextToValidSibling(w gen.World, r m.Request) bool {
	ts := append(refsem.FilterValid(w.Model, append(append([]m.Tuple{}, w.Tuples...), w.Left...)), r.Contextual...)
	if refsem.NewEvalDroppingUnknown(w.Model, ts, r.User, r.Ctx, r.Object).Holds(r.Object, r.Relation) != refsem.False {
		return false
	}
	outs := refsem.NewEval(w.Model, ts, r.User, r.Ctx, r.Object).TupleOutcomes()
	for _, u := range outs {
		if u.Outcome != refsem.Unknown {
			continue
		}
		ut, _ := m.SplitObject(u.Tuple.Object)
		for _, v := range outs {
			if v.Outcome != refsem.True || v.Tuple.Relation != u.Tuple.Relation {
				continue
			}
			vt, _ := m.SplitObject(v.Tuple.Object)
			sameUser := v.Tuple.User == u.Tuple.User ||
				(m.UserType(v.Tuple.User) == m.UserType(u.Tuple.User) && (m.UserKind(v.Tuple.User) == "wildcard" || m.UserKind(u.Tuple.User) == "wildcard"))
			if v.Tuple.Object == u.Tuple.Object || (vt == ut && sameUser) {
				return true
			}
		}
	}
	return false
}

func TestC01(t *testing.T) { Run(t, "C01", genC01, checkC01) }
