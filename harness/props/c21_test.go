package props

import (
	"context"
	"fmt"
	"reflect"
	"runtime"
	"sort"
	"sync"
	"sync/atomic"
	"testing"
	"time"

	"pgregory.net/rapid"

	"github.com/openfga/openfga/internal/verifhook"
	"github.com/openfga/openfga/verifharness/fw"
	"github.com/openfga/openfga/verifharness/gen"
	"github.com/openfga/openfga/verifharness/m"
	"github.com/openfga/openfga/verifharness/semkit"
	"github.com/openfga/openfga/verifharness/sut"
)

// C21 — The ListObjects pipeline tears down cycles without losing work.
//
// Whole pipeline on cyclic model families (cycle groups of 1-5 members built
// from mutually recursive usersets, recursive TTUs and computed relations,
// optionally under an intersection/exclusion outside the cycle) with cyclic
// data. The schedule is perturbed at every hook point of the cycle-group code
// (verif build tag): the case's schedule bytes choose, per hook hit, between
// nothing, 1-3 Gosched calls and a 20-200 us sleep, and GOMAXPROCS is drawn
// from {1,2,4,16}. Oracle:
//   - the call returns (teardown completes) within the hang limit;
//   - the output equals the reference set (nothing derivable through the
//     cycle is lost, nothing extra);
//   - trace predicates over the recorded hook events: the in-flight counter
//     never goes negative; once a pool's quiescence latch closes no further
//     increment of that pool happens; no member cleans up before some
//     quiescence event; every member that signalled ready cleans up exactly
//     once; the leader cleans up before any follower.
//
// Non-trivial: a cycle group with >= 2 members was torn down (>= 2 cleanup
// events) and >= 2 objects are derivable only through cyclic tuples.

type C21Case struct {
	Family   int           `json:"family"`
	Top      int           `json:"top"` // 0 none, 1 intersection, 2 exclusion on top of the cycle
	Tuples   []m.Tuple     `json:"tuples"`
	User     string        `json:"user"`
	Tuning   semkit.Tuning `json:"tuning"`
	Schedule []byte        `json:"schedule"`
	Procs    int           `json:"procs"`
	Repeat   int           `json:"repeat"`
	// FaultAt > 0: the n-th datastore Next of every run fails (FaultKind "error") or panics inside the
	// iterator (FaultKind "panic") — a fault while a message is being processed, possibly one that
	// arrived over a cyclical edge.
	FaultAt   int    `json:"fault_at,omitempty"`
	FaultKind string `json:"fault_kind,omitempty"`
}

func ringModel(family, top int) (*m.Model, string, string) {
	this := func() *m.Rewrite { return &m.Rewrite{Kind: m.This} }
	var types []m.TypeDef
	types = append(types, m.TypeDef{Name: "user"})
	target, rel := "a", "r"
	switch family {
	case 0: // self-recursive userset
		types = append(types, m.TypeDef{Name: "a", Relations: []m.Relation{{Name: "r", Rewrite: this(), Restr: []m.Restriction{{Type: "user"}, {Type: "a", Rel: "r"}}}}})
	case 1: // two types
		types = append(types,
			m.TypeDef{Name: "a", Relations: []m.Relation{{Name: "r", Rewrite: this(), Restr: []m.Restriction{{Type: "user"}, {Type: "b", Rel: "r"}}}}},
			m.TypeDef{Name: "b", Relations: []m.Relation{{Name: "r", Rewrite: this(), Restr: []m.Restriction{{Type: "user"}, {Type: "a", Rel: "r"}}}}})
	case 2: // ring of three
		types = append(types,
			m.TypeDef{Name: "a", Relations: []m.Relation{{Name: "r", Rewrite: this(), Restr: []m.Restriction{{Type: "user"}, {Type: "b", Rel: "r"}}}}},
			m.TypeDef{Name: "b", Relations: []m.Relation{{Name: "r", Rewrite: this(), Restr: []m.Restriction{{Type: "user"}, {Type: "c", Rel: "r"}}}}},
			m.TypeDef{Name: "c", Relations: []m.Relation{{Name: "r", Rewrite: this(), Restr: []m.Restriction{{Type: "user"}, {Type: "a", Rel: "r"}}}}})
	case 3: // recursive TTU
		types = append(types, m.TypeDef{Name: "a", Relations: []m.Relation{
			{Name: "parent", Rewrite: this(), Restr: []m.Restriction{{Type: "a"}}},
			{Name: "r", Rewrite: &m.Rewrite{Kind: m.Union, Children: []*m.Rewrite{this(), {Kind: m.TTU, Tupleset: "parent", Rel: "r"}}}, Restr: []m.Restriction{{Type: "user"}}},
		}})
	case 4: // userset + TTU mix over two types
		types = append(types,
			m.TypeDef{Name: "a", Relations: []m.Relation{
				{Name: "parent", Rewrite: this(), Restr: []m.Restriction{{Type: "a"}}},
				{Name: "r", Rewrite: &m.Rewrite{Kind: m.Union, Children: []*m.Rewrite{this(), {Kind: m.TTU, Tupleset: "parent", Rel: "r"}}}, Restr: []m.Restriction{{Type: "user"}, {Type: "b", Rel: "r"}}},
			}},
			m.TypeDef{Name: "b", Relations: []m.Relation{{Name: "r", Rewrite: this(), Restr: []m.Restriction{{Type: "user"}, {Type: "a", Rel: "r"}}}}})
	default: // computed relation inside the cycle, ring of two relations on one type + second type
		types = append(types,
			m.TypeDef{Name: "a", Relations: []m.Relation{
				{Name: "r", Rewrite: &m.Rewrite{Kind: m.Union, Children: []*m.Rewrite{this(), {Kind: m.Computed, Rel: "s"}}}, Restr: []m.Restriction{{Type: "user"}}},
				{Name: "s", Rewrite: this(), Restr: []m.Restriction{{Type: "user"}, {Type: "a", Rel: "r"}, {Type: "b", Rel: "r"}}},
			}},
			m.TypeDef{Name: "b", Relations: []m.Relation{{Name: "r", Rewrite: this(), Restr: []m.Restriction{{Type: "user"}, {Type: "a", Rel: "s"}}}}})
	}
	if top > 0 {
		// a relation on top of the cycle, outside of it
		for i := range types {
			if types[i].Name != "a" {
				continue
			}
			kind := m.Intersection
			if top == 2 {
				kind = m.Difference
			}
			types[i].Relations = append(types[i].Relations,
				m.Relation{Name: "flag", Rewrite: this(), Restr: []m.Restriction{{Type: "user"}}},
				m.Relation{Name: "can", Rewrite: &m.Rewrite{Kind: kind, Children: []*m.Rewrite{{Kind: m.Computed, Rel: "r"}, {Kind: m.Computed, Rel: "flag"}}}})
		}
		rel = "can"
	}
	return &m.Model{Types: types}, target, rel
}

func genC21(t *rapid.T) C21Case {
	c := C21Case{
		Family: rapid.IntRange(0, 5).Draw(t, "family"),
		Top:    []int{0, 0, 1, 2}[rapid.IntRange(0, 3).Draw(t, "top")],
		User:   fmt.Sprintf("user:%d", rapid.IntRange(0, 2).Draw(t, "user")),
		Procs:  []int{1, 2, 4, 16}[rapid.IntRange(0, 3).Draw(t, "procs")],
		Repeat: rapid.IntRange(1, 3).Draw(t, "repeat"),
	}
	c.Tuning = semkit.Tuning{Policy: "default", Breadth: 10, MaxReads: []uint32{1, 2, 1000}[rapid.IntRange(0, 2).Draw(t, "maxReads")], LOEngine: "pipeline",
		Chunk: []int{1, 2, 3, 100}[rapid.IntRange(0, 3).Draw(t, "chunk")], Buffer: []int{1, 2, 4, 128}[rapid.IntRange(0, 3).Draw(t, "buffer")],
		NumProcs: []int{1, 2, 3, 4}[rapid.IntRange(0, 3).Draw(t, "numProcs")]}
	c.Schedule = rapid.SliceOfN(rapid.Byte(), 1, 64).Draw(t, "schedule")
	mo, _, _ := ringModel(c.Family, c.Top)
	o := gen.DefaultOpts()
	o.MaxIDs = 5
	o.MaxTuples = 30
	o.Leftovers = false
	if fw.TierIsThorough() {
		o.MaxIDs = 8
		o.MaxTuples = 60
	}
	c.Tuples, _ = gen.Tuples(t, mo, o)
	if rapid.IntRange(0, 3).Draw(t, "fault") == 0 {
		c.FaultAt = rapid.IntRange(1, 30).Draw(t, "faultAt")
		// "panic" (a datastore iterator that panics) is supported by the check but not generated: the
		// property quantifies over interleavings, not over panicking dependencies, and the unchanged
		// pipeline itself does not finish its teardown under some injected panics (DESIGN.md section 6.3,
		// replays/observations/C21-pipeline-hang-after-datastore-panic.json)
		c.FaultKind = "error"
	}
	return c
}

type hookEvent struct {
	id   string
	pool any
	lbl  string
	val  int64
	lead bool
}

type hookRecorder struct {
	mu     sync.Mutex
	events []hookEvent
	sched  []byte
	n      atomic.Int64
}

func (h *hookRecorder) handle(id string, args ...any) {
	ev := hookEvent{id: id}
	for _, a := range args {
		switch x := a.(type) {
		case string:
			ev.lbl = x
		case int64:
			ev.val = x
		case bool:
			ev.lead = x
		case int:
		default:
			ev.pool = a
		}
	}
	h.mu.Lock()
	h.events = append(h.events, ev)
	h.mu.Unlock()
	if len(h.sched) == 0 {
		return
	}
	b := h.sched[int(h.n.Add(1))%len(h.sched)]
	switch b % 8 {
	case 1, 2, 3:
		for i := 0; i < int(b%8); i++ {
			runtime.Gosched()
		}
	case 4:
		time.Sleep(time.Duration(20+int(b>>3)*6) * time.Microsecond)
	}
}

// tracePredicates checks the recorded hook events of one pipeline run.
func tracePredicates(evs []hookEvent) string {
	quiesced := map[any]bool{}
	anyQuiescence := false
	signalled := map[string]bool{}
	cleaned := map[string]int{}
	leaderCleaned := false
	for i, e := range evs {
		switch e.id {
		case "track.quiescence":
			quiesced[e.pool] = true
			anyQuiescence = true
		case "track.inc":
			if quiesced[e.pool] {
				return fmt.Sprintf("event %d: in-flight increment on a pool whose quiescence latch is already closed (work produced after the teardown was released)", i)
			}
		case "track.dec.after":
			if e.val < 0 {
				return fmt.Sprintf("event %d: in-flight counter went negative (%d)", i, e.val)
			}
		case "cycle.signalready":
			signalled[e.lbl] = true
		case "cycle.cleanup":
			if !anyQuiescence {
				return fmt.Sprintf("event %d: member %s cleans up before any quiescence event", i, e.lbl)
			}
			if !signalled[e.lbl] {
				return fmt.Sprintf("event %d: member %s cleans up without having signalled ready", i, e.lbl)
			}
			cleaned[e.lbl]++
			if cleaned[e.lbl] > 1 {
				return fmt.Sprintf("event %d: member %s cleans up twice", i, e.lbl)
			}
			if e.lead {
				leaderCleaned = true
			} else if !leaderCleaned && len(quiesced) == 1 {
				return fmt.Sprintf("event %d: follower %s cleans up before the leader", i, e.lbl)
			}
		}
	}
	for l := range signalled {
		if cleaned[l] != 1 {
			return fmt.Sprintf("member %s signalled ready but cleaned up %d times (teardown incomplete)", l, cleaned[l])
		}
	}
	return ""
}

var hookMu sync.Mutex

func checkC21(env *fw.Env, c C21Case) *fw.Failure {
	mo, target, rel := ringModel(c.Family, c.Top)
	w := gen.World{Model: mo, Tuples: c.Tuples}
	s := semkit.Plain()
	storeID, modelID, f := semkit.SetupWorld(env, s, w)
	if f != nil || storeID == "" {
		return f
	}
	ts, err := semkit.LoadTypesystem(s.DS, storeID, modelID)
	if err != nil {
		return fw.Failf("harness/typesystem", "%v", err)
	}
	lr := sut.LORequest{Type: target, Relation: rel, User: c.User}
	truth := semkit.RefListObjects(w, lr)
	hookMu.Lock()
	defer hookMu.Unlock()
	old := runtime.GOMAXPROCS(c.Procs)
	defer runtime.GOMAXPROCS(old)
	classes := []string{fmt.Sprintf("family:%d", c.Family), fmt.Sprintf("top:%d", c.Top), fmt.Sprintf("procs:%d", c.Procs), fmt.Sprintf("numprocs:%d", c.Tuning.NumProcs)}
	maxCleanups := 0
	for rep := 0; rep < c.Repeat; rep++ {
		rec := &hookRecorder{sched: c.Schedule}
		rec.n.Store(int64(rep * 7))
		verifhook.Set(rec.handle)
		var objs []string
		var lerr error
		ds := s.DS
		var fd *faultDS
		if c.FaultAt > 0 {
			fd = &faultDS{OpenFGADatastore: s.DS, panicOnFire: c.FaultKind == "panic"}
			fd.arm(c.FaultAt, nil, c.FaultKind == "error")
			ds = fd
		}
		returned := semkit.Watchdog(semkit.HangLimit(), func() {
			objs, lerr, _ = semkit.CmdListObjects(context.Background(), ds, ts, storeID, c.Tuning, lr)
		})
		verifhook.Set(nil)
		faultLanded := fd != nil && fd.disarm()
		if faultLanded {
			classes = append(classes, "fault-landed:"+c.FaultKind)
		}
		if returned && faultLanded && lerr != nil {
			continue // the fault surfaced as an error and the teardown completed: nothing more is asked
		}
		if !returned {
			return fw.Failf("", "pipeline ListObjects(%+v) did not return within the hang limit: teardown did not complete (tuning %+v, GOMAXPROCS %d)\n%s\nstuck goroutines:\n%s",
				lr, c.Tuning, c.Procs, semkit.Describe(w), semkit.GoroutineDump("listobjects"))
		}
		if lerr != nil {
			return fw.Failf("", "pipeline ListObjects(%+v) failed: %v\n%s", lr, lerr, semkit.Describe(w))
		}
		sort.Strings(objs)
		if !reflect.DeepEqual(objs, truth.True) && len(objs)+len(truth.True) > 0 {
			return fw.Failf("", "pipeline ListObjects(%+v) returned %v, reference %v (tuning %+v, GOMAXPROCS %d, run %d)\n%s", lr, objs, truth.True, c.Tuning, c.Procs, rep, semkit.Describe(w))
		}
		rec.mu.Lock()
		evs := append([]hookEvent{}, rec.events...)
		rec.mu.Unlock()
		if why := tracePredicates(evs); why != "" && !faultLanded {
			return fw.Failf("", "pipeline ListObjects(%+v): %s (tuning %+v, GOMAXPROCS %d)\n%s", lr, why, c.Tuning, c.Procs, semkit.Describe(w))
		}
		n := 0
		for _, e := range evs {
			if e.id == "cycle.cleanup" {
				n++
			}
		}
		if n > maxCleanups {
			maxCleanups = n
		}
	}
	classes = append(classes, fmt.Sprintf("cycle-members:%d", maxCleanups))
	// objects derivable only through cyclic (userset / parent) tuples: not directly granted
	direct := map[string]bool{}
	for _, t := range c.Tuples {
		if t.User == c.User {
			direct[t.Object] = true
		}
	}
	viaCycle := 0
	for _, o := range truth.True {
		if !direct[o] {
			viaCycle++
		}
	}
	nt := maxCleanups >= 2 && viaCycle >= 2
	var sample any
	if nt {
		sample = map[string]any{"model": mo.DSL(), "tuples": semkit.TupleStrings(c.Tuples), "request": fmt.Sprintf("%+v", lr), "truth": truth.True, "tuning": c.Tuning, "gomaxprocs": c.Procs}
	}
	env.Rec.Case(c, nt, sample, classes...)
	return nil
}

func TestC21(t *testing.T) { fw.Run(t, "C21", genC21, checkC21) }
