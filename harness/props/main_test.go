package props

import (
	"os"
	"testing"
)

func TestMain(m *testing.M) {
	code := m.Run()
	FlushAll()
	os.Exit(code)
}
