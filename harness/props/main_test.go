package props

import (
	"os"
	"testing"

	"github.com/openfga/openfga/verifharness/fw"
)

func TestMain(m *testing.M) {
	code := m.Run()
	cleanupSQLite()
	fw.FlushAll()
	os.Exit(code)
}
