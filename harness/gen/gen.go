// Package gen holds the shared rapid generators ("G" in DESIGN.md): models,
// tuples (valid and left-over), requests with contexts and contextual tuples.
// Every random choice is a rapid draw, so cases shrink and replay.
package gen

import (
	"fmt"
	"sort"

	"pgregory.net/rapid"

	"github.com/openfga/openfga/verifharness/m"
	"github.com/openfga/openfga/verifharness/refsem"
)

// Opts tunes the generator.
type Opts struct {
	ForceLinkConds bool // family worlds: always add a condition and offer it on the link (parent / member userset) restrictions
	MaxTuples      int
	MaxIDs         int  // object ids 0..MaxIDs-1
	Conditions     bool // allow conditions
	Leftovers      bool // allow tuples that are not valid for the model
	Exclusion      bool // allow "but not"
	Intersections  bool
}

func DefaultOpts() Opts {
	return Opts{MaxTuples: 14, MaxIDs: 3, Conditions: true, Leftovers: true, Exclusion: true, Intersections: true}
}

// World is a generated model + store content.
type World struct {
	Model  *m.Model  `json:"model"`
	Tuples []m.Tuple `json:"tuples"`         // stored tuples valid for the model
	Left   []m.Tuple `json:"left,omitempty"` // stored tuples NOT valid for the model (left over)
}

var objectTypes = []string{"group", "folder", "doc"}

// condTemplates are the conditions of the shared generator; their semantics
// is implemented by refsem.EvalCondition.
func condTemplates() []m.Condition {
	return []m.Condition{
		{Name: "c0", Params: []m.Param{{Name: "x", Type: "int"}}, Expr: m.Cmp("<", m.Var("x"), m.Lit("int", 10))},
		{Name: "c1", Params: []m.Param{{Name: "s", Type: "string"}}, Expr: m.Cmp("==", m.Var("s"), m.Lit("string", "a"))},
		{Name: "c2", Params: []m.Param{{Name: "x", Type: "int"}, {Name: "y", Type: "int"}}, Expr: m.Cmp("<", m.Var("x"), m.Var("y"))},
	}
}

func pick[T any](t *rapid.T, label string, xs []T) T {
	return xs[rapid.IntRange(0, len(xs)-1).Draw(t, label)]
}

func chance(t *rapid.T, label string, pct int) bool {
	return rapid.IntRange(0, 99).Draw(t, label) < pct
}

// Model draws a model that is valid by construction in most cases; callers
// gate on typesystem validation and on refsem.Stratified.
func Model(t *rapid.T, o Opts) *m.Model {
	mo := &m.Model{}
	mo.Types = append(mo.Types, m.TypeDef{Name: "user"})
	nTypes := rapid.IntRange(1, 3).Draw(t, "nTypes")
	// always draw a prefix-free subset in fixed order so references are stable
	start := rapid.IntRange(0, 3-nTypes).Draw(t, "typeStart")
	names := objectTypes[start : start+nTypes]
	if chance(t, "extraSubjectType", 15) {
		mo.Types = append(mo.Types, m.TypeDef{Name: "employee"})
	}
	if o.Conditions {
		nc := rapid.IntRange(0, 2).Draw(t, "nConds")
		tm := condTemplates()
		off := rapid.IntRange(0, len(tm)-1).Draw(t, "condOff")
		for i := 0; i < nc; i++ {
			mo.Conds = append(mo.Conds, tm[(off+i)%len(tm)])
		}
	}
	// 1. decide the relation names of every type first
	type plan struct {
		name     string
		tupleset bool
	}
	plans := map[string][]plan{}
	for _, tn := range names {
		n := rapid.IntRange(1, 4).Draw(t, "nRel")
		var ps []plan
		if chance(t, "hasTupleset", 55) {
			ps = append(ps, plan{"parent", true})
			if chance(t, "secondTupleset", 15) {
				ps = append(ps, plan{"owner", true})
			}
		}
		for i := 0; i < n; i++ {
			ps = append(ps, plan{fmt.Sprintf("r%d", i), false})
		}
		plans[tn] = ps
	}
	relNames := func(tn string, tupleset bool) []string {
		var out []string
		for _, p := range plans[tn] {
			if p.tupleset == tupleset {
				out = append(out, p.name)
			}
		}
		return out
	}
	subjectTypes := []string{"user"}
	if mo.Type("employee") != nil {
		subjectTypes = append(subjectTypes, "employee")
	}
	condOf := func(label string) string {
		if len(mo.Conds) == 0 || !chance(t, label+"HasCond", 25) {
			return ""
		}
		return pick(t, label+"Cond", mo.Conds).Name
	}
	// 2. tupleset relations: direct, object-type restrictions only
	for _, tn := range names {
		td := m.TypeDef{Name: tn}
		for _, p := range plans[tn] {
			if !p.tupleset {
				continue
			}
			var restr []m.Restriction
			// parent types: prefer types with relations (incl. self => recursive TTU)
			k := rapid.IntRange(1, 2).Draw(t, "nParentTypes")
			for i := 0; i < k; i++ {
				pt := pick(t, "parentType", names)
				if chance(t, "parentIsSubject", 8) {
					pt = pick(t, "parentSubjectType", subjectTypes)
				}
				restr = append(restr, m.Restriction{Type: pt, Cond: condOf("parent")})
			}
			restr = dedupRestr(restr)
			td.Relations = append(td.Relations, m.Relation{Name: p.name, Rewrite: &m.Rewrite{Kind: m.This}, Restr: restr})
		}
		mo.Types = append(mo.Types, td)
	}
	// 3. regular relations
	for _, tn := range names {
		td := mo.Type(tn)
		regs := relNames(tn, false)
		tss := relNames(tn, true)
		for idx, rn := range regs {
			var restr []m.Restriction
			var genRW func(depth int) *m.Rewrite
			genThis := func() *m.Rewrite {
				if len(restr) == 0 {
					n := rapid.IntRange(1, 3).Draw(t, "nRestr")
					for i := 0; i < n; i++ {
						kind := rapid.IntRange(0, 9).Draw(t, "restrKind")
						if i == 0 && kind >= 6 && !chance(t, "firstRestrAny", 30) {
							kind = kind % 6 // the first restriction is usually a subject type: guarantees an entrypoint
						}
						switch {
						case kind < 4: // plain subject type
							restr = append(restr, m.Restriction{Type: pick(t, "restrSubj", subjectTypes), Cond: condOf("restr")})
						case kind < 6: // wildcard
							restr = append(restr, m.Restriction{Type: pick(t, "restrWild", subjectTypes), Wildcard: true, Cond: condOf("restr")})
						case kind < 7: // self-recursive userset
							restr = append(restr, m.Restriction{Type: tn, Rel: rn, Cond: condOf("restr")})
						case kind < 9: // userset of any type#relation (non tupleset)
							ut := pick(t, "restrUsersetType", names)
							urs := relNames(ut, false)
							restr = append(restr, m.Restriction{Type: ut, Rel: pick(t, "restrUsersetRel", urs), Cond: condOf("restr")})
						default: // object type with relations as a direct user (e.g. [group])
							restr = append(restr, m.Restriction{Type: pick(t, "restrObjType", names), Cond: condOf("restr")})
						}
					}
					// the same restriction with and without a condition
					if len(mo.Conds) > 0 && chance(t, "dupRestrWithCond", 15) {
						r0 := restr[0]
						if r0.Cond == "" {
							r0.Cond = mo.Conds[0].Name
						} else {
							r0.Cond = ""
						}
						restr = append(restr, r0)
					}
					restr = dedupRestr(restr)
				}
				return &m.Rewrite{Kind: m.This}
			}
			genLeaf := func() *m.Rewrite {
				k := rapid.IntRange(0, 9).Draw(t, "leafKind")
				if k < 5 && len(restr) > 0 && !chance(t, "multiThis", 30) {
					// The DSL allows one direct-assignment operand per relation; a
					// second `this` is only expressible through the API, so it is rare.
					k = 5 + k%5
				}
				switch {
				case k < 5:
					return genThis()
				case k < 7:
					// computed: mostly lower-index relations (acyclic), sometimes any other
					var cands []string
					for j, other := range regs {
						if j < idx || (j != idx && chance(t, "computedAny", 6)) {
							cands = append(cands, other)
						}
					}
					if len(cands) == 0 {
						return genThis()
					}
					return &m.Rewrite{Kind: m.Computed, Rel: pick(t, "computedRel", cands)}
				default:
					if len(tss) == 0 {
						return genThis()
					}
					ts := pick(t, "ttuTupleset", tss)
					// computed relation must exist on at least one parent type
					var cands []string
					for _, re := range mo.Relation(tn, ts).Restr {
						for _, p := range plans[re.Type] {
							cands = append(cands, p.name)
						}
					}
					if len(cands) == 0 {
						return genThis()
					}
					sort.Strings(cands)
					return &m.Rewrite{Kind: m.TTU, Tupleset: ts, Rel: pick(t, "ttuRel", cands)}
				}
			}
			genRW = func(depth int) *m.Rewrite {
				if depth <= 0 || chance(t, "leaf", 45) {
					return genLeaf()
				}
				ops := []string{m.Union, m.Union, m.Union, m.Union}
				if o.Intersections {
					ops = append(ops, m.Intersection, m.Intersection, m.Intersection)
				}
				if o.Exclusion {
					ops = append(ops, m.Difference, m.Difference, m.Difference)
				}
				op := pick(t, "opKind", ops)
				if op == m.Difference {
					return &m.Rewrite{Kind: m.Difference, Children: []*m.Rewrite{genRW(depth - 1), genRW(depth - 1)}}
				}
				n := rapid.IntRange(2, 3).Draw(t, "nChildren")
				rw := &m.Rewrite{Kind: op}
				for i := 0; i < n; i++ {
					rw.Children = append(rw.Children, genRW(depth-1))
				}
				return rw
			}
			rw := genRW(rapid.IntRange(0, 2).Draw(t, "depth"))
			if !chance(t, "allowMultiThis", 3) {
				// The DSL allows one direct-assignment operand per relation; a second
				// `this` is only expressible through the API, so keep it rare.
				seen := false
				if pruned := pruneExtraThis(rw, &seen); pruned != nil {
					rw = pruned
				}
			}
			td.Relations = append(td.Relations, m.Relation{Name: rn, Rewrite: rw, Restr: restr})
		}
	}
	repairStratification(mo)
	mo.SparseMeta = chance(t, "sparseMeta", 20)
	return mo
}

func dedupRestr(rs []m.Restriction) []m.Restriction {
	seen := map[string]bool{}
	var out []m.Restriction
	for _, r := range rs {
		if !seen[r.String()] {
			seen[r.String()] = true
			out = append(out, r)
		}
	}
	return out
}

// repairStratification demotes "but not" nodes to their base until the model
// is stratified (negation never lies on a recursion).
func repairStratification(mo *m.Model) {
	for !refsem.Stratified(mo) {
		done := false
		for ti := range mo.Types {
			for ri := range mo.Types[ti].Relations {
				r := &mo.Types[ti].Relations[ri]
				if !done {
					r.Rewrite, done = demoteFirstDifference(r.Rewrite)
					if !r.Rewrite.HasThis() {
						r.Restr = nil
					}
				}
			}
		}
		if !done {
			return
		}
	}
}

func demoteFirstDifference(rw *m.Rewrite) (*m.Rewrite, bool) {
	if rw.Kind == m.Difference {
		return rw.Children[0], true
	}
	for i, c := range rw.Children {
		if n, ok := demoteFirstDifference(c); ok {
			rw.Children[i] = n
			return rw, true
		}
	}
	return rw, false
}

// pruneExtraThis removes every direct-assignment leaf after the first one;
// operators left with a single operand collapse to it. It returns nil when the
// whole subtree disappears.
func pruneExtraThis(rw *m.Rewrite, seen *bool) *m.Rewrite {
	switch rw.Kind {
	case m.This:
		if *seen {
			return nil
		}
		*seen = true
		return rw
	case m.Union, m.Intersection, m.Difference:
		var kept []*m.Rewrite
		for _, c := range rw.Children {
			if p := pruneExtraThis(c, seen); p != nil {
				kept = append(kept, p)
			}
		}
		switch len(kept) {
		case 0:
			return nil
		case 1:
			return kept[0]
		}
		if rw.Kind == m.Difference && len(kept) != 2 {
			return kept[0]
		}
		return &m.Rewrite{Kind: rw.Kind, Children: kept}
	}
	return rw
}
