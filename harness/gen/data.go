package gen

import (
	"fmt"
	"sort"

	"pgregory.net/rapid"

	"github.com/openfga/openfga/verifharness/m"
	"github.com/openfga/openfga/verifharness/refsem"
)

func id(t *rapid.T, label string, max int) string {
	return fmt.Sprint(rapid.IntRange(0, max-1).Draw(t, label))
}

// paramValue draws a context value for a parameter of the given type.
// mode: 0 value making typical conditions true, 1 false-ish, 2 mistyped.
func paramValue(t *rapid.T, label, typ string, allowMistype bool) any {
	mode := rapid.IntRange(0, 9).Draw(t, label+"Mode")
	if allowMistype && mode == 9 {
		switch typ {
		case "int":
			return pick[any](t, label+"Bad", []any{true, "abc", 1.5, []any{1.0}})
		case "string":
			return pick[any](t, label+"Bad", []any{true, 5.0, []any{"a"}})
		}
	}
	switch typ {
	case "int":
		return float64(rapid.IntRange(0, 20).Draw(t, label+"Int"))
	case "string":
		return pick(t, label+"Str", []string{"a", "b", ""})
	case "bool":
		return rapid.Bool().Draw(t, label+"Bool")
	}
	return "?"
}

// TupleContext draws a stored context for a conditional tuple: complete,
// partial or empty; always well-typed (a stored context must pass Write).
func TupleContext(t *rapid.T, c *m.Condition) map[string]any {
	mode := rapid.IntRange(0, 2).Draw(t, "tupleCtxMode") // 0 empty, 1 partial, 2 complete
	if mode == 0 {
		return nil
	}
	out := map[string]any{}
	for i, p := range c.Params {
		if mode == 1 && i > 0 {
			break
		}
		out[p.Name] = paramValue(t, "tctx_"+p.Name, p.Type, false)
	}
	if len(out) == 0 {
		return nil
	}
	return out
}

// RequestContext draws a request context over the parameters of all
// conditions of the model: each parameter present (satisfying or falsifying),
// omitted, or mistyped.
func RequestContext(t *rapid.T, mo *m.Model) map[string]any {
	if len(mo.Conds) == 0 {
		if chance(t, "ctxWithoutConds", 10) {
			return map[string]any{"x": 1.0}
		}
		return nil
	}
	if chance(t, "noCtx", 20) {
		return nil
	}
	out := map[string]any{}
	seen := map[string]bool{}
	for _, c := range mo.Conds {
		for _, p := range c.Params {
			if seen[p.Name] {
				continue
			}
			seen[p.Name] = true
			if chance(t, "omit_"+p.Name, 20) {
				continue
			}
			out[p.Name] = paramValue(t, "rctx_"+p.Name, p.Type, true)
		}
	}
	if len(out) == 0 {
		return nil
	}
	return out
}

type slot struct {
	typ string
	rel *m.Relation
}

func assignableSlots(mo *m.Model) []slot {
	var out []slot
	for ti := range mo.Types {
		for ri := range mo.Types[ti].Relations {
			r := &mo.Types[ti].Relations[ri]
			if r.Rewrite.HasThis() && len(r.Restr) > 0 {
				out = append(out, slot{mo.Types[ti].Name, r})
			}
		}
	}
	return out
}

// ValidTuple draws a tuple that is valid for the model on the given slot.
func validTuple(t *rapid.T, mo *m.Model, s slot, o Opts) m.Tuple {
	re := pick(t, "restr", s.rel.Restr)
	tu := m.Tuple{Object: s.typ + ":" + id(t, "objID", o.MaxIDs), Relation: s.rel.Name}
	switch re.Kind() {
	case "object":
		tu.User = re.Type + ":" + id(t, "userID", o.MaxIDs)
	case "wildcard":
		tu.User = re.Type + ":*"
	case "userset":
		tu.User = re.Type + ":" + id(t, "usersetID", o.MaxIDs) + "#" + re.Rel
	}
	if re.Cond != "" {
		tu.Cond = re.Cond
		tu.Ctx = TupleContext(t, mo.Cond(re.Cond))
	}
	return tu
}

// anyTuple draws a well-formed tuple over the model's vocabulary without
// regard for the type restrictions (usually not valid for the model).
func anyTuple(t *rapid.T, mo *m.Model, o Opts) m.Tuple {
	var withRel []string
	var all []string
	for _, td := range mo.Types {
		all = append(all, td.Name)
		if len(td.Relations) > 0 {
			withRel = append(withRel, td.Name)
		}
	}
	ot := pick(t, "loType", withRel)
	rel := pick(t, "loRel", mo.Type(ot).Relations).Name
	tu := m.Tuple{Object: ot + ":" + id(t, "loObjID", o.MaxIDs), Relation: rel}
	ut := pick(t, "loUserType", all)
	switch k := rapid.IntRange(0, 2).Draw(t, "loUserKind"); {
	case k == 0:
		tu.User = ut + ":" + id(t, "loUserID", o.MaxIDs)
	case k == 1:
		tu.User = ut + ":*"
	default:
		if rels := mo.Type(ut).Relations; len(rels) > 0 {
			tu.User = ut + ":" + id(t, "loUserID", o.MaxIDs) + "#" + pick(t, "loUserRel", rels).Name
		} else {
			tu.User = ut + ":" + id(t, "loUserID", o.MaxIDs)
		}
	}
	switch k := rapid.IntRange(0, 5).Draw(t, "loCond"); {
	case k == 0 && len(mo.Conds) > 0:
		c := pick(t, "loCondName", mo.Conds)
		tu.Cond = c.Name
		tu.Ctx = TupleContext(t, &c)
	case k == 1:
		tu.Cond = "gone" // a condition of an earlier model
	}
	return tu
}

// Tuples draws the store content: valid tuples plus (optionally) left-overs.
func Tuples(t *rapid.T, mo *m.Model, o Opts) (valid, left []m.Tuple) {
	slots := assignableSlots(mo)
	if len(slots) == 0 {
		return nil, nil
	}
	n := rapid.IntRange(0, o.MaxTuples).Draw(t, "nTuples")
	seen := map[string]bool{}
	for i := 0; i < n; i++ {
		tu := validTuple(t, mo, pick(t, "slot", slots), o)
		if refsem.ValidForRead(mo, tu) != refsem.OK { // e.g. userset on a tupleset relation cannot happen; keep the guard
			continue
		}
		if m.UserKind(tu.User) == "userset" && tu.User == tu.Object+"#"+tu.Relation {
			continue // a userset pointing at itself is rejected by Write
		}
		if seen[tu.Key()] {
			continue
		}
		seen[tu.Key()] = true
		valid = append(valid, tu)
	}
	if o.Leftovers && chance(t, "hasLeftovers", 35) {
		k := rapid.IntRange(1, 4).Draw(t, "nLeft")
		for i := 0; i < k; i++ {
			tu := anyTuple(t, mo, o)
			if seen[tu.Key()] {
				continue
			}
			seen[tu.Key()] = true
			if refsem.ValidForRead(mo, tu) == refsem.OK {
				if m.UserKind(tu.User) == "userset" && tu.User == tu.Object+"#"+tu.Relation {
					continue
				}
				valid = append(valid, tu)
			} else {
				left = append(left, tu)
			}
		}
	}
	m.SortTuples(valid)
	m.SortTuples(left)
	return valid, left
}

// GenWorld draws a model and its store content.
func GenWorld(t *rapid.T, o Opts) World {
	mo := Model(t, o)
	v, l := Tuples(t, mo, o)
	return World{Model: mo, Tuples: v, Left: l}
}

// Subject draws a request subject: object, typed wildcard or userset.
func Subject(t *rapid.T, mo *m.Model, o Opts) string {
	var all, withRel []string
	for _, td := range mo.Types {
		all = append(all, td.Name)
		if len(td.Relations) > 0 {
			withRel = append(withRel, td.Name)
		}
	}
	switch k := rapid.IntRange(0, 9).Draw(t, "subjKind"); {
	case k < 6:
		ty := "user"
		if chance(t, "subjOtherType", 30) {
			ty = pick(t, "subjType", all)
		}
		return ty + ":" + id(t, "subjID", o.MaxIDs+1)
	case k < 7:
		return pick(t, "subjWildType", all) + ":*"
	default:
		ty := pick(t, "subjUsersetType", withRel)
		return ty + ":" + id(t, "subjUsersetID", o.MaxIDs) + "#" + pick(t, "subjUsersetRel", mo.Type(ty).Relations).Name
	}
}

// RequestFor draws a request biased towards the store content: the object is
// usually an object that has tuples and the subject a user that occurs in the
// data (otherwise nearly every generated request is trivially false).
func RequestFor(t *rapid.T, w World, o Opts) m.Request {
	r := Request(t, w.Model, o)
	all := append(append([]m.Tuple{}, w.Tuples...), w.Left...)
	if len(all) == 0 {
		return r
	}
	if chance(t, "objFromData", 75) {
		tu := pick(t, "objTuple", all)
		ot, _ := m.SplitObject(tu.Object)
		if td := w.Model.Type(ot); td != nil && len(td.Relations) > 0 {
			r.Object = tu.Object
			r.Relation = pick(t, "objRel", td.Relations).Name
			if chance(t, "sameRel", 40) && w.Model.Relation(ot, tu.Relation) != nil {
				r.Relation = tu.Relation
			}
		}
	}
	if chance(t, "userFromData", 70) {
		tu := pick(t, "userTuple", all)
		switch m.UserKind(tu.User) {
		case "object":
			r.User = tu.User
		case "wildcard":
			r.User = m.UserType(tu.User) + ":" + id(t, "wildUserID", o.MaxIDs+1)
		case "userset":
			if chance(t, "usersetAsSubject", 50) {
				r.User = tu.User
			}
		}
	}
	return r
}

// Request draws one Check-shaped request (without contextual tuples).
func Request(t *rapid.T, mo *m.Model, o Opts) m.Request {
	var withRel []string
	for _, td := range mo.Types {
		if len(td.Relations) > 0 {
			withRel = append(withRel, td.Name)
		}
	}
	ot := pick(t, "reqType", withRel)
	return m.Request{
		Object:   ot + ":" + id(t, "reqObjID", o.MaxIDs+1),
		Relation: pick(t, "reqRel", mo.Type(ot).Relations).Name,
		User:     Subject(t, mo, o),
		Ctx:      RequestContext(t, mo),
	}
}

// Contextual draws up to max contextual tuples valid for the model whose keys
// are disjoint from the stored tuples.
func Contextual(t *rapid.T, w World, o Opts, max int) []m.Tuple {
	slots := assignableSlots(w.Model)
	if len(slots) == 0 || max == 0 {
		return nil
	}
	n := rapid.IntRange(0, max).Draw(t, "nContextual")
	seen := map[string]bool{}
	for _, tu := range w.Tuples {
		seen[tu.Key()] = true
	}
	for _, tu := range w.Left {
		seen[tu.Key()] = true
	}
	var out []m.Tuple
	for i := 0; i < n; i++ {
		tu := validTuple(t, w.Model, pick(t, "ctxSlot", slots), o)
		if seen[tu.Key()] || (m.UserKind(tu.User) == "userset" && tu.User == tu.Object+"#"+tu.Relation) {
			continue
		}
		seen[tu.Key()] = true
		out = append(out, tu)
	}
	m.SortTuples(out)
	return out
}

// SortedKeys returns the sorted keys of a map (no map-order dependence).
func SortedKeys[V any](mp map[string]V) []string {
	out := make([]string, 0, len(mp))
	for k := range mp {
		out = append(out, k)
	}
	sort.Strings(out)
	return out
}

// FamilyWorld draws a world from a small set of model families on which the
// engines' fast paths (weight-2 userset/TTU, recursive userset/TTU) are
// offered by the planner, with generated tuples; the generic generator reaches
// these shapes only rarely.
func FamilyWorld(t *rapid.T, o Opts) World {
	return familyWorld(t, o, rapid.IntRange(0, 11).Draw(t, "family"))
}

// CycleWorld draws a world from the families whose relations are mutually
// recursive (6: through a TTU, 7: through usersets); with the few object ids of
// the generator, cycles in the stored tuples are the common case.
func CycleWorld(t *rapid.T, o Opts) World {
	fam := []int{6, 6, 7, 7, 2, 5, 3, 10}[rapid.IntRange(0, 7).Draw(t, "cycleFamily")]
	w := familyWorld(t, o, fam)
	if chance(t, "cycleRandomTuples", 25) {
		return w
	}
	// dense links between the few groups, sparse direct grants for one subject:
	// most answers then depend on derivations that run through the cycles
	var ts []m.Tuple
	n := o.MaxIDs
	tn := CycleType(w)
	link := func(label string, pct int, obj, rel, user string) {
		if chance(t, label, pct) && user != obj+"#"+rel { // a tuple relating a userset to itself is implicit and cannot be written
			tu := m.Tuple{Object: obj, Relation: rel, User: user}
			// when the model offers a conditioned alternative for this kind of user, some of the tuples take it
			// (with a stored context that makes the condition true, false, or leaves a parameter to the request)
			ot, _ := m.SplitObject(obj)
			if r := w.Model.Relation(ot, rel); r != nil {
				for _, re := range r.Restr {
					if re.Cond != "" && re.Type == m.UserType(user) && re.Wildcard == (m.UserKind(user) == "wildcard") && (re.Rel != "") == (m.UserKind(user) == "userset") && chance(t, label+"Cond", 40) {
						if c := w.Model.Cond(re.Cond); c != nil {
							tu.Cond, tu.Ctx = re.Cond, TupleContext(t, c)
						}
						break
					}
				}
			}
			ts = append(ts, tu)
		}
	}
	for i := 0; i < n; i++ {
		for j := 0; j < n; j++ {
			gi, gj := fmt.Sprintf("%s:%d", tn, i), fmt.Sprintf("%s:%d", tn, j)
			switch fam {
			case 6:
				link("link", 40, gi, "parent", gj)
			case 3:
				link("link", 35, gi, "parent", gj)
			case 10:
				link("link", 25, gi, "parent", gj)
				link("link00", 25, gi, "r0", gj+"#r0")
			case 7:
				link("link01", 30, gi, "r0", gj+"#r1")
				link("link10", 30, gi, "r1", gj+"#r0")
			case 2:
				link("link00", 40, gi, "r0", gj+"#r0")
			default: // 5: r0: [group#r0, group#r1, user...], r1: [user]
				link("link00", 35, gi, "r0", gj+"#r0")
				link("link01", 20, gi, "r0", gj+"#r1")
			}
		}
	}
	for i := 0; i < n; i++ {
		for _, rel := range []string{"r0", "r1", "r2"} {
			if r := w.Model.Relation(tn, rel); r != nil && r.Rewrite.HasThis() {
				link("grant", 15, fmt.Sprintf("%s:%d", tn, i), rel, "user:0")
			}
		}
	}
	if len(ts) == 0 {
		return w
	}
	sort.Slice(ts, func(i, j int) bool { return ts[i].Key() < ts[j].Key() })
	// keep only what the model admits (the families vary their restrictions)
	var valid []m.Tuple
	for _, tu := range ts {
		if refsem.ValidForRead(w.Model, tu) == refsem.OK {
			valid = append(valid, tu)
		}
	}
	return World{Model: w.Model, Tuples: valid}
}

// CycleType names the object type whose relations are recursive in a CycleWorld.
func CycleType(w World) string { return w.Model.Types[1].Name }

func familyWorld(t *rapid.T, o Opts, family int) World {
	this := func() *m.Rewrite { return &m.Rewrite{Kind: m.This} }
	user := m.Restriction{Type: "user"}
	var types []m.TypeDef
	types = append(types, m.TypeDef{Name: "user"})
	wild := chance(t, "famWildcard", 30)
	userRestr := []m.Restriction{user}
	if wild {
		userRestr = append(userRestr, m.Restriction{Type: "user", Wildcard: true})
	}
	switch family {
	case 0: // weight-2 userset
		types = append(types,
			m.TypeDef{Name: "group", Relations: []m.Relation{{Name: "r0", Rewrite: this(), Restr: userRestr}}},
			m.TypeDef{Name: "doc", Relations: []m.Relation{{Name: "r0", Rewrite: this(), Restr: []m.Restriction{user, {Type: "group", Rel: "r0"}}}}})
	case 1: // weight-2 TTU
		types = append(types,
			m.TypeDef{Name: "folder", Relations: []m.Relation{{Name: "r0", Rewrite: this(), Restr: userRestr}}},
			m.TypeDef{Name: "doc", Relations: []m.Relation{
				{Name: "parent", Rewrite: this(), Restr: []m.Restriction{{Type: "folder"}}},
				{Name: "r0", Rewrite: &m.Rewrite{Kind: m.Union, Children: []*m.Rewrite{this(), {Kind: m.TTU, Tupleset: "parent", Rel: "r0"}}}, Restr: []m.Restriction{user}}}})
	case 2: // recursive userset
		types = append(types, m.TypeDef{Name: "group", Relations: []m.Relation{{Name: "r0", Rewrite: this(), Restr: append([]m.Restriction{{Type: "group", Rel: "r0"}}, userRestr...)}}})
	case 3: // recursive TTU
		types = append(types, m.TypeDef{Name: "folder", Relations: []m.Relation{
			{Name: "parent", Rewrite: this(), Restr: []m.Restriction{{Type: "folder"}}},
			{Name: "r0", Rewrite: &m.Rewrite{Kind: m.Union, Children: []*m.Rewrite{this(), {Kind: m.TTU, Tupleset: "parent", Rel: "r0"}}}, Restr: userRestr}}})
	case 4: // weight-2 userset under an exclusion / intersection
		op := m.Difference
		if chance(t, "famIntersection", 50) {
			op = m.Intersection
		}
		types = append(types,
			m.TypeDef{Name: "group", Relations: []m.Relation{{Name: "r0", Rewrite: this(), Restr: userRestr}}},
			m.TypeDef{Name: "doc", Relations: []m.Relation{
				{Name: "r0", Rewrite: this(), Restr: []m.Restriction{user, {Type: "group", Rel: "r0"}}},
				{Name: "r1", Rewrite: this(), Restr: []m.Restriction{user, {Type: "group", Rel: "r0"}}},
				{Name: "r2", Rewrite: &m.Rewrite{Kind: op, Children: []*m.Rewrite{{Kind: m.Computed, Rel: "r0"}, {Kind: m.Computed, Rel: "r1"}}}}}})
	case 8: // weight-2 userset / TTU whose target relation is itself an exclusion or intersection over a base that takes users and the wildcard
		op := m.Difference
		if chance(t, "famIntersection", 40) {
			op = m.Intersection
		}
		both := []m.Restriction{user, {Type: "user", Wildcard: true}}
		types = append(types,
			m.TypeDef{Name: "group", Relations: []m.Relation{
				{Name: "r0", Rewrite: this(), Restr: both},
				{Name: "r1", Rewrite: this(), Restr: userRestr},
				{Name: "r2", Rewrite: &m.Rewrite{Kind: op, Children: []*m.Rewrite{{Kind: m.Computed, Rel: "r0"}, {Kind: m.Computed, Rel: "r1"}}}}}},
			m.TypeDef{Name: "doc", Relations: []m.Relation{
				{Name: "parent", Rewrite: this(), Restr: []m.Restriction{{Type: "group"}}},
				{Name: "r0", Rewrite: this(), Restr: []m.Restriction{{Type: "group", Rel: "r2"}}},
				{Name: "r1", Rewrite: &m.Rewrite{Kind: m.TTU, Tupleset: "parent", Rel: "r2"}}}})
	case 11: // exclusion (or intersection) whose base is a union that the same userset enters directly and through a tuple-to-userset
		op := m.Difference
		if chance(t, "famIntersection", 30) {
			op = m.Intersection
		}
		types = append(types,
			m.TypeDef{Name: "group", Relations: []m.Relation{{Name: "r0", Rewrite: this(), Restr: userRestr}}},
			m.TypeDef{Name: "doc", Relations: []m.Relation{
				{Name: "parent", Rewrite: this(), Restr: []m.Restriction{{Type: "group"}}},
				{Name: "r1", Rewrite: this(), Restr: userRestr},
				{Name: "r0", Rewrite: &m.Rewrite{Kind: op, Children: []*m.Rewrite{
					{Kind: m.Union, Children: []*m.Rewrite{this(), {Kind: m.TTU, Tupleset: "parent", Rel: "r0"}}},
					{Kind: m.Computed, Rel: "r1"}}}, Restr: []m.Restriction{user, {Type: "group", Rel: "r0"}}}}})
	case 10: // one relation recursive through a userset AND through a tuple-to-userset
		types = append(types, m.TypeDef{Name: "folder", Relations: []m.Relation{
			{Name: "parent", Rewrite: this(), Restr: []m.Restriction{{Type: "folder"}}},
			{Name: "r0", Rewrite: &m.Rewrite{Kind: m.Union, Children: []*m.Rewrite{this(), {Kind: m.TTU, Tupleset: "parent", Rel: "r0"}}}, Restr: append([]m.Restriction{{Type: "folder", Rel: "r0"}}, userRestr...)}}})
	case 9: // TTU / userset over parent types of different weight: one reaches users directly, the other only through a userset
		types = append(types,
			m.TypeDef{Name: "group", Relations: []m.Relation{{Name: "r0", Rewrite: this(), Restr: userRestr}}},
			m.TypeDef{Name: "folder", Relations: []m.Relation{{Name: "r0", Rewrite: this(), Restr: []m.Restriction{{Type: "group", Rel: "r0"}}}}},
			m.TypeDef{Name: "doc", Relations: []m.Relation{
				{Name: "parent", Rewrite: this(), Restr: []m.Restriction{{Type: "group"}, {Type: "folder"}}},
				{Name: "r0", Rewrite: &m.Rewrite{Kind: m.TTU, Tupleset: "parent", Rel: "r0"}},
				{Name: "r1", Rewrite: this(), Restr: []m.Restriction{{Type: "group", Rel: "r0"}, {Type: "folder", Rel: "r0"}}}}})
	case 6: // mutually recursive relations through a TTU (tuple cycles over parent are likely)
		types = append(types, m.TypeDef{Name: "group", Relations: []m.Relation{
			{Name: "parent", Rewrite: this(), Restr: []m.Restriction{{Type: "group"}}},
			{Name: "r2", Rewrite: this(), Restr: userRestr},
			{Name: "r0", Rewrite: &m.Rewrite{Kind: m.Union, Children: []*m.Rewrite{this(), {Kind: m.TTU, Tupleset: "parent", Rel: "r1"}, {Kind: m.Computed, Rel: "r2"}}}, Restr: []m.Restriction{user}},
			{Name: "r1", Rewrite: &m.Rewrite{Kind: m.Union, Children: []*m.Rewrite{this(), {Kind: m.TTU, Tupleset: "parent", Rel: "r0"}}}, Restr: []m.Restriction{user}}}})
	case 7: // mutually recursive relations through usersets
		types = append(types, m.TypeDef{Name: "group", Relations: []m.Relation{
			{Name: "r2", Rewrite: this(), Restr: userRestr},
			{Name: "r0", Rewrite: &m.Rewrite{Kind: m.Union, Children: []*m.Rewrite{this(), {Kind: m.Computed, Rel: "r2"}}}, Restr: []m.Restriction{user, {Type: "group", Rel: "r1"}}},
			{Name: "r1", Rewrite: this(), Restr: []m.Restriction{user, {Type: "group", Rel: "r0"}}}}})
	default: // recursive userset reached through a TTU, with a second userset restriction
		types = append(types,
			m.TypeDef{Name: "group", Relations: []m.Relation{
				{Name: "r0", Rewrite: this(), Restr: append([]m.Restriction{{Type: "group", Rel: "r0"}, {Type: "group", Rel: "r1"}}, userRestr...)},
				{Name: "r1", Rewrite: this(), Restr: []m.Restriction{user}}}},
			m.TypeDef{Name: "doc", Relations: []m.Relation{
				{Name: "parent", Rewrite: this(), Restr: []m.Restriction{{Type: "group"}}},
				{Name: "r0", Rewrite: &m.Rewrite{Kind: m.TTU, Tupleset: "parent", Rel: "r0"}}}})
	}
	mo := &m.Model{Types: types}
	if o.Conditions && (o.ForceLinkConds || chance(t, "famCond", 35)) {
		c := condTemplates()[rapid.IntRange(0, 2).Draw(t, "famCondIdx")]
		mo.Conds = []m.Condition{c}
		// attach the condition to one user restriction as an extra alternative
		for ti := range mo.Types {
			for ri := range mo.Types[ti].Relations {
				r := &mo.Types[ti].Relations[ri]
				if len(r.Restr) > 0 && r.Restr[0].Type == "user" && !r.Restr[0].Wildcard && chance(t, "famCondHere", 50) {
					r.Restr = append(r.Restr, m.Restriction{Type: "user", Cond: c.Name})
				}
				// ... or to a link (parent object / member userset) restriction: conditioned links
				if len(r.Restr) > 0 && r.Restr[0].Type != "user" && r.Restr[0].Cond == "" && (o.ForceLinkConds || chance(t, "famCondLink", 35)) {
					r.Restr = append(r.Restr, m.Restriction{Type: r.Restr[0].Type, Rel: r.Restr[0].Rel, Cond: c.Name})
				}
			}
		}
	}
	if family == 9 && len(mo.Conds) == 0 && chance(t, "famDense", 60) {
		var ts []m.Tuple
		add := func(label string, pct int, obj, rel, user string) {
			if chance(t, label, pct) {
				ts = append(ts, m.Tuple{Object: obj, Relation: rel, User: user})
			}
		}
		for i := 0; i < o.MaxIDs; i++ {
			gn, fn, dn := fmt.Sprintf("group:%d", i), fmt.Sprintf("folder:%d", i), fmt.Sprintf("doc:%d", i)
			add("member", 40, gn, "r0", "user:0")
			add("member1", 25, gn, "r0", "user:1")
			for j := 0; j < o.MaxIDs; j++ {
				add("folderGroup", 35, fn, "r0", fmt.Sprintf("group:%d#r0", j))
				add("docGroup", 20, dn, "parent", fmt.Sprintf("group:%d", j))
				add("docFolder", 40, dn, "parent", fmt.Sprintf("folder:%d", j))
				add("docGroupU", 15, dn, "r1", fmt.Sprintf("group:%d#r0", j))
				add("docFolderU", 30, dn, "r1", fmt.Sprintf("folder:%d#r0", j))
			}
		}
		if len(ts) > 0 {
			return World{Model: mo, Tuples: ts}
		}
	}
	if family == 8 && len(mo.Conds) == 0 && chance(t, "famDense", 60) {
		// the same group often carries the concrete-user tuple, the wildcard tuple and the subtracted user
		var ts []m.Tuple
		add := func(label string, pct int, obj, rel, user string) {
			if chance(t, label, pct) {
				ts = append(ts, m.Tuple{Object: obj, Relation: rel, User: user})
			}
		}
		for g := 0; g < o.MaxIDs; g++ {
			gn := fmt.Sprintf("group:%d", g)
			add("base", 60, gn, "r0", "user:0")
			add("baseWild", 60, gn, "r0", "user:*")
			add("other", 50, gn, "r1", "user:0")
			add("base1", 30, gn, "r0", "user:1")
			for d := 0; d < o.MaxIDs; d++ {
				dn := fmt.Sprintf("doc:%d", d)
				add("viaUserset", 35, dn, "r0", gn+"#r2")
				add("viaParent", 35, dn, "parent", gn)
			}
		}
		if len(ts) > 0 {
			return World{Model: mo, Tuples: ts}
		}
	}
	v, l := Tuples(t, mo, o)
	return World{Model: mo, Tuples: v, Left: l}
}

// AnyWorld draws from the generic generator or, in a third of the cases, from
// the fast-path families.
func AnyWorld(t *rapid.T, o Opts) World {
	if chance(t, "useFamily", 35) {
		return FamilyWorld(t, o)
	}
	return GenWorld(t, o)
}
