package p30

import (
	"os"
	"testing"

	"github.com/openfga/openfga/verifharness/fw"
)

func TestMain(m *testing.M) {
	code := m.Run()
	fw.FlushAll()
	os.Exit(code)
}
