package p30

import (
	"context"
	"fmt"
	"sort"
	"strings"
	"testing"

	openfgav1 "github.com/openfga/api/proto/openfga/v1"
	"pgregory.net/rapid"

	"github.com/openfga/openfga/verifharness/conv"
	"github.com/openfga/openfga/verifharness/fw"
	"github.com/openfga/openfga/verifharness/gen"
	"github.com/openfga/openfga/verifharness/m"
	"github.com/openfga/openfga/verifharness/refsem"
	"github.com/openfga/openfga/verifharness/semkit"
)

// C30 — Expand mirrors the rewrite and the directly assigned users.
//
// Oracle (from the property statement and the Expand API documentation, not
// from pkg/server/commands/expand.go):
//
//   - the tree has the shape of the relation's rewrite: union / intersection
//     nodes with one child per operand in the model's order, difference nodes
//     with base and subtract, and leaves for direct assignment, computed
//     userset and tuple-to-userset;
//   - every node is named object#relation of the expanded pair;
//   - a computed leaf names object#computedRelation;
//   - a tuple-to-userset leaf names the tupleset object#tupleset and lists the
//     computed usersets parent#computedRelation of the valid tupleset tuples;
//   - a direct-assignment leaf lists, sorted (byte order) and without
//     duplicates, exactly the users of the stored tuples valid for the model
//     (R-val) and of the contextual tuples on (object, relation).
//
// The documentation does not say whether Expand evaluates conditions, so the
// users of *valid conditional* tuples are neither required nor forbidden
// (label conditional-user:listed / :omitted); tuples that are not valid for
// the model must be absent whether conditional or not. Likewise undocumented:
// a tupleset tuple whose parent type lacks the computed relation (neither
// required nor forbidden) and the order of a TTU leaf's computed list
// (compared as a set).
//
// NT: the expanded relation's rewrite has >= 2 operator levels and a
// direct-assignment leaf that must list >= 2 users while the store holds at
// least one tuple on that very (object, relation) that is not valid for the
// model and so must be absent.

type Query struct {
	Object     string    `json:"object"`
	Relation   string    `json:"relation"`
	Contextual []m.Tuple `json:"contextual,omitempty"`
}

type Case struct {
	World   gen.World `json:"world"`
	Queries []Query   `json:"queries"`
}

func worldOpts() gen.Opts {
	o := gen.DefaultOpts()
	if fw.TierIsThorough() {
		o.MaxTuples = 24
		o.MaxIDs = 4
	}
	return o
}

// ---------------------------------------------------------------- generator

func pick[T any](t *rapid.T, label string, xs []T) T {
	return xs[rapid.IntRange(0, len(xs)-1).Draw(t, label)]
}

func chance(t *rapid.T, label string, pct int) bool {
	return rapid.IntRange(0, 99).Draw(t, label) < pct
}

func opLevels(rw *m.Rewrite) int {
	if rw == nil || len(rw.Children) == 0 {
		return 0
	}
	d := 0
	for _, c := range rw.Children {
		if l := opLevels(c); l > d {
			d = l
		}
	}
	return d + 1
}

// readRelations: the relations of typ whose tuples an Expand of rel reads —
// rel itself when its rewrite has a direct-assignment leaf, and the tuplesets
// of its tuple-to-userset leaves.
func readRelations(mo *m.Model, typ string, rel *m.Relation) []*m.Relation {
	var out []*m.Relation
	seen := map[string]bool{}
	if rel.Rewrite.HasThis() && len(rel.Restr) > 0 {
		out = append(out, rel)
		seen[rel.Name] = true
	}
	rel.Rewrite.Walk(func(n *m.Rewrite) {
		if n.Kind == m.TTU && !seen[n.Tupleset] {
			seen[n.Tupleset] = true
			if r := mo.Relation(typ, n.Tupleset); r != nil && len(r.Restr) > 0 {
				out = append(out, r)
			}
		}
	})
	return out
}

func selfRef(tu m.Tuple) bool {
	return m.UserKind(tu.User) == "userset" && tu.User == tu.Object+"#"+tu.Relation
}

// validOn draws a tuple on (obj, rel) that is valid for the model.
func validOn(t *rapid.T, mo *m.Model, obj string, rel *m.Relation, o gen.Opts) (m.Tuple, bool) {
	re := pick(t, "vRestr", rel.Restr)
	tu := m.Tuple{Object: obj, Relation: rel.Name}
	switch re.Kind() {
	case "object":
		tu.User = fmt.Sprintf("%s:%d", re.Type, rapid.IntRange(0, o.MaxIDs-1).Draw(t, "vUserID"))
	case "wildcard":
		tu.User = re.Type + ":*"
	default:
		tu.User = fmt.Sprintf("%s:%d#%s", re.Type, rapid.IntRange(0, o.MaxIDs-1).Draw(t, "vUsersetID"), re.Rel)
	}
	if re.Cond != "" {
		tu.Cond = re.Cond
		tu.Ctx = gen.TupleContext(t, mo.Cond(re.Cond))
	}
	if refsem.ValidForRead(mo, tu) != refsem.OK || selfRef(tu) {
		return tu, false
	}
	return tu, true
}

// invalidOn draws a well-formed tuple on (obj, rel) that is NOT valid for the
// model (a left-over of another model).
func invalidOn(t *rapid.T, mo *m.Model, obj string, rel *m.Relation, o gen.Opts) (m.Tuple, bool) {
	var all []string
	for _, td := range mo.Types {
		all = append(all, td.Name)
	}
	all = append(all, "ghost") // a type of an earlier model
	tu := m.Tuple{Object: obj, Relation: rel.Name}
	ut := pick(t, "iUserType", all)
	uid := rapid.IntRange(0, o.MaxIDs-1).Draw(t, "iUserID")
	switch rapid.IntRange(0, 2).Draw(t, "iUserKind") {
	case 0:
		tu.User = fmt.Sprintf("%s:%d", ut, uid)
	case 1:
		tu.User = ut + ":*"
	default:
		urel := "member"
		if td := mo.Type(ut); td != nil && len(td.Relations) > 0 {
			urel = pick(t, "iUserRel", td.Relations).Name
		}
		tu.User = fmt.Sprintf("%s:%d#%s", ut, uid, urel)
	}
	switch k := rapid.IntRange(0, 5).Draw(t, "iCond"); {
	case k == 0 && len(mo.Conds) > 0:
		c := pick(t, "iCondName", mo.Conds)
		tu.Cond = c.Name
		tu.Ctx = gen.TupleContext(t, &c)
	case k == 1:
		tu.Cond = "gone"
	}
	if refsem.ValidForRead(mo, tu) == refsem.OK {
		return tu, false
	}
	return tu, true
}

type relRef struct {
	typ string
	rel *m.Relation
}

func genCase(t *rapid.T) Case {
	o := worldOpts()
	w := gen.AnyWorld(t, o)
	mo := w.Model
	seen := map[string]bool{}
	for _, tu := range w.Tuples {
		seen[tu.Key()] = true
	}
	for _, tu := range w.Left {
		seen[tu.Key()] = true
	}
	var all, deep, deepenable []relRef
	for ti := range mo.Types {
		for ri := range mo.Types[ti].Relations {
			r := relRef{mo.Types[ti].Name, &mo.Types[ti].Relations[ri]}
			all = append(all, r)
			if opLevels(r.rel.Rewrite) >= 2 {
				deep = append(deep, r)
			} else if r.rel.Rewrite.HasThis() && len(r.rel.Restr) > 0 && !mo.IsTupleset(r.typ, r.rel.Name) {
				deepenable = append(deepenable, r)
			}
		}
	}
	// focus: one (object, relation), preferably with a nested rewrite, gets
	// extra valid tuples and extra left-overs on exactly the relations that
	// an Expand of it reads.
	focus := pick(t, "focus", all)
	if len(deep) > 0 && chance(t, "focusDeep", 75) {
		focus = pick(t, "focusDeepRel", deep)
	} else if len(deepenable) > 0 && chance(t, "deepen", 60) {
		// nested rewrites are rare in the shared generator: wrap an assignable
		// relation's rewrite in one or two more operator levels. Only
		// direct-assignment leaves are added, so the validity of every tuple
		// and the model's stratification are unchanged.
		focus = pick(t, "deepenRel", deepenable)
		ops := []string{m.Union, m.Intersection}
		rw := focus.rel.Rewrite
		for opLevels(rw) < 2 {
			nw := &m.Rewrite{Kind: pick(t, "deepenOp", ops), Children: []*m.Rewrite{rw, {Kind: m.This}}}
			if chance(t, "deepenFlip", 50) {
				nw.Children[0], nw.Children[1] = nw.Children[1], nw.Children[0]
			}
			rw = nw
		}
		focus.rel.Rewrite = rw
	}
	focusObj := fmt.Sprintf("%s:%d", focus.typ, rapid.IntRange(0, o.MaxIDs-1).Draw(t, "focusObjID"))
	for _, r := range readRelations(mo, focus.typ, focus.rel) {
		nv := rapid.IntRange(0, 4).Draw(t, "boostValid")
		for i := 0; i < nv; i++ {
			if tu, ok := validOn(t, mo, focusObj, r, o); ok && !seen[tu.Key()] {
				seen[tu.Key()] = true
				w.Tuples = append(w.Tuples, tu)
			}
		}
		ni := rapid.IntRange(0, 3).Draw(t, "boostInvalid")
		for i := 0; i < ni; i++ {
			if tu, ok := invalidOn(t, mo, focusObj, r, o); ok && !seen[tu.Key()] {
				seen[tu.Key()] = true
				w.Left = append(w.Left, tu)
			}
		}
	}
	m.SortTuples(w.Tuples)
	m.SortTuples(w.Left)

	stored := append(append([]m.Tuple{}, w.Tuples...), w.Left...)
	c := Case{World: w}
	n := rapid.IntRange(2, 5).Draw(t, "nQueries")
	for i := 0; i < n; i++ {
		q := Query{Object: focusObj, Relation: focus.rel.Name}
		typ := focus.typ
		switch k := rapid.IntRange(0, 9).Draw(t, "queryKind"); {
		case i == 0 || k < 3:
			// the focus pair
		case k < 7 && len(stored) > 0:
			tu := pick(t, "qTuple", stored)
			ot, _ := m.SplitObject(tu.Object)
			if td := mo.Type(ot); td != nil && len(td.Relations) > 0 {
				typ = ot
				q.Object = tu.Object
				q.Relation = pick(t, "qRel", td.Relations).Name
				if chance(t, "qSameRel", 50) && mo.Relation(ot, tu.Relation) != nil {
					q.Relation = tu.Relation
				}
			}
		default:
			r := pick(t, "qAnyRel", all)
			typ = r.typ
			q.Object = fmt.Sprintf("%s:%d", r.typ, rapid.IntRange(0, o.MaxIDs).Draw(t, "qObjID")) // MaxIDs itself: an object without tuples
			q.Relation = r.rel.Name
		}
		if chance(t, "withContextual", 40) {
			q.Contextual = genContextual(t, w, o, typ, q, seen)
		}
		c.Queries = append(c.Queries, q)
	}
	return c
}

// genContextual draws valid contextual tuples, mostly on the relations the
// Expand of the query reads: new keys, or (sometimes) a verbatim copy of a
// stored valid tuple, which must not produce a duplicate user.
func genContextual(t *rapid.T, w gen.World, o gen.Opts, typ string, q Query, storedKeys map[string]bool) []m.Tuple {
	mo := w.Model
	rel := mo.Relation(typ, q.Relation)
	var out []m.Tuple
	used := map[string]bool{}
	if rs := readRelations(mo, typ, rel); len(rs) > 0 {
		n := rapid.IntRange(1, 3).Draw(t, "nCtxOnNode")
		for i := 0; i < n; i++ {
			r := pick(t, "ctxRel", rs)
			if chance(t, "ctxDupStored", 25) {
				var cands []m.Tuple
				for _, tu := range w.Tuples {
					if tu.Object == q.Object && tu.Relation == r.Name {
						cands = append(cands, tu)
					}
				}
				if len(cands) > 0 {
					tu := pick(t, "ctxDupTuple", cands)
					if !used[tu.Key()] {
						used[tu.Key()] = true
						out = append(out, tu)
					}
					continue
				}
			}
			if tu, ok := validOn(t, mo, q.Object, r, o); ok && !storedKeys[tu.Key()] && !used[tu.Key()] {
				used[tu.Key()] = true
				out = append(out, tu)
			}
		}
	}
	if chance(t, "ctxElsewhere", 30) {
		for _, tu := range gen.Contextual(t, w, o, 2) {
			if !used[tu.Key()] {
				used[tu.Key()] = true
				out = append(out, tu)
			}
		}
	}
	m.SortTuples(out)
	return out
}

// ------------------------------------------------------------------- oracle

type entry struct {
	user        string
	valid       bool // valid for the model (contextual tuples are valid by construction, re-checked)
	conditional bool
	contextual  bool
}

type index map[string][]entry // object#relation -> tuples

func buildIndex(mo *m.Model, stored, contextual []m.Tuple) index {
	ix := index{}
	for _, tu := range stored {
		k := tu.Object + "#" + tu.Relation
		ix[k] = append(ix[k], entry{tu.User, refsem.ValidForRead(mo, tu) == refsem.OK, tu.Cond != "", false})
	}
	for _, tu := range contextual {
		k := tu.Object + "#" + tu.Relation
		ix[k] = append(ix[k], entry{tu.User, true, tu.Cond != "", true})
	}
	return ix
}

// sets returns the users that must be listed (valid, unconditional), the
// users that may be listed (valid), and the number of tuples on the node that
// are not valid for the model.
func (ix index) sets(node string) (must, may map[string]bool, invalid int) {
	must, may = map[string]bool{}, map[string]bool{}
	for _, e := range ix[node] {
		if !e.valid {
			invalid++
			continue
		}
		may[e.user] = true
		if !e.conditional {
			must[e.user] = true
		}
	}
	return must, may, invalid
}

type stats struct {
	classes      map[string]bool
	leafNT       bool // a direct leaf with >= 2 required users and >= 1 invalid tuple on the node
	expectedTree []string
}

func (s *stats) class(c string) { s.classes[c] = true }

func nodeKind(n *openfgav1.UsersetTree_Node) string {
	switch v := n.GetValue().(type) {
	case *openfgav1.UsersetTree_Node_Union:
		return m.Union
	case *openfgav1.UsersetTree_Node_Intersection:
		return m.Intersection
	case *openfgav1.UsersetTree_Node_Difference:
		return m.Difference
	case *openfgav1.UsersetTree_Node_Leaf:
		switch v.Leaf.GetValue().(type) {
		case *openfgav1.UsersetTree_Leaf_Users:
			return m.This
		case *openfgav1.UsersetTree_Leaf_Computed:
			return m.Computed
		case *openfgav1.UsersetTree_Leaf_TupleToUserset:
			return m.TTU
		}
		return "empty-leaf"
	}
	return "empty-node"
}

func keys(s map[string]bool) []string { return gen.SortedKeys(s) }

// compare checks one node of the returned tree against the rewrite node it
// must mirror. path locates the node for the message.
func compare(mo *m.Model, object, relation string, rw *m.Rewrite, n *openfgav1.UsersetTree_Node, ix index, path string, st *stats) *fw.Failure {
	name := object + "#" + relation
	if n == nil {
		return fw.Failf("C30/tree-shape", "%s: node missing, rewrite has %s", path, rw.Kind)
	}
	if k := nodeKind(n); k != rw.Kind {
		return fw.Failf("C30/tree-shape", "%s: node kind %s, the rewrite has %s", path, k, rw.Kind)
	}
	if n.GetName() != name {
		return fw.Failf("C30/node-name", "%s (%s): node is named %q, expected %q", path, rw.Kind, n.GetName(), name)
	}
	st.class("node:" + rw.Kind)
	switch rw.Kind {
	case m.Union, m.Intersection:
		var nodes []*openfgav1.UsersetTree_Node
		if rw.Kind == m.Union {
			nodes = n.GetUnion().GetNodes()
		} else {
			nodes = n.GetIntersection().GetNodes()
		}
		if len(nodes) != len(rw.Children) {
			return fw.Failf("C30/tree-shape", "%s: %s node has %d children, the rewrite has %d", path, rw.Kind, len(nodes), len(rw.Children))
		}
		for i, c := range rw.Children {
			if f := compare(mo, object, relation, c, nodes[i], ix, fmt.Sprintf("%s/%s[%d]", path, rw.Kind, i), st); f != nil {
				return f
			}
		}
	case m.Difference:
		d := n.GetDifference()
		if f := compare(mo, object, relation, rw.Children[0], d.GetBase(), ix, path+"/difference.base", st); f != nil {
			return f
		}
		if f := compare(mo, object, relation, rw.Children[1], d.GetSubtract(), ix, path+"/difference.subtract", st); f != nil {
			return f
		}
	case m.Computed:
		want := object + "#" + rw.Rel
		if got := n.GetLeaf().GetComputed().GetUserset(); got != want {
			return fw.Failf("C30/computed-target", "%s: computed leaf names %q, expected %q", path, got, want)
		}
	case m.TTU:
		ttu := n.GetLeaf().GetTupleToUserset()
		tsNode := object + "#" + rw.Tupleset
		if ttu.GetTupleset() != tsNode {
			return fw.Failf("C30/ttu-tupleset", "%s: tuple-to-userset leaf names tupleset %q, expected %q", path, ttu.GetTupleset(), tsNode)
		}
		must, may, invalid := ix.sets(tsNode)
		got := map[string]bool{}
		for _, c := range ttu.GetComputed() {
			got[c.GetUserset()] = true
		}
		mayU := map[string]bool{}
		for u := range may {
			mayU[u+"#"+rw.Rel] = true
		}
		for g := range got {
			if !mayU[g] {
				return fw.Failf("C30/ttu-computed-not-from-valid-tuple", "%s: tuple-to-userset leaf lists %q which is no parent#%s of a valid tupleset tuple on %s; valid parents: %v", path, g, rw.Rel, tsNode, keys(may))
			}
		}
		for u := range must {
			pt, _ := m.SplitObject(u)
			if mo.Relation(pt, rw.Rel) == nil {
				st.class("ttu-parent-type-lacks-relation")
				continue // undocumented: not asserted
			}
			if !got[u+"#"+rw.Rel] {
				return fw.Failf("C30/ttu-computed-missing", "%s: tuple-to-userset leaf lacks %q although %s@%s is a valid tuple; listed: %v", path, u+"#"+rw.Rel, tsNode, u, keys(got))
			}
		}
		if len(got) > 0 {
			st.class("ttu-computed>=1")
		}
		if invalid > 0 {
			st.class("ttu-invalid-tupleset-tuple-absent")
		}
	case m.This:
		users := n.GetLeaf().GetUsers().GetUsers()
		must, may, invalid := ix.sets(name)
		seen := map[string]bool{}
		for _, u := range users {
			if seen[u] {
				return fw.Failf("C30/leaf-duplicate-user", "%s: direct leaf lists %q twice: %v", path, u, users)
			}
			seen[u] = true
		}
		if !sort.StringsAreSorted(users) {
			return fw.Failf("C30/leaf-unsorted", "%s: direct leaf is not sorted: %v", path, users)
		}
		for _, u := range users {
			if !may[u] {
				return fw.Failf("C30/leaf-user-not-from-valid-tuple", "%s: direct leaf lists %q, which is not the user of a valid stored or contextual tuple on %s; valid users: %v", path, u, name, keys(may))
			}
		}
		for u := range must {
			if !seen[u] {
				return fw.Failf("C30/leaf-missing-user", "%s: direct leaf lacks %q although %s@%s is a valid unconditional tuple; listed: %v", path, u, name, u, users)
			}
		}
		for u := range may {
			if !must[u] {
				if seen[u] {
					st.class("conditional-user:listed")
				} else {
					st.class("conditional-user:omitted")
				}
			}
		}
		for _, e := range ix[name] {
			if e.contextual && seen[e.user] {
				st.class("contextual-user-in-leaf")
			}
		}
		if len(must) >= 2 {
			st.class("leaf-users>=2")
		}
		if invalid > 0 {
			st.class("leaf-invalid-tuple-absent")
		}
		if len(must) >= 2 && invalid > 0 {
			st.leafNT = true
		}
		if len(users) == 0 {
			st.class("leaf-empty")
		}
	default:
		return fw.Failf("harness/unknown-rewrite", "unknown rewrite kind %q", rw.Kind)
	}
	return nil
}

func expand(storeID, modelID string, q Query) (*openfgav1.ExpandResponse, error) {
	return semkit.Plain().Srv.Expand(context.Background(), &openfgav1.ExpandRequest{
		StoreId:              storeID,
		AuthorizationModelId: modelID,
		TupleKey:             &openfgav1.ExpandRequestTupleKey{Object: q.Object, Relation: q.Relation},
		ContextualTuples:     conv.Contextual(q.Contextual),
	})
}

func check(env *fw.Env, c Case) *fw.Failure {
	s := semkit.Plain()
	mo := c.World.Model
	storeID, modelID, f := semkit.SetupWorld(env, s, c.World)
	if f != nil || storeID == "" {
		return f
	}
	stored := append(append([]m.Tuple{}, c.World.Tuples...), c.World.Left...)
	storedKeys := map[string]bool{}
	for _, tu := range stored {
		storedKeys[tu.Key()] = true
	}
	st := &stats{classes: map[string]bool{}}
	for _, cl := range semkit.ModelClasses(mo) {
		st.class(cl)
	}
	if len(c.World.Left) > 0 {
		st.class("leftover-tuples")
	}
	nt := false
	var sample any
	evaluated := 0
queries:
	for _, q := range c.Queries {
		typ, _ := m.SplitObject(q.Object)
		rel := mo.Relation(typ, q.Relation)
		if rel == nil {
			env.Rec.Add("query_outside_domain", 1)
			continue
		}
		ctxKeys := map[string]bool{}
		for _, tu := range q.Contextual {
			if refsem.ValidForRead(mo, tu) != refsem.OK || selfRef(tu) || ctxKeys[tu.Key()] {
				env.Rec.Add("query_outside_domain", 1)
				continue queries
			}
			ctxKeys[tu.Key()] = true
			if storedKeys[tu.Key()] {
				st.class("contextual-duplicates-stored")
			}
		}
		resp, err := expand(storeID, modelID, q)
		if err != nil {
			return fw.Failf("C30/expand-error", "Expand(%s#%s, contextual=%v) failed: %v\n%s", q.Object, q.Relation, q.Contextual, err, semkit.Describe(c.World))
		}
		evaluated++
		ix := buildIndex(mo, stored, q.Contextual)
		st.leafNT = false
		if f := compare(mo, q.Object, q.Relation, rel.Rewrite, resp.GetTree().GetRoot(), ix, "root", st); f != nil {
			f.Msg = fmt.Sprintf("Expand(%s#%s, contextual=%v): %s\nrewrite: %s\ntree: %s\n%s", q.Object, q.Relation, q.Contextual, f.Msg,
				relationDSL(mo, typ, q.Relation), resp.GetTree().String(), semkit.Describe(c.World))
			return f
		}
		lv := opLevels(rel.Rewrite)
		st.class(fmt.Sprintf("oplevels:%d", min(lv, 2)))
		if len(q.Contextual) > 0 {
			st.class("with-contextual")
		}
		if lv >= 2 && st.leafNT {
			if !nt {
				sample = map[string]any{"model": mo.DSL(), "query": q.Object + "#" + q.Relation, "contextual": semkit.TupleStrings(q.Contextual),
					"tuples": semkit.TupleStrings(c.World.Tuples), "leftover": semkit.TupleStrings(c.World.Left), "tree": resp.GetTree().String()}
			}
			nt = true
		}
	}
	if evaluated == 0 {
		env.Rec.Discard("no-query-in-domain")
		return nil
	}
	env.Rec.Case(c, nt, sample, keys(st.classes)...)
	return nil
}

func relationDSL(mo *m.Model, typ, rel string) string {
	// render just the definition of typ#rel
	var b strings.Builder
	in := false
	for _, line := range strings.Split(mo.DSL(), "\n") {
		if strings.HasPrefix(line, "type ") {
			in = line == "type "+typ
		}
		if in && strings.HasPrefix(strings.TrimSpace(line), "define "+rel+":") {
			b.WriteString(typ + ": " + strings.TrimSpace(line))
		}
	}
	return b.String()
}

func TestC30(t *testing.T) { fw.Run(t, "C30", genCase, check) }
