// Package sut builds in-process instances of the system under test.
package sut

import (
	"context"
	"fmt"
	"sort"
	"strings"

	"github.com/oklog/ulid/v2"
	openfgav1 "github.com/openfga/api/proto/openfga/v1"

	"github.com/openfga/openfga/pkg/server"
	"github.com/openfga/openfga/pkg/storage"
	"github.com/openfga/openfga/pkg/storage/memory"

	"github.com/openfga/openfga/verifharness/conv"
	"github.com/openfga/openfga/verifharness/m"
)

// SUT is a server over a datastore.
type SUT struct {
	Srv *server.Server
	DS  storage.OpenFGADatastore
}

// New builds a server over a fresh in-memory datastore. Extra options may
// override the datastore.
func New(opts ...server.OpenFGAServiceV1Option) *SUT {
	ds := memory.New()
	return NewWithDS(ds, opts...)
}

// NewWithDS builds a server over the given datastore.
func NewWithDS(ds storage.OpenFGADatastore, opts ...server.OpenFGAServiceV1Option) *SUT {
	all := append([]server.OpenFGAServiceV1Option{server.WithDatastore(ds)}, opts...)
	srv, err := server.NewServerWithOpts(all...)
	if err != nil {
		panic(fmt.Sprintf("sut.New: %v", err))
	}
	return &SUT{Srv: srv, DS: ds}
}

// Close closes the server. Server.Close of the unchanged tree can panic with "sync: WaitGroup is reused
// before previous Wait has returned" when background work of earlier requests (cache fills, shared
// iterators being retired) registers on the server-wide WaitGroup while Close waits on it; that one
// panic is swallowed here (and counted by the checks that look at shutdown, see CloseChecked), any
// other panic propagates.
func (s *SUT) Close() { _ = s.CloseChecked() }

// CloseChecked closes the server and returns the message of the known shutdown panic, if it happened.
func (s *SUT) CloseChecked() (msg string) {
	defer func() {
		if r := recover(); r != nil {
			m := fmt.Sprint(r)
			if !strings.Contains(m, "WaitGroup is reused before previous Wait has returned") {
				panic(r)
			}
			msg = m
		}
	}()
	s.Srv.Close()
	return ""
}

// CreateStore creates a store through the API.
func (s *SUT) CreateStore(name string) string {
	resp, err := s.Srv.CreateStore(context.Background(), &openfgav1.CreateStoreRequest{Name: name})
	if err != nil {
		panic(fmt.Sprintf("CreateStore: %v", err))
	}
	return resp.GetId()
}

// WriteModel writes the model through the API and returns its id or the error.
func (s *SUT) WriteModel(storeID string, mo *m.Model) (string, error) {
	resp, err := s.Srv.WriteAuthorizationModel(context.Background(), &openfgav1.WriteAuthorizationModelRequest{
		StoreId: storeID, SchemaVersion: "1.1", TypeDefinitions: conv.TypeDefs(mo), Conditions: conv.Conditions(mo),
	})
	if err != nil {
		return "", err
	}
	return resp.GetAuthorizationModelId(), nil
}

// WriteRaw writes tuples straight into the datastore, bypassing validation
// (used for tuples left over from other models).
func (s *SUT) WriteRaw(storeID string, ts []m.Tuple) error {
	for i := 0; i < len(ts); i += 40 {
		j := i + 40
		if j > len(ts) {
			j = len(ts)
		}
		if err := s.DS.Write(context.Background(), storeID, nil, conv.TupleKeys(ts[i:j])); err != nil {
			return err
		}
	}
	return nil
}

// WriteAPI writes tuples through Server.Write.
func (s *SUT) WriteAPI(storeID, modelID string, ts []m.Tuple) error {
	for i := 0; i < len(ts); i += 40 {
		j := i + 40
		if j > len(ts) {
			j = len(ts)
		}
		_, err := s.Srv.Write(context.Background(), &openfgav1.WriteRequest{
			StoreId: storeID, AuthorizationModelId: modelID,
			Writes: &openfgav1.WriteRequestWrites{TupleKeys: conv.TupleKeys(ts[i:j])},
		})
		if err != nil {
			return err
		}
	}
	return nil
}

// DeleteAPI deletes tuples through Server.Write.
func (s *SUT) DeleteAPI(storeID, modelID string, ts []m.Tuple) error {
	var del []*openfgav1.TupleKeyWithoutCondition
	for _, t := range ts {
		del = append(del, &openfgav1.TupleKeyWithoutCondition{Object: t.Object, Relation: t.Relation, User: t.User})
	}
	_, err := s.Srv.Write(context.Background(), &openfgav1.WriteRequest{
		StoreId: storeID, AuthorizationModelId: modelID,
		Deletes: &openfgav1.WriteRequestDeletes{TupleKeys: del},
	})
	return err
}

// CheckReq builds the API request for a harness request.
func CheckReq(storeID, modelID string, r m.Request) *openfgav1.CheckRequest {
	return &openfgav1.CheckRequest{
		StoreId: storeID, AuthorizationModelId: modelID,
		TupleKey:         &openfgav1.CheckRequestTupleKey{Object: r.Object, Relation: r.Relation, User: r.User},
		ContextualTuples: conv.Contextual(r.Contextual),
		Context:          conv.Struct(r.Ctx),
	}
}

// Check runs Server.Check.
func (s *SUT) Check(ctx context.Context, storeID, modelID string, r m.Request) (bool, error) {
	resp, err := s.Srv.Check(ctx, CheckReq(storeID, modelID, r))
	if err != nil {
		return false, err
	}
	return resp.GetAllowed(), nil
}

// ReadAll reads every tuple of the store through the datastore (sorted).
func (s *SUT) ReadAll(storeID string) ([]m.Tuple, error) {
	it, err := s.DS.Read(context.Background(), storeID, storage.ReadFilter{}, storage.ReadOptions{})
	if err != nil {
		return nil, err
	}
	defer it.Stop()
	var out []m.Tuple
	for {
		t, err := it.Next(context.Background())
		if err != nil {
			if err == storage.ErrIteratorDone {
				break
			}
			return nil, err
		}
		out = append(out, conv.FromTupleKey(t.GetKey()))
	}
	sort.Slice(out, func(i, j int) bool { return out[i].Key() < out[j].Key() })
	return out, nil
}

// NewULID returns a fresh ULID string.
func NewULID() string { return ulid.Make().String() }
