package sut

import (
	"context"
	"sort"
	"sync"

	openfgav1 "github.com/openfga/api/proto/openfga/v1"
	"google.golang.org/grpc/metadata"

	"github.com/openfga/openfga/verifharness/conv"
	"github.com/openfga/openfga/verifharness/m"
)

// LORequest is a ListObjects-shaped request.
type LORequest struct {
	Type       string         `json:"type"`
	Relation   string         `json:"relation"`
	User       string         `json:"user"`
	Ctx        map[string]any `json:"ctx,omitempty"`
	Contextual []m.Tuple      `json:"contextual,omitempty"`
}

// ListObjects runs Server.ListObjects.
func (s *SUT) ListObjects(ctx context.Context, storeID, modelID string, r LORequest, consistency openfgav1.ConsistencyPreference) ([]string, error) {
	resp, err := s.Srv.ListObjects(ctx, &openfgav1.ListObjectsRequest{
		StoreId: storeID, AuthorizationModelId: modelID, Type: r.Type, Relation: r.Relation, User: r.User,
		Context: conv.Struct(r.Ctx), ContextualTuples: conv.Contextual(r.Contextual), Consistency: consistency,
	})
	if err != nil {
		return nil, err
	}
	return resp.GetObjects(), nil
}

type loStream struct {
	ctx context.Context
	mu  sync.Mutex
	got []string
}

func (l *loStream) Send(r *openfgav1.StreamedListObjectsResponse) error {
	l.mu.Lock()
	defer l.mu.Unlock()
	l.got = append(l.got, r.GetObject())
	return nil
}
func (l *loStream) SetHeader(metadata.MD) error  { return nil }
func (l *loStream) SendHeader(metadata.MD) error { return nil }
func (l *loStream) SetTrailer(metadata.MD)       {}
func (l *loStream) Context() context.Context     { return l.ctx }
func (l *loStream) SendMsg(any) error            { return nil }
func (l *loStream) RecvMsg(any) error            { return nil }

// StreamedListObjects runs Server.StreamedListObjects with a collecting stream.
func (s *SUT) StreamedListObjects(ctx context.Context, storeID, modelID string, r LORequest, consistency openfgav1.ConsistencyPreference) ([]string, error) {
	st := &loStream{ctx: ctx}
	err := s.Srv.StreamedListObjects(&openfgav1.StreamedListObjectsRequest{
		StoreId: storeID, AuthorizationModelId: modelID, Type: r.Type, Relation: r.Relation, User: r.User,
		Context: conv.Struct(r.Ctx), ContextualTuples: conv.Contextual(r.Contextual), Consistency: consistency,
	}, st)
	st.mu.Lock()
	defer st.mu.Unlock()
	return append([]string{}, st.got...), err
}

// UserProto converts a user string (object, typed wildcard, userset) to the ListUsers User message.
func UserString(u *openfgav1.User) string {
	switch x := u.GetUser().(type) {
	case *openfgav1.User_Object:
		return x.Object.GetType() + ":" + x.Object.GetId()
	case *openfgav1.User_Wildcard:
		return x.Wildcard.GetType() + ":*"
	case *openfgav1.User_Userset:
		return x.Userset.GetType() + ":" + x.Userset.GetId() + "#" + x.Userset.GetRelation()
	}
	return ""
}

// LURequest is a ListUsers-shaped request; Filter is "type" or "type#relation".
type LURequest struct {
	Object     string         `json:"object"`
	Relation   string         `json:"relation"`
	Filter     string         `json:"filter"`
	Ctx        map[string]any `json:"ctx,omitempty"`
	Contextual []m.Tuple      `json:"contextual,omitempty"`
}

// ListUsers runs Server.ListUsers and returns the users as sorted strings.
func (s *SUT) ListUsers(ctx context.Context, storeID, modelID string, r LURequest, consistency openfgav1.ConsistencyPreference) ([]string, error) {
	ot, oid := m.SplitObject(r.Object)
	ft, frel := m.SplitUser(r.Filter)
	resp, err := s.Srv.ListUsers(ctx, &openfgav1.ListUsersRequest{
		StoreId: storeID, AuthorizationModelId: modelID,
		Object: &openfgav1.Object{Type: ot, Id: oid}, Relation: r.Relation,
		UserFilters:      []*openfgav1.UserTypeFilter{{Type: ft, Relation: frel}},
		ContextualTuples: conv.TupleKeys(r.Contextual), Context: conv.Struct(r.Ctx), Consistency: consistency,
	})
	if err != nil {
		return nil, err
	}
	var out []string
	for _, u := range resp.GetUsers() {
		out = append(out, UserString(u))
	}
	sort.Strings(out)
	return out, nil
}

// BatchItem is one item of a BatchCheck.
type BatchItem struct {
	ID  string    `json:"id"`
	Req m.Request `json:"req"`
}

// BatchOutcome is the per-item result: Err != "" means the item failed.
type BatchOutcome struct {
	Allowed bool
	Err     string
}

// BatchCheck runs Server.BatchCheck and returns the result map by correlation id.
func (s *SUT) BatchCheck(ctx context.Context, storeID, modelID string, items []BatchItem, consistency openfgav1.ConsistencyPreference) (map[string]BatchOutcome, error) {
	req := &openfgav1.BatchCheckRequest{StoreId: storeID, AuthorizationModelId: modelID, Consistency: consistency}
	for _, it := range items {
		req.Checks = append(req.Checks, &openfgav1.BatchCheckItem{
			CorrelationId:    it.ID,
			TupleKey:         &openfgav1.CheckRequestTupleKey{Object: it.Req.Object, Relation: it.Req.Relation, User: it.Req.User},
			ContextualTuples: conv.Contextual(it.Req.Contextual),
			Context:          conv.Struct(it.Req.Ctx),
		})
	}
	resp, err := s.Srv.BatchCheck(ctx, req)
	if err != nil {
		return nil, err
	}
	out := map[string]BatchOutcome{}
	for id, r := range resp.GetResult() {
		if e := r.GetError(); e != nil {
			out[id] = BatchOutcome{Err: e.GetMessage()}
			if out[id].Err == "" {
				out[id] = BatchOutcome{Err: "error"}
			}
		} else {
			out[id] = BatchOutcome{Allowed: r.GetAllowed()}
		}
	}
	return out, nil
}

// Expand runs Server.Expand and returns the tree.
func (s *SUT) Expand(ctx context.Context, storeID, modelID, object, relation string, contextual []m.Tuple) (*openfgav1.UsersetTree, error) {
	resp, err := s.Srv.Expand(ctx, &openfgav1.ExpandRequest{
		StoreId: storeID, AuthorizationModelId: modelID,
		TupleKey:         &openfgav1.ExpandRequestTupleKey{Object: object, Relation: relation},
		ContextualTuples: conv.Contextual(contextual),
	})
	if err != nil {
		return nil, err
	}
	return resp.GetTree(), nil
}
