package p22

// C22 — the bounded MPMC queue (internal/containers/mpmc) and the MPSC
// accumulator (internal/containers/mpsc) that connect the list-objects
// pipeline workers (internal/listobjects/pipeline/internal/worker/medium.go)
// behave like FIFO channels under any interleaving.
//
// A rapid-drawn program (Case) is executed with real goroutines; every call is
// recorded with invoke/return ticks of a logical clock; the history is checked
//   - by counting (no phantom, no duplicate, nothing lost: sent-ok = received
//     by consumers + drained after the final Close),
//   - by porcupine against a sequential channel model (mpmc: one bounded FIFO;
//     mpsc: FIFO per producer),
//   - for liveness by a quiescence monitor (a pending Recv although an item is
//     buffered / the queue is closed, a pending Send although there is room /
//     the queue is closed, and no event for stallBound) — reported as a
//     violation only when the same program stalls 3 times, else inconclusive.
//
// medium.go itself lives below .../pipeline/internal and cannot be imported
// from the harness module; its use of the containers is covered by generating
// exactly its configurations: mpmc.MustQueue(FloorPowerOfTwo(cap), -1) with
// many producers and ONE consumer ("profile:medium-queue") and
// mpsc.NewAccumulator with Close after the producers ("target:mpsc").

import (
	"fmt"
	"sort"
	"strings"
	"sync"
	"testing"
	"time"

	"github.com/anishathalye/porcupine"
	"pgregory.net/rapid"

	"github.com/openfga/openfga/verifharness/fw"
)

// ---------------------------------------------------------------------------
// Generator
// ---------------------------------------------------------------------------

const maxOps = 6

func genOps(t *rapid.T, label string, kinds []string, weights []int) []Op {
	n := rapid.IntRange(1, maxOps).Draw(t, label+"_n")
	sum := 0
	for _, w := range weights {
		sum += w
	}
	ops := make([]Op, n)
	for i := range ops {
		x := rapid.IntRange(0, sum-1).Draw(t, label+"_kind")
		k := 0
		for x >= weights[k] {
			x -= weights[k]
			k++
		}
		ops[i] = Op{K: kinds[k], Y: rapid.Byte().Draw(t, label+"_sched")}
	}
	return ops
}

func gen(t *rapid.T) Case {
	c := Case{CloseAt: []int{}, Pre: []int{}}
	mode := rapid.IntRange(0, 9).Draw(t, "mode")
	nP := rapid.IntRange(1, 3).Draw(t, "producers")
	nC := 1
	switch {
	case mode <= 1:
		c.Target = targetMPSC
	case mode <= 4: // the configuration medium.go uses: unlimited growth, one consumer
		c.Target = targetMPMC
		c.Cap = rapid.SampledFrom([]int{2, 4}).Draw(t, "cap")
		c.Ext = -1
	default:
		c.Target = targetMPMC
		c.Cap = rapid.SampledFrom([]int{2, 2, 4}).Draw(t, "cap")
		c.Ext = rapid.SampledFrom([]int{0, 0, 1, -1}).Draw(t, "ext")
		nC = rapid.IntRange(1, 3).Draw(t, "consumers")
	}
	total := 0
	for p := 0; p < nP; p++ {
		var ops []Op
		if c.Target == targetMPSC {
			ops = genOps(t, "p", []string{kSend}, []int{1})
			c.Pre = append(c.Pre, rapid.IntRange(0, len(ops)).Draw(t, "pre"))
			if rapid.IntRange(0, 2).Draw(t, "all_pre") > 0 {
				c.Pre[p] = len(ops)
			}
		} else {
			ops = genOps(t, "p", []string{kSend, kSendC}, []int{15, 1})
		}
		c.Producers = append(c.Producers, ops)
		total += len(ops)
	}
	if c.Target == targetMPSC {
		c.CloseLate = rapid.IntRange(0, 2).Draw(t, "close_late") == 0
	}
	for k := 0; k < nC; k++ {
		var ops []Op
		if c.Target == targetMPSC {
			ops = genOps(t, "c", []string{kRecv, kTry}, []int{3, 1})
		} else {
			ops = genOps(t, "c", []string{kRecv}, []int{1})
		}
		c.Consumers = append(c.Consumers, ops)
		total += len(ops)
	}
	if c.Target == targetMPMC {
		switch x := rapid.IntRange(0, 9).Draw(t, "close_mode"); {
		case x == 0:
			c.CloseAt = append(c.CloseAt, 0)
		case x <= 5:
			// rapid favours small numbers: count from the end half of the time
			k := rapid.IntRange(1, total).Draw(t, "close_at")
			if rapid.Bool().Draw(t, "close_from_end") {
				k = total + 1 - k
			}
			c.CloseAt = append(c.CloseAt, k)
		}
		if len(c.CloseAt) > 0 && rapid.IntRange(0, 4).Draw(t, "close_twice") == 0 {
			c.CloseAt = append(c.CloseAt, rapid.IntRange(1, total).Draw(t, "close_at2"))
		}
	}
	c.CloseY = rapid.Byte().Draw(t, "close_sched")
	// Schedules are real: the same program is executed several times. Programs
	// that are closed only at quiescence are the ones that can expose a lost
	// wake-up, they get more executions.
	if (c.Target == targetMPMC && len(c.CloseAt) == 0) || c.CloseLate {
		c.Reps = rapid.SampledFrom([]int{1, 2, 4, 8, 16, 32}).Draw(t, "reps")
	} else {
		c.Reps = rapid.SampledFrom([]int{1, 2, 3, 4}).Draw(t, "reps")
	}
	return c
}

func validCase(c *Case) string {
	if c.Target != targetMPMC && c.Target != targetMPSC {
		return "bad target"
	}
	if len(c.Producers) < 1 || len(c.Producers) > 3 || len(c.Consumers) < 1 || len(c.Consumers) > 3 {
		return "bad goroutine count"
	}
	for _, ops := range append(append([][]Op{}, c.Producers...), c.Consumers...) {
		if len(ops) > 12 {
			return "too many ops"
		}
	}
	if c.Target == targetMPSC && (len(c.Consumers) != 1 || len(c.Pre) != len(c.Producers)) {
		return "bad mpsc shape"
	}
	if c.Reps < 1 || c.Reps > 100000 { // replay files of liveness findings use many executions
		return "bad reps"
	}
	return ""
}

// ---------------------------------------------------------------------------
// Sequential specification for porcupine
// ---------------------------------------------------------------------------

type pIn struct {
	kind uint8
	val  byte
}
type pOut struct {
	ok  bool
	val int
}

// The model state is a string: byte 0 = '1' when closed, the rest = the
// buffered values in arrival order.
//   - send(v) -> true   needs an open queue with room (bound = cap<<ext, none
//     when ext < 0 or for the accumulator), appends v
//   - send(v) -> false  needs a closed queue (no context is ever cancelled
//     while a program runs), except with a cancelled context: always false
//   - recv -> v,true    needs v at the front (mpsc: v is the oldest buffered
//     value *of its producer* — FIFO per producer)
//   - recv -> _,false   needs a closed and empty queue
//   - tryrecv -> false  is always allowed (mpsc only; the property says
//     nothing about it), tryrecv -> v,true is like recv
//   - close             closes (idempotent)
func model(c *Case) porcupine.Model {
	bound := 0
	if c.Target == targetMPMC && c.Ext >= 0 {
		bound = c.Cap << uint(c.Ext)
	}
	perProducer := c.Target == targetMPSC
	return porcupine.Model{
		Init: func() interface{} { return "0" },
		Step: func(state, input, output interface{}) (bool, interface{}) {
			st := state.(string)
			in := input.(pIn)
			out := output.(pOut)
			closed := st[0] == '1'
			items := st[1:]
			switch in.kind {
			case opSend:
				if !out.ok {
					return closed, st
				}
				if closed || (bound > 0 && len(items) >= bound) {
					return false, st
				}
				return true, st + string([]byte{in.val})
			case opSendC:
				return !out.ok, st
			case opRecv, opTry:
				if !out.ok {
					if in.kind == opTry {
						return true, st
					}
					return closed && len(items) == 0, st
				}
				if out.val <= 0 || out.val > 255 {
					return false, st
				}
				v := byte(out.val)
				idx := -1
				if perProducer {
					for i := 0; i < len(items); i++ {
						if items[i]>>4 == v>>4 {
							idx = i
							break
						}
					}
				} else if len(items) > 0 {
					idx = 0
				}
				if idx < 0 || items[idx] != v {
					return false, st
				}
				return true, st[:1+idx] + st[2+idx:]
			case opClose:
				return true, "1" + items
			}
			return false, st
		},
	}
}

func porcupineTimeout() time.Duration {
	if raceOn {
		return 10 * time.Second
	}
	return 2 * time.Second
}

// ---------------------------------------------------------------------------
// History analysis
// ---------------------------------------------------------------------------

type analysis struct {
	classes map[string]bool
	overlap bool
}

func analyse(c *Case, res *result) (*fw.Failure, *analysis, bool) {
	tg := c.Target
	h := res.hist
	fail := func(sig, format string, a ...any) (*fw.Failure, *analysis, bool) {
		return fw.Failf("C22/"+tg+"-"+sig, "%s\n%s\nhistory (logical clock [invoke,return]):\n%s", fmt.Sprintf(format, a...), describe(c), dumpHistory(res)), nil, false
	}

	// --- counting invariants -------------------------------------------------
	sentOK := map[int]bool{}
	sentFail := map[int]bool{}
	var firstCloseRet, firstCloseCall int64 = -1, -1
	for _, rc := range h {
		switch rc.kind {
		case opSend:
			if rc.ok {
				sentOK[rc.val] = true
			} else {
				sentFail[rc.val] = true
			}
		case opSendC:
			if rc.ok {
				return fail("send-cancelled-ctx-succeeded", "Send(%s) with an already cancelled context returned true", valueString(rc.val))
			}
			sentFail[rc.val] = true
		case opClose:
			if firstCloseRet < 0 || rc.ret < firstCloseRet {
				firstCloseRet = rc.ret
			}
			if firstCloseCall < 0 || rc.call < firstCloseCall {
				firstCloseCall = rc.call
			}
		}
	}
	got := map[int]int{}
	drainedClosed := false
	for _, rc := range h {
		if rc.kind != opRecv && rc.kind != opTry {
			continue
		}
		if !rc.ok {
			if rc.drain {
				drainedClosed = true
			}
			continue
		}
		got[rc.out]++
		switch {
		case rc.out == torn:
			return fail("torn-item", "a receive returned an item whose words disagree: the slot was read while a sender was writing it")
		case sentFail[rc.out]:
			return fail("failed-send-delivered", "%s was received although its Send returned false", valueString(rc.out))
		case !sentOK[rc.out]:
			return fail("phantom-item", "received %s (raw %d), which no successful Send carried", valueString(rc.out), rc.out)
		case got[rc.out] > 1:
			return fail("duplicate", "%s was received twice", valueString(rc.out))
		}
	}
	if !drainedClosed {
		return fail("drain-incomplete", "the final drain did not reach the closed state")
	}
	var lost []string
	for v := range sentOK {
		if got[v] == 0 {
			lost = append(lost, valueString(v))
		}
	}
	if len(lost) > 0 {
		sort.Strings(lost)
		return fail("item-lost", "Send returned true for %v but the items were never received, not even by draining after Close until Recv reported closed", lost)
	}

	// --- FIFO per producer, checked directly for a sharper message -----------
	if tg == targetMPSC {
		last := map[int]int{}
		for _, rc := range h { // single consumer: receives are sequential, call order = receive order
			if (rc.kind == opRecv || rc.kind == opTry) && rc.ok {
				p := rc.out / 16
				if rc.out < last[p] {
					return fail("per-producer-order", "%s received after %s", valueString(rc.out), valueString(last[p]))
				}
				last[p] = rc.out
			}
		}
	}

	// --- linearizability against the channel model ---------------------------
	ops := make([]porcupine.Operation, 0, len(h))
	for _, rc := range h {
		ops = append(ops, porcupine.Operation{ClientId: rc.w, Input: pIn{rc.kind, byte(rc.val)}, Call: rc.call, Output: pOut{rc.ok, rc.out}, Return: rc.ret})
	}
	switch porcupine.CheckOperationsTimeout(model(c), ops, porcupineTimeout()) {
	case porcupine.Illegal:
		return fail("not-linearizable", "the history is not linearizable w.r.t. the sequential %s model", map[string]string{targetMPMC: "bounded FIFO channel", targetMPSC: "per-producer-FIFO channel"}[tg])
	case porcupine.Unknown:
		return nil, nil, true
	}

	// --- classes ---------------------------------------------------------------
	a := &analysis{classes: map[string]bool{}}
	maxRet := map[int]int64{} // per worker, max return seen so far
	for _, rc := range h {
		for w, mr := range maxRet {
			if w != rc.w && mr > rc.call {
				a.overlap = true
			}
		}
		if rc.ret > maxRet[rc.w] {
			maxRet[rc.w] = rc.ret
		}
	}
	if a.overlap {
		a.classes["ops-overlapped"] = true
	}
	sendCall := map[int]int64{}
	for _, rc := range h {
		if rc.kind == opSend {
			sendCall[rc.val] = rc.call
		}
	}
	bound := 0
	if tg == targetMPMC && c.Ext >= 0 {
		bound = c.Cap << uint(c.Ext)
	}
	for _, rc := range h {
		closedBefore := firstCloseRet >= 0 && firstCloseRet < rc.call
		closeOverlap := firstCloseCall >= 0 && !closedBefore && firstCloseCall < rc.ret
		switch rc.kind {
		case opRecv:
			if rc.drain {
				if rc.ok {
					a.classes["close-with-items-buffered:drained-at-end"] = true
				}
				continue
			}
			// The consumer was invoked before the Send of the value it got
			// (resp. before the Close that released it) was invoked: it found
			// the queue empty and had to wait (park).
			if rc.ok && rc.call < sendCall[rc.out] {
				a.classes["consumer-parked"] = true
				a.classes["consumer-parked:woken-by-send"] = true
			}
			if !rc.ok && firstCloseCall > rc.call {
				a.classes["consumer-parked"] = true
				a.classes["consumer-parked:woken-by-close"] = true
			}
			if rc.ok && closedBefore {
				a.classes["close-with-items-buffered"] = true
				a.classes["recv-ok-after-close"] = true
			}
			if !rc.ok && closedBefore {
				a.classes["recv-closed-after-close"] = true
			}
			if closeOverlap {
				a.classes["recv-concurrent-with-close"] = true
			}
		case opTry:
			if rc.ok {
				a.classes["tryrecv-ok"] = true
			} else {
				a.classes["tryrecv-empty"] = true
			}
		case opSend:
			if closedBefore {
				a.classes["send-after-close"] = true
			}
			if closeOverlap {
				a.classes["send-concurrent-with-close"] = true
				if !rc.ok {
					a.classes["send-concurrent-with-close:failed"] = true
				}
			}
			if bound > 0 {
				// lower bound of the buffer level when the Send was invoked:
				// sends that had returned true minus receives already invoked.
				lvl := 0
				for _, o := range h {
					if o.kind == opSend && o.ok && o.ret < rc.call {
						lvl++
					}
					if o.kind == opRecv && o.ok && o.call < rc.call {
						lvl--
					}
				}
				if lvl >= bound && !closedBefore {
					a.classes["producer-parked"] = true
					if rc.ok {
						a.classes["producer-parked:woken-by-recv"] = true
					} else {
						a.classes["producer-parked:woken-by-close"] = true
					}
				}
			}
		case opSendC:
			a.classes["send-with-cancelled-ctx"] = true
		}
	}
	if a.classes["close-with-items-buffered:drained-at-end"] {
		a.classes["close-with-items-buffered"] = true
	}
	if tg == targetMPMC && res.finalCap > c.Cap {
		a.classes["buffer-grew"] = true
		if res.finalCap > 2*c.Cap {
			a.classes["buffer-grew:twice-or-more"] = true
		}
	}
	if res.forced {
		a.classes["close:at-quiescence-with-blocked-calls"] = true
	}
	return nil, a, false
}

func describe(c *Case) string {
	var b strings.Builder
	if c.Target == targetMPMC {
		fmt.Fprintf(&b, "program: mpmc.NewQueue[int](%d, %d), close_at=%v", c.Cap, c.Ext, c.CloseAt)
	} else {
		fmt.Fprintf(&b, "program: mpsc.NewAccumulator[int](), sends before Close per producer=%v, close only at quiescence=%v", c.Pre, c.CloseLate)
	}
	line := func(name string, ops []Op) {
		fmt.Fprintf(&b, "\n  %s:", name)
		for _, op := range ops {
			fmt.Fprintf(&b, " %s/y%d", op.K, yieldTable[op.Y&7])
		}
	}
	for p, ops := range c.Producers {
		line(fmt.Sprintf("P%d", p), ops)
	}
	for k, ops := range c.Consumers {
		line(fmt.Sprintf("C%d", k), ops)
	}
	return b.String()
}

// ---------------------------------------------------------------------------
// The check
// ---------------------------------------------------------------------------

const (
	stallConfirmations = 3     // a stall is a violation only when the same program stalls this often
	stallRetries       = 30000 // re-executions of the program used to confirm
	stallRetryBudget   = 20 * time.Second
)

// confirmed counts, per signature, the stalls that were confirmed in this
// process. Once a signature that is listed as an open known finding has been
// confirmed twice, later single stalls with the same signature are counted as
// that known finding without paying for the confirmation again.
var (
	confirmedMu sync.Mutex
	confirmed   = map[string]int{}
)

func stallSignature(c *Case, kind string) string {
	sig := "C22/" + c.Target + "-" + kind
	// structural qualifier: the single-token wake-up channels can only lose a
	// wake-up when two goroutines of the same role wait at the same time.
	switch {
	case strings.HasPrefix(kind, "recv-lost-wakeup") && len(c.Consumers) >= 2:
		sig += "-multi-consumer"
	case strings.HasPrefix(kind, "send-lost-wakeup") && len(c.Producers) >= 2:
		sig += "-multi-producer"
	}
	return sig
}

func check(env *fw.Env, c Case) *fw.Failure {
	if why := validCase(&c); why != "" {
		env.Rec.Discard(why)
		return nil
	}
	classes := map[string]bool{}
	overlap := false
	for rep := 0; rep < c.Reps; rep++ {
		res, err := execute(&c)
		if err != nil {
			env.Rec.Discard("constructor: " + err.Error())
			return nil
		}
		if len(res.panics) > 0 {
			return fw.Failf("C22/"+c.Target+"-panic", "a queue operation panicked: %s\n%s\n%s%s", strings.Join(res.panics, "\n"), describe(&c), dumpHistory(res), res.stuckMsg)
		}
		if res.leaked {
			// Not a timing artefact: the goroutines did not even return after
			// Close and context cancellation. No re-execution (each one would
			// leave more goroutines behind).
			return fw.Failf("C22/"+c.Target+"-hang-survives-close-and-cancel", "liveness: %s\n%s", res.stuckMsg, describe(&c))
		}
		if res.stuck != "" {
			// Liveness: confirm with the same program before calling it a violation.
			seen, first := 1, res
			sig := stallSignature(&c, first.stuck)
			confirmedMu.Lock()
			already := confirmed[sig]
			confirmedMu.Unlock()
			if already >= 2 && fw.IsKnown(sig) && !env.Replay {
				return fw.Failf(sig, "liveness (not re-confirmed, signature already confirmed %d times in this process): %s\n%s", already, first.stuckMsg, describe(&c))
			}
			start := time.Now()
			tries := 0
			for ; tries < stallRetries && seen < stallConfirmations && time.Since(start) < stallRetryBudget; tries++ {
				r2, err := execute(&c)
				if err != nil {
					break
				}
				if r2.leaked {
					return fw.Failf("C22/"+c.Target+"-hang-survives-close-and-cancel", "liveness: %s\n%s", r2.stuckMsg, describe(&c))
				}
				if r2.stuck == first.stuck {
					seen++
				}
			}
			if seen < stallConfirmations {
				env.Rec.Inconclusive()
				env.Rec.Add("stall_unconfirmed:"+first.stuck, 1)
				return nil
			}
			confirmedMu.Lock()
			confirmed[sig]++
			confirmedMu.Unlock()
			return fw.Failf(sig, "liveness: the program stalled %d times in %d executions; first stall: %s\n%s", seen, tries+1, first.stuckMsg, describe(&c))
		}
		f, a, unknown := analyse(&c, res)
		if f != nil {
			return f
		}
		if unknown {
			env.Rec.Inconclusive()
			env.Rec.Add("porcupine_timeout", 1)
			return nil
		}
		for k := range a.classes {
			classes[k] = true
		}
		overlap = overlap || a.overlap
	}

	// NT rule (DESIGN.md C22): the history has >= 2 overlapping operations of
	// different goroutines. (The run-level part of the rule — classes
	// "buffer-grew", "producer-parked", "consumer-parked",
	// "close-with-items-buffered" all non-empty — is read off the histogram.)
	nt := overlap
	list := []string{"target:" + c.Target, fmt.Sprintf("P=%d", len(c.Producers)), fmt.Sprintf("C=%d", len(c.Consumers))}
	if c.Target == targetMPSC {
		if c.CloseLate {
			list = append(list, "close:at-quiescence-or-end")
		} else {
			list = append(list, "close:after-last-producer")
		}
	}
	if c.Target == targetMPMC {
		list = append(list, fmt.Sprintf("cap=%d", c.Cap), fmt.Sprintf("ext=%d", c.Ext))
		if c.Ext < 0 && len(c.Consumers) == 1 {
			list = append(list, "profile:medium-queue")
		}
		switch {
		case len(c.CloseAt) == 0:
			list = append(list, "close:at-quiescence-or-end")
		case c.CloseAt[0] == 0:
			list = append(list, "close:before-start")
		default:
			list = append(list, "close:at-kth-op")
		}
		if len(c.CloseAt) > 1 {
			list = append(list, "close:twice")
		}
	}
	keys := make([]string, 0, len(classes))
	for k := range classes {
		keys = append(keys, k)
	}
	sort.Strings(keys)
	list = append(list, keys...)
	var sample any
	if nt {
		sample = map[string]any{"program": describe(&c), "classes": keys}
	}
	env.Rec.Case(c, nt, sample, list...)
	return nil
}

func TestC22(t *testing.T) { fw.Run(t, "C22", gen, check) }
