//go:build !race

package p22

const raceOn = false
