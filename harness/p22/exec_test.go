package p22

import (
	"context"
	"fmt"
	"runtime"
	"runtime/debug"
	"sort"
	"strings"
	"sync"
	"sync/atomic"
	"time"

	"github.com/openfga/openfga/internal/containers/mpmc"
	"github.com/openfga/openfga/internal/containers/mpsc"
)

// ---------------------------------------------------------------------------
// The program (the JSON-serialisable case)
// ---------------------------------------------------------------------------

const (
	targetMPMC = "mpmc" // mpmc.Queue[int]
	targetMPSC = "mpsc" // mpsc.Accumulator[int]

	kSend  = "send"  // Send(ctx, v)
	kSendC = "sendc" // Send(cancelledCtx, v): must fail and enqueue nothing (mpmc only)
	kRecv  = "recv"  // blocking Recv(ctx)
	kTry   = "try"   // TryRecv() (mpsc consumer only)
)

// Op is one call of a producer or consumer. Y is the "schedule byte": it is
// turned into a number of runtime.Gosched() calls executed before the call.
type Op struct {
	K string `json:"k"`
	Y uint8  `json:"y"`
}

// Case is a small concurrent program over one queue.
type Case struct {
	Target    string `json:"target"`
	Cap       int    `json:"cap"` // mpmc: initial capacity (2 or 4)
	Ext       int    `json:"ext"` // mpmc: extensions (0, 1, -1 = unlimited)
	Producers [][]Op `json:"producers"`
	Consumers [][]Op `json:"consumers"`
	// CloseAt (mpmc): Close is called by the goroutine that completes the
	// k-th operation of the program (counted over all goroutines); 0 = before
	// any goroutine starts. Empty = Close only when the program is quiescent
	// (everything finished or legitimately blocked). Two entries = Close twice.
	CloseAt []int `json:"close_at"`
	// Pre (mpsc): number of sends each producer performs before the Close;
	// the documented contract of the accumulator requires that Close is called
	// only after all producers have completed their sends, so the last
	// producer to finish its first Pre[p] sends calls Close and the remaining
	// sends start after Close returned (they must fail).
	Pre []int `json:"pre"`
	// CloseLate (mpsc): nobody closes at the barrier; the accumulator is closed
	// only once all producers have completed their pre-close sends AND the
	// program is quiescent (consumer finished or blocked on an empty queue) —
	// without this a consumer that missed a wake-up would be rescued by Close.
	CloseLate bool  `json:"close_late"`
	CloseY    uint8 `json:"close_y"` // schedule byte in front of the Close
	Reps      int   `json:"reps"`    // the program is executed Reps times (fresh queue each time)
}

var yieldTable = [8]int{0, 0, 0, 1, 1, 2, 4, 12}

func yield(b uint8) {
	for i := yieldTable[b&7]; i > 0; i-- {
		runtime.Gosched()
	}
}

// Values are unique per program: producer p's n-th send (n from 1) carries
// (p+1)*16+n, which fits in a byte (p <= 2, n <= 15) and is never zero.
func value(p, n int) int { return (p+1)*16 + n }

func valueString(v int) string {
	if v <= 16 || v > 255 || v%16 == 0 {
		return fmt.Sprintf("?%d", v)
	}
	return fmt.Sprintf("p%d#%d", v/16-1, v%16)
}

// ---------------------------------------------------------------------------
// Systems under test behind one interface
// ---------------------------------------------------------------------------

type sut interface {
	Send(ctx context.Context, v int) bool
	Recv(ctx context.Context) (int, bool)
	TryRecv() (int, bool)
	Close()
	Capacity() int
}

// item is the element type: several words that all carry the value, so that
// a receiver that reads a slot while the sender is still writing it (a data
// race on the payload) sees a torn or zero item.
type item [64]int

const torn = -1

func mk(v int) item {
	var it item
	for i := range it {
		it[i] = v
	}
	return it
}

func (it item) value() int {
	for _, x := range it {
		if x != it[0] {
			return torn
		}
	}
	return it[0]
}

type queueSUT struct{ q *mpmc.Queue[item] }

func (s queueSUT) Send(ctx context.Context, v int) bool { return s.q.Send(ctx, mk(v)) }
func (s queueSUT) Recv(ctx context.Context) (int, bool) {
	it, ok := s.q.Recv(ctx)
	return it.value(), ok
}
func (s queueSUT) TryRecv() (int, bool) { panic("mpmc has no TryRecv") }
func (s queueSUT) Close()               { s.q.Close() }
func (s queueSUT) Capacity() int        { return s.q.Capacity() }

type accSUT struct{ a *mpsc.Accumulator[item] }

func (s accSUT) Send(_ context.Context, v int) bool   { return s.a.Send(mk(v)) }
func (s accSUT) Recv(ctx context.Context) (int, bool) { it, ok := s.a.Recv(ctx); return it.value(), ok }
func (s accSUT) TryRecv() (int, bool)                 { it, ok := s.a.TryRecv(); return it.value(), ok }
func (s accSUT) Close()                               { s.a.Close() }
func (s accSUT) Capacity() int                        { return 0 }

// ---------------------------------------------------------------------------
// Recording
// ---------------------------------------------------------------------------

const (
	opSend uint8 = iota + 1
	opSendC
	opRecv
	opTry
	opClose
)

var opNames = map[uint8]string{opSend: "send", opSendC: "send[cancelled ctx]", opRecv: "recv", opTry: "tryrecv", opClose: "close"}

// rec is one call: [call, ret] on the logical clock, argument and result.
type rec struct {
	kind  uint8
	val   int // argument of a send
	call  int64
	ret   int64
	ok    bool
	out   int // value returned by recv/tryrecv
	w     int // worker index (filled in on collection)
	drain bool
}

func (r rec) String() string {
	s := opNames[r.kind]
	switch r.kind {
	case opSend, opSendC:
		s += "(" + valueString(r.val) + ")"
	}
	if r.ret == 0 {
		return fmt.Sprintf("[%3d,  …] %s -> (pending)", r.call, s)
	}
	res := ""
	switch r.kind {
	case opSend, opSendC:
		res = fmt.Sprintf("%v", r.ok)
	case opRecv, opTry:
		if r.ok {
			res = valueString(r.out) + ",true"
		} else {
			res = fmt.Sprintf("%d,false", r.out)
		}
	case opClose:
		res = "()"
	}
	return fmt.Sprintf("[%3d,%3d] %s -> %s", r.call, r.ret, s, res)
}

// worker owns a fixed-size record array; started/finished publish how far it
// got so that the monitor may look at it while the goroutine is still alive.
type worker struct {
	name     string
	recs     []rec
	started  atomic.Int32
	finished atomic.Int32
	panicMsg atomic.Pointer[string]
}

type run struct {
	c        *Case
	s        sut
	clock    atomic.Int64 // logical clock: every invoke and every return takes a fresh tick
	opsDone  atomic.Int64
	closeInv atomic.Bool
	closeRet atomic.Bool
	forced   atomic.Bool
	workers  []*worker
	ctx      context.Context
	cancel   context.CancelFunc
	dead     context.Context
	start    chan struct{}
	closedCh chan struct{} // mpsc: closed once the in-contract Close has returned
	abortOne sync.Once
	preLeft  atomic.Int32
	ready    atomic.Int32 // spin barrier: all program goroutines start their first call together
	nProg    int32
}

// line up: wait for the start signal, then spin until every program goroutine
// is running, so that the first calls really race with each other.
func (r *run) lineUp() {
	<-r.start
	r.ready.Add(1)
	for r.ready.Load() < r.nProg {
		runtime.Gosched()
	}
}

func (r *run) abort() {
	r.abortOne.Do(func() { close(r.closedCh) })
}

// do performs one recorded call on behalf of worker w.
func (r *run) do(w *worker, kind uint8, val int, drain bool) *rec {
	i := int(w.finished.Load())
	rc := &w.recs[i]
	rc.kind, rc.val, rc.drain = kind, val, drain
	rc.call = r.clock.Add(1)
	w.started.Store(int32(i + 1))
	switch kind {
	case opSend:
		rc.ok = r.s.Send(r.ctx, val)
	case opSendC:
		rc.ok = r.s.Send(r.dead, val)
	case opRecv:
		rc.out, rc.ok = r.s.Recv(r.ctx)
	case opTry:
		rc.out, rc.ok = r.s.TryRecv()
	case opClose:
		r.closeInv.Store(true)
		r.s.Close()
		rc.ok = true
		r.closeRet.Store(true)
	}
	rc.ret = r.clock.Add(1)
	w.finished.Store(int32(i + 1))
	return rc
}

func (r *run) guard(w *worker) {
	if p := recover(); p != nil {
		s := fmt.Sprintf("%v\n%s", p, debug.Stack())
		w.panicMsg.Store(&s)
		r.abort()
	}
}

// afterOp implements the "Close at the k-th completed operation" trigger.
func (r *run) afterOp(w *worker) {
	if r.c.Target != targetMPMC {
		return
	}
	n := int(r.opsDone.Add(1))
	for _, k := range r.c.CloseAt {
		if k == n {
			yield(r.c.CloseY)
			r.do(w, opClose, 0, false)
		}
	}
}

func (r *run) producer(w *worker, p int, ops []Op, wg *sync.WaitGroup) {
	defer wg.Done()
	defer r.guard(w)
	r.lineUp()
	pre := -1
	if r.c.Target == targetMPSC {
		pre = r.c.Pre[p]
	}
	n := 0
	for i, op := range ops {
		if i == pre {
			r.barrier(w)
			<-r.closedCh
		}
		yield(op.Y)
		n++
		if op.K == kSendC {
			r.do(w, opSendC, value(p, n), false)
		} else {
			r.do(w, opSend, value(p, n), false)
		}
		r.afterOp(w)
	}
	if pre >= len(ops) {
		r.barrier(w)
	}
}

// barrier (mpsc): the last producer to complete its pre-close sends closes.
func (r *run) barrier(w *worker) {
	if r.preLeft.Add(-1) == 0 && !r.c.CloseLate {
		yield(r.c.CloseY)
		r.do(w, opClose, 0, false)
		r.abort() // releases the post-close sends
	}
}

func (r *run) consumer(w *worker, ops []Op, wg *sync.WaitGroup) {
	defer wg.Done()
	defer r.guard(w)
	r.lineUp()
	for _, op := range ops {
		yield(op.Y)
		if op.K == kTry {
			r.do(w, opTry, 0, false)
		} else {
			r.do(w, opRecv, 0, false)
		}
		r.afterOp(w)
	}
}

// drainer: Close once more (idempotent) and receive until the queue reports
// closed; what it receives is what was "still buffered".
func (r *run) drainer(w *worker, max int, wg *sync.WaitGroup) {
	defer wg.Done()
	defer r.guard(w)
	r.do(w, opClose, 0, true)
	for i := 0; i < max; i++ {
		if rc := r.do(w, opRecv, 0, true); !rc.ok {
			return
		}
	}
}

// ---------------------------------------------------------------------------
// Monitor: quiescence detection (wall clock is used only for liveness)
// ---------------------------------------------------------------------------

// quiet: the logical clock standing still for this long counts as "nothing is
// running" (every call is far shorter). Misjudging it is harmless: the only
// consequence is that Close comes while some goroutine was merely slow.
func quiet() time.Duration {
	if raceOn {
		return 500 * time.Microsecond
	}
	return 50 * time.Microsecond
}

// stallBound: no event on the logical clock for this long while an operation
// that has everything it needs is pending = suspected lost wake-up.
func stallBound() time.Duration {
	if raceOn {
		return 1500 * time.Millisecond
	}
	return 400 * time.Millisecond
}

// leakBound: how long the goroutines get to return after Close + cancel.
func leakBound() time.Duration {
	if raceOn {
		return 6 * time.Second
	}
	return 2 * time.Second
}

type snap struct {
	pendRecv, pendSend, pendClose int
	sentOK, recvOK                int
	closeRet                      bool
	lines                         []string
}

func (r *run) snapshot(withLines bool) snap {
	var s snap
	s.closeRet = r.closeRet.Load()
	for _, w := range r.workers {
		f := int(w.finished.Load())
		st := int(w.started.Load())
		for i := 0; i < f; i++ {
			rc := &w.recs[i]
			switch {
			case rc.kind == opSend && rc.ok:
				s.sentOK++
			case (rc.kind == opRecv || rc.kind == opTry) && rc.ok:
				s.recvOK++
			}
			if withLines {
				s.lines = append(s.lines, fmt.Sprintf("%-7s %s", w.name, rc.String()))
			}
		}
		if st > f {
			rc := &w.recs[f]
			switch rc.kind {
			case opSend, opSendC:
				s.pendSend++
			case opRecv, opTry:
				s.pendRecv++
			case opClose:
				s.pendClose++
			}
			if withLines {
				s.lines = append(s.lines, fmt.Sprintf("%-7s %s", w.name, rec{kind: rc.kind, val: rc.val, call: rc.call}.String()))
			}
		}
	}
	return s
}

// verdict names what is wrong with a quiescent state, "" if every pending
// operation is legitimately blocked (channel semantics: a receive blocks only
// on an empty open queue, a send only on a full open queue that cannot grow).
func (s snap) verdict(c *Case) string {
	n := s.sentOK - s.recvOK
	if s.pendRecv > 0 {
		if s.closeRet {
			return "recv-not-woken-by-close"
		}
		if n > 0 {
			return "recv-lost-wakeup"
		}
	}
	if s.pendSend > 0 {
		if s.closeRet {
			return "send-not-woken-by-close"
		}
		if c.Target == targetMPSC {
			return "send-blocked"
		}
		if c.Ext < 0 || n < c.Cap<<uint(c.Ext) {
			return "send-lost-wakeup"
		}
	}
	return ""
}

// monitor waits for done. When the logical clock stands still it either closes
// the queue (mpmc, legitimate quiescence: this is the "Close at quiescence"
// point of the program) or, if some pending call has everything it needs,
// waits for stallBound and then reports the stall.
func (r *run) monitor(done <-chan struct{}, mw *worker, mayForce bool) (string, snap) {
	// The monitor polls instead of sleeping on a timer: an idle Go scheduler
	// rounds timer sleeps up to a millisecond, which would dominate the cost of
	// every program that ends legitimately blocked.
	last := r.clock.Load()
	lastChange := time.Now()
	for {
		select {
		case <-done:
			return "", snap{}
		default:
		}
		cur := r.clock.Load()
		now := time.Now()
		if cur != last {
			last, lastChange = cur, now
			runtime.Gosched()
			continue
		}
		idle := now.Sub(lastChange)
		if idle < quiet() {
			runtime.Gosched()
			continue
		}
		s := r.snapshot(false)
		v := s.verdict(r.c)
		if r.clock.Load() != cur {
			continue
		}
		if v == "" && mayForce && !r.closeInv.Load() && s.pendClose == 0 {
			switch {
			case r.c.Target == targetMPMC:
				r.forced.Store(true)
				r.do(mw, opClose, 0, false)
				continue
			case r.c.CloseLate && r.preLeft.Load() == 0 && s.pendSend == 0:
				// in contract: every producer has completed its pre-close sends
				r.forced.Store(true)
				r.do(mw, opClose, 0, false)
				r.abort()
				continue
			}
		}
		if idle >= stallBound() {
			// If the whole process was starved the bound may have elapsed
			// without anybody having had a chance to run: give the others a
			// few more scheduling rounds before looking.
			for i := 0; i < 5 && r.clock.Load() == cur; i++ {
				time.Sleep(2 * time.Millisecond)
			}
			s = r.snapshot(true)
			if r.clock.Load() != cur {
				continue
			}
			v = s.verdict(r.c)
			if v == "" {
				v = "unexplained-stall"
			}
			return v, s
		}
		if idle > 2*time.Millisecond {
			time.Sleep(200 * time.Microsecond)
		} else {
			runtime.Gosched()
		}
	}
}

// ---------------------------------------------------------------------------
// Executing one program once
// ---------------------------------------------------------------------------

type result struct {
	hist     []rec
	names    []string
	stuck    string // "" or the monitor's verdict
	stuckMsg string
	panics   []string
	finalCap int
	forced   bool
	leaked   bool
}

func newSUT(c *Case) (sut, error) {
	if c.Target == targetMPSC {
		return accSUT{mpsc.NewAccumulator[item]()}, nil
	}
	q, err := mpmc.NewQueue[item](c.Cap, c.Ext)
	if err != nil {
		return nil, err
	}
	return queueSUT{q}, nil
}

func execute(c *Case) (*result, error) {
	s, err := newSUT(c)
	if err != nil {
		return nil, err
	}
	r := &run{c: c, s: s, start: make(chan struct{}), closedCh: make(chan struct{})}
	r.ctx, r.cancel = context.WithCancel(context.Background())
	defer r.cancel()
	dead, deadCancel := context.WithCancel(context.Background())
	deadCancel()
	r.dead = dead

	total := 0
	for _, ops := range c.Producers {
		total += len(ops)
	}
	sends := total
	for _, ops := range c.Consumers {
		total += len(ops)
	}
	slack := len(c.CloseAt) + 2
	for p, ops := range c.Producers {
		r.workers = append(r.workers, &worker{name: fmt.Sprintf("P%d", p), recs: make([]rec, len(ops)+slack)})
	}
	for k, ops := range c.Consumers {
		r.workers = append(r.workers, &worker{name: fmt.Sprintf("C%d", k), recs: make([]rec, len(ops)+slack)})
	}
	mainW := &worker{name: "main", recs: make([]rec, slack)}
	monW := &worker{name: "monitor", recs: make([]rec, 2)}
	drainW := &worker{name: "drain", recs: make([]rec, sends+4)}
	r.nProg = int32(len(r.workers))
	r.workers = append(r.workers, mainW, monW, drainW)
	r.preLeft.Store(int32(len(c.Producers)))

	res := &result{}
	for _, w := range r.workers {
		res.names = append(res.names, w.name)
	}

	if c.Target == targetMPMC {
		for _, k := range c.CloseAt {
			if k == 0 {
				r.do(mainW, opClose, 0, false)
			}
		}
	}

	var wg sync.WaitGroup
	for p, ops := range c.Producers {
		wg.Add(1)
		go r.producer(r.workers[p], p, ops, &wg)
	}
	for k, ops := range c.Consumers {
		wg.Add(1)
		go r.consumer(r.workers[len(c.Producers)+k], ops, &wg)
	}
	done := make(chan struct{})
	go func() { wg.Wait(); close(done) }()
	close(r.start)

	finish := func(v string, sn snap, done <-chan struct{}) *result {
		// Get every goroutine out: Close wakes parked calls, the context
		// releases anything else; then wait (bounded) so that nothing outlives
		// the case.
		// Close may itself block (a call spinning under the read lock), so
		// it must not be waited for.
		go r.s.Close()
		r.cancel()
		r.abort()
		select {
		case <-done:
		case <-time.After(leakBound()):
			res.leaked = true
		}
		res.stuck = v
		res.stuckMsg = fmt.Sprintf("%s: no event for %v while buffered=%d (sent ok %d, received %d), pending: %d recv, %d send, %d close, closed=%v%s\nhistory at the stall (logical clock [invoke,return]):\n  %s",
			v, stallBound(), sn.sentOK-sn.recvOK, sn.sentOK, sn.recvOK, sn.pendRecv, sn.pendSend, sn.pendClose, sn.closeRet,
			map[bool]string{true: "; GOROUTINES STILL STUCK AFTER Close+cancel", false: ""}[res.leaked], strings.Join(sn.lines, "\n  "))
		r.collectPanics(res)
		return res
	}

	if v, sn := r.monitor(done, monW, true); v != "" {
		return finish(v, sn, done), nil
	}

	// Phase 2: final Close and drain, monitored the same way.
	var wg2 sync.WaitGroup
	wg2.Add(1)
	done2 := make(chan struct{})
	go r.drainer(drainW, sends+2, &wg2)
	go func() { wg2.Wait(); close(done2) }()
	if v, sn := r.monitor(done2, monW, false); v != "" {
		return finish(v+"(drain)", sn, done2), nil
	}

	r.collectPanics(res)
	for wi, w := range r.workers {
		f := int(w.finished.Load())
		for i := 0; i < f; i++ {
			rc := w.recs[i]
			rc.w = wi
			res.hist = append(res.hist, rc)
		}
	}
	sort.Slice(res.hist, func(i, j int) bool { return res.hist[i].call < res.hist[j].call })
	res.finalCap = s.Capacity()
	res.forced = r.forced.Load()
	return res, nil
}

func (r *run) collectPanics(res *result) {
	for _, w := range r.workers {
		if p := w.panicMsg.Load(); p != nil {
			res.panics = append(res.panics, w.name+": "+*p)
		}
	}
}

func dumpHistory(res *result) string {
	var b strings.Builder
	for _, rc := range res.hist {
		fmt.Fprintf(&b, "  %-7s %s\n", res.names[rc.w], rc.String())
	}
	return b.String()
}
