//go:build race

package p22

// raceOn scales the wall-clock liveness bounds: the race detector slows the
// scheduler down by an order of magnitude.
const raceOn = true
