package p25

import (
	"context"
	"encoding/json"
	"fmt"
	"math/big"
	"reflect"
	"strings"
	"sync"
	"testing"

	openfgav1 "github.com/openfga/api/proto/openfga/v1"
	"github.com/spf13/viper"
	"google.golang.org/protobuf/proto"
	"pgregory.net/rapid"

	"github.com/openfga/openfga/internal/condition"
	"github.com/openfga/openfga/internal/condition/eval"

	"github.com/openfga/openfga/verifharness/conv"
	"github.com/openfga/openfga/verifharness/fw"
	"github.com/openfga/openfga/verifharness/m"
	"github.com/openfga/openfga/verifharness/refsem"
	"github.com/openfga/openfga/verifharness/sut"
)

// C25 — condition evaluation follows the declared CEL semantics.
//
// Oracle (R-cel, refsem.EvalCondition, written from the CEL language
// definition and the documented parameter conversion rules, shares no code
// with the repository): merged = request context overlaid by the tuple's
// stored context (stored wins per parameter); a declared parameter absent from
// the merged context => the evaluation fails; a value not convertible to the
// declared type => fails; otherwise the value of the expression (runtime
// errors => fails). Unknown <=> EvaluateTupleCondition returns an error,
// True/False <=> (met, nil).
//
// NT rule: both contexts non-empty with >= 1 conflicting declared key, or >= 1
// omitted parameter, or >= 1 parameter whose effective value is mistyped.

func init() {
	// Server.Check evaluates conditions under a CEL cost limit (default 100);
	// the limit is a resource guard, not part of C25, so lift it for the
	// end-to-end path.
	viper.Set("maxConditionEvaluationCost", uint64(1)<<40)
}

// ---------------------------------------------------------------------------
// analysis of a case (labels, NT)
// ---------------------------------------------------------------------------

type paramInfo struct {
	p        m.Param
	rel      string // agree, conflict, omit, mistype, req-only, stored-only
	detail   string // finer relation
	conflict bool   // declared key present in both contexts with different raw values
	bad      bool   // effective value not convertible
	missing  bool
}

func analyse(c Case) []paramInfo {
	var out []paramInfo
	for _, p := range c.Cond.Params {
		rv, inReq := c.Req[p.Name]
		sv, inSt := c.Stored[p.Name]
		_, okReq := refsem.Convert(p.Type, rv)
		_, okSt := refsem.Convert(p.Type, sv)
		pi := paramInfo{p: p}
		switch {
		case !inReq && !inSt:
			pi.rel, pi.detail, pi.missing = "omit", "omit", true
		case inReq && !inSt:
			pi.rel, pi.detail = "req-only", "req-only"
			if !okReq {
				pi.rel, pi.detail, pi.bad = "mistype", "mistype:req-only", true
			}
		case !inReq && inSt:
			pi.rel, pi.detail = "stored-only", "stored-only"
			if !okSt {
				pi.rel, pi.detail, pi.bad = "mistype", "mistype:stored-only", true
			}
		default:
			pi.conflict = !reflect.DeepEqual(rv, sv)
			switch {
			case !okSt && okReq:
				pi.rel, pi.detail, pi.bad = "mistype", "mistype:stored-shadows-good-request", true
			case !okSt:
				pi.rel, pi.detail, pi.bad = "mistype", "mistype:both", true
			case !okReq:
				pi.rel, pi.detail = "conflict", "conflict:stored-shadows-mistyped-request"
			case pi.conflict:
				pi.rel, pi.detail = "conflict", "conflict"
			default:
				pi.rel, pi.detail = "agree", "agree"
			}
		}
		out = append(out, pi)
	}
	return out
}

func effective(c Case, name string) (any, bool) {
	if v, ok := c.Stored[name]; ok {
		return v, true
	}
	v, ok := c.Req[name]
	return v, ok
}

var (
	bigMinInt64  = new(big.Float).SetInt64(-1 << 63)
	bigMaxInt64  = new(big.Float).SetInt64(1<<63 - 1)
	bigMaxUint64 = new(big.Float).SetUint64(1<<64 - 1)
)

func asBig(v any) *big.Float {
	switch x := v.(type) {
	case float64:
		return big.NewFloat(x)
	case string:
		f, _, err := big.ParseFloat(x, 10, 200, 0)
		if err == nil && !f.IsInf() {
			return f
		}
	}
	return nil
}

// special walks the effective value v of declared type typ and reports
//   - huge: an integral number for an int/uint parameter that int64 cannot hold
//     (the weaker oracle of DESIGN.md applies: only "no true from a failed conversion")
//   - inexact: a decimal string for a double that is not exactly a float64
func special(typ string, v any) (huge, inexact bool) {
	base, elem := splitType(typ)
	switch base {
	case "int", "uint":
		if f := asBig(v); f != nil && f.IsInt() && (f.Cmp(bigMinInt64) < 0 || f.Cmp(bigMaxInt64) > 0) {
			huge = true
		}
	case "double":
		if s, ok := v.(string); ok {
			if f := asBig(s); f != nil {
				if _, acc := f.Float64(); acc != big.Exact {
					inexact = true
				}
			}
		}
	case "list":
		if l, ok := v.([]any); ok {
			for _, it := range l {
				h, i := special(elem, it)
				huge, inexact = huge || h, inexact || i
			}
		}
	case "map":
		if mp, ok := v.(map[string]any); ok {
			for _, k := range sortedKeys(mp) {
				h, i := special(elem, mp[k])
				huge, inexact = huge || h, inexact || i
			}
		}
	}
	return
}

// ---------------------------------------------------------------------------
// evaluation of one case
// ---------------------------------------------------------------------------

type result struct {
	discard string
	classes []string
	nt      bool
	sample  any
	fail    *fw.Failure
	known   []string // tolerated / counted observations
}

func outcomeOf(met bool, err error) refsem.Outcome {
	switch {
	case err != nil:
		return refsem.Unknown
	case met:
		return refsem.True
	}
	return refsem.False
}

func ctxShape(mp map[string]any) string {
	switch {
	case mp == nil:
		return "nil"
	case len(mp) == 0:
		return "empty"
	}
	return "non-empty"
}

func describe(c Case) string {
	ps := make([]string, len(c.Cond.Params))
	for i, p := range c.Cond.Params {
		ps[i] = p.Name + ": " + p.Type
	}
	rq, _ := json.Marshal(c.Req)
	st, _ := json.Marshal(c.Stored)
	return fmt.Sprintf("condition c25(%s) { %s }\n request context: %s\n stored context:  %s", strings.Join(ps, ", "), c.Cond.Expr.CEL(), rq, st)
}

// uCause explains an expected evaluation failure.
func uCause(infos []paramInfo) string {
	for _, pi := range infos {
		if pi.missing {
			return "missing"
		}
	}
	for _, pi := range infos {
		if pi.bad {
			base, _ := splitType(pi.p.Type)
			return "convert-" + base
		}
	}
	return "runtime"
}

// signature gives a mismatch a narrow structural root-cause id.
func signature(c Case, path string, infos []paramInfo, exp, got refsem.Outcome, errText string, huge, inexact bool) string {
	pre := "C25/"
	if path != "direct" {
		pre += path + "/"
	}
	switch {
	case huge && got != refsem.Unknown:
		// an integer no int64 can hold was clamped to MaxInt64/MinInt64 and used
		return "C25/integer-out-of-range-clamped"
	case inexact && got == refsem.Unknown && exp != refsem.Unknown && strings.Contains(errText, "cannot be represented as a float64"):
		return "C25/double-decimal-string-rejected"
	case inexact && path == "e2e" && got == refsem.False && storedInexact(c):
		// same root cause seen through Check: the stored tuple is dropped as invalid
		return "C25/double-decimal-string-rejected"
	case exp == refsem.Unknown && got != refsem.Unknown && path != "direct" && uCause(infos) == "runtime" && inEmptyListLiteral(c.Cond.Expr):
		// cel-go's optimiser (enabled by the type system) folds `e in []` to false without evaluating e
		return "C25/error-operand-in-empty-list-literal-is-false"
	case exp == refsem.Unknown:
		return pre + "no-error-on-" + uCause(infos)
	case got == refsem.Unknown && strings.Contains(errText, "no such overload") && ipComparedWithDyn(c):
		// the custom IPAddress type answers == / in against a value of another
		// type with an error; CEL equality is heterogeneous (the answer is false)
		return "C25/ipaddress-equality-with-other-type-errors"
	case got == refsem.Unknown:
		return pre + "unexpected-error"
	}
	// stored and request values exchanged?
	if refsem.EvalCondition(&c.Cond, c.Stored, c.Req) == got {
		for _, pi := range infos {
			if pi.conflict {
				return pre + "request-context-wins"
			}
		}
	}
	return pre + "wrong-value"
}

// staticType is the declared type of a parameter-rooted or literal expression
// ("" when not tracked).
func staticType(c Case, e *m.Expr) string {
	if e == nil {
		return ""
	}
	switch e.Kind {
	case "lit":
		return e.T
	case "var":
		for _, p := range c.Cond.Params {
			if p.Name == e.Name {
				return p.Type
			}
		}
	case "index", "sel":
		base, elem := splitType(staticType(c, e.A))
		switch base {
		case "any":
			return "any"
		case "list", "map":
			return elem
		}
	}
	return ""
}

func ipComparedWithDyn(c Case) bool {
	found := false
	c.Cond.Expr.Walk(func(n *m.Expr) {
		a, b := staticType(c, n.A), staticType(c, n.B)
		switch {
		case n.Kind == "cmp" && (n.Op == "==" || n.Op == "!="):
			if (a == "ipaddress" && b == "any") || (a == "any" && b == "ipaddress") {
				found = true
			}
		case n.Kind == "in":
			if (a == "ipaddress" && b == "list<any>") || (a == "any" && b == "list<ipaddress>") {
				found = true
			}
		}
	})
	return found
}

// inEmptyListLiteral: the expression has an `in` whose right operand is a
// constant expression built from empty list literals only.
func inEmptyListLiteral(e *m.Expr) bool {
	found := false
	e.Walk(func(n *m.Expr) {
		if n.Kind != "in" || n.B == nil {
			return
		}
		vars, empty, nonEmpty := 0, 0, 0
		n.B.Walk(func(x *m.Expr) {
			switch {
			case x.Kind == "var":
				vars++
			case x.Kind == "list" && len(x.Args) == 0:
				empty++
			case x.Kind == "list":
				nonEmpty++
			}
		})
		if vars == 0 && empty > 0 && nonEmpty == 0 {
			found = true
		}
	})
	return found
}

func storedInexact(c Case) bool {
	for _, p := range c.Cond.Params {
		if v, ok := c.Stored[p.Name]; ok {
			if _, i := special(p.Type, v); i {
				return true
			}
		}
	}
	return false
}

var tupleObject, tupleRelation, tupleUser = "doc:1", "viewer", "user:a"

func evaluate(c Case) (r result) {
	if c.Cond.Expr == nil || len(c.Cond.Params) == 0 || c.Cond.Name == "" {
		r.discard = "malformed-case"
		return
	}
	pc := conv.Condition(c.Cond)

	// the condition must compile (only type-correct expressions are in scope),
	// both plainly and the way the type system builds it (optimising, cost tracking)
	plain, err := condition.NewCompiled(pc)
	if err != nil {
		r.discard = "does-not-compile"
		if strings.Contains(err.Error(), "no matching overload") {
			r.discard = "does-not-compile:overload"
		}
		return
	}
	opt := condition.NewUncompiled(proto.Clone(pc).(*openfgav1.Condition)).
		WithTrackEvaluationCost().
		WithMaxEvaluationCost(uint64(1) << 40).
		WithInterruptCheckFrequency(100)
	if err := opt.Compile(); err != nil {
		r.discard = "does-not-compile:optimised"
		return
	}

	infos := analyse(c)
	exp := refsem.EvalCondition(&c.Cond, c.Req, c.Stored)

	var huge, inexact bool
	for _, p := range c.Cond.Params {
		if v, ok := effective(c, p.Name); ok {
			h, i := special(p.Type, v)
			huge, inexact = huge || h, inexact || i
		}
	}

	// ---- labels ----
	cl := []string{"outcome:" + exp.String(), "req:" + ctxShape(c.Req), "stored:" + ctxShape(c.Stored), fmt.Sprintf("params:%d", len(c.Cond.Params))}
	nt := false
	anyConflict := false
	for _, pi := range infos {
		base, elem := splitType(pi.p.Type)
		cl = append(cl, "ptype:"+base, "rel:"+pi.rel, "ptype-rel:"+base+"/"+pi.rel)
		if pi.detail != pi.rel {
			cl = append(cl, "rel:"+pi.detail)
		}
		if elem != "" {
			eb, _ := splitType(elem)
			cl = append(cl, "elem:"+eb)
			if eb == "list" || eb == "map" {
				cl = append(cl, "elem:nested")
			}
		}
		if pi.missing || pi.bad {
			nt = true
		}
		if pi.conflict {
			anyConflict = true
		}
	}
	if anyConflict && len(c.Req) > 0 && len(c.Stored) > 0 {
		nt = true
	}
	if exp == refsem.Unknown {
		cl = append(cl, "U-cause:"+uCause(infos))
	}
	if _, ok := c.Req["zz"]; ok {
		cl = append(cl, "undeclared-key:request")
	}
	if _, ok := c.Stored["zz"]; ok {
		cl = append(cl, "undeclared-key:stored")
	}
	kinds := map[string]bool{}
	nodes := 0
	c.Cond.Expr.Walk(func(e *m.Expr) {
		nodes++
		k := "node:" + e.Kind
		switch e.Kind {
		case "cmp":
			kinds["op:"+e.Op] = true
		case "lit":
			kinds["lit:"+e.T] = true
		case "index":
			if e.B != nil && e.B.T == "int" {
				k = "node:index-list"
			} else {
				k = "node:index-map"
			}
		}
		kinds[k] = true
	})
	for _, k := range sortedKeys(kinds) {
		cl = append(cl, k)
	}
	switch {
	case nodes <= 4:
		cl = append(cl, "expr-nodes:<=4")
	case nodes <= 12:
		cl = append(cl, "expr-nodes:5-12")
	default:
		cl = append(cl, "expr-nodes:>12")
	}
	if huge {
		cl = append(cl, "special:integer-beyond-int64")
	}
	if inexact {
		cl = append(cl, "special:inexact-decimal-string-for-double")
	}
	r.classes, r.nt = cl, nt

	// ---- path 1: eval.EvaluateTupleCondition ----
	tk := &openfgav1.TupleKey{Object: tupleObject, Relation: tupleRelation, User: tupleUser,
		Condition: &openfgav1.RelationshipCondition{Name: c.Cond.Name, Context: conv.Struct(c.Stored)}}
	reqStruct := conv.Struct(c.Req)

	verdict := func(path string, exp refsem.Outcome, met bool, err error) *fw.Failure {
		got := outcomeOf(met, err)
		if got == exp {
			return nil
		}
		if huge && !(got == refsem.True && exp != refsem.True) {
			// weaker oracle beyond the int64 range: only "no true from a failed conversion"
			r.known = append(r.known, "beyond-int64:tolerated-"+exp.String()+"-vs-"+got.String())
			return nil
		}
		errText := ""
		if err != nil {
			errText = err.Error()
		}
		return fw.Failf(signature(c, path, infos, exp, got, errText, huge, inexact),
			"%s: expected %s (reference), got %s (met=%v err=%v)\n%s", path, exp, got, met, err, describe(c))
	}

	for _, v := range []struct {
		name string
		ec   *condition.EvaluableCondition
	}{{"direct", plain}, {"direct-optimised", opt}} {
		met, err := eval.EvaluateTupleCondition(context.Background(), tk, v.ec, reqStruct)
		if err != nil && met {
			r.fail = fw.Failf("C25/met-with-error", "%s: met=true together with an error %v\n%s", v.name, err, describe(c))
			return
		}
		if f := verdict(v.name, exp, met, err); f != nil {
			r.fail = f
			return
		}
	}

	// ---- path 2 (sampled): Server.Check ----
	// (the API limits a condition expression to 512 bytes; longer ones only take the direct path)
	if c.E2E && len(e2eModel(c).Conds) > 0 && len(e2eModel(c).Conds[0].Expr.CEL()) > 512 {
		r.classes = append(r.classes, "e2e:skipped-expression-longer-than-api-limit")
	} else if c.E2E {
		// A stored tuple whose context does not fit the condition's declared
		// parameters (undeclared key, unconvertible value) is not a valid tuple of
		// the model (R-val) and is ignored by queries: the answer is then "no".
		expE2E := exp
		if why := refsem.ValidForRead(e2eModel(c), e2eTuple(c)); why != refsem.OK {
			expE2E = refsem.False
			r.classes = append(r.classes, "e2e:stored-tuple-invalid-"+string(why))
		}
		r.classes = append(r.classes, "path:e2e", "e2e-outcome:"+expE2E.String())
		allowed, err, note := checkE2E(c)
		if note != "" {
			r.classes = append(r.classes, "e2e:"+note)
		}
		if note == "model-rejected" {
			r.fail = fw.Failf("C25/e2e/model-rejected", "WriteAuthorizationModel rejects a condition that compiles: %v\n%s", err, describe(c))
			return
		}
		if f := verdict("e2e", expE2E, allowed, err); f != nil {
			r.fail = f
			return
		}
	}

	if nt {
		r.sample = map[string]any{"condition": describe(c), "expected": exp.String()}
	}
	return
}

// ---------------------------------------------------------------------------
// end-to-end path
// ---------------------------------------------------------------------------

var (
	srvMu    sync.Mutex
	srv      *sut.SUT
	srvCases int
)

func server() *sut.SUT {
	srvMu.Lock()
	defer srvMu.Unlock()
	if srv != nil && srvCases >= 2000 {
		srv.Close() // the in-memory datastore keeps every store; start afresh
		srv = nil
	}
	if srv == nil {
		srv, srvCases = sut.New(), 0
	}
	srvCases++
	return srv
}

func e2eModel(c Case) *m.Model {
	return &m.Model{
		Types: []m.TypeDef{
			{Name: "user"},
			{Name: "doc", Relations: []m.Relation{{Name: tupleRelation, Rewrite: &m.Rewrite{Kind: m.This},
				Restr: []m.Restriction{{Type: "user", Cond: c.Cond.Name}}}}},
		},
		Conds: []m.Condition{c.Cond},
	}
}

func e2eTuple(c Case) m.Tuple {
	return m.Tuple{Object: tupleObject, Relation: tupleRelation, User: tupleUser, Cond: c.Cond.Name, Ctx: c.Stored}
}

// checkE2E: model `doc.viewer: [user with c]`, one tuple carrying the stored
// context, Check with the request context.
func checkE2E(c Case) (allowed bool, err error, note string) {
	s := server()
	storeID := s.CreateStore("c25")
	mo := e2eModel(c)
	modelID, err := s.WriteModel(storeID, mo)
	if err != nil {
		return false, err, "model-rejected"
	}
	tp := e2eTuple(c)
	// a stored context the Write API would refuse (mistyped, undeclared keys) is
	// planted through the datastore: evaluation must cope with whatever is stored
	note = "written-through-api"
	if werr := s.WriteAPI(storeID, modelID, []m.Tuple{tp}); werr != nil {
		note = "written-raw"
		if rerr := s.WriteRaw(storeID, []m.Tuple{tp}); rerr != nil {
			panic(fmt.Sprintf("raw write failed: %v", rerr))
		}
	}
	allowed, err = s.Check(context.Background(), storeID, modelID, m.Request{Object: tupleObject, Relation: tupleRelation, User: tupleUser, Ctx: c.Req})
	return allowed, err, note
}

// ---------------------------------------------------------------------------
// the check
// ---------------------------------------------------------------------------

func checkC25(env *fw.Env, c Case) *fw.Failure {
	r := evaluate(c)
	if r.discard != "" {
		env.Rec.Discard(r.discard)
		return nil
	}
	for _, k := range r.known {
		env.Rec.Add(k, 1)
	}
	if r.fail != nil {
		return r.fail
	}
	env.Rec.Case(c, r.nt, r.sample, r.classes...)
	return nil
}

func TestC25(t *testing.T) { fw.Run(t, "C25", genCase, checkC25) }

// FuzzC25 drives the same generator and the same oracle from fuzzer-chosen
// bytes (thorough tier). A crasher prints the case as a replay file, which
// TestC25 re-runs with VERIF_REPLAY=<file>.
func FuzzC25(f *testing.F) {
	f.Add([]byte{})
	f.Add([]byte("C25 condition evaluation follows the declared CEL semantics"))
	f.Fuzz(rapid.MakeFuzz(func(t *rapid.T) {
		c := genCase(t)
		r := evaluate(c)
		if r.fail != nil && !fw.IsKnown(r.fail.Signature) {
			b, _ := json.MarshalIndent(map[string]any{"property": "C25", "signature": r.fail.Signature, "msg": r.fail.Msg, "case": c}, "", " ")
			t.Fatalf("property C25 violated [%s]: %s\nreplay file:\n%s", r.fail.Signature, r.fail.Msg, b)
		}
	}))
}

// TestC25CaseRoundTrip: a case written to a replay file and read back is the
// same case (same CEL source, same contexts, same reference outcome).
func TestC25CaseRoundTrip(t *testing.T) {
	rapid.Check(t, func(rt *rapid.T) {
		c := genCase(rt)
		b, err := json.Marshal(c)
		if err != nil {
			rt.Fatalf("marshal: %v", err)
		}
		var d Case
		if err := json.Unmarshal(b, &d); err != nil {
			rt.Fatalf("unmarshal: %v", err)
		}
		if c.Cond.Expr.CEL() != d.Cond.Expr.CEL() {
			rt.Fatalf("CEL source changed: %s -> %s", c.Cond.Expr.CEL(), d.Cond.Expr.CEL())
		}
		if len(c.Req) != len(d.Req) || len(c.Stored) != len(d.Stored) || (len(c.Req) > 0 && !reflect.DeepEqual(c.Req, d.Req)) || (len(c.Stored) > 0 && !reflect.DeepEqual(c.Stored, d.Stored)) {
			rt.Fatalf("contexts changed: %s", b)
		}
		if e1, e2 := refsem.EvalCondition(&c.Cond, c.Req, c.Stored), refsem.EvalCondition(&d.Cond, d.Req, d.Stored); e1 != e2 {
			rt.Fatalf("reference outcome changed %s -> %s: %s", e1, e2, b)
		}
	})
}
