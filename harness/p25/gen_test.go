package p25

import (
	"fmt"
	"math/bits"
	"sort"
	"strconv"
	"strings"

	"pgregory.net/rapid"

	"github.com/openfga/openfga/verifharness/m"
	"github.com/openfga/openfga/verifharness/refsem"
)

// ---------------------------------------------------------------------------
// Case
// ---------------------------------------------------------------------------

// Case is one conditional tuple evaluation: a condition (typed parameters +
// expression), the request context and the context stored with the tuple.
// Context values are JSON-like (bool, float64, string, nil, []any,
// map[string]any) so the case survives a JSON round trip unchanged.
type Case struct {
	Cond   m.Condition    `json:"cond"`
	Req    map[string]any `json:"req"`
	Stored map[string]any `json:"stored"`
	// E2E additionally runs the case through Server.Check (sampled).
	E2E bool `json:"e2e,omitempty"`
}

// ---------------------------------------------------------------------------
// types
// ---------------------------------------------------------------------------

var scalarTypes = []string{"bool", "string", "int", "uint", "double", "duration", "timestamp", "ipaddress", "any"}

func splitType(t string) (base, elem string) {
	i := strings.IndexByte(t, '<')
	if i < 0 || !strings.HasSuffix(t, ">") {
		return t, ""
	}
	return t[:i], t[i+1 : len(t)-1]
}

// uniform draws a uniformly distributed int in [0, n). rapid's own integer
// generators are deliberately biased towards small values, which would skew
// every weighted choice of this generator; single bits are unbiased.
func uniform(t *rapid.T, label string, n int) int {
	if n <= 1 {
		return 0
	}
	nbits := bits.Len(uint(n - 1))
	v := 0
	for try := 0; try < 6; try++ {
		v = 0
		for i := 0; i < nbits; i++ {
			if rapid.Bool().Draw(t, label) {
				v |= 1 << i
			}
		}
		if v < n {
			return v
		}
	}
	return v % n
}

// rng draws uniformly from [lo, hi].
func rng(t *rapid.T, label string, lo, hi int) int { return lo + uniform(t, label, hi-lo+1) }

func pct(t *rapid.T, label string) int { return uniform(t, label, 100) }

func pick[T any](t *rapid.T, label string, xs []T) T { return xs[uniform(t, label, len(xs))] }

func drawParamType(t *rapid.T) string {
	k := rng(t, "ptype", 0, 12)
	if k < len(scalarTypes) {
		return scalarTypes[k]
	}
	elem := pick(t, "elem", scalarTypes)
	if pct(t, "nested") < 8 {
		elem = pick(t, "nestedElem", []string{"list<int>", "map<string>", "list<any>"})
	}
	if k < 11 {
		return "list<" + elem + ">"
	}
	return "map<" + elem + ">"
}

// ---------------------------------------------------------------------------
// value pools
// ---------------------------------------------------------------------------

var (
	strPool  = []string{"a", "b", "ab", "abc", "", "é", "日本", "42", "a b"}
	durPool  = []string{"0s", "1s", "90s", "1m30s", "1h", "-1h", "30m", "1.5h", "90m", "100ms", "1h0m0s", "24h"}
	tsPool   = []string{"2024-01-01T00:00:00Z", "2024-01-01T02:00:00+02:00", "2024-01-01T00:00:01Z", "2023-06-15T12:30:00Z", "2024-01-01T00:00:00.5Z", "1999-12-31T23:59:59-05:00", "2024-02-29T12:00:00Z", "2024-01-01T01:00:00Z"}
	ipPool   = []string{"10.0.0.1", "10.1.2.3", "192.168.1.77", "172.16.0.9", "::1", "2001:db8::1", "2001:db8:1::5", "::ffff:10.0.0.1", "fe80::1%eth0", "255.255.255.255", "0.0.0.0"}
	cidrPool = []string{"10.0.0.0/8", "10.0.0.1/32", "192.168.0.0/16", "0.0.0.0/0", "::/0", "2001:db8::/32", "::1/128", "172.16.0.0/12", "10.1.0.0/16", "10.0.0.0/8", "192.168.1.0/24"}
	badCidrs = []string{"10.0.0.0", "bad", "10.0.0.0/33", ""}
	mapKeys  = []string{"k", "a", "b"}

	// values no int64 / uint64 can hold (must fail to convert), and uint values above 2^63
	hugeInts  = []any{1e19, -1e19, "9223372036854775808", "-9223372036854775809", "1e30"}
	hugeUints = []any{"18446744073709551615", "9223372036854775808", 18446744073709551616.0, "18446744073709551616", 1e19}
	// decimal strings that are not exactly representable as a double
	inexactDoubles = []any{"0.1", "3.14159", "2.7", "-0.3", "1e-5"}
)

// goodValue draws a context value convertible to typ.
func goodValue(t *rapid.T, typ string) any {
	base, elem := splitType(typ)
	switch base {
	case "bool":
		return rapid.Bool().Draw(t, "bool")
	case "string":
		return pick(t, "str", strPool)
	case "int":
		k := rng(t, "intKind", 0, 39)
		switch {
		case k < 28:
			return float64(rng(t, "int", -3, 3))
		case k < 33:
			return strconv.Itoa(rng(t, "intStr", -3, 3)) // numeric strings are accepted for numeric types
		case k < 35:
			return pick(t, "intExp", []any{"1e3", "2e0", "-1e1", "+3"})
		case k < 37:
			return pick(t, "intBig", []any{9007199254740992.0, -9007199254740992.0, 9007199254740991.0, 4294967296.0})
		case k < 39:
			return pick(t, "intEdge", []any{"9223372036854775807", "-9223372036854775808", "9007199254740993"})
		}
		return pick(t, "intHuge", hugeInts)
	case "uint":
		k := rng(t, "uintKind", 0, 39)
		switch {
		case k < 28:
			return float64(rng(t, "uint", 0, 5))
		case k < 33:
			return strconv.Itoa(rng(t, "uintStr", 0, 5))
		case k < 35:
			return pick(t, "uintExp", []any{"1e3", "2e0", "+3"})
		case k < 37:
			return pick(t, "uintBig", []any{9007199254740992.0, 4294967296.0})
		case k < 39:
			return pick(t, "uintEdge", []any{"9223372036854775807", "9007199254740993"})
		}
		return pick(t, "uintHuge", hugeUints)
	case "double":
		k := rng(t, "dblKind", 0, 39)
		switch {
		case k < 24:
			return float64(rng(t, "dblHalf", -6, 6)) / 2
		case k < 28:
			return pick(t, "dblFrac", []any{0.1, 2.7, -0.3, 1e300, -1e300, 3.14159})
		case k < 36:
			return pick(t, "dblStr", []any{"3.5", "42", "-0.25", "1e3", "2", "0.5", "-1.5", "0", "1.0"})
		case k < 37:
			return "Inf"
		}
		return pick(t, "dblInexact", inexactDoubles)
	case "duration":
		return pick(t, "dur", durPool)
	case "timestamp":
		return pick(t, "ts", tsPool)
	case "ipaddress":
		return pick(t, "ip", ipPool)
	case "any":
		k := rng(t, "anyKind", 0, 9)
		switch {
		case k < 6:
			return anyScalar(t)
		case k < 7:
			return nil
		case k < 9:
			n := rng(t, "anyListLen", 0, 3)
			out := make([]any, 0, n)
			for i := 0; i < n; i++ {
				out = append(out, anyScalar(t))
			}
			return out
		}
		out := map[string]any{}
		for _, key := range mapKeys {
			if rapid.Bool().Draw(t, "anyMapKey") {
				out[key] = anyScalar(t)
			}
		}
		return out
	case "list":
		n := rng(t, "listLen", 0, 3)
		out := make([]any, 0, n)
		for i := 0; i < n; i++ {
			out = append(out, goodValue(t, elem))
		}
		return out
	case "map":
		out := map[string]any{}
		for _, key := range mapKeys {
			if rapid.Bool().Draw(t, "mapKey") {
				out[key] = goodValue(t, elem)
			}
		}
		return out
	}
	return nil
}

func anyScalar(t *rapid.T) any {
	switch rng(t, "anyScalar", 0, 3) {
	case 0:
		return rapid.Bool().Draw(t, "anyBool")
	case 1:
		return float64(rng(t, "anyNum", -6, 6)) / 2
	case 2:
		return pick(t, "anyStr", strPool)
	}
	return pick(t, "anyOther", []any{"10.0.0.1", "1h", "2024-01-01T00:00:00Z", 1.0, true, "k"})
}

// badValue draws a context value that is NOT convertible to typ; ok=false if
// the type accepts everything (any).
func badValue(t *rapid.T, typ string) (any, bool) {
	base, elem := splitType(typ)
	var cands []any
	switch base {
	case "any":
		return nil, false
	case "bool":
		cands = []any{"true", 1.0, nil, []any{true}, "", 0.0}
	case "string":
		cands = []any{5.0, true, nil, []any{"a"}, map[string]any{"k": "a"}}
	case "int":
		// bool for int, non-integral float, non-integral / non-numeric strings
		cands = []any{true, 3.5, "3.5", "abc", "", nil, []any{1.0}, map[string]any{"a": 1.0}, -0.5, "1e-1", "1,5", "1 2", false}
	case "uint":
		cands = []any{-1.0, "-5", 2.5, true, "x", nil, "2.5", -3.0, []any{1.0}, ""}
	case "double":
		cands = []any{true, "abc", nil, []any{1.5}, "", "1.5x", map[string]any{"k": 1.5}, "1e999", "-1e999"}
	case "duration":
		cands = []any{"1 hour", "abc", 5.0, "1d", "", true, "1h 30m", nil, "h1", []any{"1h"}}
	case "timestamp":
		cands = []any{"2024-01-01", "yesterday", 1700000000.0, "2024-13-01T00:00:00Z", "2024-01-01 00:00:00Z", "2024-01-01T00:00:00", "", nil, true, "2024-02-30T00:00:00Z"}
	case "ipaddress":
		cands = []any{"10.0.0.256", "10.0.0", "abc", 5.0, "10.0.0.1/8", "", nil, "::g", true, "1.2.3.4.5"}
	case "list":
		if elem != "any" && pct(t, "badListElem") < 50 {
			if bad, ok := badValue(t, elem); ok {
				l := goodValue(t, typ).([]any)
				pos := rng(t, "badPos", 0, len(l))
				out := append([]any{}, l[:pos]...)
				out = append(out, bad)
				out = append(out, l[pos:]...)
				return out, true
			}
		}
		cands = []any{"a", 5.0, map[string]any{"k": goodValue(t, elem)}, nil, true}
	case "map":
		if elem != "any" && pct(t, "badMapElem") < 50 {
			if bad, ok := badValue(t, elem); ok {
				mp := goodValue(t, typ).(map[string]any)
				mp[pick(t, "badKey", mapKeys)] = bad
				return mp, true
			}
		}
		cands = []any{[]any{goodValue(t, elem)}, "m", 7.0, nil, false}
	}
	v := pick(t, "bad", cands)
	if _, ok := refsem.Convert(typ, v); ok {
		// never hand out a convertible value as "mistyped"
		return nil, false
	}
	return v, true
}

// ---------------------------------------------------------------------------
// literals
// ---------------------------------------------------------------------------

func (g *eg) literal(typ string) *m.Expr {
	t := g.t
	base, elem := splitType(typ)
	switch base {
	case "bool":
		return m.Lit("bool", rapid.Bool().Draw(t, "litBool"))
	case "string":
		return m.Lit("string", pick(t, "litStr", strPool))
	case "int":
		if pct(t, "litIntBig") < 8 {
			return m.Lit("int", pick(t, "litIntEdge", []any{"9223372036854775807", "-9223372036854775808", "9007199254740992", "4294967296", "-9223372036854775807"}))
		}
		return m.Lit("int", rng(t, "litInt", -3, 3))
	case "uint":
		if pct(t, "litUintBig") < 8 {
			return m.Lit("uint", pick(t, "litUintEdge", []any{"18446744073709551615", "9223372036854775807", "9007199254740992", "9223372036854775808"}))
		}
		return m.Lit("uint", rng(t, "litUint", 0, 5))
	case "double":
		if pct(t, "litDblOdd") < 10 {
			return m.Lit("double", pick(t, "litDblEdge", []float64{0.1, 2.7, -0.3, 1e300, 3.14159, 1000}))
		}
		return m.Lit("double", float64(rng(t, "litDbl", -6, 6))/2)
	case "duration":
		return m.Lit("duration", pick(t, "litDur", durPool))
	case "timestamp":
		return m.Lit("timestamp", pick(t, "litTs", tsPool))
	case "ipaddress":
		return m.Lit("ipaddress", pick(t, "litIP", ipPool))
	case "any":
		if pct(t, "litNull") < 10 {
			return m.Lit("null", nil)
		}
		return g.literal(pick(t, "litAnyType", []string{"bool", "string", "int", "double", "uint"}))
	case "list":
		n := pick(t, "litListLen", []int{1, 1, 2, 2, 3, 3, 2, 1, 2, 0})
		items := make([]*m.Expr, 0, n)
		for i := 0; i < n; i++ {
			items = append(items, g.literal(elem))
		}
		return m.List(items...)
	}
	// map<E> has no literal in this grammar; callers only ask for sources
	return m.Lit("null", nil)
}

// ---------------------------------------------------------------------------
// typed expression generator
// ---------------------------------------------------------------------------

// eg generates expressions that type-check in CEL against the declared
// parameters. Every node has a static type; `any` (dyn) is assignable to every
// type, which is how runtime "no such overload" errors are produced.
type eg struct {
	t    *rapid.T
	ps   []m.Param
	used map[string]int
}

type source struct {
	p    m.Param
	mode string // "var", "mapidx", "mapsel", "listidx"
}

// sources lists the parameter-rooted expressions of static type typ.
func (g *eg) sources(typ string) []source {
	var out []source
	for _, p := range g.ps {
		if p.Type == typ {
			out = append(out, source{p, "var"})
		}
		base, elem := splitType(p.Type)
		if elem == typ {
			switch base {
			case "map":
				out = append(out, source{p, "mapidx"}, source{p, "mapsel"})
			case "list":
				out = append(out, source{p, "listidx"})
			}
		}
	}
	return out
}

func (g *eg) build(s source) *m.Expr {
	g.used[s.p.Name]++
	v := m.Var(s.p.Name)
	switch s.mode {
	case "mapidx":
		return m.Bin("index", v, m.Lit("string", g.mapKey()))
	case "mapsel":
		return m.Sel(v, g.mapKey())
	case "listidx":
		return m.Bin("index", v, m.Lit("int", g.listIndex()))
	}
	return v
}

// mapKey: mostly a key that may be present, sometimes one that never is.
func (g *eg) mapKey() string {
	if pct(g.t, "missingKey") < 15 {
		return "z"
	}
	return pick(g.t, "key", mapKeys)
}

func (g *eg) listIndex() int {
	return pick(g.t, "idx", []int{0, 0, 0, 1, 1, 2, 3, -1})
}

// typed returns an expression of static type typ (or of type dyn).
func (g *eg) typed(typ string, d int) *m.Expr {
	if typ == "bool" && d > 0 && pct(g.t, "nestedBool") < 30 {
		return g.boolExpr(d - 1)
	}
	r := pct(g.t, "typedKind")
	if srcs := g.sources(typ); len(srcs) > 0 && r < 50 {
		return g.build(pick(g.t, "src", srcs))
	}
	if typ != "any" {
		if dyn := g.sources("any"); len(dyn) > 0 && r >= 50 && r < 58 {
			return g.build(pick(g.t, "dynSrc", dyn))
		}
	}
	if d > 0 && r >= 58 && r < 80 {
		if e := g.compound(typ, d); e != nil {
			return e
		}
	}
	return g.literal(typ)
}

var arithOps = map[string][]string{
	"int":    {"add", "add", "sub", "mul", "div", "mod"},
	"uint":   {"add", "sub", "sub", "mul", "div", "mod"},
	"double": {"add", "sub", "mul"},
	"string": {"add"},
}

// sizable returns an expression size() applies to.
func (g *eg) sizable(d int) *m.Expr {
	var cands []source
	for _, p := range g.ps {
		base, _ := splitType(p.Type)
		if base == "list" || base == "map" || base == "string" || base == "any" {
			cands = append(cands, source{p, "var"})
		}
	}
	if len(cands) > 0 && pct(g.t, "sizeOfParam") < 85 {
		return g.build(pick(g.t, "sizeSrc", cands))
	}
	return g.typed("string", d)
}

func (g *eg) compound(typ string, d int) *m.Expr {
	base, elem := splitType(typ)
	if pct(g.t, "ite") < 8 {
		return m.Ite(g.boolExpr(d-1), g.typed(typ, d-1), g.typed(typ, d-1))
	}
	switch base {
	case "int":
		if pct(g.t, "intSize") < 25 {
			return m.Size(g.sizable(d - 1))
		}
		return m.Bin(pick(g.t, "arith", arithOps["int"]), g.typed("int", d-1), g.typed("int", d-1))
	case "uint", "double", "string":
		return m.Bin(pick(g.t, "arith", arithOps[base]), g.typed(base, d-1), g.typed(base, d-1))
	case "duration":
		switch rng(g.t, "durOp", 0, 2) {
		case 0:
			return m.Bin("add", g.typed("duration", d-1), g.typed("duration", d-1))
		case 1:
			return m.Bin("sub", g.typed("duration", d-1), g.typed("duration", d-1))
		}
		return m.Bin("sub", g.typed("timestamp", d-1), g.typed("timestamp", d-1))
	case "timestamp":
		switch rng(g.t, "tsOp", 0, 2) {
		case 0:
			return m.Bin("add", g.typed("timestamp", d-1), g.typed("duration", d-1))
		case 1:
			return m.Bin("add", g.typed("duration", d-1), g.typed("timestamp", d-1))
		}
		return m.Bin("sub", g.typed("timestamp", d-1), g.typed("duration", d-1))
	case "list":
		if _, nested := splitType(elem); nested != "" {
			return nil
		}
		if pct(g.t, "listConcat") < 30 {
			return m.Bin("add", g.typed(typ, d-1), g.typed(typ, d-1))
		}
		n := pick(g.t, "listLitLen", []int{1, 1, 2, 2, 3, 3, 2, 1, 2, 0})
		items := make([]*m.Expr, 0, n)
		for i := 0; i < n; i++ {
			items = append(items, g.typed(elem, d-1))
		}
		return m.List(items...)
	}
	return nil
}

var orderedTypes = map[string]bool{"bool": true, "int": true, "uint": true, "double": true, "string": true, "duration": true, "timestamp": true}

func (g *eg) cmpOp(typ string) string {
	if orderedTypes[typ] && pct(g.t, "ordered") < 60 {
		return pick(g.t, "ordOp", []string{"<", "<=", ">", ">="})
	}
	return pick(g.t, "eqOp", []string{"==", "==", "!="})
}

// predicate builds a bool expression about src, an expression of static type typ.
func (g *eg) predicate(src *m.Expr, typ string, d int) *m.Expr {
	base, elem := splitType(typ)
	r := pct(g.t, "predKind")
	switch base {
	case "any":
		// dyn: use it as if it had some concrete type, or with a container operation
		switch {
		case r < 60:
			return g.predicate(src, pick(g.t, "dynAs", []string{"bool", "string", "int", "uint", "double", "duration", "timestamp", "string", "double"}), d)
		case r < 70:
			return m.Bin("in", g.literal("any"), src)
		case r < 80:
			return g.predicate(m.Bin("index", src, m.Lit("string", g.mapKey())), "any", d-1)
		case r < 90:
			return g.predicate(m.Bin("index", src, m.Lit("int", g.listIndex())), "any", d-1)
		}
		return m.Cmp(g.cmpOp("int"), m.Size(src), g.typed("int", 0))
	case "list":
		_, nested := splitType(elem)
		switch {
		case r < 35 && nested == "":
			return m.Bin("in", g.typed(elem, d-1), src)
		case r < 55:
			return m.Cmp(g.cmpOp("int"), m.Size(src), g.typed("int", 0))
		case r < 70 && nested == "":
			return m.Cmp(pick(g.t, "listEq", []string{"==", "!="}), src, g.typed(typ, d-1))
		}
		return g.predicate(m.Bin("index", src, m.Lit("int", g.listIndex())), elem, d-1)
	case "map":
		switch {
		case r < 20:
			return m.Bin("in", g.typed("string", 0), src)
		case r < 30:
			return m.Bin("in", m.Lit("string", g.mapKey()), src)
		case r < 45:
			return m.Has(src, g.mapKey())
		case r < 55:
			return m.Cmp(g.cmpOp("int"), m.Size(src), g.typed("int", 0))
		case r < 80:
			return g.predicate(m.Bin("index", src, m.Lit("string", g.mapKey())), elem, d-1)
		}
		return g.predicate(m.Sel(src, g.mapKey()), elem, d-1)
	case "bool":
		switch {
		case r < 40:
			return src
		case r < 60:
			return m.Not(src)
		}
		return m.Cmp(g.cmpOp("bool"), src, g.typed("bool", d-1))
	case "ipaddress":
		if r < 70 {
			if pct(g.t, "badCidr") < 6 {
				return m.Cidr(src, pick(g.t, "badCidrLit", badCidrs))
			}
			return m.Cidr(src, pick(g.t, "cidr", cidrPool))
		}
		return m.Cmp(pick(g.t, "ipEq", []string{"==", "!="}), src, g.typed("ipaddress", d-1))
	}
	// scalar with arithmetic / ordering: optionally wrap the source
	lhs := src
	if ops := arithOps[base]; len(ops) > 0 && pct(g.t, "wrapArith") < 30 {
		if rapid.Bool().Draw(g.t, "wrapLeft") {
			lhs = m.Bin(pick(g.t, "wrapOp", ops), src, g.typed(base, d-1))
		} else {
			lhs = m.Bin(pick(g.t, "wrapOp", ops), g.typed(base, d-1), src)
		}
	}
	switch base {
	case "duration":
		switch pct(g.t, "durWrap") / 10 {
		case 0:
			lhs = m.Bin("add", src, g.typed("duration", d-1))
		case 1:
			lhs = m.Bin("sub", src, g.typed("duration", d-1))
		case 2:
			// timestamp + duration compared with a timestamp
			return m.Cmp(g.cmpOp("timestamp"), m.Bin("add", g.typed("timestamp", d-1), src), g.typed("timestamp", d-1))
		}
	case "timestamp":
		switch pct(g.t, "tsWrap") / 10 {
		case 0:
			lhs = m.Bin("add", src, g.typed("duration", d-1))
		case 1:
			lhs = m.Bin("sub", src, g.typed("duration", d-1))
		case 2:
			// timestamp - timestamp is a duration
			return m.Cmp(g.cmpOp("duration"), m.Bin("sub", src, g.typed("timestamp", d-1)), g.typed("duration", d-1))
		}
	case "string":
		switch {
		case r < 12:
			return m.Bin("starts", lhs, g.typed("string", d-1))
		case r < 20:
			return m.Bin("contains", lhs, g.typed("string", d-1))
		case r < 26:
			return m.Bin("ends", lhs, g.typed("string", d-1))
		case r < 36:
			return m.Cmp(g.cmpOp("int"), m.Size(lhs), g.typed("int", 0))
		}
	}
	if r >= 85 {
		return m.Bin("in", lhs, g.typed("list<"+base+">", d-1))
	}
	return m.Cmp(g.cmpOp(base), lhs, g.typed(base, d-1))
}

// leastUsed picks a parameter, preferring those the expression does not use yet.
func (g *eg) leastUsed() m.Param {
	min := -1
	for _, p := range g.ps {
		if min < 0 || g.used[p.Name] < min {
			min = g.used[p.Name]
		}
	}
	var cands []m.Param
	for _, p := range g.ps {
		if g.used[p.Name] == min {
			cands = append(cands, p)
		}
	}
	if pct(g.t, "anyParam") < 25 {
		cands = g.ps
	}
	return pick(g.t, "param", cands)
}

func (g *eg) boolExpr(d int) *m.Expr {
	if d > 0 {
		switch r := pct(g.t, "connective"); {
		case r < 20:
			return m.And(g.boolExpr(d-1), g.boolExpr(d-1))
		case r < 40:
			return m.Or(g.boolExpr(d-1), g.boolExpr(d-1))
		case r < 48:
			return m.Not(g.boolExpr(d - 1))
		case r < 53:
			return m.Ite(g.boolExpr(d-1), g.boolExpr(d-1), g.boolExpr(d-1))
		}
	}
	p := g.leastUsed()
	return g.predicate(g.build(source{p, "var"}), p.Type, d)
}

// ---------------------------------------------------------------------------
// contexts
// ---------------------------------------------------------------------------

func put(mp *map[string]any, k string, v any) {
	if *mp == nil {
		*mp = map[string]any{}
	}
	(*mp)[k] = v
}

// genContexts places a value for every parameter in the request context, the
// stored context, both (agreeing or conflicting) or neither, well typed or not.
func genContexts(t *rapid.T, ps []m.Param) (req, stored map[string]any) {
	dirty := -1 // index of a parameter that is forced to be omitted / mistyped
	if pct(t, "dirty") < 45 {
		dirty = rng(t, "dirtyParam", 0, len(ps)-1)
	}
	for i, p := range ps {
		good := goodValue(t, p.Type)
		isDirty := i == dirty || pct(t, "alsoDirty") < 4
		if isDirty {
			bad, ok := badValue(t, p.Type)
			k := rng(t, "dirtyKind", 0, 9)
			if !ok {
				k = 0
			}
			switch {
			case k < 3: // omitted from both
			case k < 5: // mistyped in the request only
				put(&req, p.Name, bad)
			case k < 7: // mistyped in the stored context only
				put(&stored, p.Name, bad)
			case k < 9: // a good request value shadowed by a mistyped stored value
				put(&req, p.Name, good)
				put(&stored, p.Name, bad)
			default: // mistyped in both
				put(&req, p.Name, bad)
				bad2, ok2 := badValue(t, p.Type)
				if !ok2 {
					bad2 = bad
				}
				put(&stored, p.Name, bad2)
			}
			continue
		}
		switch k := rng(t, "cleanKind", 0, 11); {
		case k < 3:
			put(&req, p.Name, good)
		case k < 6:
			put(&stored, p.Name, good)
		case k < 8: // agree
			put(&req, p.Name, good)
			put(&stored, p.Name, good)
		case k < 11: // conflict: the stored value must win
			put(&req, p.Name, goodValue(t, p.Type))
			put(&stored, p.Name, good)
		default: // a mistyped request value shadowed by a good stored value
			if bad, ok := badValue(t, p.Type); ok {
				put(&req, p.Name, bad)
			} else {
				put(&req, p.Name, goodValue(t, p.Type))
			}
			put(&stored, p.Name, good)
		}
	}
	// undeclared keys are not parameters and must not influence anything
	if pct(t, "extraReq") < 8 {
		put(&req, "zz", anyScalar(t))
	}
	if pct(t, "extraStored") < 8 {
		put(&stored, "zz", anyScalar(t))
	}
	// nil and empty contexts are different on the wire
	if req == nil && rapid.Bool().Draw(t, "emptyReq") {
		req = map[string]any{}
	}
	if stored == nil && rapid.Bool().Draw(t, "emptyStored") {
		stored = map[string]any{}
	}
	return req, stored
}

// ---------------------------------------------------------------------------
// the case generator
// ---------------------------------------------------------------------------

func genCase(t *rapid.T) Case {
	n := pick(t, "nParams", []int{1, 1, 2, 2, 2, 3, 3, 4})
	ps := make([]m.Param, 0, n)
	for i := 0; i < n; i++ {
		ps = append(ps, m.Param{Name: fmt.Sprintf("p%d", i), Type: drawParamType(t)})
	}
	g := &eg{t: t, ps: ps, used: map[string]int{}}
	depth := pick(t, "depth", []int{0, 1, 1, 2, 2, 3})
	expr := g.boolExpr(depth)
	req, stored := genContexts(t, ps)
	return Case{
		Cond:   m.Condition{Name: "c25", Params: ps, Expr: expr},
		Req:    req,
		Stored: stored,
		E2E:    pct(t, "e2e") < 10,
	}
}

// sortedKeys is used wherever a map is walked.
func sortedKeys[V any](mp map[string]V) []string {
	out := make([]string, 0, len(mp))
	for k := range mp {
		out = append(out, k)
	}
	sort.Strings(out)
	return out
}
