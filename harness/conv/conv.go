// Package conv converts between the harness's own values (package m) and the
// OpenFGA API protobuf messages.
package conv

import (
	"fmt"
	"sort"
	"strings"

	openfgav1 "github.com/openfga/api/proto/openfga/v1"
	"google.golang.org/protobuf/types/known/structpb"

	"github.com/openfga/openfga/verifharness/m"
)

func Rewrite(rw *m.Rewrite) *openfgav1.Userset {
	switch rw.Kind {
	case m.This:
		return &openfgav1.Userset{Userset: &openfgav1.Userset_This{This: &openfgav1.DirectUserset{}}}
	case m.Computed:
		return &openfgav1.Userset{Userset: &openfgav1.Userset_ComputedUserset{ComputedUserset: &openfgav1.ObjectRelation{Relation: rw.Rel}}}
	case m.TTU:
		return &openfgav1.Userset{Userset: &openfgav1.Userset_TupleToUserset{TupleToUserset: &openfgav1.TupleToUserset{
			Tupleset:        &openfgav1.ObjectRelation{Relation: rw.Tupleset},
			ComputedUserset: &openfgav1.ObjectRelation{Relation: rw.Rel},
		}}}
	case m.Union:
		return &openfgav1.Userset{Userset: &openfgav1.Userset_Union{Union: &openfgav1.Usersets{Child: children(rw)}}}
	case m.Intersection:
		return &openfgav1.Userset{Userset: &openfgav1.Userset_Intersection{Intersection: &openfgav1.Usersets{Child: children(rw)}}}
	case m.Difference:
		return &openfgav1.Userset{Userset: &openfgav1.Userset_Difference{Difference: &openfgav1.Difference{
			Base: Rewrite(rw.Children[0]), Subtract: Rewrite(rw.Children[1])}}}
	}
	return nil
}

func children(rw *m.Rewrite) []*openfgav1.Userset {
	out := make([]*openfgav1.Userset, len(rw.Children))
	for i, c := range rw.Children {
		out[i] = Rewrite(c)
	}
	return out
}

func Restriction(r m.Restriction) *openfgav1.RelationReference {
	rr := &openfgav1.RelationReference{Type: r.Type, Condition: r.Cond}
	if r.Wildcard {
		rr.RelationOrWildcard = &openfgav1.RelationReference_Wildcard{Wildcard: &openfgav1.Wildcard{}}
	} else if r.Rel != "" {
		rr.RelationOrWildcard = &openfgav1.RelationReference_Relation{Relation: r.Rel}
	}
	return rr
}

var typeNames = map[string]openfgav1.ConditionParamTypeRef_TypeName{
	"any":       openfgav1.ConditionParamTypeRef_TYPE_NAME_ANY,
	"bool":      openfgav1.ConditionParamTypeRef_TYPE_NAME_BOOL,
	"string":    openfgav1.ConditionParamTypeRef_TYPE_NAME_STRING,
	"int":       openfgav1.ConditionParamTypeRef_TYPE_NAME_INT,
	"uint":      openfgav1.ConditionParamTypeRef_TYPE_NAME_UINT,
	"double":    openfgav1.ConditionParamTypeRef_TYPE_NAME_DOUBLE,
	"duration":  openfgav1.ConditionParamTypeRef_TYPE_NAME_DURATION,
	"timestamp": openfgav1.ConditionParamTypeRef_TYPE_NAME_TIMESTAMP,
	"map":       openfgav1.ConditionParamTypeRef_TYPE_NAME_MAP,
	"list":      openfgav1.ConditionParamTypeRef_TYPE_NAME_LIST,
	"ipaddress": openfgav1.ConditionParamTypeRef_TYPE_NAME_IPADDRESS,
}

func ParamType(t string) *openfgav1.ConditionParamTypeRef {
	base, gen := t, ""
	if i := strings.IndexByte(t, '<'); i >= 0 && strings.HasSuffix(t, ">") {
		base, gen = t[:i], t[i+1:len(t)-1]
	}
	ref := &openfgav1.ConditionParamTypeRef{TypeName: typeNames[base]}
	if gen != "" {
		ref.GenericTypes = []*openfgav1.ConditionParamTypeRef{ParamType(gen)}
	}
	return ref
}

// ParamTypeString is the inverse of ParamType.
func ParamTypeString(ref *openfgav1.ConditionParamTypeRef) string {
	var base string
	for k, v := range typeNames {
		if v == ref.GetTypeName() {
			base = k
		}
	}
	if len(ref.GetGenericTypes()) > 0 {
		return base + "<" + ParamTypeString(ref.GetGenericTypes()[0]) + ">"
	}
	return base
}

func Condition(c m.Condition) *openfgav1.Condition {
	out := &openfgav1.Condition{Name: c.Name, Expression: c.Expr.CEL(), Parameters: map[string]*openfgav1.ConditionParamTypeRef{}}
	for _, p := range c.Params {
		out.Parameters[p.Name] = ParamType(p.Type)
	}
	return out
}

// TypeDefs converts the model's type definitions (schema 1.1).
func TypeDefs(mo *m.Model) []*openfgav1.TypeDefinition {
	var out []*openfgav1.TypeDefinition
	for _, td := range mo.Types {
		p := &openfgav1.TypeDefinition{Type: td.Name}
		if len(td.Relations) > 0 {
			p.Relations = map[string]*openfgav1.Userset{}
			p.Metadata = &openfgav1.Metadata{Relations: map[string]*openfgav1.RelationMetadata{}}
		}
		for _, r := range td.Relations {
			p.Relations[r.Name] = Rewrite(r.Rewrite)
			if mo.SparseMeta && len(r.Restr) == 0 {
				continue
			}
			md := &openfgav1.RelationMetadata{}
			for _, re := range r.Restr {
				md.DirectlyRelatedUserTypes = append(md.DirectlyRelatedUserTypes, Restriction(re))
			}
			p.Metadata.Relations[r.Name] = md
		}
		if mo.SparseMeta && p.Metadata != nil && len(p.Metadata.Relations) == 0 {
			p.Metadata = nil
		}
		out = append(out, p)
	}
	return out
}

func Conditions(mo *m.Model) map[string]*openfgav1.Condition {
	if len(mo.Conds) == 0 {
		return nil
	}
	out := map[string]*openfgav1.Condition{}
	for _, c := range mo.Conds {
		out[c.Name] = Condition(c)
	}
	return out
}

// Model builds a full AuthorizationModel proto with the given id.
func Model(mo *m.Model, id string) *openfgav1.AuthorizationModel {
	return &openfgav1.AuthorizationModel{Id: id, SchemaVersion: "1.1", TypeDefinitions: TypeDefs(mo), Conditions: Conditions(mo)}
}

// Struct converts a JSON-like map to a structpb.Struct (nil for nil map).
func Struct(ctx map[string]any) *structpb.Struct {
	if ctx == nil {
		return nil
	}
	s, err := structpb.NewStruct(normalize(ctx).(map[string]any))
	if err != nil {
		panic(fmt.Sprintf("conv.Struct: %v (%v)", err, ctx))
	}
	return s
}

// normalize turns ints into float64 so structpb accepts them and JSON
// round-trips are stable.
func normalize(v any) any {
	switch x := v.(type) {
	case map[string]any:
		out := map[string]any{}
		for k, it := range x {
			out[k] = normalize(it)
		}
		return out
	case []any:
		out := make([]any, len(x))
		for i, it := range x {
			out[i] = normalize(it)
		}
		return out
	case int:
		return float64(x)
	case int64:
		return float64(x)
	}
	return v
}

// Normalize is the exported form of normalize for context maps.
func Normalize(ctx map[string]any) map[string]any {
	if ctx == nil {
		return nil
	}
	return normalize(ctx).(map[string]any)
}

func RelCondition(t m.Tuple) *openfgav1.RelationshipCondition {
	if t.Cond == "" {
		return nil
	}
	return &openfgav1.RelationshipCondition{Name: t.Cond, Context: Struct(t.Ctx)}
}

func TupleKey(t m.Tuple) *openfgav1.TupleKey {
	return &openfgav1.TupleKey{Object: t.Object, Relation: t.Relation, User: t.User, Condition: RelCondition(t)}
}

func TupleKeys(ts []m.Tuple) []*openfgav1.TupleKey {
	out := make([]*openfgav1.TupleKey, len(ts))
	for i, t := range ts {
		out[i] = TupleKey(t)
	}
	return out
}

func Contextual(ts []m.Tuple) *openfgav1.ContextualTupleKeys {
	if len(ts) == 0 {
		return nil
	}
	return &openfgav1.ContextualTupleKeys{TupleKeys: TupleKeys(ts)}
}

// FromTupleKey converts back (context values become JSON-like).
func FromTupleKey(tk *openfgav1.TupleKey) m.Tuple {
	t := m.Tuple{Object: tk.GetObject(), Relation: tk.GetRelation(), User: tk.GetUser()}
	if c := tk.GetCondition(); c != nil && c.GetName() != "" {
		t.Cond = c.GetName()
		if c.GetContext() != nil && len(c.GetContext().GetFields()) > 0 {
			t.Ctx = c.GetContext().AsMap()
		}
	}
	return t
}

// ---- proto -> m (used to validate the reference semantics against the
// repository's hand-written YAML expectations) ----

func FromRewrite(us *openfgav1.Userset) *m.Rewrite {
	switch x := us.GetUserset().(type) {
	case *openfgav1.Userset_This:
		return &m.Rewrite{Kind: m.This}
	case *openfgav1.Userset_ComputedUserset:
		return &m.Rewrite{Kind: m.Computed, Rel: x.ComputedUserset.GetRelation()}
	case *openfgav1.Userset_TupleToUserset:
		return &m.Rewrite{Kind: m.TTU, Tupleset: x.TupleToUserset.GetTupleset().GetRelation(), Rel: x.TupleToUserset.GetComputedUserset().GetRelation()}
	case *openfgav1.Userset_Union:
		return &m.Rewrite{Kind: m.Union, Children: fromChildren(x.Union.GetChild())}
	case *openfgav1.Userset_Intersection:
		return &m.Rewrite{Kind: m.Intersection, Children: fromChildren(x.Intersection.GetChild())}
	case *openfgav1.Userset_Difference:
		return &m.Rewrite{Kind: m.Difference, Children: []*m.Rewrite{FromRewrite(x.Difference.GetBase()), FromRewrite(x.Difference.GetSubtract())}}
	}
	return nil
}

func fromChildren(cs []*openfgav1.Userset) []*m.Rewrite {
	out := make([]*m.Rewrite, len(cs))
	for i, c := range cs {
		out[i] = FromRewrite(c)
	}
	return out
}

// FromModel converts an API model; conditions keep only name and parameters
// (Expr nil) — callers that need evaluation must supply expressions.
func FromModel(am *openfgav1.AuthorizationModel) *m.Model {
	mo := &m.Model{}
	for _, td := range am.GetTypeDefinitions() {
		t := m.TypeDef{Name: td.GetType()}
		var names []string
		for n := range td.GetRelations() {
			names = append(names, n)
		}
		sort.Strings(names)
		for _, n := range names {
			r := m.Relation{Name: n, Rewrite: FromRewrite(td.GetRelations()[n])}
			for _, rr := range td.GetMetadata().GetRelations()[n].GetDirectlyRelatedUserTypes() {
				r.Restr = append(r.Restr, m.Restriction{Type: rr.GetType(), Rel: rr.GetRelation(), Wildcard: rr.GetWildcard() != nil, Cond: rr.GetCondition()})
			}
			t.Relations = append(t.Relations, r)
		}
		mo.Types = append(mo.Types, t)
	}
	var cn []string
	for n := range am.GetConditions() {
		cn = append(cn, n)
	}
	sort.Strings(cn)
	for _, n := range cn {
		c := am.GetConditions()[n]
		mc := m.Condition{Name: n}
		var pn []string
		for p := range c.GetParameters() {
			pn = append(pn, p)
		}
		sort.Strings(pn)
		for _, p := range pn {
			mc.Params = append(mc.Params, m.Param{Name: p, Type: ParamTypeString(c.GetParameters()[p])})
		}
		mo.Conds = append(mo.Conds, mc)
	}
	return mo
}
