// Package p19 checks property C19: no request payload, authorization model,
// stored tuple or condition context makes the server panic, grow without
// bound or hang past the request deadline.
//
// Everything hostile is described by small JSON-serialisable *recipes*
// (HS = string recipe, HCtx = context recipe, HRW = rewrite recipe ...) that
// are expanded deterministically by the check. A case therefore stays small
// and replayable although the expanded input may be megabytes large or
// thousands of levels deep.
package p19

import (
	"encoding/hex"
	"math"
	"strings"
	"unicode/utf8"

	"google.golang.org/protobuf/types/known/structpb"
)

// Transport limits (see report): grpc-go's default max receive size is 4 MiB
// and protobuf-go refuses to unmarshal messages nested deeper than 10000
// levels. Recipes are capped by these, not by anything smaller.
const (
	maxWire      = 4 << 20
	maxStrLen    = 3 << 20 // one expanded string; keeps a request under ~8 MiB in memory
	protoMaxNest = 10000
	// Measured with proto.Unmarshal (default options): a context nested through
	// structs costs three message levels per level (Struct, map entry, Value) and
	// is deliverable up to depth 3332, through lists two (4998), alternating 3998;
	// Userset -> Usersets -> Userset costs two per rewrite level (4997).
	maxRewriteDepth = 4990
)

// HS is a string recipe: Head + Pre*PreN + Mid + unhex(X) + Suf*SufN + Tail.
// X carries raw bytes (control characters, invalid UTF-8) that JSON cannot.
type HS struct {
	Head string `json:"head,omitempty"`
	Pre  string `json:"pre,omitempty"`
	PreN int    `json:"pren,omitempty"`
	Mid  string `json:"mid,omitempty"`
	X    string `json:"x,omitempty"`
	Suf  string `json:"suf,omitempty"`
	SufN int    `json:"sufn,omitempty"`
	Tail string `json:"tail,omitempty"`
}

func lit(s string) HS { return HS{Mid: s} }

// raw builds a recipe from arbitrary bytes (kept readable when possible).
func raw(s string) HS {
	if utf8.ValidString(s) && !strings.ContainsAny(s, "\x00") {
		return HS{Mid: s}
	}
	return HS{X: hex.EncodeToString([]byte(s))}
}

func rep(unit string, n int) HS { return HS{Pre: unit, PreN: n} }

func clampRep(unit string, n, budget int) int {
	if n < 0 {
		n = 0
	}
	if len(unit) == 0 {
		return 0
	}
	if n*len(unit) > budget {
		n = budget / len(unit)
	}
	return n
}

// S expands the recipe (bounded by maxStrLen).
func (h HS) S() string {
	if h.PreN == 0 && h.SufN == 0 && h.X == "" {
		return h.Head + h.Mid + h.Tail
	}
	var b strings.Builder
	b.WriteString(h.Head)
	pn := clampRep(h.Pre, h.PreN, maxStrLen)
	b.WriteString(strings.Repeat(h.Pre, pn))
	b.WriteString(h.Mid)
	if h.X != "" {
		if bs, err := hex.DecodeString(h.X); err == nil {
			b.Write(bs)
		}
	}
	sn := clampRep(h.Suf, h.SufN, maxStrLen-minInt(b.Len(), maxStrLen))
	b.WriteString(strings.Repeat(h.Suf, sn))
	b.WriteString(h.Tail)
	return b.String()
}

func (h HS) IsZero() bool { return h == HS{} }

func minInt(a, b int) int {
	if a < b {
		return a
	}
	return b
}

// strFeatures names the hostile features of an expanded string.
func strFeatures(s string, into map[string]bool) {
	if len(s) > 64<<10 {
		into["str-huge"] = true
	} else if len(s) > 512 {
		into["str-long"] = true
	}
	if !utf8.ValidString(s) {
		into["invalid-utf8"] = true
	}
	n := len(s)
	if n > 4096 {
		n = 4096
	}
	seps := 0
	for i := 0; i < n; i++ {
		c := s[i]
		if c < 0x20 || c == 0x7f {
			into["control-char"] = true
		}
		if c == ':' || c == '#' || c == '@' || c == '|' {
			seps++
		}
		if c >= 0x80 {
			into["non-ascii"] = true
		}
	}
	if seps >= 3 {
		into["extra-separators"] = true
	}
}

// ---- contexts ----

// Nest is a deep chain placed under Key: Depth levels of struct / list /
// alternating containers, each level carrying Width scalar siblings.
type Nest struct {
	Key   string `json:"key"`
	Depth int    `json:"depth"`
	Shape string `json:"shape"` // "struct" | "list" | "alt"
	Width int    `json:"width,omitempty"`
	Leaf  any    `json:"leaf,omitempty"`
}

// HKV is a key/value pair whose key and string value may be hostile.
type HKV struct {
	K HS `json:"k"`
	V HS `json:"v"`
}

// HCtx is a context recipe (request context or stored condition context).
type HCtx struct {
	Fields map[string]any `json:"fields,omitempty"` // plain JSON-like values
	KV     []HKV          `json:"kv,omitempty"`
	Nest   []Nest         `json:"nest,omitempty"`
	// Special sets keys to values that JSON cannot carry but the protobuf wire format can:
	// "nan" | "inf" | "-inf" (NumberValue), "list-nan" (list [1, NaN]), "struct-nan" ({"a": NaN}).
	Special map[string]string `json:"special,omitempty"`
	WideN   int               `json:"wide_n,omitempty"` // WideN extra keys k0..kN-1 = i
	ListN   int               `json:"list_n,omitempty"` // key "l" = list of ListN numbers

	built *structpb.Struct // expansion, shared by every message that uses this recipe (bounds harness memory)
}

func (c *HCtx) features(into map[string]bool) {
	if c == nil {
		return
	}
	for _, n := range c.Nest {
		if n.Depth >= 100 {
			into["ctx-deep"] = true
		}
	}
	if len(c.Special) > 0 {
		into["ctx-nan-inf"] = true
	}
	if c.WideN >= 100 || c.ListN >= 100 {
		into["ctx-wide"] = true
	}
	for _, kv := range c.KV {
		strFeatures(kv.K.S(), into)
		strFeatures(kv.V.S(), into)
	}
	var walk func(v any)
	walk = func(v any) {
		switch x := v.(type) {
		case float64:
			if x > 1e18 || x < -1e18 || (x != 0 && x > -1e-300 && x < 1e-300) {
				into["ctx-extreme-number"] = true
			}
		case map[string]any:
			for _, it := range x {
				walk(it)
			}
		case []any:
			for _, it := range x {
				walk(it)
			}
		}
	}
	walk(map[string]any(c.Fields))
}

func plainValue(v any) *structpb.Value {
	switch x := v.(type) {
	case nil:
		return structpb.NewNullValue()
	case bool:
		return structpb.NewBoolValue(x)
	case float64:
		return structpb.NewNumberValue(x)
	case int:
		return structpb.NewNumberValue(float64(x))
	case string:
		return structpb.NewStringValue(x)
	case []any:
		l := &structpb.ListValue{}
		for _, it := range x {
			l.Values = append(l.Values, plainValue(it))
		}
		return structpb.NewListValue(l)
	case map[string]any:
		st := &structpb.Struct{Fields: map[string]*structpb.Value{}}
		for k, it := range x {
			st.Fields[k] = plainValue(it)
		}
		return structpb.NewStructValue(st)
	}
	return structpb.NewNullValue()
}

// ctxCap is the deepest context nesting of the shape that gRPC can deliver.
func ctxCap(shape string) int {
	switch shape {
	case "list":
		return 4990
	case "alt":
		return 3990
	}
	return 3330
}

func (n Nest) build() *structpb.Value {
	depth := n.Depth
	if depth > ctxCap(n.Shape) {
		depth = ctxCap(n.Shape)
	}
	cur := plainValue(n.Leaf)
	for i := 0; i < depth; i++ {
		asList := n.Shape == "list" || (n.Shape == "alt" && i%2 == 1)
		if asList {
			l := &structpb.ListValue{Values: []*structpb.Value{cur}}
			for w := 0; w < n.Width; w++ {
				l.Values = append(l.Values, structpb.NewNumberValue(float64(w)))
			}
			cur = structpb.NewListValue(l)
		} else {
			st := &structpb.Struct{Fields: map[string]*structpb.Value{"n": cur}}
			for w := 0; w < n.Width; w++ {
				st.Fields["w"+itoa(w)] = structpb.NewNumberValue(float64(w))
			}
			cur = structpb.NewStructValue(st)
		}
	}
	return cur
}

func specialValue(kind string) *structpb.Value {
	nan := structpb.NewNumberValue(math.NaN())
	switch kind {
	case "inf":
		return structpb.NewNumberValue(math.Inf(1))
	case "-inf":
		return structpb.NewNumberValue(math.Inf(-1))
	case "list-nan":
		return structpb.NewListValue(&structpb.ListValue{Values: []*structpb.Value{structpb.NewNumberValue(1), nan}})
	case "struct-nan":
		return structpb.NewStructValue(&structpb.Struct{Fields: map[string]*structpb.Value{"a": nan}})
	}
	return nan
}

func itoa(i int) string {
	if i == 0 {
		return "0"
	}
	neg := i < 0
	if neg {
		i = -i
	}
	var b [20]byte
	p := len(b)
	for i > 0 {
		p--
		b[p] = byte('0' + i%10)
		i /= 10
	}
	if neg {
		p--
		b[p] = '-'
	}
	return string(b[p:])
}

// Struct expands the recipe (nil recipe = no context).
func (c *HCtx) Struct() *structpb.Struct {
	if c == nil {
		return nil
	}
	if c.built != nil {
		return c.built
	}
	st := &structpb.Struct{Fields: map[string]*structpb.Value{}}
	c.built = st
	for k, v := range c.Fields {
		st.Fields[k] = plainValue(v)
	}
	for _, kv := range c.KV {
		st.Fields[kv.K.S()] = structpb.NewStringValue(kv.V.S())
	}
	for _, n := range c.Nest {
		st.Fields[n.Key] = n.build()
	}
	for k, kind := range c.Special {
		st.Fields[k] = specialValue(kind)
	}
	wn := c.WideN
	if wn > 50000 {
		wn = 50000
	}
	for i := 0; i < wn; i++ {
		st.Fields["k"+itoa(i)] = structpb.NewNumberValue(float64(i))
	}
	if c.ListN > 0 {
		ln := c.ListN
		if ln > 200000 {
			ln = 200000
		}
		l := &structpb.ListValue{Values: make([]*structpb.Value, ln)}
		for i := range l.Values {
			l.Values[i] = structpb.NewNumberValue(float64(i))
		}
		st.Fields["l"] = structpb.NewListValue(l)
	}
	return st
}
