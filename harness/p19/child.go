package p19

import (
	"bufio"
	"bytes"
	"encoding/json"
	"fmt"
	"io"
	"os"
	"os/exec"
	"regexp"
	"runtime/debug"
	"strings"
	"sync"
	"syscall"
	"time"
)

// A stack overflow, an unrecovered panic in a goroutine spawned by the server,
// "concurrent map writes" or an out-of-memory kill end the process: recover()
// cannot see them and the evidence recorder would die with it. Cases therefore
// run in a worker process (this test binary re-executed with VERIF_C19_CHILD=1)
// that reports which request is in flight; when the worker dies or stops
// answering, the parent attributes the death to that request of that case.
//
// Protocol: fd 3 parent->child one JSON case per line; fd 4 child->parent JSON
// events: {"ev":"start","i":n,"rpc":...} before each call, {"ev":"result",...} at the end.

const childEnv = "VERIF_C19_CHILD"

// job is one line parent->child.
type job struct {
	Case   Case  `json:"case"`
	HangMs int64 `json:"hang_ms"`
}

type event struct {
	Ev     string  `json:"ev"`
	I      int     `json:"i,omitempty"`
	RPC    string  `json:"rpc,omitempty"`
	Wire   string  `json:"wire,omitempty"`
	Result *Result `json:"result,omitempty"`
}

// ChildMain is the worker loop; called from TestMain when VERIF_C19_CHILD=1.
func ChildMain() {
	debug.SetMaxStack(512 << 20) // fail an unbounded recursion before it eats 1 GiB
	// never outlive the parent (a fuzz worker is killed without notice, and the case in
	// flight may be one that never ends)
	parent := os.Getppid()
	go func() {
		for {
			time.Sleep(time.Second)
			if os.Getppid() != parent {
				os.Exit(0)
			}
		}
	}()
	startSampler(true)
	in := bufio.NewReaderSize(os.NewFile(3, "cases"), 1<<20)
	out := os.NewFile(4, "events")
	enc := json.NewEncoder(out)
	for {
		line, err := in.ReadBytes('\n')
		if len(line) > 0 {
			var j job
			if jerr := json.Unmarshal(line, &j); jerr != nil {
				fmt.Fprintf(os.Stderr, "child: bad case: %v\n", jerr)
				os.Exit(4)
			}
			res := runCaseHang(j.Case, time.Duration(j.HangMs)*time.Millisecond, func(i int, rpc, wire string) { _ = enc.Encode(event{Ev: "start", I: i, RPC: rpc, Wire: wire}) })
			_ = enc.Encode(event{Ev: "result", Result: &res})
			if res.Dirty {
				os.Exit(0) // leaked work may still be running: start from a clean process
			}
		}
		if err != nil {
			return
		}
	}
}

type capBuf struct {
	mu  sync.Mutex
	buf bytes.Buffer
}

func (c *capBuf) Write(p []byte) (int, error) {
	c.mu.Lock()
	defer c.mu.Unlock()
	if room := (2 << 20) - c.buf.Len(); room > 0 {
		if len(p) > room {
			c.buf.Write(p[:room])
		} else {
			c.buf.Write(p)
		}
	}
	return len(p), nil
}

func (c *capBuf) String() string {
	c.mu.Lock()
	defer c.mu.Unlock()
	return c.buf.String()
}

type worker struct {
	cmd    *exec.Cmd
	in     io.WriteCloser
	events chan event
	stderr *capBuf
	served int
}

var (
	workerMu sync.Mutex
	current  *worker
)

func startWorker() (*worker, error) {
	exe, err := os.Executable()
	if err != nil {
		return nil, err
	}
	caseR, caseW, err := os.Pipe()
	if err != nil {
		return nil, err
	}
	evR, evW, err := os.Pipe()
	if err != nil {
		return nil, err
	}
	cmd := exec.Command(exe)
	cmd.Env = append(os.Environ(), childEnv+"=1", "VERIF_EVID_OUT=", "GOTRACEBACK=all")
	cmd.ExtraFiles = []*os.File{caseR, evW}
	w := &worker{cmd: cmd, in: caseW, events: make(chan event, 64), stderr: &capBuf{}}
	cmd.Stderr = w.stderr
	cmd.Stdout = w.stderr
	if err := cmd.Start(); err != nil {
		return nil, err
	}
	caseR.Close()
	evW.Close()
	go func() {
		defer close(w.events)
		sc := bufio.NewScanner(evR)
		sc.Buffer(make([]byte, 1<<20), 64<<20)
		for sc.Scan() {
			var ev event
			if json.Unmarshal(sc.Bytes(), &ev) == nil {
				w.events <- ev
			}
		}
		evR.Close()
	}()
	return w, nil
}

func (w *worker) kill() {
	_ = w.in.Close()
	_ = w.cmd.Process.Kill()
	_, _ = w.cmd.Process.Wait()
}

// StopWorker ends the worker process (TestMain).
func StopWorker() {
	workerMu.Lock()
	defer workerMu.Unlock()
	if current != nil {
		current.kill()
		current = nil
	}
}

var fatalRE = regexp.MustCompile(`(?m)^(fatal error: .*|panic: .*|C19-ABORT .*|runtime: goroutine stack exceeds.*|SIGSEGV.*|unexpected fault address.*)$`)

// deathFailure turns the stderr of a dead worker into a violation attributed
// to the request that was in flight.
func deathFailure(c Case, stderr string, exit string, lastI int, lastRPC string) *Fail {
	first := fatalRE.FindString(stderr)
	kind := "process-death"
	switch {
	case strings.Contains(stderr, "stack overflow") || strings.Contains(stderr, "goroutine stack exceeds"):
		kind = "fatal-stack-overflow"
	case strings.HasPrefix(first, "C19-ABORT"):
		kind = "heap-growth-abort"
	case strings.Contains(first, "concurrent map"):
		kind = "fatal-concurrent-map"
	case strings.HasPrefix(first, "panic:"):
		kind = "goroutine-panic"
	case strings.HasPrefix(first, "fatal error:"):
		kind = "fatal-error"
	case strings.Contains(exit, "killed"):
		kind = "killed(out-of-memory?)"
	}
	sig := "C19/" + kind + ":" + topFrame(stderr)
	if kind == "heap-growth-abort" {
		sig = "C19/heap-growth:" + lastRPC
	}
	var rq any = "(setup)"
	if lastI >= 0 && lastI < len(c.Reqs) {
		rq = c.Reqs[lastI]
	}
	rj, _ := json.Marshal(rq)
	return &Fail{Signature: sig, ReqIndex: lastI,
		Msg: fmt.Sprintf("the server process died (%s) while request #%d (%s) was in flight: %s\nrequest recipe: %s\nstderr of the process:\n%s", exit, lastI, lastRPC, first, trunc(string(rj), 2000), headTail(stderr, 14000))}
}

func headTail(s string, n int) string {
	if len(s) <= n {
		return s
	}
	return s[:n/2] + "\n...\n" + s[len(s)-n/2:]
}

// execChild runs the case in the worker process.
func execChild(c Case, hang time.Duration) (res Result, err error) {
	workerMu.Lock()
	defer workerMu.Unlock()
	if os.Getenv("VERIF_C19_TRACE") == "1" {
		t0 := time.Now()
		defer func() {
			sig := ""
			if res.Fail != nil {
				sig = res.Fail.Signature + " :: " + trunc(res.Fail.Msg, 1500)
				if b, e := json.Marshal(c); e == nil {
					_ = os.WriteFile(fmt.Sprintf("/tmp/c19-trace-fail-%d.json", time.Now().UnixNano()), []byte(`{"property":"C19","case":`+string(b)+`}`), 0o644)
				}
			}
			fmt.Fprintf(os.Stderr, "p19-trace: case model=%s reqs=%d took %v fail=%q dirty=%v\n", c.ModelSrc, len(c.Reqs), time.Since(t0).Round(time.Millisecond), sig, res.Dirty)
		}()
	}
	line, err := json.Marshal(job{Case: c, HangMs: hang.Milliseconds()})
	if err != nil {
		return Result{}, err
	}
	for attempt := 0; ; attempt++ {
		if current == nil || current.served >= 400 { // recycle: bounds what a long-lived process accumulates
			if current != nil {
				current.kill()
			}
			w, err := startWorker()
			if err != nil {
				return Result{}, err
			}
			current = w
		}
		w := current
		w.served++
		if _, err := w.in.Write(append(line, '\n')); err != nil {
			current.kill()
			current = nil
			if attempt < 2 {
				continue
			}
			return Result{}, fmt.Errorf("worker not writable: %w", err)
		}
		lastI, lastRPC, lastWire := -9, "(startup)", ""
		var partial []string
		// One event must arrive within the hang bound plus a margin: generous while the
		// worker prepares input (multi-MiB requests, loaded machine), tighter while a call is
		// in flight (the worker itself reports a hang after reqDeadline+hangAfter unless it is
		// starved by what the request set off).
		for {
			budget := reqDeadline + hang + 25*time.Second
			if lastI > setupPhase {
				budget = reqDeadline + hang + 6*time.Second
			}
			select {
			case ev, ok := <-w.events:
				if !ok {
					// worker died
					state, _ := w.cmd.Process.Wait()
					exit := "exit status unknown"
					if state != nil {
						exit = state.String()
					}
					time.Sleep(20 * time.Millisecond)
					stderr := w.stderr.String()
					current = nil
					if lastI == -9 && attempt < 2 && !fatalRE.MatchString(stderr) {
						break // died before touching the case (e.g. killed from outside): retry
					}
					if lastI == setupPhase && !strings.Contains(stderr, "github.com/openfga/openfga/pkg/") {
						// the harness itself died while preparing input (e.g. out of memory): not a verdict
						return Result{Setup: []string{"setup:worker-died-while-preparing-input"}, Dirty: true, Harness: true}, nil
					}
					res := Result{Fail: deathFailure(c, stderr, exit, lastI, lastRPC), Setup: partial, Dirty: true}
					if lastWire != "" && lastWire != "ok" {
						// the request in flight is not deliverable by the transport: outside the domain
						res.OutOfDomain, res.Fail = []string{res.Fail.Signature}, nil
					}
					return res, nil
				}
				switch ev.Ev {
				case "start":
					lastI, lastRPC, lastWire = ev.I, ev.RPC, ev.Wire
					continue
				case "result":
					if ev.Result.Dirty {
						w.kill()
						current = nil
					}
					return *ev.Result, nil
				}
				continue
			case <-time.After(budget):
				// The process does not answer (typically: the harness goroutine is starved by a
				// goroutine explosion or the collector cannot finish). Ask the runtime for a
				// goroutine dump (SIGQUIT) to name the function that dominates, then kill it.
				_ = w.cmd.Process.Signal(syscall.SIGQUIT)
				quit := time.After(5 * time.Second)
			drain:
				for {
					select {
					case _, ok := <-w.events:
						if !ok {
							break drain
						}
					case <-quit:
						break drain
					}
				}
				w.kill()
				current = nil
				stderr := w.stderr.String()
				if lastI == setupPhase {
					return Result{Setup: []string{"setup:worker-timeout-while-preparing-input"}, Dirty: true, Harness: true}, nil
				}
				sig := "C19/hang-past-deadline:" + hotFrame(stderr, lastRPC)
				if lastWire != "" && lastWire != "ok" {
					return Result{OutOfDomain: []string{sig}, Dirty: true}, nil
				}
				f := &Fail{Signature: sig, Timing: true, ReqIndex: lastI,
					Msg: fmt.Sprintf("the server process did not answer within %v while request #%d (%s) was in flight (deadline %v); %d goroutines in its dump; process killed\nstderr:\n%s", budget, lastI, lastRPC, reqDeadline, strings.Count(stderr, "\ngoroutine "), headTail(stderr, 8000))}
				return Result{Fail: f, Dirty: true}, nil
			}
			break
		}
	}
}
