package p19

import (
	openfgav1 "github.com/openfga/api/proto/openfga/v1"

	"github.com/openfga/openfga/verifharness/m"
)

// HRW is a rewrite recipe. Kind "chain" nests Depth levels of Op around Leaf
// (each level has Width-1 sibling leaves; for "difference" Side selects the
// operand that carries the nesting). Kind "unset" is a Userset without oneof.
type HRW struct {
	K        string `json:"k"`
	Rel      HS     `json:"rel,omitzero"`
	Tupleset HS     `json:"tupleset,omitzero"`
	Ch       []*HRW `json:"ch,omitempty"`
	N        int    `json:"n,omitempty"` // union/intersection: Ch[0] repeated N times in addition
	Depth    int    `json:"depth,omitempty"`
	Op       string `json:"op,omitempty"` // union|intersection|difference|mixed
	Width    int    `json:"width,omitempty"`
	Side     int    `json:"side,omitempty"`
	Leaf     *HRW   `json:"leaf,omitempty"`
}

type HRestr struct {
	Type     HS   `json:"type"`
	Rel      HS   `json:"rel,omitzero"`
	Wildcard bool `json:"wildcard,omitempty"`
	Cond     HS   `json:"cond,omitzero"`
}

type HRel struct {
	Name   HS       `json:"name"`
	RW     *HRW     `json:"rw"`
	Restr  []HRestr `json:"restr,omitempty"`
	NoMeta bool     `json:"no_meta,omitempty"`
	RepN   int      `json:"rep_n,omitempty"` // this relation is repeated RepN more times as name+"_"+i
}

type HType struct {
	Name      HS     `json:"name"`
	Rels      []HRel `json:"rels,omitempty"`
	RepN      int    `json:"rep_n,omitempty"` // type repeated RepN more times as name+"_"+i
	NilMeta   bool   `json:"nil_meta,omitempty"`
	GhostMeta bool   `json:"ghost_meta,omitempty"` // metadata entry for a relation that does not exist
}

// HParamType: enum value Name wrapped Chain times in container ChainOf, or
// explicit Generics.
type HParamType struct {
	Name     int32        `json:"name"`
	Chain    int          `json:"chain,omitempty"`
	ChainOf  int32        `json:"chain_of,omitempty"`
	Generics []HParamType `json:"generics,omitempty"`
}

type HParam struct {
	Name HS         `json:"name"`
	T    HParamType `json:"t"`
	Nil  bool       `json:"nil,omitempty"`
}

type HCond struct {
	Key    HS       `json:"key"`
	Name   *HS      `json:"name,omitempty"` // Condition.Name when it differs from the map key
	Expr   HS       `json:"expr"`
	Params []HParam `json:"params,omitempty"`
	Nil    bool     `json:"nil,omitempty"` // nil map value
}

type HModel struct {
	Schema string  `json:"schema"`
	Types  []HType `json:"types"`
	Conds  []HCond `json:"conds,omitempty"`
}

func leafOrThis(l *HRW) *HRW {
	if l == nil {
		return &HRW{K: "this"}
	}
	return l
}

func usersets(cs []*openfgav1.Userset) *openfgav1.Usersets { return &openfgav1.Usersets{Child: cs} }

func wrapOp(op string, cs []*openfgav1.Userset) *openfgav1.Userset {
	switch op {
	case "intersection":
		return &openfgav1.Userset{Userset: &openfgav1.Userset_Intersection{Intersection: usersets(cs)}}
	case "difference":
		d := &openfgav1.Difference{}
		if len(cs) > 0 {
			d.Base = cs[0]
		}
		if len(cs) > 1 {
			d.Subtract = cs[1]
		}
		return &openfgav1.Userset{Userset: &openfgav1.Userset_Difference{Difference: d}}
	}
	return &openfgav1.Userset{Userset: &openfgav1.Userset_Union{Union: usersets(cs)}}
}

// Proto expands the recipe. depthBudget bounds recursion through explicit
// children (recipes are shallow; chains are expanded iteratively).
func (rw *HRW) Proto() *openfgav1.Userset {
	if rw == nil {
		return nil
	}
	switch rw.K {
	case "this":
		return &openfgav1.Userset{Userset: &openfgav1.Userset_This{This: &openfgav1.DirectUserset{}}}
	case "computed":
		return &openfgav1.Userset{Userset: &openfgav1.Userset_ComputedUserset{ComputedUserset: &openfgav1.ObjectRelation{Relation: rw.Rel.S()}}}
	case "computed-obj": // computed userset that (illegally) names an object
		return &openfgav1.Userset{Userset: &openfgav1.Userset_ComputedUserset{ComputedUserset: &openfgav1.ObjectRelation{Object: rw.Tupleset.S(), Relation: rw.Rel.S()}}}
	case "ttu":
		return &openfgav1.Userset{Userset: &openfgav1.Userset_TupleToUserset{TupleToUserset: &openfgav1.TupleToUserset{
			Tupleset:        &openfgav1.ObjectRelation{Relation: rw.Tupleset.S()},
			ComputedUserset: &openfgav1.ObjectRelation{Relation: rw.Rel.S()},
		}}}
	case "ttu-nil": // tuple-to-userset with missing parts
		return &openfgav1.Userset{Userset: &openfgav1.Userset_TupleToUserset{TupleToUserset: &openfgav1.TupleToUserset{}}}
	case "union", "intersection", "difference":
		var cs []*openfgav1.Userset
		for _, c := range rw.Ch {
			cs = append(cs, c.Proto())
		}
		n := rw.N
		if n > 60000 {
			n = 60000
		}
		for i := 0; i < n && len(rw.Ch) > 0; i++ {
			cs = append(cs, rw.Ch[0].Proto())
		}
		return wrapOp(rw.K, cs)
	case "chain":
		depth := rw.Depth
		if depth > maxRewriteDepth {
			depth = maxRewriteDepth
		}
		leaf := leafOrThis(rw.Leaf)
		cur := leaf.Proto()
		for i := 0; i < depth; i++ {
			op := rw.Op
			if op == "mixed" {
				op = []string{"union", "intersection", "difference"}[i%3]
			}
			if op == "difference" {
				if rw.Side == 1 {
					cur = wrapOp(op, []*openfgav1.Userset{leaf.Proto(), cur})
				} else {
					cur = wrapOp(op, []*openfgav1.Userset{cur, leaf.Proto()})
				}
				continue
			}
			cs := []*openfgav1.Userset{cur}
			for w := 1; w < rw.Width; w++ {
				cs = append(cs, leaf.Proto())
			}
			cur = wrapOp(op, cs)
		}
		return cur
	}
	return &openfgav1.Userset{} // "unset"
}

func (rw *HRW) features(into map[string]bool) {
	if rw == nil {
		return
	}
	if rw.K == "chain" && rw.Depth >= 50 {
		into["rewrite-deep"] = true
	}
	if rw.N >= 50 || len(rw.Ch) >= 50 {
		into["rewrite-wide"] = true
	}
	if rw.K == "unset" || rw.K == "ttu-nil" || rw.K == "computed-obj" {
		into["rewrite-malformed"] = true
	}
	strFeatures(rw.Rel.S(), into)
	strFeatures(rw.Tupleset.S(), into)
	for _, c := range rw.Ch {
		c.features(into)
	}
	rw.Leaf.features(into)
}

func (r HRestr) Proto() *openfgav1.RelationReference {
	rr := &openfgav1.RelationReference{Type: r.Type.S(), Condition: r.Cond.S()}
	if r.Wildcard {
		rr.RelationOrWildcard = &openfgav1.RelationReference_Wildcard{Wildcard: &openfgav1.Wildcard{}}
	} else if !r.Rel.IsZero() {
		rr.RelationOrWildcard = &openfgav1.RelationReference_Relation{Relation: r.Rel.S()}
	}
	return rr
}

func (t HParamType) Proto() *openfgav1.ConditionParamTypeRef {
	ref := &openfgav1.ConditionParamTypeRef{TypeName: openfgav1.ConditionParamTypeRef_TypeName(t.Name)}
	for _, g := range t.Generics {
		ref.GenericTypes = append(ref.GenericTypes, g.Proto())
	}
	chain := t.Chain
	if chain > protoMaxNest-100 {
		chain = protoMaxNest - 100
	}
	for i := 0; i < chain; i++ {
		ref = &openfgav1.ConditionParamTypeRef{TypeName: openfgav1.ConditionParamTypeRef_TypeName(t.ChainOf), GenericTypes: []*openfgav1.ConditionParamTypeRef{ref}}
	}
	return ref
}

// TypeDefs expands the model's type definitions.
func (mo *HModel) TypeDefs() []*openfgav1.TypeDefinition {
	var out []*openfgav1.TypeDefinition
	for _, td := range mo.Types {
		reps := td.RepN
		if reps > 5000 {
			reps = 5000
		}
		for rep := 0; rep <= reps; rep++ {
			name := td.Name.S()
			if rep > 0 {
				name += "_" + itoa(rep)
			}
			p := &openfgav1.TypeDefinition{Type: name}
			if len(td.Rels) > 0 {
				p.Relations = map[string]*openfgav1.Userset{}
				if !td.NilMeta {
					p.Metadata = &openfgav1.Metadata{Relations: map[string]*openfgav1.RelationMetadata{}}
				}
			}
			for _, r := range td.Rels {
				rr := r.RepN
				if rr > 20000 {
					rr = 20000
				}
				for k := 0; k <= rr; k++ {
					rn := r.Name.S()
					if k > 0 {
						rn += "_" + itoa(k)
					}
					p.Relations[rn] = r.RW.Proto()
					if p.Metadata != nil && !r.NoMeta {
						md := &openfgav1.RelationMetadata{}
						for _, re := range r.Restr {
							md.DirectlyRelatedUserTypes = append(md.DirectlyRelatedUserTypes, re.Proto())
						}
						p.Metadata.Relations[rn] = md
					}
				}
			}
			if td.GhostMeta && p.Metadata != nil {
				p.Metadata.Relations["ghost"] = &openfgav1.RelationMetadata{DirectlyRelatedUserTypes: []*openfgav1.RelationReference{{Type: "user"}}}
			}
			out = append(out, p)
		}
	}
	return out
}

func (mo *HModel) Conditions() map[string]*openfgav1.Condition {
	if len(mo.Conds) == 0 {
		return nil
	}
	out := map[string]*openfgav1.Condition{}
	for _, c := range mo.Conds {
		key := c.Key.S()
		if c.Nil {
			out[key] = nil
			continue
		}
		name := key
		if c.Name != nil {
			name = c.Name.S()
		}
		pc := &openfgav1.Condition{Name: name, Expression: c.Expr.S(), Parameters: map[string]*openfgav1.ConditionParamTypeRef{}}
		for _, p := range c.Params {
			if p.Nil {
				pc.Parameters[p.Name.S()] = nil
				continue
			}
			pc.Parameters[p.Name.S()] = p.T.Proto()
		}
		out[key] = pc
	}
	return out
}

func (mo *HModel) features(into map[string]bool) {
	for _, td := range mo.Types {
		strFeatures(td.Name.S(), into)
		if td.RepN >= 50 {
			into["model-many-types"] = true
		}
		for _, r := range td.Rels {
			strFeatures(r.Name.S(), into)
			r.RW.features(into)
			if r.RepN >= 50 {
				into["model-many-relations"] = true
			}
			for _, re := range r.Restr {
				strFeatures(re.Type.S(), into)
				strFeatures(re.Rel.S(), into)
				strFeatures(re.Cond.S(), into)
			}
		}
	}
	for _, c := range mo.Conds {
		strFeatures(c.Key.S(), into)
		e := c.Expr.S()
		if len(e) > 2000 {
			into["cel-huge"] = true
		}
		if c.Expr.PreN >= 30 || c.Expr.SufN >= 30 {
			into["cel-repetitive"] = true
		}
		for _, p := range c.Params {
			strFeatures(p.Name.S(), into)
			if p.T.Chain >= 10 {
				into["param-generic-deep"] = true
			}
		}
	}
}

// ---- valid models (shared generator) -> recipes ----

func fromRewrite(rw *m.Rewrite) *HRW {
	if rw == nil {
		return nil
	}
	out := &HRW{K: rw.Kind, Rel: lit(rw.Rel), Tupleset: lit(rw.Tupleset)}
	if rw.Kind != m.Computed && rw.Kind != m.TTU {
		out.Rel, out.Tupleset = HS{}, HS{}
	}
	if rw.Kind == m.Computed {
		out.Tupleset = HS{}
	}
	for _, c := range rw.Children {
		out.Ch = append(out.Ch, fromRewrite(c))
	}
	return out
}

var paramTypeEnum = map[string]int32{
	"any": 1, "bool": 2, "string": 3, "int": 4, "uint": 5, "double": 6, "duration": 7, "timestamp": 8, "map": 9, "list": 10, "ipaddress": 11,
}

// fromValid converts a model of the shared generator.
func fromValid(mo *m.Model) *HModel {
	out := &HModel{Schema: "1.1"}
	for _, td := range mo.Types {
		ht := HType{Name: lit(td.Name)}
		for _, r := range td.Relations {
			hr := HRel{Name: lit(r.Name), RW: fromRewrite(r.Rewrite)}
			for _, re := range r.Restr {
				hre := HRestr{Type: lit(re.Type), Wildcard: re.Wildcard}
				if re.Rel != "" {
					hre.Rel = lit(re.Rel)
				}
				if re.Cond != "" {
					hre.Cond = lit(re.Cond)
				}
				hr.Restr = append(hr.Restr, hre)
			}
			ht.Rels = append(ht.Rels, hr)
		}
		out.Types = append(out.Types, ht)
	}
	for _, c := range mo.Conds {
		hc := HCond{Key: lit(c.Name), Expr: lit(c.Expr.CEL())}
		for _, p := range c.Params {
			hc.Params = append(hc.Params, HParam{Name: lit(p.Name), T: HParamType{Name: paramTypeEnum[p.Type]}})
		}
		out.Conds = append(out.Conds, hc)
	}
	return out
}
