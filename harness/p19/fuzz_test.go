package p19

import (
	"encoding/json"
	"os"
	"testing"

	"github.com/openfga/openfga/verifharness/fw"
)

// Native fuzz targets (thorough tier). The fuzz bytes are decoded by the data
// provider (byteSrc) into the same structured scenario as TestC19, focused on
// one RPC family; the string arguments are spliced verbatim into the fields the
// family is most sensitive to, so that the engine's byte-level mutations reach
// them directly. Same oracle (runCase, through the worker process like TestC19).
// State is reset per iteration: fresh server + fresh memory datastore. A crasher is reproducible by
// `go test -run 'FuzzC19Xxx/<file>'`; VERIF_C19_DUMP=<dir> additionally writes
// the decoded scenario as a TestC19 replay file.

func fuzzCase(focus string, data []byte, splice func(c *Case)) Case {
	g := &G{s: &byteSrc{b: data}, thorough: true, focus: focus}
	c := g.Scenario()
	if len(c.Reqs) > 6 {
		c.Reqs = c.Reqs[:6]
	}
	splice(&c)
	return c
}

func fuzzRun(t *testing.T, c Case) {
	if dir := os.Getenv("VERIF_C19_DUMP"); dir != "" && os.Getenv("VERIF_C19_DUMP_CASE") == "1" {
		// debugging aid: the decoded scenario of the input about to run, as a TestC19 replay file
		b, _ := json.Marshal(map[string]any{"property": "C19", "case": c})
		_ = os.WriteFile(dir+"/fuzz-last-case.json", b, 0o644)
	}
	// 1. The verdict comes from an execution in the worker process (same as TestC19): fatal
	//    errors are attributed, and an input that starves or wedges the process (the known
	//    evaluation explosions do) cannot take the fuzz worker with it.
	res := execute(c)
	if f := confirmedFailure(c, res); f != nil {
		if dir := os.Getenv("VERIF_C19_DUMP"); dir != "" {
			b, _ := json.MarshalIndent(map[string]any{"property": "C19", "signature": f.Signature, "msg": f.Msg, "case": c}, "", " ")
			_ = os.WriteFile(dir+"/fuzz-"+sanitize(f.Signature)+".json", b, 0o644)
		}
		t.Fatalf("property C19 violated [%s]: %s\n--- case: %v", f.Signature, f.Msg, describe(c))
	}
	// 2. Coverage feedback for the fuzz engine needs the server code to run in THIS process:
	//    scenarios that were benign and quick in the worker are executed here once more.
	if res.Fail == nil && !res.Dirty && !res.Harness && len(res.OutOfDomain) == 0 && quick(res) && os.Getenv("VERIF_C19_INPROC") != "1" {
		if again := runCase(c, nil); again.Fail != nil {
			// non-deterministic: ask the worker process again before believing it
			if f := confirmedFailure(c, again); f != nil {
				t.Fatalf("property C19 violated [%s]: %s\n--- case: %v", f.Signature, f.Msg, describe(c))
			}
		}
	}
}

// quick reports whether every request of the execution was far from its deadline.
func quick(res Result) bool {
	for _, rr := range res.Reqs {
		if rr.WallMs > 300 || rr.Late || rr.Outcome == "deadline" {
			return false
		}
	}
	return true
}

// confirmedFailure returns the failure of res when it is not a known finding and
// (for wall-clock / heap verdicts) reproduces in a fresh worker process.
func confirmedFailure(c Case, res Result) *Fail {
	if res.Fail == nil || fw.IsKnown(res.Fail.Signature) {
		return nil
	}
	if !res.Fail.Timing {
		return res.Fail
	}
	if confirmed(c, res.Fail) {
		return res.Fail
	}
	return nil
}

func sanitize(s string) string {
	out := []byte(s)
	for i, c := range out {
		if !(c >= 'a' && c <= 'z' || c >= 'A' && c <= 'Z' || c >= '0' && c <= '9' || c == '-') {
			out[i] = '_'
		}
	}
	return string(out)
}

var seedData = [][]byte{
	{},
	{0, 0, 10, 0, 0, 0, 0, 0, 0, 0, 0, 0}, // valid generated model, no hostile parts
	{50, 0, 30, 0, 1, 2, 3, 4, 5, 6, 7, 8, 9, 10, 11, 12}, // recursive model
	{0, 99, 99, 99, 99, 60, 2, 1, 200, 3, 0, 17, 4, 4, 90, 90, 90},
	{99, 1, 99, 1, 80, 3, 3, 3, 70, 70, 5, 5, 5, 250, 250, 0, 0, 9},
	{10, 20, 30, 40, 50, 60, 70, 80, 90, 100, 110, 120, 130, 140, 150, 160, 170, 180, 190, 200, 210, 220, 230, 240, 250},
}

func FuzzC19Check(f *testing.F) {
	for _, d := range seedData {
		f.Add(d, "folder:1", "viewer", "user:1", "x")
		f.Add(d, "doc:1", "r0", "user:*", "s")
	}
	f.Add([]byte{50, 0}, "folder:0", "can_view", "folder:1#viewer", "x")
	f.Add([]byte{50, 1}, "a:b:c", "x#y#z", ":", "")
	f.Add([]byte{50, 2}, "folder:\xff", "viewer", "user:\x00", "\xff")
	f.Add([]byte{50, 3}, "folder:", "", "#", "k0")
	f.Fuzz(func(t *testing.T, data []byte, object, relation, user, ctxKey string) {
		if len(object)+len(relation)+len(user)+len(ctxKey) > 1<<20 {
			t.Skip()
		}
		c := fuzzCase("check", data, func(c *Case) {
			typ, _ := splitFirst(object)
			q := Req{RPC: "Check", ModelID: "cur", T: HTuple{Object: raw(object), Relation: raw(relation), User: raw(user)}, Type: raw(typ),
				Ctx: &HCtx{KV: []HKV{{K: raw(ctxKey), V: raw(user)}}}}
			extra := []Req{q}
			for _, rpc := range []string{"ListObjects", "ListUsers", "Expand", "BatchCheck", "Evaluation"} {
				e := q
				e.RPC = rpc
				e.Filters = []HRestr{{Type: lit("user")}}
				e.Items = []Item{{T: q.T, Corr: raw(ctxKey), Ctx: q.Ctx}}
				extra = append(extra, e)
			}
			c.Reqs = append(extra, c.Reqs...)
		})
		fuzzRun(t, c)
	})
}

func FuzzC19Write(f *testing.F) {
	for _, d := range seedData {
		f.Add(d, "folder:1", "viewer", "user:1", "c0", "x")
	}
	f.Add([]byte{50, 1}, "folder:1", "viewer", "folder:1#viewer", "", "")
	f.Add([]byte{50, 2}, "folder:1", "parent", "folder:1", "c0", "\xff")
	f.Add([]byte{50, 3}, ":", "#", "@", "unknown", "k")
	f.Add([]byte{50, 4}, "folder:*", "viewer", "user:*", "c0", "x")
	f.Fuzz(func(t *testing.T, data []byte, object, relation, user, cond, ctxKey string) {
		if len(object)+len(relation)+len(user)+len(cond)+len(ctxKey) > 1<<20 {
			t.Skip()
		}
		c := fuzzCase("write", data, func(c *Case) {
			tu := HTuple{Object: raw(object), Relation: raw(relation), User: raw(user)}
			if cond != "" {
				tu.Cond = raw(cond)
				tu.Ctx = &HCtx{KV: []HKV{{K: raw(ctxKey), V: raw(user)}}}
			}
			w := Req{RPC: "Write", ModelID: "cur", Items: []Item{{T: tu}}}
			d := Req{RPC: "Write", ModelID: "cur", Deletes: []HTuple{tu}}
			a := Req{RPC: "WriteAssertions", ModelID: "cur", Items: []Item{{T: tu, Contextual: []HTuple{tu}, Ctx: tu.Ctx}}}
			rd := Req{RPC: "Read", T: tu}
			c.Reqs = append([]Req{w, rd, d, a}, c.Reqs...)
			// the same tuple also straight into the datastore
			c.Tuples = append(c.Tuples, TupleGroup{Kind: "raw", T: &tu})
		})
		fuzzRun(t, c)
	})
}

func FuzzC19Model(f *testing.F) {
	for _, d := range seedData {
		f.Add(d, "doc", "viewer", "x < 10", "x", uint16(3))
	}
	f.Add([]byte{80, 1}, "doc", "viewer", "((((x < 10))))", "x", uint16(300))
	f.Add([]byte{80, 2}, "a:b", "x#y", "[1,2,3].all(a, [1,2,3].all(b, a + b < x))", "x", uint16(2000))
	f.Add([]byte{80, 3}, "\xff", "", "", "", uint16(0))
	f.Add([]byte{80, 4}, "doc", "viewer", "s.matches('(a+)+$')", "s", uint16(26))
	f.Fuzz(func(t *testing.T, data []byte, typeName, relName, expr, param string, depth uint16) {
		if len(typeName)+len(relName)+len(expr)+len(param) > 200<<10 {
			t.Skip()
		}
		c := fuzzCase("model", data, func(c *Case) {
			d := int(depth) % (maxRewriteDepth + 1)
			mo := &HModel{Schema: "1.1", Types: []HType{{Name: lit("user")}, {Name: raw(typeName), Rels: []HRel{
				{Name: raw(relName), RW: &HRW{K: "chain", Depth: d, Op: "mixed", Width: 2, Leaf: &HRW{K: "this"}},
					Restr: []HRestr{{Type: lit("user")}, {Type: lit("user"), Cond: lit("fc")}}},
			}}},
				Conds: []HCond{{Key: lit("fc"), Expr: raw(expr), Params: []HParam{{Name: raw(param), T: HParamType{Name: 4}}, {Name: lit("s"), T: HParamType{Name: 3}}}}}}
			wm := Req{RPC: "WriteAuthorizationModel", Model: mo}
			ck := Req{RPC: "Check", T: HTuple{Object: raw(typeName + ":1"), Relation: raw(relName), User: lit("user:1")}, Ctx: &HCtx{Fields: map[string]any{"x": 1.0, "s": "aaaaaaaaaaaaaaaaaaaaaaaa!"}}}
			lo := Req{RPC: "ListObjects", Type: raw(typeName), T: ck.T, Ctx: ck.Ctx}
			wr := Req{RPC: "Write", Items: []Item{{T: HTuple{Object: raw(typeName + ":1"), Relation: raw(relName), User: lit("user:1"), Cond: lit("fc"), Ctx: ck.Ctx}}}}
			c.Reqs = append([]Req{wm, wr, ck, lo}, c.Reqs...)
			if len(data) > 0 && data[0]%3 == 0 {
				// the fuzzed model becomes the case's model, also stored directly when the API rejects it
				c.Model, c.ModelSrc, c.ModelVia = mo, "hostile:fuzz", "both"
			}
		})
		fuzzRun(t, c)
	})
}

func FuzzC19Read(f *testing.F) {
	for _, d := range seedData {
		f.Add(d, "", "folder:1", "viewer", "user:1", int32(10), "folder")
	}
	for _, tok := range []string{"LTV8", b64("-1|"), b64("5|"), b64("99999999999999999999|"), b64("01ARZ3NDEKTSV4RRFFQ69G5FAV|folder"), "!!!", b64("|"), b64("-9223372036854775808|")} {
		f.Add([]byte{50, 1}, tok, "folder:", "", "", int32(1), "folder")
		f.Add([]byte{50, 2}, tok, "", "", "", int32(0), "")
	}
	f.Fuzz(func(t *testing.T, data []byte, token, object, relation, user string, pageSize int32, typ string) {
		if len(token)+len(object)+len(relation)+len(user)+len(typ) > 1<<20 {
			t.Skip()
		}
		c := fuzzCase("read", data, func(c *Case) {
			ps := pageSize
			rd := Req{RPC: "Read", Token: raw(token), T: HTuple{Object: raw(object), Relation: raw(relation), User: raw(user)}, PageSize: &ps, NilKey: object == "" && relation == "" && user == ""}
			rc := Req{RPC: "ReadChanges", Token: raw(token), Type: raw(typ), PageSize: &ps}
			rm := Req{RPC: "ReadAuthorizationModels", Token: raw(token), PageSize: &ps}
			ls := Req{RPC: "ListStores", Token: raw(token), PageSize: &ps}
			c.Reqs = append([]Req{rd, rc, rm, ls}, c.Reqs...)
		})
		fuzzRun(t, c)
	})
}
