package p19

import (
	"encoding/base64"
	"math/bits"
	"strings"

	"pgregory.net/rapid"

	"github.com/openfga/openfga/verifharness/gen"
	"github.com/openfga/openfga/verifharness/m"
)

// src is the only source of randomness of the generator. rapid draws back it
// in TestC19; the bytes of a native fuzz input back it in the Fuzz targets
// (the "data provider").
type src interface {
	Int(label string, lo, hi int) int
	// ValidModel returns a model of the shared generator G.
	ValidModel() *m.Model
}

type rapidSrc struct{ t *rapid.T }

// Int draws uniformly from [lo, hi]. rapid.IntRange is deliberately biased
// towards small values and bounds, which would distort every percentage of
// the scenario generator; unbiased bits (rapid.Bool) are composed instead.
// All-false bits = lo, so shrinking still moves towards the first (benign) choice.
func (r rapidSrc) Int(label string, lo, hi int) int {
	if hi <= lo {
		return lo
	}
	span := uint64(hi - lo + 1)
	k := bits.Len64(span) + 5
	var v uint64
	for _, b := range rapid.SliceOfN(rapid.Bool(), k, k).Draw(r.t, label) {
		v <<= 1
		if b {
			v |= 1
		}
	}
	return lo + int(v%span)
}
func (r rapidSrc) ValidModel() *m.Model { return gen.Model(r.t, gen.DefaultOpts()) }

// byteSrc decodes choices from fuzz bytes; exhausted input yields the lowest
// choice, so every byte string decodes to a scenario.
type byteSrc struct {
	b []byte
	i int
}

func (s *byteSrc) Int(_ string, lo, hi int) int {
	if hi <= lo {
		return lo
	}
	span := uint64(hi - lo + 1)
	var v uint64
	n := 1
	if span > 256 {
		n = 2
	}
	if span > 65536 {
		n = 4
	}
	for k := 0; k < n; k++ {
		var c byte
		if s.i < len(s.b) {
			c = s.b[s.i]
			s.i++
		}
		v = v<<8 | uint64(c)
	}
	return lo + int(v%span)
}

func (s *byteSrc) ValidModel() *m.Model {
	seed := s.Int("modelSeed", 0, 255)
	return rapid.Custom(func(t *rapid.T) *m.Model { return gen.Model(t, gen.DefaultOpts()) }).Example(seed)
}

// G is the scenario generator.
type G struct {
	s        src
	thorough bool
	focus    string // "" all RPCs | "check" | "write" | "model" | "read"
}

func (g *G) n(label string, lo, hi int) int { return g.s.Int(label, lo, hi) }
func (g *G) chance(label string, pct int) bool {
	return g.s.Int(label, 0, 99) < pct
}
func pickOf[T any](g *G, label string, xs []T) T { return xs[g.s.Int(label, 0, len(xs)-1)] }

// ---- vocabulary of a model (names short and plain enough to be used in requests) ----

type vrel struct {
	name  string
	restr []HRestr
	this  bool
}
type vtype struct {
	name string
	rels []vrel
}
type vocab struct {
	types  []vtype
	conds  []string
	params []string
}

func hasThis(rw *HRW) bool {
	if rw == nil {
		return false
	}
	if rw.K == "this" {
		return true
	}
	for _, c := range rw.Ch {
		if hasThis(c) {
			return true
		}
	}
	return hasThis(rw.Leaf)
}

func plain(s string) bool {
	if len(s) == 0 || len(s) > 40 {
		return false
	}
	for i := 0; i < len(s); i++ {
		c := s[i]
		if !(c == '_' || c == '-' || (c >= '0' && c <= '9') || (c >= 'a' && c <= 'z') || (c >= 'A' && c <= 'Z')) {
			return false
		}
	}
	return true
}

func vocabOf(mo *HModel) vocab {
	v := vocab{}
	if mo != nil {
		for _, td := range mo.Types {
			tn := td.Name.S()
			if !plain(tn) {
				continue
			}
			vt := vtype{name: tn}
			for _, r := range td.Rels {
				if rn := r.Name.S(); plain(rn) {
					vt.rels = append(vt.rels, vrel{name: rn, restr: r.Restr, this: hasThis(r.RW)})
				}
			}
			v.types = append(v.types, vt)
		}
		for _, c := range mo.Conds {
			if k := c.Key.S(); plain(k) {
				v.conds = append(v.conds, k)
			}
			for _, p := range c.Params {
				if pn := p.Name.S(); plain(pn) {
					v.params = append(v.params, pn)
				}
			}
		}
	}
	if len(v.types) == 0 {
		v.types = []vtype{{name: "user"}, {name: "doc", rels: []vrel{{name: "viewer", this: true, restr: []HRestr{{Type: lit("user")}}}}}}
	}
	if len(v.params) == 0 {
		v.params = []string{"x"}
	}
	return v
}

func (v vocab) withRels() []vtype {
	var out []vtype
	for _, t := range v.types {
		if len(t.rels) > 0 {
			out = append(out, t)
		}
	}
	if len(out) == 0 {
		out = []vtype{{name: "doc", rels: []vrel{{name: "viewer", this: true}}}}
	}
	return out
}

// ---- hostile strings ----

var sepStrings = []string{"", ":", "#", "@", "::", ":#", "a:b:c", "x#y#z", "a#", ":a", "a:", "*", "a:*", "*:*", "a:*#b", "a:b#c#d", "a:b@c", "a|b", "#:", "a:b#", "a:#b", ":*", "user:*:*", "a::b", "a:b:*", "doc:1#viewer@user:1"}
var ctlStrings = []string{"\x00", "a\x00b", "\n", "a\tb", "\x7f", " ", "a b", "\r\n", "\x1b[31m", "a\x00", "\x01\x02\x03"}
var badUTF8 = []string{"\xff", "\xc3\x28", "\xff\xfe", "\xed\xa0\x80", "\xf8\x88\x80\x80\x80", "a\x80b", "\xc0\xaf", "\xe2\x28\xa1"}
var uniStrings = []string{"\u65e5\u672c\u8a9e", "\u00e9", "\u202eabc", "a\u200bb", "\U0001f600", "\ufeffa", "a\u0301", "\u0130", "\u00df", "\u00a0", "\u03a9\u2248\u00e7\u221a\u222b", "\U0010ffff", "\u2028", "\u0085"}
var oddStrings = []string{"%s%n%x", "../../etc/passwd", "${jndi:ldap://x}", "' OR 1=1--", "\\", "\"", "{{.}}", "<script>", "-1", "0", "9223372036854775808", "1e309", "NaN", "null", "true", "[]", "{}"}
var longLens = []int{50, 51, 100, 200, 240, 250, 251, 252, 254, 255, 256, 257, 511, 512, 513, 1000, 4096, 65536, 1 << 20, 3 << 20}

// hostile returns a hostile string; prefix (e.g. "doc:") is prepended in half of the cases when given.
func (g *G) hostile(label, prefix string) HS {
	var h HS
	switch g.n(label+"Kind", 0, 6) {
	case 0:
		h = raw(pickOf(g, label+"Sep", sepStrings))
	case 1:
		max := 16
		if g.thorough {
			max = len(longLens) - 1
		} else if g.chance(label+"Huge", 10) {
			max = len(longLens) - 1
		}
		h = HS{Pre: pickOf(g, label+"Unit", []string{"a", "a", "ab:", "é", "#"}), PreN: longLens[g.n(label+"Len", 0, max)]}
		if h.Pre != "a" {
			h.PreN /= len(h.Pre)
		}
	case 2:
		h = raw(pickOf(g, label+"Ctl", ctlStrings))
	case 3:
		h = raw(pickOf(g, label+"Bad", badUTF8))
	case 4:
		h = raw(pickOf(g, label+"Uni", uniStrings))
	case 5:
		h = raw(pickOf(g, label+"Odd", oddStrings))
	default:
		// composite: valid-looking head + hostile tail
		h = raw("x" + pickOf(g, label+"Tail", append(append([]string{}, ctlStrings...), badUTF8...)))
	}
	if prefix != "" && g.chance(label+"Prefixed", 60) {
		h.Head = prefix
	}
	return h
}

func b64(s string) string { return base64.URLEncoding.EncodeToString([]byte(s)) }

var tokenPlain = []string{"-5|", "-1|", "-9223372036854775808|", "99999999999999999999|", "5|", "0|", "2147483648|", "abc", "|", "||", "5", "1e3|", " 5|", "+5|", "0x10|", "-0|",
	"01ARZ3NDEKTSV4RRFFQ69G5FAV|doc", "01ARZ3NDEKTSV4RRFFQ69G5FAV|", "7ZZZZZZZZZZZZZZZZZZZZZZZZZ|doc", "8ZZZZZZZZZZZZZZZZZZZZZZZZZ|", "\xff\xfe|", "-5", "-5|doc", "-3|user"}

func (g *G) token() HS {
	switch g.n("tokKind", 0, 9) {
	case 0:
		return lit("!!!not-base64")
	case 1:
		return HS{Pre: "QUFB", PreN: pickOf(g, "tokLen", []int{100, 10000, 200000, 700000})}
	case 2:
		return lit(b64("-5|")) // the known offender, kept frequent so that the search goes past it
	case 3:
		return raw(pickOf(g, "tokRaw", []string{"=", "==", "A", "A===", "AA=A", "\xff", "a b"}))
	default:
		return lit(b64(pickOf(g, "tokPlain", tokenPlain)))
	}
}

// ---- contexts ----

func (g *G) depth(label string, lo, quickHi, thoroughHi int) int {
	hi := quickHi
	if g.thorough {
		hi = thoroughHi
	}
	d := g.n(label, lo, hi)
	if g.chance(label+"AtMax", 4) {
		d = thoroughHi // occasionally also in the quick tier
	}
	return d
}

var extremeNums = []any{1.7976931348623157e308, -1.7976931348623157e308, 5e-324, 9007199254740993.0, 1e19, -1e19, 9223372036854775807.0, -9223372036854775808.0, 0.1, -0.0, 4294967296.0, 1e-310}

func (g *G) hostileCtx(v vocab) *HCtx {
	key := pickOf(g, "ctxKey", append([]string{"x"}, v.params...))
	c := &HCtx{}
	for _, p := range v.params {
		if p == "l" && g.chance("ctxBigList", 35) {
			// a large list for the list parameter of the model's conditions, the other parameters well-typed
			c.ListN = pickOf(g, "ctxBigListN", []int{200, 1000, 100000})
			c.Fields = map[string]any{"x": pickOf(g, "ctxBigX", []any{1.0, 1e18, -1.0}), "s": "a", "m": map[string]any{"a": "b"}, "ip": "10.0.0.1"}
			return c
		}
	}
	if g.chance("ctxSpecial", 12) {
		// NaN / +-Inf (deliverable over gRPC, not through JSON) for one or all parameters, the rest well-typed
		c.Fields = map[string]any{"x": 1.0, "s": "a", "l": []any{1.0}, "m": map[string]any{"a": "b"}, "ip": "10.0.0.1", "u": 1.0, "d": 1.5, "du": "1h", "ts": "2024-01-01T00:00:00Z"}
		kind := pickOf(g, "specialKind", []string{"nan", "nan", "inf", "-inf", "list-nan", "struct-nan"})
		c.Special = map[string]string{}
		if g.chance("specialAll", 30) {
			for _, p := range append([]string{"x"}, v.params...) {
				c.Special[p] = kind
			}
		} else {
			c.Special[key] = kind
		}
		declared := map[string]bool{"x": true}
		for _, p := range v.params {
			declared[p] = true
		}
		for k := range c.Fields {
			if c.Special[k] != "" || !declared[k] {
				delete(c.Fields, k)
			}
		}
		return c
	}
	switch g.n("ctxKind", 0, 6) {
	case 0, 1:
		c.Nest = []Nest{{Key: key, Depth: g.depth("ctxDepth", 2, 2000, 2000), Shape: pickOf(g, "ctxShape", []string{"struct", "list", "alt"}), Width: g.n("ctxWidth", 0, 2), Leaf: 1.0}}
		if g.chance("ctxDepthCap", 15) {
			c.Nest[0].Depth = ctxCap(c.Nest[0].Shape) // the deepest that the transport delivers
		}
	case 2:
		c.WideN = pickOf(g, "ctxWide", []int{100, 1000, 10000, 50000})
		if g.chance("ctxList", 50) {
			c.ListN = pickOf(g, "ctxListN", []int{1000, 100000})
			c.WideN = 0
		}
	case 3:
		c.KV = []HKV{{K: g.hostile("ctxK", ""), V: g.hostile("ctxV", "")}}
		if g.chance("ctxKeyIsParam", 50) {
			c.KV[0].K = lit(key)
		}
	case 4:
		c.Fields = map[string]any{key: pickOf(g, "ctxNum", extremeNums)}
	case 5:
		c.Fields = map[string]any{key: pickOf(g, "ctxConfuse", []any{"str", []any{1.0}, map[string]any{"a": 1.0}, nil, true, []any{}, map[string]any{}, []any{[]any{[]any{}}}})}
	default:
		c.Fields = map[string]any{}
		for _, p := range v.params {
			c.Fields[p] = 1.0
		}
		c.Nest = []Nest{{Key: "extra", Depth: g.depth("ctxDepth2", 100, 2000, 2000), Shape: "alt", Leaf: "s"}}
	}
	return c
}

// plainCtx gives every known parameter a well-typed looking value.
func (g *G) plainCtx(v vocab) *HCtx {
	if g.chance("noCtx", 40) {
		return nil
	}
	if g.chance("emptyCtx", 15) {
		return &HCtx{} // "context": {} - present but empty (decodes to a Struct without fields)
	}
	c := &HCtx{Fields: map[string]any{}}
	for _, p := range v.params {
		switch p {
		case "s":
			c.Fields[p] = pickOf(g, "ctxS", []string{"a", "b"})
		case "l":
			c.Fields[p] = []any{1.0, 2.0, 3.0}
		case "m":
			c.Fields[p] = map[string]any{"a": "b"}
		case "ip":
			c.Fields[p] = "10.0.0.1"
		case "du":
			c.Fields[p] = "1h"
		case "ts":
			c.Fields[p] = "2024-01-01T00:00:00Z"
		default:
			c.Fields[p] = float64(g.n("ctxX", 0, 20))
		}
	}
	return c
}

// ---- models ----

var celHostile = []func(g *G) HS{
	func(g *G) HS {
		// nested comprehensions over the list parameter: |l|^depth steps, bounded only by the
		// evaluation cost limit / the interrupt check
		n := g.n("celNestL", 2, 4)
		vars := []string{"a", "b", "c", "d"}
		macro := pickOf(g, "celMacro", []string{"all", "exists", "exists_one", "all"})
		var b strings.Builder
		for i := 0; i < n; i++ {
			b.WriteString("l." + macro + "(" + vars[i] + ", ")
		}
		b.WriteString(strings.Join(vars[:n], " + ") + " < x")
		b.WriteString(strings.Repeat(")", n))
		return lit(b.String())
	},
	func(g *G) HS {
		return lit(pickOf(g, "celListHeavy", []string{
			"l.map(a, l.map(b, a * b)).size() > x", "l.filter(a, l.exists(b, a == b + x)).size() > 0", "l.all(a, a in l)", "l.map(a, string(a)).all(t, t.size() < x)",
			"m.all(k, m.all(j, k != j || m[k] == s))", "l.exists(a, l.exists(b, l.exists(c, a + b + c == x)))",
		}))
	},
	func(g *G) HS {
		n := pickOf(g, "celParen", []int{10, 50, 200, 250, 251, 1000, 5000, 100000})
		return HS{Pre: "(", PreN: n, Mid: "x < 10", Suf: ")", SufN: n}
	},
	func(g *G) HS {
		return HS{Mid: "x < 10", Suf: " || x < 10", SufN: pickOf(g, "celOr", []int{10, 100, 1000, 10000})}
	},
	func(g *G) HS {
		return HS{Head: "'", Pre: "a", PreN: pickOf(g, "celStr", []int{1000, 100000, 1 << 20}), Tail: "' == s"}
	},
	func(g *G) HS {
		n := pickOf(g, "celCompr", []int{2, 5, 20, 100})
		return HS{Pre: "[1,2,3].all(a, ", PreN: n, Mid: "x < 10", Suf: ")", SufN: n}
	},
	func(g *G) HS {
		return HS{Pre: "!", PreN: pickOf(g, "celNot", []int{10, 250, 1000, 50000}), Mid: "(x < 10)"}
	},
	func(g *G) HS {
		return HS{Pre: "-", PreN: pickOf(g, "celNeg", []int{10, 250, 1001, 50001}), Mid: "1 < x"}
	},
	func(g *G) HS {
		return HS{Mid: "m", Suf: ".a", SufN: pickOf(g, "celSel", []int{10, 250, 1000, 20000}), Tail: " == 1"}
	},
	func(g *G) HS {
		n := pickOf(g, "celList", []int{10, 250, 1000, 20000})
		return HS{Pre: "[", PreN: n, Suf: "]", SufN: n, Tail: ".size() < x"}
	},
	func(g *G) HS {
		n := pickOf(g, "celTern", []int{10, 100, 1000})
		return HS{Pre: "x < 1 ? true : (", PreN: n, Mid: "false", Suf: ")", SufN: n}
	},
	func(g *G) HS {
		return raw(pickOf(g, "celBad", []string{"(((", "x <", "", " ", "\x00", "\xff", "x < 10 //", "1 + 1", "x", "y < 1", "x < 'a'", "日本 < 1", "x.y.z", "has(x.y)", "x < 10;", "true && ", "\"", "'", "`x`", "x < 9223372036854775808", "1/0 < x", "x % 0 == 1"}))
	},
	func(g *G) HS {
		return lit(pickOf(g, "celHeavy", []string{
			"[1,2,3,4,5,6,7,8,9].all(a, [1,2,3,4,5,6,7,8,9].all(b, [1,2,3,4,5,6,7,8,9].all(c, a+b+c < x)))",
			"s.matches('(a+)+$')", "s.matches('(((((((((a*)*)*)*)*)*)*)*)*)$')", "(s+s+s+s+s+s+s+s).size() < x",
			"l.map(e, e*2).filter(e, e > 1).exists(e, e == x)", "l.all(e, l.all(f, l.all(h, e+f+h < x)))",
			"timestamp('9999-12-31T23:59:59Z') + duration('1000000h') > timestamp('2000-01-01T00:00:00Z')",
			"duration('9999999999999h') < duration('1s')", "int('x') < x", "string(x).size() < 3", "x in l", "m['a'] == 'b'", "m.exists(k, k == s)",
			"ip.in_cidr('10.0.0.0/8')", "[x].map(a, [a].map(b, [b].map(c, c))).size() == 1", "x < 10 ? s == 'a' : s.contains(s)",
			"dyn(x) < 10", "type(x) == int", "x == null", "b'\\xff' == bytes(s)", "9223372036854775807 + x > 0", "-9223372036854775807 - x < 0", "x * x * x * x * x * x * x * x * x * x * x * x * x * x * x * x * x > 0",
		}))
	},
}

func stdParams() []HParam {
	return []HParam{
		{Name: lit("x"), T: HParamType{Name: 4}},
		{Name: lit("s"), T: HParamType{Name: 3}},
		{Name: lit("l"), T: HParamType{Name: 10, Generics: []HParamType{{Name: 4}}}},
		{Name: lit("m"), T: HParamType{Name: 9, Generics: []HParamType{{Name: 3}}}},
		{Name: lit("ip"), T: HParamType{Name: 11}},
		{Name: lit("u"), T: HParamType{Name: 5}},
		{Name: lit("d"), T: HParamType{Name: 6}},
		{Name: lit("du"), T: HParamType{Name: 7}},
		{Name: lit("ts"), T: HParamType{Name: 8}},
	}
}

func (g *G) hostileParam() HParam {
	p := HParam{Name: lit("p")}
	switch g.n("paramKind", 0, 6) {
	case 0:
		p.T = HParamType{Name: 4, Chain: g.depth("paramChain", 1, 300, 2000), ChainOf: int32(pickOf(g, "paramChainOf", []int{10, 9}))}
	case 1:
		p.T = HParamType{Name: int32(pickOf(g, "paramEnum", []int{0, 12, 999, -1, 2147483647}))}
	case 2:
		p.T = HParamType{Name: 10} // list without generic
	case 3:
		p.T = HParamType{Name: 9, Generics: []HParamType{{Name: 4}, {Name: 3}, {Name: 3}}} // map with 3 generics
	case 4:
		p.T = HParamType{Name: 4, Generics: []HParamType{{Name: 4}}} // int<int>
	case 5:
		p.Nil = true
	default:
		p.Name = g.hostile("paramName", "")
		p.T = HParamType{Name: 3}
	}
	return p
}

// recursiveModel is a valid hand-written model on which cyclic and wide data matter.
func recursiveModel(withCond bool) *HModel {
	user := func() HRestr { return HRestr{Type: lit("user")} }
	mo := &HModel{Schema: "1.1", Types: []HType{
		{Name: lit("user")},
		{Name: lit("group"), Rels: []HRel{{Name: lit("member"), RW: &HRW{K: "this"}, Restr: []HRestr{user(), {Type: lit("group"), Rel: lit("member")}, {Type: lit("user"), Wildcard: true}}}}},
		{Name: lit("folder"), Rels: []HRel{
			{Name: lit("parent"), RW: &HRW{K: "this"}, Restr: []HRestr{{Type: lit("folder")}}},
			{Name: lit("viewer"), RW: &HRW{K: "union", Ch: []*HRW{{K: "this"}, {K: "ttu", Tupleset: lit("parent"), Rel: lit("viewer")}}},
				Restr: []HRestr{user(), {Type: lit("group"), Rel: lit("member")}, {Type: lit("folder"), Rel: lit("viewer")}}},
			{Name: lit("blocked"), RW: &HRW{K: "this"}, Restr: []HRestr{user(), {Type: lit("folder"), Rel: lit("blocked")}}},
			{Name: lit("can_view"), RW: &HRW{K: "difference", Ch: []*HRW{{K: "computed", Rel: lit("viewer")}, {K: "computed", Rel: lit("blocked")}}}},
			{Name: lit("both"), RW: &HRW{K: "intersection", Ch: []*HRW{{K: "computed", Rel: lit("viewer")}, {K: "ttu", Tupleset: lit("parent"), Rel: lit("can_view")}}}},
		}},
	}}
	if withCond {
		mo.Conds = []HCond{{Key: lit("c0"), Expr: lit("x < 10"), Params: []HParam{{Name: lit("x"), T: HParamType{Name: 4}}}}}
		v := &mo.Types[2].Rels[1]
		v.Restr = append(v.Restr, HRestr{Type: lit("user"), Cond: lit("c0")}, HRestr{Type: lit("folder"), Rel: lit("viewer"), Cond: lit("c0")})
		mo.Types[1].Rels[0].Restr = append(mo.Types[1].Rels[0].Restr, HRestr{Type: lit("user"), Cond: lit("c0")})
	}
	return mo
}

func (g *G) model() (string, *HModel) {
	kind := g.n("modelKind", 0, 99)
	if g.focus == "model" {
		kind = 30 + kind*70/100 // mostly hostile / mutated
	}
	switch {
	case kind < 22:
		return "valid", fromValid(g.s.ValidModel())
	case kind < 40:
		return "valid-recursive", recursiveModel(g.chance("recCond", 50))
	case kind < 70:
		var mo *HModel
		if g.chance("mutBaseRecursive", 40) {
			mo = recursiveModel(g.chance("recCond", 50))
		} else {
			mo = fromValid(g.s.ValidModel())
		}
		what := g.mutate(mo)
		if g.chance("secondMutation", 25) {
			what += "+" + g.mutate(mo)
		}
		return "mutated:" + what, mo
	default:
		return g.hostileModel()
	}
}

// anyRel picks a relation of the model (type index, relation index); ok=false when there is none.
func (g *G) anyRel(mo *HModel) (int, int, bool) {
	var cands [][2]int
	for ti, td := range mo.Types {
		for ri := range td.Rels {
			cands = append(cands, [2]int{ti, ri})
		}
	}
	if len(cands) == 0 {
		return 0, 0, false
	}
	c := pickOf(g, "anyRel", cands)
	return c[0], c[1], true
}

func (g *G) rewriteDepth(label string) int {
	d := g.depth(label, 2, 300, 2000)
	if g.chance(label+"Boundary", 20) {
		d = pickOf(g, label+"B", []int{24, 25, 26, 50, 100})
	}
	if g.chance(label+"Cap", 5) {
		d = maxRewriteDepth // the deepest that the transport delivers
	}
	return d
}

// mutate applies one hostile mutation to an otherwise valid model.
func (g *G) mutate(mo *HModel) string {
	ti, ri, ok := g.anyRel(mo)
	if !ok {
		mo.Types = append(mo.Types, HType{Name: lit("doc"), Rels: []HRel{{Name: lit("viewer"), RW: &HRW{K: "this"}, Restr: []HRestr{{Type: lit("user")}}}}})
		ti, ri = len(mo.Types)-1, 0
	}
	rel := &mo.Types[ti].Rels[ri]
	switch g.n("mutation", 0, 13) {
	case 0:
		rel.RW = &HRW{K: "chain", Depth: g.rewriteDepth("wrapDepth"), Op: pickOf(g, "wrapOp", []string{"union", "intersection", "difference", "mixed"}), Width: g.n("wrapWidth", 1, 3), Side: g.n("wrapSide", 0, 1), Leaf: rel.RW}
		return "deep-wrap"
	case 1:
		rel.RW = &HRW{K: pickOf(g, "wideOp", []string{"union", "intersection"}), Ch: []*HRW{rel.RW}, N: pickOf(g, "wideN", []int{50, 100, 300, 800, 5000})}
		return "wide"
	case 2:
		self := rel.Name
		switch g.n("cycleKind", 0, 3) {
		case 0:
			rel.RW = &HRW{K: "computed", Rel: self}
		case 1:
			rel.RW = &HRW{K: "union", Ch: []*HRW{rel.RW, {K: "computed", Rel: self}}}
		case 2:
			mo.Types[ti].Rels = append(mo.Types[ti].Rels, HRel{Name: lit("cy0"), RW: &HRW{K: "computed", Rel: lit("cy1")}}, HRel{Name: lit("cy1"), RW: &HRW{K: "intersection", Ch: []*HRW{{K: "computed", Rel: lit("cy0")}, {K: "computed", Rel: self}}}})
		default:
			rel.RW = &HRW{K: "difference", Ch: []*HRW{rel.RW, {K: "computed", Rel: self}}}
		}
		return "cyclic-definition"
	case 3:
		h := g.hostile("relName", "")
		if g.chance("renameType", 40) {
			mo.Types[ti].Name = h
			return "hostile-type-name"
		}
		rel.Name = h
		return "hostile-relation-name"
	case 4:
		switch g.n("refKind", 0, 4) {
		case 0:
			rel.RW = &HRW{K: "computed", Rel: g.hostile("refRel", "")}
		case 1:
			rel.RW = &HRW{K: "ttu", Tupleset: lit("nope"), Rel: rel.Name}
		case 2:
			rel.Restr = append(rel.Restr, HRestr{Type: g.hostile("refType", ""), Rel: g.hostile("refRel2", ""), Cond: g.hostile("refCond", "")})
			if !hasThis(rel.RW) {
				rel.RW = &HRW{K: "this"}
			}
		case 3:
			rel.RW = &HRW{K: "ttu", Tupleset: rel.Name, Rel: rel.Name} // tupleset = itself
		default:
			rel.RW = &HRW{K: "computed-obj", Tupleset: lit("doc:1"), Rel: rel.Name}
		}
		return "bad-reference"
	case 5:
		c := HCond{Key: lit("hc"), Expr: pickOf(g, "celFn", celHostile)(g), Params: stdParams()}
		if g.chance("hostileParam", 35) {
			c.Params = append(c.Params, g.hostileParam())
		}
		mo.Conds = append(mo.Conds, c)
		rel.Restr = append(rel.Restr, HRestr{Type: lit("user"), Cond: lit("hc")})
		if !hasThis(rel.RW) {
			rel.RW = &HRW{K: "union", Ch: []*HRW{{K: "this"}, rel.RW}}
		}
		return "hostile-condition"
	case 6:
		mo.Types = append(mo.Types, mo.Types[ti])
		return "duplicate-type"
	case 7:
		if g.chance("manyTypes", 50) {
			mo.Types[ti].RepN = pickOf(g, "typeRep", []int{98, 99, 100, 101, 500, 3000})
			return "many-types"
		}
		rel.RepN = pickOf(g, "relRep", []int{100, 1000, 5000, 20000})
		return "many-relations"
	case 8:
		mo.Schema = pickOf(g, "schema", []string{"1.0", "1.2", "", "9.9", "11", "1.1 ", "1,1", "1.1.1", "\x00"})
		return "schema-version"
	case 9:
		switch g.n("nilKind", 0, 5) {
		case 0:
			rel.RW = &HRW{K: "unset"}
		case 1:
			mo.Types[ti].NilMeta = true
		case 2:
			mo.Types[ti].GhostMeta = true
		case 3:
			mo.Conds = append(mo.Conds, HCond{Key: lit("nilc"), Nil: true})
		case 4:
			rel.RW = &HRW{K: "ttu-nil"}
		default:
			rel.NoMeta = true
		}
		return "missing-parts"
	case 10:
		// condition name and map key disagree / hostile key
		c := HCond{Key: g.hostile("condKey", ""), Expr: lit("x < 10"), Params: stdParams()[:1]}
		if g.chance("nameDiffers", 50) {
			c.Key = lit("k1")
			nm := lit("k2")
			c.Name = &nm
		}
		mo.Conds = append(mo.Conds, c)
		return "condition-naming"
	case 11:
		// a type restriction that is its own wildcard + relation soup
		rel.Restr = append(rel.Restr, HRestr{Type: mo.Types[ti].Name, Wildcard: true}, HRestr{Type: mo.Types[ti].Name, Rel: rel.Name}, HRestr{Type: mo.Types[ti].Name})
		if !hasThis(rel.RW) {
			rel.RW = &HRW{K: "union", Ch: []*HRW{{K: "this"}, rel.RW}}
		}
		return "self-restrictions"
	case 12:
		// unused hostile parameter types on an existing condition
		if len(mo.Conds) == 0 {
			mo.Conds = append(mo.Conds, HCond{Key: lit("c9"), Expr: lit("x < 10"), Params: stdParams()[:1]})
		}
		mo.Conds[0].Params = append(mo.Conds[0].Params, g.hostileParam())
		return "hostile-parameter"
	default:
		// exclusion / intersection towers with computed leaves pointing at a recursive relation
		rel.RW = &HRW{K: "chain", Depth: g.n("towerDepth", 2, 40), Op: "mixed", Width: 2, Side: g.n("towerSide", 0, 1), Leaf: &HRW{K: "computed", Rel: rel.Name}}
		return "recursive-tower"
	}
}

func (g *G) hostileModel() (string, *HModel) {
	user := HRestr{Type: lit("user")}
	flavour := g.n("hostileFlavour", 0, 10) // 6, 9, 10: rings and meshes of types
	if flavour == 7 && g.focus != "" {
		flavour = 6 // see dag-blowup
	}
	switch flavour {
	case 0:
		// DAG blow-up: r_i = r_{i+1} op r_{i+1}; 2^k paths for a walker without memo
		k := g.n("dagK", 2, 18)
		// (fuzz targets: the known blow-ups below cost 6-17 s per execution and are TestC19's
		// business; the fuzz engine is kept on the inputs that answer quickly)
		if g.focus != "" && k > 14 {
			k = 14
		}
		if g.focus == "" && g.chance("dagLarge", 12) {
			k = g.n("dagKLarge", 19, 64)
		}
		op := pickOf(g, "dagOp", []string{"union", "intersection", "difference"})
		td := HType{Name: lit("doc")}
		for i := 0; i < k; i++ {
			nx := lit("r" + itoa(i+1))
			td.Rels = append(td.Rels, HRel{Name: lit("r" + itoa(i)), RW: &HRW{K: op, Ch: []*HRW{{K: "computed", Rel: nx}, {K: "computed", Rel: nx}}}})
		}
		td.Rels = append(td.Rels, HRel{Name: lit("r" + itoa(k)), RW: &HRW{K: "this"}, Restr: []HRestr{user}})
		return "hostile:dag-blowup", &HModel{Schema: "1.1", Types: []HType{{Name: lit("user")}, td}}
	case 1:
		// TTU blow-up: every level has two tuplesets to the same type
		k := g.n("ttuK", 2, 14)
		if g.focus == "" && g.chance("ttuLarge", 12) {
			k = g.n("ttuKLarge", 15, 40)
		}
		td := HType{Name: lit("doc"), Rels: []HRel{
			{Name: lit("p1"), RW: &HRW{K: "this"}, Restr: []HRestr{{Type: lit("doc")}}},
			{Name: lit("p2"), RW: &HRW{K: "this"}, Restr: []HRestr{{Type: lit("doc")}}},
		}}
		for i := 0; i < k; i++ {
			nx := lit("r" + itoa(i+1))
			td.Rels = append(td.Rels, HRel{Name: lit("r" + itoa(i)), RW: &HRW{K: "union", Ch: []*HRW{{K: "ttu", Tupleset: lit("p1"), Rel: nx}, {K: "ttu", Tupleset: lit("p2"), Rel: nx}, {K: "computed", Rel: nx}}}})
		}
		td.Rels = append(td.Rels, HRel{Name: lit("r" + itoa(k)), RW: &HRW{K: "this"}, Restr: []HRestr{user, {Type: lit("doc"), Rel: lit("r" + itoa(k))}}})
		return "hostile:ttu-blowup", &HModel{Schema: "1.1", Types: []HType{{Name: lit("user")}, td}}
	case 2:
		// deep chain from scratch
		leaf := pickOf(g, "chainLeaf", []*HRW{{K: "this"}, {K: "computed", Rel: lit("base")}, {K: "ttu", Tupleset: lit("parent"), Rel: lit("base")}})
		td := HType{Name: lit("doc"), Rels: []HRel{
			{Name: lit("parent"), RW: &HRW{K: "this"}, Restr: []HRestr{{Type: lit("doc")}}},
			{Name: lit("base"), RW: &HRW{K: "this"}, Restr: []HRestr{user, {Type: lit("doc"), Rel: lit("base")}}},
			{Name: lit("deep"), RW: &HRW{K: "chain", Depth: g.rewriteDepth("chainDepth"), Op: pickOf(g, "chainOp", []string{"union", "intersection", "difference", "mixed"}), Width: g.n("chainWidth", 1, 3), Side: g.n("chainSide", 0, 1), Leaf: leaf}, Restr: []HRestr{user}},
		}}
		return "hostile:deep-chain", &HModel{Schema: "1.1", Types: []HType{{Name: lit("user")}, td}}
	case 3:
		// every name hostile
		td := HType{Name: g.hostile("hType", ""), Rels: []HRel{{Name: g.hostile("hRel", ""), RW: &HRW{K: "this"}, Restr: []HRestr{{Type: g.hostile("hRestr", "")}}}}}
		return "hostile:names", &HModel{Schema: "1.1", Types: []HType{{Name: lit("user")}, td}}
	case 4:
		// conditions only
		mo := recursiveModel(false)
		n := g.n("nConds", 1, 4)
		for i := 0; i < n; i++ {
			c := HCond{Key: lit("hc" + itoa(i)), Expr: pickOf(g, "celFn", celHostile)(g), Params: stdParams()}
			if g.chance("hostileParam", 40) {
				c.Params = append(c.Params, g.hostileParam())
			}
			mo.Conds = append(mo.Conds, c)
			v := &mo.Types[2].Rels[1]
			v.Restr = append(v.Restr, HRestr{Type: lit("user"), Cond: c.Key})
		}
		return "hostile:conditions", mo
	case 7:
		// several direct operands on a self-referencing relation: every operand re-dispatches
		// every stored userset tuple (valid model; evaluation tree b^depth on cyclic data)
		td := HType{Name: lit("doc"), Rels: []HRel{
			{Name: lit("viewer"), RW: &HRW{K: "chain", Depth: g.n("towerDepth", 1, 8), Op: pickOf(g, "towerOp", []string{"union", "mixed", "intersection"}), Width: g.n("towerWidth", 2, 3), Leaf: &HRW{K: "this"}},
				Restr: []HRestr{user, {Type: lit("doc"), Rel: lit("viewer")}}},
		}}
		return "hostile:direct-operand-tower", &HModel{Schema: "1.1", Types: []HType{{Name: lit("user")}, td}}
	case 8:
		// a condition whose cost explodes with the size of its list parameter, used by tuples
		// whose stored context carries a long list (Scenario adds them): every query that meets
		// such a tuple evaluates it (bounded only by the evaluation cost limit)
		c := HCond{Key: lit("hc"), Expr: celHostile[g.n("heavyCel", 0, 1)](g), Params: stdParams()}
		td := HType{Name: lit("doc"), Rels: []HRel{
			{Name: lit("viewer"), RW: &HRW{K: "this"}, Restr: []HRestr{user, {Type: lit("user"), Cond: lit("hc")}}},
			{Name: lit("can_view"), RW: &HRW{K: "computed", Rel: lit("viewer")}},
		}}
		return "hostile:heavy-condition", &HModel{Schema: "1.1", Types: []HType{{Name: lit("user")}, td}, Conds: []HCond{c}}
	case 5:
		// empty / degenerate
		switch g.n("degenerate", 0, 3) {
		case 0:
			return "hostile:degenerate", &HModel{Schema: "1.1"}
		case 1:
			return "hostile:degenerate", &HModel{Schema: "1.1", Types: []HType{{Name: lit("")}}}
		case 2:
			return "hostile:degenerate", &HModel{Schema: "1.1", Types: []HType{{Name: lit("user"), Rels: []HRel{{Name: lit("r"), RW: nil}}}}}
		default:
			return "hostile:degenerate", &HModel{Schema: "1.1", Types: []HType{{Name: lit("user")}, {Name: lit("doc"), Rels: []HRel{{Name: lit("r"), RW: &HRW{K: "union"}}, {Name: lit("q"), RW: &HRW{K: "difference"}}}}}}
		}
	default:
		// long mutual recursion through usersets and TTUs across types (valid, evaluation-hostile);
		// as a ring (one successor per type) or as a mesh (every type points at several others, up to
		// all of them: the number of simple paths through the model explodes)
		k := g.n("ringTypes", 2, 14)
		deg := 1
		if k > 2 && g.chance("ringMesh", 45) {
			deg = g.n("ringDegree", 2, k)
			if g.chance("meshComplete", 50) {
				k = g.n("meshTypes", 8, 14)
				deg = k
			}
		}
		mo := &HModel{Schema: "1.1", Types: []HType{{Name: lit("user")}}}
		for i := 0; i < k; i++ {
			var parents []HRestr
			viewers := []HRestr{user}
			for d := 1; d <= deg; d++ {
				nx := "t" + itoa((i+d)%k)
				parents = append(parents, HRestr{Type: lit(nx)})
				if d == 1 || g.chance("meshUserset", 30) {
					viewers = append(viewers, HRestr{Type: lit(nx), Rel: lit("viewer")})
				}
			}
			mo.Types = append(mo.Types, HType{Name: lit("t" + itoa(i)), Rels: []HRel{
				{Name: lit("parent"), RW: &HRW{K: "this"}, Restr: parents},
				{Name: lit("viewer"), RW: &HRW{K: "union", Ch: []*HRW{{K: "this"}, {K: "ttu", Tupleset: lit("parent"), Rel: lit("viewer")}}}, Restr: viewers},
			}})
		}
		if deg > 1 {
			return "hostile:type-mesh", mo
		}
		return "hostile:type-ring", mo
	}
}

// ---- stored tuples ----

func (g *G) malformedUser(v vocab) HS {
	t := pickOf(g, "muType", v.types).name
	return g.hostile("storedUser", t+":")
}

func (g *G) tupleGroups(v vocab) []TupleGroup {
	var out []TupleGroup
	wr := v.withRels()
	n := g.n("nGroups", 0, 5)
	for i := 0; i < n; i++ {
		t := pickOf(g, "tgType", wr)
		r := pickOf(g, "tgRel", t.rels)
		cond := ""
		var cctx *HCtx
		if len(v.conds) > 0 && g.chance("tgCond", 25) {
			cond = pickOf(g, "tgCondName", v.conds)
			if g.chance("tgCondCtx", 60) {
				cctx = g.hostileCtx(v)
			}
		} else if g.chance("tgUnknownCond", 6) {
			cond = "unknown_condition"
		}
		ut := "user"
		for _, re := range r.restr {
			if re.Rel.IsZero() && plain(re.Type.S()) {
				ut = re.Type.S()
				break
			}
		}
		kind := g.n("tgKind", 0, 99)
		switch {
		case kind < 18:
			out = append(out, TupleGroup{Kind: "ring-userset", OType: t.name, Rel: r.name, N: pickOf(g, "ringN", []int{1, 2, 3, 10, 26, 60}), Cond: cond, Ctx: cctx})
		case kind < 32:
			out = append(out, TupleGroup{Kind: "ring-ttu", OType: t.name, Rel: r.name, N: pickOf(g, "ringN", []int{1, 2, 3, 10, 26, 60}), Cond: cond, Ctx: cctx})
		case kind < 40:
			out = append(out, TupleGroup{Kind: "chain-ttu", OType: t.name, Rel: r.name, N: pickOf(g, "chainN", []int{5, 24, 25, 26, 100}), Cond: cond, Ctx: cctx})
		case kind < 52:
			out = append(out, TupleGroup{Kind: "fanout-users", OType: t.name, Rel: r.name, UType: ut, N: pickOf(g, "fanN", []int{3, 100, 1000, 1001}), Cond: cond, Ctx: cctx})
		case kind < 60:
			out = append(out, TupleGroup{Kind: "fanout-usersets", OType: t.name, Rel: r.name, UType: ut, N: pickOf(g, "fanN2", []int{3, 100, 500}), Cond: cond, Ctx: cctx})
		case kind < 68:
			out = append(out, TupleGroup{Kind: "fanout-objects", OType: t.name, Rel: r.name, UType: ut, N: pickOf(g, "fanN", []int{3, 100, 1000, 1001}), Cond: cond, Ctx: cctx})
		default:
			// raw: half-valid (reachable by queries) or fully malformed
			tu := &HTuple{Object: lit(t.name + ":" + itoa(g.n("rawObj", 0, 2))), Relation: lit(r.name), User: lit(ut + ":" + itoa(g.n("rawUser", 0, 2)))}
			switch g.n("rawWhat", 0, 7) {
			case 0:
				tu.User = g.malformedUser(v)
			case 1:
				tu.Object = g.hostile("storedObject", t.name+":")
			case 2:
				tu.Relation = g.hostile("storedRelation", "")
			case 3:
				tu.User = raw(pickOf(g, "storedUsersetish", []string{t.name + ":1#", t.name + ":1#" + r.name + "#" + r.name, "#" + r.name, t.name + ":#" + r.name, t.name + ":*#" + r.name, ":1#" + r.name, t.name + ":1#nope", "*", t.name + ":*", "nope:1", "nope:*", t.name + ":1#" + r.name + "@x"}))
			case 4:
				tu.Cond = g.hostile("storedCond", "")
				tu.Ctx = g.hostileCtx(v)
			case 5:
				if len(v.conds) > 0 {
					tu.Cond = lit(pickOf(g, "storedCondName", v.conds))
				} else {
					tu.Cond = lit("unknown_condition")
				}
				tu.Ctx = g.hostileCtx(v)
			case 6:
				tu.Object, tu.Relation, tu.User = g.hostile("so", ""), g.hostile("sr", ""), g.hostile("su", "")
			default:
				// self-referential userset and wildcard-userset on the queried object
				tu.User = lit(tu.Object.S() + "#" + r.name)
			}
			out = append(out, TupleGroup{Kind: "raw", T: tu})
		}
	}
	return out
}

// ---- requests ----

type weighted struct {
	rpc string
	w   int
}

var rpcWeights = []weighted{
	{"Check", 16}, {"BatchCheck", 7}, {"Expand", 7}, {"ListObjects", 9}, {"StreamedListObjects", 3}, {"ListUsers", 9},
	{"Write", 9}, {"Read", 8}, {"ReadChanges", 5},
	{"WriteAuthorizationModel", 5}, {"ReadAuthorizationModel", 2}, {"ReadAuthorizationModels", 3},
	{"WriteAssertions", 4}, {"ReadAssertions", 2},
	{"CreateStore", 2}, {"GetStore", 1}, {"ListStores", 3}, {"DeleteStore", 1},
	{"Evaluation", 4}, {"Evaluations", 4}, {"SubjectSearch", 3}, {"ResourceSearch", 3}, {"ActionSearch", 3}, {"GetConfiguration", 1},
}

var focusRPCs = map[string][]string{
	"check": {"Check", "Check", "BatchCheck", "Expand", "ListObjects", "ListUsers", "Evaluation", "Evaluations", "StreamedListObjects", "ActionSearch", "SubjectSearch", "ResourceSearch"},
	"write": {"Write", "Write", "WriteAssertions", "Read", "CreateStore"},
	"model": {"WriteAuthorizationModel", "WriteAuthorizationModel", "ReadAuthorizationModel", "ReadAuthorizationModels", "Check", "ListObjects", "ListUsers", "Expand"},
	"read":  {"Read", "Read", "ReadChanges", "ReadAuthorizationModels", "ListStores", "ReadAssertions"},
}

func (g *G) rpc() string {
	if f, ok := focusRPCs[g.focus]; ok && g.chance("focusRPC", 85) {
		return pickOf(g, "rpcFocus", f)
	}
	total := 0
	for _, w := range rpcWeights {
		total += w.w
	}
	k := g.n("rpc", 0, total-1)
	for _, w := range rpcWeights {
		if k < w.w {
			return w.rpc
		}
		k -= w.w
	}
	return "Check"
}

func (g *G) validTuple(v vocab) HTuple {
	t := pickOf(g, "vtType", v.withRels())
	r := pickOf(g, "vtRel", t.rels)
	tu := HTuple{Object: lit(t.name + ":" + itoa(g.n("vtObj", 0, 3))), Relation: lit(r.name), User: lit("user:" + itoa(g.n("vtUser", 0, 3)))}
	if len(r.restr) > 0 {
		re := pickOf(g, "vtRestr", r.restr)
		switch {
		case re.Wildcard:
			tu.User = lit(re.Type.S() + ":*")
		case !re.Rel.IsZero():
			tu.User = lit(re.Type.S() + ":" + itoa(g.n("vtUserset", 0, 3)) + "#" + re.Rel.S())
		default:
			tu.User = lit(re.Type.S() + ":" + itoa(g.n("vtUserID", 0, 3)))
		}
		if !re.Cond.IsZero() {
			tu.Cond = re.Cond
		}
	}
	return tu
}

func (g *G) hostileTuple(v vocab) HTuple {
	tu := g.validTuple(v)
	ot, _ := splitFirst(tu.Object.S())
	switch g.n("htWhat", 0, 5) {
	case 0:
		tu.Object = g.hostile("htObj", ot+":")
	case 1:
		tu.Relation = g.hostile("htRel", "")
	case 2:
		tu.User = g.hostile("htUser", "user:")
	case 3:
		tu.Cond = g.hostile("htCond", "")
		tu.Ctx = g.hostileCtx(v)
	case 4:
		if len(v.conds) > 0 {
			tu.Cond = lit(pickOf(g, "htCondName", v.conds))
		} else {
			tu.Cond = lit("c0")
		}
		tu.Ctx = g.hostileCtx(v)
	default:
		tu.Object, tu.Relation, tu.User = g.hostile("htO", ""), g.hostile("htR", ""), g.hostile("htU", "")
	}
	return tu
}

func (g *G) req(v vocab) Req {
	rpc := g.rpc()
	r := Req{RPC: rpc, T: g.validTuple(v)}
	r.T.Cond = HS{}
	if g.chance("modelCur", 50) {
		r.ModelID = "cur"
	}
	ot, _ := splitFirst(r.T.Object.S())
	r.Type = lit(ot)
	// a plain subject for query APIs most of the time
	if g.chance("plainSubject", 60) {
		r.T.User = lit("user:" + itoa(g.n("subjID", 0, 3)))
	}
	r.Ctx = g.plainCtx(v)
	switch rpc {
	case "BatchCheck", "WriteAssertions", "Evaluations":
		n := g.n("nItems", 1, 4)
		for i := 0; i < n; i++ {
			it := Item{T: g.validTuple(v), Corr: lit("c" + itoa(i)), Ctx: g.plainCtx(v), Expect: g.chance("expect", 50)}
			it.T.Cond = HS{}
			r.Items = append(r.Items, it)
		}
	case "Write":
		n := g.n("nWrites", 0, 4)
		for i := 0; i < n; i++ {
			r.Items = append(r.Items, Item{T: g.validTuple(v)})
		}
		if g.chance("hasDeletes", 30) {
			r.Deletes = append(r.Deletes, g.validTuple(v))
		}
		r.ModelID = pickOf(g, "writeModel", []string{"cur", "cur", ""})
	case "Read":
		switch g.n("readShape", 0, 3) {
		case 0:
			r.NilKey = true
		case 1:
			r.T.Relation, r.T.User = HS{}, HS{}
		case 2:
			r.T.User = HS{}
		}
	case "ListUsers":
		r.Filters = []HRestr{{Type: lit("user")}}
		if g.chance("usersetFilter", 30) {
			t := pickOf(g, "lufType", v.withRels())
			r.Filters = []HRestr{{Type: lit(t.name), Rel: lit(pickOf(g, "lufRel", t.rels).name)}}
		}
	case "WriteAuthorizationModel":
		_, r.Model = g.model()
	case "CreateStore", "ListStores":
		r.Name = lit(pickOf(g, "storeName", []string{"c19-store", "other store", "abc"}))
		if rpc == "ListStores" && g.chance("noName", 60) {
			r.Name = HS{}
		}
	case "ReadChanges":
		if g.chance("noType", 50) {
			r.Type = HS{}
		}
	}
	if g.chance("pageSized", 30) {
		ps := int32(g.n("pageSize", 1, 100))
		r.PageSize = &ps
	}

	// hostile injections
	if !g.chance("hostileReq", 55) {
		return r
	}
	k := 1
	if g.chance("twoInjections", 30) {
		k = 2
	}
	for i := 0; i < k; i++ {
		g.inject(&r, v)
	}
	return r
}

func (g *G) inject(r *Req, v vocab) {
	ot, _ := splitFirst(r.T.Object.S())
	type inj struct {
		w int
		f func()
	}
	var list []inj
	add := func(w int, f func()) { list = append(list, inj{w, f}) }
	usesTuple := map[string]bool{"Check": true, "Expand": true, "ListObjects": true, "StreamedListObjects": true, "ListUsers": true, "Read": true,
		"Evaluation": true, "Evaluations": true, "SubjectSearch": true, "ResourceSearch": true, "ActionSearch": true}
	usesCtx := map[string]bool{"Check": true, "ListObjects": true, "StreamedListObjects": true, "ListUsers": true,
		"Evaluation": true, "Evaluations": true, "SubjectSearch": true, "ResourceSearch": true, "ActionSearch": true}
	usesContextual := map[string]bool{"Check": true, "Expand": true, "ListObjects": true, "StreamedListObjects": true, "ListUsers": true}
	usesItems := map[string]bool{"BatchCheck": true, "WriteAssertions": true, "Evaluations": true, "Write": true}
	usesToken := map[string]bool{"Read": true, "ReadChanges": true, "ReadAuthorizationModels": true, "ListStores": true}
	authzen := map[string]bool{"Evaluation": true, "Evaluations": true, "SubjectSearch": true, "ResourceSearch": true, "ActionSearch": true}

	if usesTuple[r.RPC] {
		add(3, func() { r.T.Object = g.hostile("obj", ot+":") })
		add(3, func() { r.T.Relation = g.hostile("rel", "") })
		add(3, func() { r.T.User = g.hostile("user", "user:") })
		add(1, func() { r.Type = g.hostile("type", "") })
		add(1, func() { r.NilKey = true })
		add(1, func() {
			// usersets / wildcards as subjects
			r.T.User = raw(pickOf(g, "oddSubject", []string{"user:*", ot + ":1#" + r.T.Relation.S(), ot + ":*#" + r.T.Relation.S(), "user:*#x", "*", ot + ":1#nope", "nope:1", r.T.Object.S() + "#" + r.T.Relation.S()}))
		})
	}
	if usesCtx[r.RPC] {
		add(5, func() { r.Ctx = g.hostileCtx(v) })
	}
	if usesContextual[r.RPC] {
		add(2, func() {
			r.Contextual = []HTuple{g.validTuple(v)}
			r.ContextualN = pickOf(g, "ctxTuplesN", []int{19, 20, 49, 99, 100, 101, 500})
		})
		add(2, func() { r.Contextual = []HTuple{g.hostileTuple(v)} })
		add(1, func() { t := g.validTuple(v); r.Contextual = []HTuple{t, t} }) // duplicate contextual tuples
		add(1, func() {
			// contextual cycle
			t := pickOf(g, "ccType", v.withRels())
			rel := pickOf(g, "ccRel", t.rels).name
			for i := 0; i < 3; i++ {
				r.Contextual = append(r.Contextual, HTuple{Object: lit(t.name + ":" + itoa(i)), Relation: lit(rel), User: lit(t.name + ":" + itoa((i+1)%3) + "#" + rel)})
			}
		})
	}
	if usesItems[r.RPC] {
		add(2, func() {
			if len(r.Items) == 0 {
				r.Items = []Item{{T: g.validTuple(v), Corr: lit("c")}}
			}
			r.ItemsRep = pickOf(g, "itemsRep", []int{39, 40, 49, 50, 51, 99, 100, 101, 1000})
		})
		add(2, func() {
			if len(r.Items) == 0 {
				r.Items = []Item{{T: g.validTuple(v), Corr: lit("c")}}
			}
			r.ItemsDup = pickOf(g, "itemsDup", []int{1, 2, 50})
		})
		add(2, func() {
			if len(r.Items) > 0 {
				i := g.n("itemIdx", 0, len(r.Items)-1)
				r.Items[i].Corr = pickOf(g, "corr", []HS{{}, lit(" "), lit("a b"), {Pre: "a", PreN: 36}, {Pre: "a", PreN: 37}, lit("é"), raw("\xff"), lit("c0"), lit("-"), lit("_")})
			}
		})
		add(3, func() {
			if len(r.Items) > 0 {
				i := g.n("itemIdx2", 0, len(r.Items)-1)
				r.Items[i].T = g.hostileTuple(v)
			}
		})
		add(2, func() {
			if len(r.Items) > 0 {
				i := g.n("itemIdx3", 0, len(r.Items)-1)
				r.Items[i].Ctx = g.hostileCtx(v)
			}
		})
		add(1, func() {
			if len(r.Items) > 0 {
				i := g.n("itemIdx4", 0, len(r.Items)-1)
				r.Items[i].Contextual = []HTuple{g.hostileTuple(v)}
				r.Items[i].ContextualN = pickOf(g, "itemCtxN", []int{0, 20, 100})
			}
		})
		add(1, func() {
			if len(r.Items) > 0 {
				r.Items[0].NilKey = true
			}
		})
		add(1, func() { r.Items = nil })
	}
	if r.RPC == "Write" {
		add(2, func() { r.Deletes = append(r.Deletes, g.hostileTuple(v)) })
		add(1, func() {
			r.OnDup = pickOf(g, "onDup", []HS{lit("ignore"), lit("error"), lit("IGNORE"), lit(""), lit("x"), raw("\xff"), {Pre: "a", PreN: 100000}})
		})
		add(1, func() { r.OnMissing = pickOf(g, "onMissing", []HS{lit("ignore"), lit("error"), lit("x"), raw("\x00")}) })
		add(1, func() {
			// same tuple written and deleted, duplicates inside one request
			t := g.validTuple(v)
			r.Items = append(r.Items, Item{T: t}, Item{T: t})
			r.Deletes = append(r.Deletes, t)
		})
	}
	if usesToken[r.RPC] {
		add(6, func() { r.Token = g.token() })
		add(2, func() {
			ps := int32(pickOf(g, "badPage", []int{0, -1, 101, 2147483647, -2147483648}))
			r.PageSize = &ps
		})
	}
	if r.RPC == "ReadChanges" {
		add(2, func() {
			s := pickOf(g, "startSec", []int64{0, -1, 1, -62135596801, 253402300800, 9223372036854775807, -9223372036854775808, 281474976710656, 1700000000})
			r.StartSec = &s
			r.StartNanos = int32(pickOf(g, "startNanos", []int{0, -1, 999999999, 1000000000, 2147483647}))
		})
		add(2, func() { r.Type = g.hostile("rcType", "") })
	}
	if r.RPC == "CreateStore" || r.RPC == "ListStores" {
		add(3, func() { r.Name = g.hostile("storeName", "") })
	}
	if authzen[r.RPC] {
		add(2, func() { r.SubjProps = g.hostileCtx(v) })
		add(2, func() { r.ResProps = g.hostileCtx(v) })
		add(2, func() { r.ActProps = g.hostileCtx(v) })
		add(1, func() { r.NilSubj = true })
		add(1, func() { r.NilRes = true })
		add(1, func() { r.NilAct = true })
		add(2, func() {
			h := pickOf(g, "header", []HS{lit("cur"), lit(otherULID), lit("bad"), lit(" " + otherULID + " "), {Pre: "0", PreN: 26}, {Pre: "A", PreN: 100000}, raw("\xff")})
			r.Header = &h
		})
		if r.RPC == "Evaluations" {
			add(2, func() { r.Semantic = int32(pickOf(g, "semantic", []int{0, 1, 2, 3, -1, 2147483647})) })
			add(1, func() { r.NoOptions = true })
		}
	}
	if r.RPC == "ListUsers" {
		add(2, func() { r.Filters = []HRestr{{Type: g.hostile("lufT", ""), Rel: g.hostile("lufR", "")}} })
		add(1, func() { r.Filters = nil })
		add(1, func() { r.Filters = append(r.Filters, r.Filters...) })
	}
	// many distinct attacker-chosen values for one field (label / cache-key cardinality)
	add(2, func() {
		vary := []string{"object", "relation", "user", "type", "ctxkey"}
		switch r.RPC {
		case "Write":
			vary = []string{"on_dup", "on_dup", "on_missing", "on_missing"}
			if r.OnDup.IsZero() {
				r.OnDup = pickOf(g, "repOnDup", []HS{lit("x"), {Pre: "a", PreN: 1000}, {Pre: "a", PreN: 1 << 20}})
			}
			if r.OnMissing.IsZero() {
				r.OnMissing = pickOf(g, "repOnMissing", []HS{lit("y"), {Pre: "b", PreN: 1 << 20}})
			}
		case "BatchCheck":
			vary = []string{"corr"}
		case "CreateStore", "ListStores":
			vary = []string{"name"}
		case "Read", "ReadChanges", "ReadAuthorizationModels":
			vary = []string{"token", "type", "object"}
		}
		r.Vary = pickOf(g, "vary", vary)
		r.Repeat = pickOf(g, "repeat", []int{10, 100, 300})
	})
	// applicable to everything
	add(1, func() {
		r.Store = pickOf(g, "store", []string{"none", "other", "bad"})
		h := g.hostile("storeID", "")
		r.StoreHS = &h
	})
	add(1, func() {
		r.ModelID = pickOf(g, "modelID", []string{"other", "bad", ""})
		h := g.hostile("modelIDHS", "")
		r.ModelHS = &h
	})
	add(1, func() { r.Consist = int32(pickOf(g, "consist", []int{100, 200, 7, -1, 2147483647})) })

	total := 0
	for _, x := range list {
		total += x.w
	}
	k := g.n("injection", 0, total-1)
	for _, x := range list {
		if k < x.w {
			x.f()
			return
		}
		k -= x.w
	}
}

// Scenario draws a whole case.
func (g *G) Scenario() Case {
	c := Case{}
	if g.chance("cache", 45) {
		c.Opts.Cache = true
	}
	for _, e := range []string{"weighted_graph_check", "pipeline_list_objects", "enable-check-optimizations", "enable-list-objects-optimizations"} {
		if g.chance("exp:"+e, 30) {
			c.Opts.Exp = append(c.Opts.Exp, e)
		}
	}
	if g.chance("noModel", 4) {
		c.ModelSrc = "none"
	} else {
		c.ModelSrc, c.Model = g.model()
	}
	c.ModelVia = pickOf(g, "modelVia", []string{"api", "api", "both", "both", "direct"})
	v := vocabOf(c.Model)
	c.Tuples = g.tupleGroups(v)
	if c.ModelSrc == "hostile:heavy-condition" {
		// 2000 numbers: about the 32 KiB that Write accepts as a condition context
		heavy := &HCtx{ListN: pickOf(g, "heavyListN", []int{300, 2000, 2000, 50000}), Fields: map[string]any{"x": 1e18, "s": "a", "m": map[string]any{"a": "b"}, "ip": "10.0.0.1"}}
		c.Tuples = append(c.Tuples, TupleGroup{Kind: "fanout-users", OType: "doc", Rel: "viewer", UType: "user", N: 3, Cond: "hc", Ctx: heavy})
	}
	n := g.n("nReqs", 3, 10)
	for i := 0; i < n; i++ {
		c.Reqs = append(c.Reqs, g.req(v))
	}
	return c
}

// describe renders a short human-readable sample of a case.
func describe(c Case) map[string]any {
	var reqs []string
	for _, r := range c.Reqs {
		s := r.RPC
		f := r.features()
		var fs []string
		for k := range f {
			fs = append(fs, k)
		}
		if len(fs) > 0 {
			sortStrings(fs)
			s += "[" + strings.Join(fs, ",") + "]"
		}
		reqs = append(reqs, s)
	}
	var groups []string
	for _, g := range c.Tuples {
		groups = append(groups, g.Kind+"×"+itoa(maxInt(g.N, 1)))
	}
	return map[string]any{"model": c.ModelSrc, "via": c.ModelVia, "opts": c.Opts, "stored": groups, "requests": reqs}
}

func maxInt(a, b int) int {
	if a > b {
		return a
	}
	return b
}

func sortStrings(xs []string) {
	for i := 1; i < len(xs); i++ {
		for j := i; j > 0 && xs[j] < xs[j-1]; j-- {
			xs[j], xs[j-1] = xs[j-1], xs[j]
		}
	}
}
