package p19

import (
	"encoding/json"
	"fmt"
	"os"
	"sort"
	"sync/atomic"
	"testing"
	"time"

	"pgregory.net/rapid"

	"github.com/openfga/openfga/verifharness/fw"
)

// C19 — malformed or hostile input never crashes the server.
//
// Oracle (property statement): every call on the public Server methods returns
// a response or an error; no panic reaches the caller (recovered = violation,
// with the stack); the process survives (worker death = violation attributed
// to the request in flight: stack overflow, panic in a goroutine the server
// started, concurrent map access, out of memory); wall time <= deadline + 5 s
// (deadline 1.5 s; in between: inconclusive); the request holds < 256 MiB more
// reachable heap than at its start (measured after forced collections), and
// the process retains < 256 MiB more after the whole case, Server.Close and a GC.
// Verdicts that rest on the clock or the heap are re-executed on a fresh server
// in a fresh process and must reproduce (see confirmed).
//
// Domain: well-typed protobuf requests. A request that the transport cannot
// deliver (invalid UTF-8 in a proto3 string field, > 4 MiB, nested beyond
// protobuf's recursion limit of 10000) is still executed, but its failures are
// only counted ("out-of-domain:<signature>"). Stored tuples are written straight
// into the datastore and may contain anything; a model stored straight into the
// datastore must be serialisable and within the API's size / type-count limits.
//
// NT rule: a case is non-trivial when at least one request that carries a
// hostile feature, or that runs against hostile state (hostile / mutated model,
// tuples written straight into the datastore), passed the proto-level
// validation (req.Validate() == nil) and therefore reached a command handler.
// Requests that reached a handler are counted per RPC ("reached:<RPC>",
// "reached-hostile:<RPC>"); classes: <RPC>/<outcome>[/<hostile feature>],
// model:<source>, state:<hostile state feature>, opt:<server option>.

const confirmTries = 6

func genC19(t *rapid.T) Case {
	g := &G{s: rapidSrc{t}, thorough: fw.TierIsThorough()}
	return g.Scenario()
}

func execute(c Case) Result { return executeHang(c, hangAfter) }

func executeHang(c Case, hang time.Duration) Result {
	if os.Getenv("VERIF_C19_INPROC") == "1" {
		return runCaseHang(c, hang, nil)
	}
	res, err := execChild(c, hang)
	if err != nil {
		// the worker could not be started: fall back to this process (no attribution of fatal errors)
		fmt.Fprintf(os.Stderr, "p19: worker unavailable (%v), running in-process\n", err)
		return runCaseHang(c, hang, nil)
	}
	return res
}

// confirmed re-executes a case whose verdict rests on the clock or on the heap: on
// fresh servers in fresh processes, with the hang bound raised to confirmAfter. A
// request that is merely slow on a loaded machine finishes within that bound; one
// that is stuck, starved or exponential does not. Hangs may be non-deterministic (a
// race decides whether an evaluation short-circuits or explodes), so up to
// confirmTries executions are made and one reproduction confirms.
func confirmed(c Case, f *Fail) bool {
	for k := 0; k < confirmTries; k++ {
		again := executeHang(c, confirmAfter)
		if again.Fail != nil && again.Fail.Signature == f.Signature {
			return true
		}
		// The request overran deadline+5 s again but came back before the confirmation bound:
		// consistently slow, not stuck. More executions would say the same; it is counted
		// (class "slow-not-stuck:<rpc>") and left inconclusive, because a bound that a loaded
		// machine can stretch a 2 s request beyond is not evidence.
		for _, rr := range again.Reqs {
			if rr.I == f.ReqIndex && rr.WallMs > float64((reqDeadline+hangAfter).Milliseconds()) {
				slowNotStuck.Add(1)
				return false
			}
		}
	}
	return false
}

var slowNotStuck atomic.Int64

func checkC19(env *fw.Env, c Case) *fw.Failure {
	res := execute(c)
	if res.Fail != nil && res.Fail.Timing && !fw.IsKnown(res.Fail.Signature) {
		ok := confirmed(c, res.Fail)
		env.Rec.Add("timing_verdicts_rechecked", 1)
		if n := slowNotStuck.Swap(0); n > 0 {
			env.Rec.Add("slow_past_deadline_plus_5s_but_not_stuck", int(n))
		}
		if !ok {
			env.Rec.Inconclusive()
			env.Rec.Add("timing_not_confirmed", 1)
			res.Fail = nil
		}
	}
	if res.Harness {
		env.Rec.Inconclusive()
	}
	record(env, c, res)
	if res.Fail != nil {
		return fw.Failf(res.Fail.Signature, "%s\n--- case: %v", res.Fail.Msg, describe(c))
	}
	return nil
}

func record(env *fw.Env, c Case, res Result) {
	classes := []string{"model:" + c.ModelSrc, "model-via:" + c.ModelVia}
	classes = append(classes, res.Setup...)
	if c.Opts.Cache {
		classes = append(classes, "opt:cache")
	}
	for _, e := range c.Opts.Exp {
		classes = append(classes, "opt:"+e)
	}
	var sf []string
	for f := range res.StateFeats {
		sf = append(sf, f)
	}
	sort.Strings(sf)
	for _, f := range sf {
		classes = append(classes, "state:"+f)
	}
	hostileState := len(sf) > 0 || (c.ModelSrc != "valid" && c.ModelSrc != "valid-recursive" && c.ModelSrc != "none")
	nt := false
	late := 0
	for _, rr := range res.Reqs {
		classes = append(classes, rr.RPC+"/"+rr.Outcome, "wire:"+rr.Wire)
		for _, f := range rr.Feats {
			classes = append(classes, rr.RPC+"/"+rr.Outcome+"/"+f)
		}
		if rr.Validated {
			env.Rec.Add("reached:"+rr.RPC, 1)
			if len(rr.Feats) > 0 {
				env.Rec.Add("reached-hostile:"+rr.RPC, 1)
			}
			if rr.I >= 0 && (len(rr.Feats) > 0 || hostileState) {
				nt = true
			}
			if rr.I == -1 && len(rr.Feats) > 0 {
				nt = true
			}
		} else {
			env.Rec.Add("stopped-by-validate:"+rr.RPC, 1)
		}
		if rr.Late {
			late++
		}
		if rr.WallMs > 1000 {
			env.Rec.Add("slow_requests_over_1s", 1)
		}
	}
	for _, sig := range res.OutOfDomain {
		classes = append(classes, "out-of-domain:"+sig)
		env.Rec.Add("out_of_domain_failures", 1)
	}
	env.Rec.Add("requests", len(res.Reqs)+res.Repeats)
	env.Rec.Add("stored_tuples", res.Stored)
	for i := 0; i < late; i++ {
		env.Rec.Inconclusive()
	}
	var sample any
	if nt {
		sample = describe(c)
	}
	env.Rec.Case(c, nt, sample, classes...)
}

func TestC19(t *testing.T) { fw.Run(t, "C19", genC19, checkC19) }

// TestC19Explain re-runs the case of a replay file (VERIF_C19_CASE=<file>) in
// this process and prints what happened to every request (debugging aid).
func TestC19Explain(t *testing.T) {
	p := os.Getenv("VERIF_C19_CASE")
	if p == "" {
		t.Skip("VERIF_C19_CASE not set")
	}
	b, err := os.ReadFile(p)
	if err != nil {
		t.Fatal(err)
	}
	var rf struct {
		Case Case `json:"case"`
	}
	if err := json.Unmarshal(b, &rf); err != nil {
		t.Fatal(err)
	}
	res := runCase(rf.Case, nil)
	for _, rr := range res.Reqs {
		t.Logf("#%d %-24s validated=%-5v wire=%-12s %-14s code=%-5d %8.1fms %7.1fMiB %v %s", rr.I, rr.RPC, rr.Validated, rr.Wire, rr.Outcome, rr.Code, rr.WallMs, rr.AllocMB, rr.Feats, rr.Err)
	}
	t.Logf("setup=%v state=%v stored=%d", res.Setup, res.StateFeats, res.Stored)
	if res.Fail != nil {
		t.Logf("FAIL [%s] %s", res.Fail.Signature, res.Fail.Msg)
	}
}
