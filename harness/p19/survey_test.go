package p19

import (
	"fmt"
	"os"
	"sort"
	"testing"

	"pgregory.net/rapid"
)

func TestSurvey(t *testing.T) {
	if os.Getenv("VERIF_C19_SURVEY") == "" {
		t.Skip()
	}
	counts := map[string]int{}
	for seed := 0; seed < 150; seed++ {
		c := rapid.Custom(func(rt *rapid.T) Case { return (&G{s: rapidSrc{rt}}).Scenario() }).Example(seed)
		res := runCase(c, nil)
		for _, rr := range res.Reqs {
			e := rr.Err
			if len(e) > 90 {
				e = e[:90]
			}
			counts[fmt.Sprintf("%-22s %-12s v=%-5v %s", rr.RPC, rr.Outcome, rr.Validated, e)]++
		}
		if res.Fail != nil {
			counts["FAIL "+res.Fail.Signature]++
		}
	}
	var keys []string
	for k := range counts {
		keys = append(keys, k)
	}
	sort.Strings(keys)
	for _, k := range keys {
		fmt.Printf("%4d %s\n", counts[k], k)
	}
}
