package p19

import (
	"context"
	"errors"
	"fmt"
	"os"
	"regexp"
	"runtime"
	"runtime/debug"
	"runtime/metrics"
	"sort"
	"strings"
	"sync"
	"sync/atomic"
	"time"

	"github.com/oklog/ulid/v2"
	openfgav1 "github.com/openfga/api/proto/openfga/v1"
	"github.com/prometheus/client_golang/prometheus"
	"google.golang.org/grpc/codes"
	"google.golang.org/grpc/status"
	"google.golang.org/protobuf/proto"

	"github.com/openfga/openfga/pkg/server"
	"github.com/openfga/openfga/pkg/storage"
	"github.com/openfga/openfga/pkg/storage/memory"
)

// Oracle parameters (DESIGN.md C19).
const (
	reqDeadline   = 1500 * time.Millisecond // request timeout, ListObjects and ListUsers deadlines, ctx deadline (as the timeout middleware sets it)
	deadlineSlack = 500 * time.Millisecond  // unwinding after the deadline fired is on time
	hangAfter     = 5 * time.Second         // deadline + 5 s: violation; in between: inconclusive
	confirmAfter  = 20 * time.Second        // bound of the confirming executions (a loaded machine stretches a slow request, not a stuck one)
	heapLimit     = 256 << 20               // coarse heap growth bound per request
	abortHeap     = 3 << 30                 // the child aborts itself beyond this (attributed memory violation)

	setupPhase = -4 // progress index of harness-side work (not a request)

	maxStoredModelBytes = 256 * 1024 // serverconfig.DefaultMaxAuthorizationModelSizeInBytes
	maxStoredModelTypes = 100        // memory datastore default MaxTypesPerAuthorizationModel
)

// ReqResult is what happened to one request.
type ReqResult struct {
	I         int      `json:"i"` // index in Case.Reqs; -2 CreateStore of the setup, -1 model write of the setup
	RPC       string   `json:"rpc"`
	Validated bool     `json:"validated"` // passed req.Validate(), i.e. went past the proto-level validation into the handler
	Wire      string   `json:"wire"`      // deliverable over gRPC? ok | too-large | invalid-utf8 | too-deep | error
	Outcome   string   `json:"outcome"`   // ok | validation | notfound | other | deadline | panic-captured
	Code      int      `json:"code"`
	WallMs    float64  `json:"wall_ms"`
	AllocMB   float64  `json:"alloc_mb"`
	Feats     []string `json:"feats,omitempty"`
	Err       string   `json:"err,omitempty"`
	Late      bool     `json:"late,omitempty"` // finished in (deadline+slack, deadline+5s]
}

// Fail mirrors fw.Failure (kept separate so that it crosses the process boundary).
type Fail struct {
	Signature string `json:"signature"`
	Msg       string `json:"msg"`
	Timing    bool   `json:"timing,omitempty"` // wall-clock or heap based: must be confirmed on fresh servers
	ReqIndex  int    `json:"req_index"`
}

// Result is the outcome of one case.
type Result struct {
	Reqs       []ReqResult     `json:"reqs"`
	Fail       *Fail           `json:"fail,omitempty"`
	Setup      []string        `json:"setup,omitempty"` // setup classes
	StateFeats map[string]bool `json:"state_feats,omitempty"`
	ModelOK    bool            `json:"model_ok"` // a model is in place (API accepted it or it was stored directly)
	Dirty      bool            `json:"dirty,omitempty"`
	Stored     int             `json:"stored"`
	Harness    bool            `json:"harness,omitempty"` // the harness, not the server, failed: inconclusive
	Repeats    int             `json:"repeats,omitempty"` // repetitions (Req.Repeat) beyond the recorded first one
	RetainedMB float64         `json:"retained_mb"`       // heap retained by the whole case after Close + GC
	// signatures of failures of requests that the transport cannot deliver (outside the domain; counted only)
	OutOfDomain []string `json:"out_of_domain,omitempty"`
}

// ---- heap sampler ----

var (
	dumpBuf      = make([]byte, 4<<20) // goroutine dump of a hung request
	samplerOnce  sync.Once
	heapBase     atomic.Uint64 // live heap when the request in flight started (0: none in flight)
	heapPeakLive atomic.Uint64 // largest heap of the request in flight measured right after a forced GC
)

func heapNow() uint64 {
	s := []metrics.Sample{{Name: "/memory/classes/heap/objects:bytes"}}
	metrics.Read(s)
	if s[0].Value.Kind() == metrics.KindUint64 {
		return s[0].Value.Uint64()
	}
	return 0
}

// startSampler watches the heap while a request runs. The raw heap size contains
// garbage that the collector has not reclaimed yet (with GOGC=100 up to as much as
// is live), so a raw peak says nothing about growth. When the raw heap exceeds the
// bound the sampler forces a collection (at most every 50 ms) and records what is
// still reachable: that is the growth the request really holds.
func startSampler(abort bool) {
	samplerOnce.Do(func() {
		go func() {
			var lastGC time.Time
			for {
				time.Sleep(2 * time.Millisecond)
				h := heapNow()
				if base := heapBase.Load(); base != 0 && h > base+heapLimit && time.Since(lastGC) > 50*time.Millisecond {
					runtime.GC()
					lastGC = time.Now()
					h = heapNow()
					if heapBase.Load() == base { // still the same request
						for {
							p := heapPeakLive.Load()
							if h <= p || heapPeakLive.CompareAndSwap(p, h) {
								break
							}
						}
					}
				}
				if abort && h > abortHeap {
					fmt.Fprintf(os.Stderr, "\nC19-ABORT live heap %d MiB exceeds %d MiB\n", h>>20, abortHeap>>20)
					os.Exit(3)
				}
			}
		}()
	})
}

// ---- error classification ----

func classify(err error) (string, int) {
	if err == nil {
		return "ok", 0
	}
	st, ok := status.FromError(err)
	if !ok {
		if errors.Is(err, context.DeadlineExceeded) {
			return "deadline", int(codes.DeadlineExceeded)
		}
		return "other", -1
	}
	c := int(st.Code())
	msg := st.Message()
	switch {
	case strings.Contains(msg, "recovered from panic") || strings.Contains(msg, "panic:"):
		return "panic-captured", c
	case c == int(codes.InvalidArgument) || (c >= 2000 && c < 3000):
		return "validation", c
	case c == int(codes.NotFound) || (c >= 5000 && c < 6000):
		return "notfound", c
	case c == int(codes.DeadlineExceeded) || c == int(openfgav1.InternalErrorCode_deadline_exceeded) || c == int(codes.Canceled):
		return "deadline", c
	case c >= 3000 && c < 4000: // throttled / unprocessable
		return "deadline", c
	}
	return "other", c
}

// topFrame extracts the first openfga (non-harness) function below the panic.
func topFrame(stack string) string {
	lines := strings.Split(stack, "\n")
	start := 0
	for i, l := range lines {
		if strings.HasPrefix(l, "panic(") || strings.HasPrefix(l, "runtime.throw") || strings.HasPrefix(l, "runtime.newstack") {
			start = i
		}
	}
	for _, l := range lines[start:] {
		if strings.HasPrefix(l, "\t") || !strings.Contains(l, "github.com/openfga/openfga/") || strings.Contains(l, "verifharness") {
			continue
		}
		f := strings.TrimPrefix(strings.TrimSpace(l), "created by ")
		f = strings.TrimPrefix(f, "github.com/openfga/openfga/")
		if i := strings.LastIndex(f, "("); i > 0 {
			f = f[:i]
		}
		if i := strings.Index(f, " in goroutine"); i > 0 {
			f = f[:i]
		}
		return f
	}
	return "unknown-frame"
}

func trunc(s string, n int) string {
	if len(s) <= n {
		return s
	}
	return s[:n] + fmt.Sprintf("...(%d bytes)", len(s))
}

// ---- runner ----

type runner struct {
	hang     time.Duration // a request still running this long after its deadline is a hang
	c        Case
	srv      *server.Server
	ds       storage.OpenFGADatastore
	st       ids
	res      Result
	progress func(i int, rpc, wire string)
}

func newServer(o SrvOpts) (*server.Server, storage.OpenFGADatastore, error) {
	ds := memory.New()
	exp := append([]string{"authzen"}, o.Exp...)
	opts := []server.OpenFGAServiceV1Option{
		server.WithDatastore(ds),
		server.WithRequestTimeout(reqDeadline),
		server.WithListObjectsDeadline(reqDeadline),
		server.WithListUsersDeadline(reqDeadline),
		server.WithExperimentals(exp...),
	}
	for _, e := range o.Exp {
		if e == "pipeline_list_objects" {
			opts = append(opts, server.WithListObjectsPipelineEnabled(true))
		}
	}
	if o.Cache {
		opts = append(opts,
			server.WithCheckQueryCacheEnabled(true), server.WithCheckCacheLimit(1000), server.WithCheckQueryCacheTTL(10*time.Second),
			server.WithCheckIteratorCacheEnabled(true), server.WithCheckIteratorCacheMaxResults(1000), server.WithCheckIteratorCacheTTL(10*time.Second),
			server.WithListObjectsIteratorCacheEnabled(true), server.WithListObjectsIteratorCacheMaxResults(1000), server.WithListObjectsIteratorCacheTTL(10*time.Second),
		)
	}
	s, err := server.NewServerWithOpts(opts...)
	return s, ds, err
}

// guarded runs one call under the oracle.
func (r *runner) guarded(i int, rpc string, feats map[string]bool, msg validatable, wire string, call func(context.Context) (proto.Message, error)) (rr ReqResult, fail *Fail) {
	rr = ReqResult{I: i, RPC: rpc}
	for f := range feats {
		rr.Feats = append(rr.Feats, f)
	}
	sort.Strings(rr.Feats)
	rr.Validated = msg.Validate() == nil
	rr.Wire = wire
	if r.progress != nil {
		r.progress(i, rpc, wire)
	}
	// A request that the transport cannot deliver (invalid UTF-8 in a proto3 string
	// field, more than 4 MiB, nested beyond protobuf's recursion limit) is not a
	// "well-typed protobuf request": it is outside the domain of the property. It is
	// still executed (an embedding program could pass it), but whatever goes wrong is
	// only counted ("out-of-domain:<signature>"), never reported as a violation.
	defer func() {
		if r.progress != nil {
			// the call is over: what follows (measuring, building the next input) is harness work
			r.progress(setupPhase, "(after "+rpc+")", "")
		}
		if fail != nil && wire != "ok" {
			rr.Outcome = "out-of-domain-" + rr.Outcome
			r.res.OutOfDomain = append(r.res.OutOfDomain, fail.Signature)
			r.res.Dirty = true // continue in a fresh process
			fail = nil
		}
	}()

	type outT struct {
		resp  proto.Message
		err   error
		pan   any
		stack string
	}
	done := make(chan outT, 1)
	var before, after runtime.MemStats
	runtime.ReadMemStats(&before)
	base := heapNow()
	if base == 0 {
		base = 1
	}
	heapPeakLive.Store(0)
	heapBase.Store(base)
	defer heapBase.Store(0)
	start := time.Now()
	go func() {
		var o outT
		defer func() {
			if p := recover(); p != nil {
				o.pan, o.stack = p, string(debug.Stack())
			}
			done <- o
		}()
		// what the timeout middleware does for every unary call
		ctx, cancel := context.WithTimeout(context.Background(), reqDeadline)
		defer cancel()
		o.resp, o.err = call(ctx)
	}()
	var o outT
	select {
	case o = <-done:
	case <-time.After(reqDeadline + r.hang):
		r.res.Dirty = true
		rr.WallMs = float64(time.Since(start).Milliseconds())
		rr.Outcome = "hang"
		// (buffer allocated up front: with a starved collector a large allocation here never returns)
		buf := dumpBuf[:runtime.Stack(dumpBuf, true)]
		dump := openfgaGoroutines(string(buf))
		return rr, &Fail{Signature: "C19/hang-past-deadline:" + hotFrame(dump, rpc), Timing: true, ReqIndex: i,
			Msg: fmt.Sprintf("%s did not return within %v of its %v deadline (still running after %v); passed Validate(): %v, wire-deliverable: %s\ngoroutines running server code:\n%s",
				rpc, r.hang, reqDeadline, reqDeadline+r.hang, rr.Validated, rr.Wire, trunc(dump, 16000))}
	}
	wall := time.Since(start)
	runtime.ReadMemStats(&after)
	rr.WallMs = float64(wall.Microseconds()) / 1000
	alloc := after.TotalAlloc - before.TotalAlloc
	rr.AllocMB = float64(alloc) / (1 << 20)

	if o.pan != nil {
		sig := "C19/panic:" + topFrame(o.stack)
		if rr.Wire != "ok" {
			sig += "+wire-" + rr.Wire // not deliverable through gRPC as is
		}
		if feats["token-negative-offset"] {
			sig = "C19/memory-read-negative-offset-panic"
		}
		rr.Outcome = "panic"
		return rr, &Fail{Signature: sig, ReqIndex: i, Msg: fmt.Sprintf("%s panicked and the panic escaped the request: %v\nwire-deliverable: %s, passed Validate(): %v\n%s", rpc, o.pan, rr.Wire, rr.Validated, trunc(o.stack, 12000))}
	}
	rr.Outcome, rr.Code = classify(o.err)
	if o.err != nil {
		rr.Err = trunc(o.err.Error(), 300)
	}
	if o.resp == nil && o.err == nil {
		return rr, &Fail{Signature: "C19/neither-response-nor-error:" + rpc, ReqIndex: i, Msg: rpc + " returned neither a response nor an error"}
	}
	// memory: cumulative allocation below the bound proves the growth was below it;
	// otherwise look at the sampled live-heap peak and at what is retained after a GC.
	if alloc >= heapLimit {
		peak := int64(heapPeakLive.Load()) - int64(base)
		heapBase.Store(0)
		runtime.GC()
		retained := int64(heapNow()) - int64(base)
		if peak >= heapLimit || retained >= heapLimit {
			return rr, &Fail{Signature: "C19/heap-growth:" + rpc, ReqIndex: i, Timing: true, Msg: fmt.Sprintf("%s held %d MiB more reachable heap than at its start while it ran (measured after forced collections), %d MiB retained after it returned, %d MiB allocated in total; bound %d MiB; outcome %s %s",
				rpc, peak>>20, retained>>20, alloc>>20, heapLimit>>20, rr.Outcome, rr.Err)}
		}
	}
	if wall > reqDeadline+deadlineSlack {
		rr.Late = true
		r.res.Dirty = true
	}
	return rr, nil
}

var frameRE = regexp.MustCompile(`(?m)^github\.com/openfga/(?:openfga|language/pkg/go)/([^\s(]+(?:\(\*[A-Za-z0-9_\[\].]+\))?[^\s(]*)\(`)

// hotFrame names the server function that dominates the stacks of a goroutine
// dump (for a runaway recursion or loop this is the root cause); falls back to
// the RPC name.
func hotFrame(dump, rpc string) string {
	count := map[string]int{}
	var order []string
	for _, mt := range frameRE.FindAllStringSubmatch(dump, -1) {
		f := mt[1]
		if strings.HasPrefix(f, "verifharness") || strings.HasPrefix(f, "pkg/server.(*Server)") || strings.Contains(f, "storagewrappers") {
			continue
		}
		if count[f] == 0 {
			order = append(order, f)
		}
		count[f]++
	}
	best := ""
	for _, f := range order {
		if best == "" || count[f] > count[best] {
			best = f
		}
	}
	if best == "" {
		return rpc
	}
	// the goroutines of a stuck pipeline park in varying helper functions: name the package
	if strings.HasPrefix(best, "internal/listobjects/pipeline") {
		return "internal/listobjects/pipeline"
	}
	if strings.HasPrefix(best, "graph.(*WeightedAuthorizationModelGraph)") { // github.com/openfga/language weighted graph builder
		return "language/graph.(*WeightedAuthorizationModelGraph)"
	}
	if strings.HasPrefix(best, "pkg/server/commands/listusers.(*listUsersQuery)") { // ListUsers: its expand* functions call each other
		return "pkg/server/commands/listusers.(*listUsersQuery)"
	}
	if strings.HasPrefix(best, "internal/check.(*Resolver)") { // weighted-graph Check: its resolvers call each other
		return "internal/check.(*Resolver)"
	}
	// the reducers of the Check resolution tree all sit on top of runHandler
	for _, f := range []string{"internal/graph.union", "internal/graph.intersection", "internal/graph.exclusion", "internal/graph.runHandler"} {
		if best == f || strings.HasPrefix(best, f+".") {
			return "internal/graph.runHandler"
		}
	}
	return best
}

// openfgaGoroutines keeps the goroutines of a full dump that run openfga code.
func openfgaGoroutines(dump string) string {
	var keep []string
	for _, g := range strings.Split(dump, "\n\n") {
		if strings.Contains(g, "github.com/openfga/openfga/pkg/") || strings.Contains(g, "github.com/openfga/openfga/internal/") {
			keep = append(keep, g)
		}
	}
	return strings.Join(keep, "\n\n")
}

// runCase evaluates a whole case on a fresh server over a fresh memory datastore.
func runCase(c Case, progress func(i int, rpc, wire string)) (res Result) {
	return runCaseHang(c, hangAfter, progress)
}

// runCaseHang is runCase with an explicit hang bound.
func runCaseHang(c Case, hang time.Duration, progress func(i int, rpc, wire string)) (res Result) {
	if hang <= 0 {
		hang = hangAfter
	}
	startSampler(false)
	var base runtime.MemStats
	runtime.GC()
	runtime.ReadMemStats(&base)
	// The server, the datastore and everything they hold (stored models and tuples are
	// state, not a leak) are local to runCaseInner: once it has returned, only what the
	// process keeps globally (or what leaked goroutines pin) is still reachable.
	res = runCaseInner(c, hang, progress)
	if res.Fail != nil || res.Dirty {
		return res
	}
	// retained growth of the whole case: repeated requests that each leave something behind add up here
	var end runtime.MemStats
	runtime.GC()
	runtime.GC() // finalizers of the first cycle
	runtime.ReadMemStats(&end)
	retained := int64(end.HeapAlloc) - int64(base.HeapAlloc)
	res.RetainedMB = float64(retained) / (1 << 20)
	if retained >= heapLimit {
		top, where := heapTop()
		if fam, bytes := fattestMetricFamily(); bytes >= 32<<20 {
			where = "metric-labels:" + fam
			top = fmt.Sprintf("the label values of metric family %q hold %d MiB (every distinct request value became a time series)\n%s", fam, bytes>>20, top)
		}
		res.Dirty = true // process-global state is polluted: continue in a fresh process
		res.Fail = &Fail{Signature: "C19/retained-heap-growth:" + where, ReqIndex: -5, Timing: true,
			Msg: fmt.Sprintf("after %d requests (+%d repetitions), Server.Close and a GC the process retains %d MiB more than before the case (bound %d MiB)\nlargest live allocation sites:\n%s",
				len(res.Reqs), res.Repeats, retained>>20, heapLimit>>20, top)}
	}
	return res
}

// runCaseInner builds the server, runs the case and closes the server.
func runCaseInner(c Case, hang time.Duration, progress func(i int, rpc, wire string)) (res Result) {
	r := &runner{c: c, progress: progress, hang: hang}
	r.res.StateFeats = map[string]bool{}
	srv, ds, err := newServer(c.Opts)
	if err != nil {
		r.res.Setup = append(r.res.Setup, "setup:server-error")
		return r.res
	}
	r.srv, r.ds = srv, ds
	defer func() {
		// Close under recover: a panic here is reported, not propagated
		defer func() {
			if p := recover(); p != nil && res.Fail == nil {
				res.Fail = &Fail{Signature: "C19/panic-on-close:" + topFrame(string(debug.Stack())), ReqIndex: -3, Msg: fmt.Sprintf("Server.Close panicked: %v\n%s", p, debug.Stack())}
			}
		}()
		if !r.res.Dirty {
			srv.Close()
		}
	}()

	// 1. store, through the API
	{
		q := Req{RPC: "CreateStore", Name: lit("c19-store")}
		msg, wire, call := q.build(srv, r.st)
		var created *openfgav1.CreateStoreResponse
		rr, f := r.guarded(-2, "CreateStore", nil, msg, wire, func(ctx context.Context) (proto.Message, error) {
			resp, err := call(ctx)
			if cs, ok := resp.(*openfgav1.CreateStoreResponse); ok {
				created = cs
			}
			return resp, err
		})
		r.res.Reqs = append(r.res.Reqs, rr)
		if f != nil {
			r.res.Fail = f
			return r.res
		}
		r.st.store = created.GetId()
	}

	// 2. model: through the API and / or straight into the datastore
	if c.Model != nil {
		mf := map[string]bool{}
		c.Model.features(mf)
		for k := range mf {
			r.res.StateFeats["model-"+k] = true
		}
		accepted := false
		if c.ModelVia != "direct" {
			q := Req{RPC: "WriteAuthorizationModel", Model: c.Model}
			msg, wire, call := q.build(srv, r.st)
			var wr *openfgav1.WriteAuthorizationModelResponse
			rr, f := r.guarded(-1, "WriteAuthorizationModel", mf, msg, wire, func(ctx context.Context) (proto.Message, error) {
				resp, err := call(ctx)
				if w, ok := resp.(*openfgav1.WriteAuthorizationModelResponse); ok {
					wr = w
				}
				return resp, err
			})
			r.res.Reqs = append(r.res.Reqs, rr)
			if f != nil {
				r.res.Fail = f
				return r.res
			}
			if wr != nil {
				accepted = true
				r.st.model = wr.GetAuthorizationModelId()
				r.res.Setup = append(r.res.Setup, "setup:model-accepted-by-api")
			} else {
				r.res.Setup = append(r.res.Setup, "setup:model-rejected-by-api")
			}
		}
		if c.ModelVia == "direct" || (c.ModelVia == "both" && !accepted) {
			id := ulid.Make().String()
			am := &openfgav1.AuthorizationModel{Id: id, SchemaVersion: c.Model.Schema, TypeDefinitions: c.Model.TypeDefs(), Conditions: c.Model.Conditions()}
			// A stored model is the residue of an earlier WriteAuthorizationModel (possibly of a
			// server version with other validation rules); the configured hard limits of that
			// API (256 KiB, 100 types) still bound what can be there.
			// and a datastore keeps it in serialised form.
			am, amWire := viaWire(am)
			if amWire != "ok" {
				r.res.Setup = append(r.res.Setup, "setup:model-direct-skipped-not-serialisable")
			} else if proto.Size(am) > maxStoredModelBytes || len(am.GetTypeDefinitions()) > maxStoredModelTypes {
				r.res.Setup = append(r.res.Setup, "setup:model-direct-skipped-over-api-limits")
			} else if err := safely(func() error { return ds.WriteAuthorizationModel(context.Background(), r.st.store, am) }); err == nil {
				r.st.model = id
				r.res.Setup = append(r.res.Setup, "setup:model-stored-directly")
				r.res.StateFeats["model-stored-directly"] = true
			} else {
				r.res.Setup = append(r.res.Setup, "setup:model-direct-write-failed")
			}
		}
		r.res.ModelOK = r.st.model != ""
	}

	// 3. tuples straight into the datastore (bypassing validation)
	seen := map[string]bool{}
	if r.progress != nil && len(c.Tuples) > 0 {
		r.progress(setupPhase, "(setup: tuples straight into the datastore)", "")
	}
	for _, g := range c.Tuples {
		g.features(r.res.StateFeats)
		var batch []*openfgav1.TupleKey
		for _, tk := range g.expand() {
			k := tk.GetObject() + "\x00" + tk.GetRelation() + "\x00" + tk.GetUser()
			if seen[k] {
				continue
			}
			seen[k] = true
			batch = append(batch, tk)
		}
		for i := 0; i < len(batch); i += 500 {
			j := minInt(i+500, len(batch))
			part := batch[i:j]
			if err := safely(func() error { return ds.Write(context.Background(), r.st.store, nil, part) }); err != nil {
				r.res.Setup = append(r.res.Setup, "setup:direct-tuple-write-rejected")
			} else {
				r.res.Stored += len(part)
			}
		}
	}

	// 4. the requests
	for i := range c.Reqs {
		rep := c.Reqs[i].Repeat
		if rep > 400 {
			rep = 400
		}
		for k := 0; k <= rep; k++ {
			q := c.Reqs[i].variant(k)
			if r.progress != nil {
				r.progress(setupPhase, "(building request "+itoa(i)+")", "")
			}
			msg, wire, call := q.build(srv, r.st)
			if msg == nil {
				break
			}
			rr, f := r.guarded(i, q.RPC, q.features(), msg, wire, call)
			if k == 0 || f != nil {
				r.res.Reqs = append(r.res.Reqs, rr)
			} else {
				r.res.Repeats++
			}
			if f != nil {
				r.res.Fail = f
				return r.res
			}
			if r.res.Dirty {
				return r.res // a late request may still burn CPU: do not measure anything else in this process state
			}
		}
	}
	return r.res
}

// heapTop describes the three largest live allocation sites (sampled heap
// profile) and names the first server / metrics frame of the largest.
func heapTop() (string, string) {
	n, _ := runtime.MemProfile(nil, true)
	recs := make([]runtime.MemProfileRecord, n+64)
	n, ok := runtime.MemProfile(recs, true)
	if !ok {
		return "(no heap profile)", "unknown"
	}
	recs = recs[:n]
	sort.Slice(recs, func(i, j int) bool { return recs[i].InUseBytes() > recs[j].InUseBytes() })
	var b strings.Builder
	where := "unknown"
	for i := 0; i < len(recs) && i < 3; i++ {
		fmt.Fprintf(&b, "%d MiB in use:\n", recs[i].InUseBytes()>>20)
		frames := runtime.CallersFrames(recs[i].Stack())
		for k := 0; k < 14; k++ {
			fr, more := frames.Next()
			fmt.Fprintf(&b, "\t%s:%d\n", fr.Function, fr.Line)
			if i == 0 && where == "unknown" && !strings.Contains(fr.Function, "verifharness") &&
				(strings.Contains(fr.Function, "openfga/openfga/") || strings.Contains(fr.Function, "prometheus")) {
				where = strings.TrimPrefix(fr.Function, "github.com/openfga/openfga/")
			}
			if !more {
				break
			}
		}
	}
	return b.String(), where
}

// fattestMetricFamily returns the metric family of the default Prometheus
// registry whose label values occupy the most bytes.
func fattestMetricFamily() (string, int) {
	fams, err := prometheus.DefaultGatherer.Gather()
	if err != nil && len(fams) == 0 {
		return "", 0
	}
	best, bestBytes := "", 0
	for _, f := range fams {
		n := 0
		for _, mt := range f.GetMetric() {
			for _, l := range mt.GetLabel() {
				n += len(l.GetValue())
			}
		}
		if n > bestBytes {
			best, bestBytes = f.GetName(), n
		}
	}
	return best, bestBytes
}

func safely(f func() error) (err error) {
	defer func() {
		if p := recover(); p != nil {
			err = fmt.Errorf("panic: %v", p)
		}
	}()
	return f()
}
