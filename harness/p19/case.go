package p19

import (
	"context"
	"encoding/base64"
	"regexp"
	"strings"

	authzenv1 "github.com/openfga/api/proto/authzen/v1"
	openfgav1 "github.com/openfga/api/proto/openfga/v1"
	"google.golang.org/grpc"
	"google.golang.org/grpc/metadata"
	"google.golang.org/protobuf/proto"
	"google.golang.org/protobuf/types/known/timestamppb"
	"google.golang.org/protobuf/types/known/wrapperspb"

	"github.com/openfga/openfga/pkg/server"
)

// SrvOpts selects the server configuration of the case.
type SrvOpts struct {
	Cache bool     `json:"cache,omitempty"` // check query cache + iterator caches (exercises cache keys / xtypes.go)
	Exp   []string `json:"exp,omitempty"`   // experimental flags in addition to "authzen"
}

// HTuple is a tuple whose every part may be hostile.
type HTuple struct {
	Object   HS    `json:"object,omitzero"`
	Relation HS    `json:"relation,omitzero"`
	User     HS    `json:"user,omitzero"`
	Cond     HS    `json:"cond,omitzero"`
	Ctx      *HCtx `json:"ctx,omitempty"`
}

func (t HTuple) features(into map[string]bool) {
	strFeatures(t.Object.S(), into)
	strFeatures(t.Relation.S(), into)
	strFeatures(t.User.S(), into)
	strFeatures(t.Cond.S(), into)
	t.Ctx.features(into)
}

func (t HTuple) Proto() *openfgav1.TupleKey {
	tk := &openfgav1.TupleKey{Object: t.Object.S(), Relation: t.Relation.S(), User: t.User.S()}
	if !t.Cond.IsZero() || t.Ctx != nil {
		tk.Condition = &openfgav1.RelationshipCondition{Name: t.Cond.S(), Context: t.Ctx.Struct()}
	}
	return tk
}

// TupleGroup is a recipe for tuples written STRAIGHT into the datastore.
//
//	raw             the single tuple T
//	ring-userset    OType:i#Rel@OType:(i+1 mod N)#Rel           (cyclic userset graph)
//	ring-ttu        OType:i#Rel@OType:(i+1 mod N)               (cyclic parent graph)
//	chain-ttu       OType:i#Rel@OType:(i+1), i<N                (long acyclic chain)
//	fanout-users    OType:0#Rel@UType:i, i<N
//	fanout-usersets OType:0#Rel@OType:(i+1)#Rel and OType:(i+1)#Rel@UType:i
//	fanout-objects  OType:i#Rel@UType:0, i<N
type TupleGroup struct {
	Kind  string  `json:"kind"`
	T     *HTuple `json:"t,omitempty"`
	N     int     `json:"n,omitempty"`
	OType string  `json:"otype,omitempty"`
	Rel   string  `json:"rel,omitempty"`
	UType string  `json:"utype,omitempty"`
	Cond  string  `json:"cond,omitempty"`
	Ctx   *HCtx   `json:"ctx,omitempty"`
}

func (g TupleGroup) expand() []*openfgav1.TupleKey {
	n := g.N
	if n > 5000 {
		n = 5000
	}
	mk := func(o, r, u string) *openfgav1.TupleKey {
		tk := &openfgav1.TupleKey{Object: o, Relation: r, User: u}
		if g.Cond != "" || g.Ctx != nil {
			tk.Condition = &openfgav1.RelationshipCondition{Name: g.Cond, Context: g.Ctx.Struct()}
		}
		return tk
	}
	var out []*openfgav1.TupleKey
	switch g.Kind {
	case "raw":
		if g.T != nil {
			out = append(out, g.T.Proto())
		}
	case "ring-userset":
		for i := 0; i < n; i++ {
			out = append(out, mk(g.OType+":"+itoa(i), g.Rel, g.OType+":"+itoa((i+1)%n)+"#"+g.Rel))
		}
	case "ring-ttu":
		for i := 0; i < n; i++ {
			out = append(out, mk(g.OType+":"+itoa(i), g.Rel, g.OType+":"+itoa((i+1)%n)))
		}
	case "chain-ttu":
		for i := 0; i < n; i++ {
			out = append(out, mk(g.OType+":"+itoa(i), g.Rel, g.OType+":"+itoa(i+1)))
		}
	case "fanout-users":
		for i := 0; i < n; i++ {
			out = append(out, mk(g.OType+":0", g.Rel, g.UType+":"+itoa(i)))
		}
	case "fanout-usersets":
		for i := 0; i < n; i++ {
			out = append(out, mk(g.OType+":0", g.Rel, g.OType+":"+itoa(i+1)+"#"+g.Rel))
			out = append(out, mk(g.OType+":"+itoa(i+1), g.Rel, g.UType+":"+itoa(i)))
		}
	case "fanout-objects":
		for i := 0; i < n; i++ {
			out = append(out, mk(g.OType+":"+itoa(i), g.Rel, g.UType+":0"))
		}
	}
	return out
}

func (g TupleGroup) features(into map[string]bool) {
	switch g.Kind {
	case "raw":
		if g.T != nil {
			f := map[string]bool{}
			g.T.features(f)
			for k := range f {
				into["stored-"+k] = true
			}
			into["stored-raw"] = true
		}
	case "ring-userset", "ring-ttu":
		into["stored-cycle"] = true
	case "chain-ttu":
		if g.N > 25 {
			into["stored-long-chain"] = true
		}
	default:
		if g.N >= 100 {
			into["stored-fanout"] = true
		}
	}
	if g.Ctx != nil {
		f := map[string]bool{}
		g.Ctx.features(f)
		for k := range f {
			into["stored-"+k] = true
		}
	}
}

// Item is a BatchCheck item, an assertion, an AuthZEN evaluation or a tuple to write.
type Item struct {
	T           HTuple   `json:"t,omitzero"`
	NilKey      bool     `json:"nil_key,omitempty"`
	Corr        HS       `json:"corr,omitzero"`
	Ctx         *HCtx    `json:"ctx,omitempty"`
	Contextual  []HTuple `json:"contextual,omitempty"`
	ContextualN int      `json:"contextual_n,omitempty"`
	Expect      bool     `json:"expect,omitempty"`
}

// Req is one request of any RPC; each RPC uses the fields it needs.
type Req struct {
	RPC      string `json:"rpc"`
	Store    string `json:"store,omitempty"` // "" current | "none" | "other" | "bad"
	StoreHS  *HS    `json:"store_hs,omitempty"`
	ModelID  string `json:"model_id,omitempty"` // "" none | "cur" | "other" | "bad"
	ModelHS  *HS    `json:"model_hs,omitempty"`
	T        HTuple `json:"t,omitzero"`
	NilKey   bool   `json:"nil_key,omitempty"`
	Type     HS     `json:"type,omitzero"`
	Ctx      *HCtx  `json:"ctx,omitempty"`
	Trace    bool   `json:"trace,omitempty"`
	Consist  int32  `json:"consist,omitempty"`
	Token    HS     `json:"token,omitzero"`
	PageSize *int32 `json:"page_size,omitempty"`

	Contextual  []HTuple `json:"contextual,omitempty"`
	ContextualN int      `json:"contextual_n,omitempty"` // Contextual[0] repeated with user suffix i

	Items    []Item `json:"items,omitempty"`
	ItemsRep int    `json:"items_rep,omitempty"` // Items[0] repeated with distinct correlation ids / users
	ItemsDup int    `json:"items_dup,omitempty"` // Items[0] repeated verbatim

	Filters []HRestr `json:"filters,omitempty"` // ListUsers user filters
	Model   *HModel  `json:"model,omitempty"`   // WriteAuthorizationModel
	Name    HS       `json:"name,omitzero"`     // store name

	// Repeat issues the request Repeat more times; repetition k appends k to the
	// field named by Vary (on_dup | on_missing | object | relation | user | type |
	// name | token | ctxkey | corr): many distinct attacker-chosen values.
	Repeat int    `json:"repeat,omitempty"`
	Vary   string `json:"vary,omitempty"`

	StartSec   *int64 `json:"start_sec,omitempty"` // ReadChanges start_time
	StartNanos int32  `json:"start_nanos,omitempty"`

	Deletes   []HTuple `json:"deletes,omitempty"`
	OnDup     HS       `json:"on_dup,omitzero"`
	OnMissing HS       `json:"on_missing,omitzero"`

	// AuthZEN
	Header    *HS   `json:"header,omitempty"` // Openfga-Authorization-Model-Id metadata
	Semantic  int32 `json:"semantic,omitempty"`
	NoOptions bool  `json:"no_options,omitempty"`
	SubjProps *HCtx `json:"subj_props,omitempty"`
	ResProps  *HCtx `json:"res_props,omitempty"`
	ActProps  *HCtx `json:"act_props,omitempty"`
	NilSubj   bool  `json:"nil_subj,omitempty"`
	NilRes    bool  `json:"nil_res,omitempty"`
	NilAct    bool  `json:"nil_act,omitempty"`
}

// Case is one hostile scenario.
type Case struct {
	Opts     SrvOpts      `json:"opts,omitzero"`
	ModelSrc string       `json:"model_src"` // "valid" | "mutated:<what>" | "hostile:<flavour>" | "none"
	Model    *HModel      `json:"model,omitempty"`
	ModelVia string       `json:"model_via"` // "api" | "direct" | "both" (API first, direct when rejected)
	Tuples   []TupleGroup `json:"tuples,omitempty"`
	Reqs     []Req        `json:"reqs"`
}

// variant returns the k-th repetition of the request.
func (r Req) variant(k int) Req {
	if k == 0 {
		return r
	}
	sfx := "-" + itoa(k)
	switch r.Vary {
	case "on_dup":
		r.OnDup.Tail += sfx
	case "on_missing":
		r.OnMissing.Tail += sfx
	case "object":
		r.T.Object.Tail += sfx
	case "relation":
		r.T.Relation.Tail += sfx
	case "user":
		r.T.User.Tail += sfx
	case "type":
		r.Type.Tail += sfx
	case "name":
		r.Name.Tail += sfx
	case "token":
		r.Token.Tail += sfx
	case "corr":
		if len(r.Items) > 0 {
			its := append([]Item{}, r.Items...)
			its[0].Corr.Tail += sfx
			r.Items = its
		}
	case "ctxkey":
		c := HCtx{}
		if r.Ctx != nil {
			c = *r.Ctx
			c.built = nil
		}
		c.KV = append(append([]HKV{}, c.KV...), HKV{K: HS{Mid: "rep", Tail: sfx}, V: lit("v")})
		r.Ctx = &c
	}
	return r
}

const otherULID = "01ARZ3NDEKTSV4RRFFQ69G5FAV"

type ids struct{ store, model string }

func (r *Req) storeID(st ids) string {
	switch r.Store {
	case "none":
		return ""
	case "other":
		return otherULID
	case "bad":
		if r.StoreHS != nil {
			return r.StoreHS.S()
		}
		return "bad"
	}
	return st.store
}

func (r *Req) modelID(st ids) string {
	switch r.ModelID {
	case "cur":
		return st.model
	case "other":
		return otherULID
	case "bad":
		if r.ModelHS != nil {
			return r.ModelHS.S()
		}
		return "bad"
	}
	return ""
}

func contextualOf(ts []HTuple, n int) []*openfgav1.TupleKey {
	var out []*openfgav1.TupleKey
	for _, t := range ts {
		out = append(out, t.Proto())
	}
	if n > 2000 {
		n = 2000
	}
	for i := 0; i < n && len(ts) > 0; i++ {
		tk := ts[0].Proto()
		tk.User += itoa(i)
		out = append(out, tk)
	}
	return out
}

func contextualKeys(ts []HTuple, n int) *openfgav1.ContextualTupleKeys {
	if len(ts) == 0 {
		return nil
	}
	return &openfgav1.ContextualTupleKeys{TupleKeys: contextualOf(ts, n)}
}

func (r *Req) items() []Item {
	out := append([]Item{}, r.Items...)
	if len(r.Items) == 0 {
		return out
	}
	rep, dup := r.ItemsRep, r.ItemsDup
	if rep > 3000 {
		rep = 3000
	}
	if dup > 3000 {
		dup = 3000
	}
	for i := 0; i < rep; i++ {
		it := r.Items[0]
		it.Corr = HS{Mid: it.Corr.S() + "-" + itoa(i)}
		it.T.User = HS{Mid: it.T.User.S() + itoa(i)}
		out = append(out, it)
	}
	for i := 0; i < dup; i++ {
		out = append(out, r.Items[0])
	}
	return out
}

func (r *Req) pageSize() *wrapperspb.Int32Value {
	if r.PageSize == nil {
		return nil
	}
	return wrapperspb.Int32(*r.PageSize)
}

func (r *Req) subject() *authzenv1.Subject {
	if r.NilSubj {
		return nil
	}
	typ, id := splitFirst(r.T.User.S())
	return &authzenv1.Subject{Type: typ, Id: id, Properties: r.SubjProps.Struct()}
}

func (r *Req) resource() *authzenv1.Resource {
	if r.NilRes {
		return nil
	}
	typ, id := splitFirst(r.T.Object.S())
	return &authzenv1.Resource{Type: typ, Id: id, Properties: r.ResProps.Struct()}
}

func (r *Req) action() *authzenv1.Action {
	if r.NilAct {
		return nil
	}
	return &authzenv1.Action{Name: r.T.Relation.S(), Properties: r.ActProps.Struct()}
}

func splitFirst(s string) (string, string) {
	for i := 0; i < len(s); i++ {
		if s[i] == ':' {
			return s[:i], s[i+1:]
		}
	}
	return s, ""
}

type validatable interface {
	proto.Message
	Validate() error
}

// streamCollector is the in-process stand-in for the StreamedListObjects stream.
type streamCollector struct {
	ctx context.Context
	n   int
	grpc.ServerStream
}

func (c *streamCollector) Context() context.Context     { return c.ctx }
func (c *streamCollector) SetHeader(metadata.MD) error  { return nil }
func (c *streamCollector) SendHeader(metadata.MD) error { return nil }
func (c *streamCollector) SetTrailer(metadata.MD)       {}
func (c *streamCollector) SendMsg(any) error            { return nil }
func (c *streamCollector) RecvMsg(any) error            { return nil }
func (c *streamCollector) Send(*openfgav1.StreamedListObjectsResponse) error {
	c.n++
	return nil
}

// RPCs lists every RPC the harness drives.
var RPCs = []string{
	"Check", "BatchCheck", "Expand", "ListObjects", "StreamedListObjects", "ListUsers",
	"Write", "Read", "ReadChanges",
	"WriteAuthorizationModel", "ReadAuthorizationModel", "ReadAuthorizationModels",
	"WriteAssertions", "ReadAssertions",
	"CreateStore", "GetStore", "ListStores", "DeleteStore",
	"Evaluation", "Evaluations", "SubjectSearch", "ResourceSearch", "ActionSearch", "GetConfiguration",
}

// build turns a request recipe into the API message and the call on the
// public Server method (exactly what the gRPC handler would invoke).
func (r *Req) build(s *server.Server, st ids) (validatable, string, func(ctx context.Context) (proto.Message, error)) {
	store, model := r.storeID(st), r.modelID(st)
	cons := openfgav1.ConsistencyPreference(r.Consist)
	withHeader := func(ctx context.Context) context.Context {
		if r.Header == nil {
			return ctx
		}
		return metadata.NewIncomingContext(ctx, metadata.Pairs("openfga-authorization-model-id", r.Header.S()))
	}
	switch r.RPC {
	case "Check":
		req := &openfgav1.CheckRequest{StoreId: store, AuthorizationModelId: model, Trace: r.Trace, Context: r.Ctx.Struct(),
			ContextualTuples: contextualKeys(r.Contextual, r.ContextualN), Consistency: cons}
		if !r.NilKey {
			req.TupleKey = &openfgav1.CheckRequestTupleKey{Object: r.T.Object.S(), Relation: r.T.Relation.S(), User: r.T.User.S()}
		}
		req, wire := viaWire(req)
		return req, wire, func(ctx context.Context) (proto.Message, error) { return nilIfNil(s.Check(ctx, req)) }
	case "BatchCheck":
		req := &openfgav1.BatchCheckRequest{StoreId: store, AuthorizationModelId: model, Consistency: cons}
		for _, it := range r.items() {
			bi := &openfgav1.BatchCheckItem{CorrelationId: it.Corr.S(), Context: it.Ctx.Struct(), ContextualTuples: contextualKeys(it.Contextual, it.ContextualN)}
			if !it.NilKey {
				bi.TupleKey = &openfgav1.CheckRequestTupleKey{Object: it.T.Object.S(), Relation: it.T.Relation.S(), User: it.T.User.S()}
			}
			req.Checks = append(req.Checks, bi)
		}
		req, wire := viaWire(req)
		return req, wire, func(ctx context.Context) (proto.Message, error) { return nilIfNil(s.BatchCheck(ctx, req)) }
	case "Expand":
		req := &openfgav1.ExpandRequest{StoreId: store, AuthorizationModelId: model, Consistency: cons, ContextualTuples: contextualKeys(r.Contextual, r.ContextualN)}
		if !r.NilKey {
			req.TupleKey = &openfgav1.ExpandRequestTupleKey{Object: r.T.Object.S(), Relation: r.T.Relation.S()}
		}
		req, wire := viaWire(req)
		return req, wire, func(ctx context.Context) (proto.Message, error) { return nilIfNil(s.Expand(ctx, req)) }
	case "ListObjects":
		req := &openfgav1.ListObjectsRequest{StoreId: store, AuthorizationModelId: model, Type: r.Type.S(), Relation: r.T.Relation.S(), User: r.T.User.S(),
			ContextualTuples: contextualKeys(r.Contextual, r.ContextualN), Context: r.Ctx.Struct(), Consistency: cons}
		req, wire := viaWire(req)
		return req, wire, func(ctx context.Context) (proto.Message, error) { return nilIfNil(s.ListObjects(ctx, req)) }
	case "StreamedListObjects":
		req := &openfgav1.StreamedListObjectsRequest{StoreId: store, AuthorizationModelId: model, Type: r.Type.S(), Relation: r.T.Relation.S(), User: r.T.User.S(),
			ContextualTuples: contextualKeys(r.Contextual, r.ContextualN), Context: r.Ctx.Struct(), Consistency: cons}
		req, wire := viaWire(req)
		return req, wire, func(ctx context.Context) (proto.Message, error) {
			col := &streamCollector{ctx: ctx}
			if err := s.StreamedListObjects(req, col); err != nil {
				return nil, err
			}
			return wrapperspb.Int32(int32(col.n)), nil
		}
	case "ListUsers":
		req := &openfgav1.ListUsersRequest{StoreId: store, AuthorizationModelId: model, Relation: r.T.Relation.S(),
			ContextualTuples: contextualOf(r.Contextual, r.ContextualN), Context: r.Ctx.Struct(), Consistency: cons}
		if !r.NilKey {
			typ, id := splitFirst(r.T.Object.S())
			req.Object = &openfgav1.Object{Type: typ, Id: id}
		}
		for _, f := range r.Filters {
			req.UserFilters = append(req.UserFilters, &openfgav1.UserTypeFilter{Type: f.Type.S(), Relation: f.Rel.S()})
		}
		req, wire := viaWire(req)
		return req, wire, func(ctx context.Context) (proto.Message, error) { return nilIfNil(s.ListUsers(ctx, req)) }
	case "Write":
		req := &openfgav1.WriteRequest{StoreId: store, AuthorizationModelId: model}
		its := r.items()
		if len(its) > 0 || !r.OnDup.IsZero() {
			req.Writes = &openfgav1.WriteRequestWrites{OnDuplicate: r.OnDup.S()}
			for _, it := range its {
				tk := it.T.Proto()
				req.Writes.TupleKeys = append(req.Writes.TupleKeys, tk)
			}
		}
		if len(r.Deletes) > 0 || !r.OnMissing.IsZero() {
			req.Deletes = &openfgav1.WriteRequestDeletes{OnMissing: r.OnMissing.S()}
			for _, d := range r.Deletes {
				req.Deletes.TupleKeys = append(req.Deletes.TupleKeys, &openfgav1.TupleKeyWithoutCondition{Object: d.Object.S(), Relation: d.Relation.S(), User: d.User.S()})
			}
		}
		req, wire := viaWire(req)
		return req, wire, func(ctx context.Context) (proto.Message, error) { return nilIfNil(s.Write(ctx, req)) }
	case "Read":
		req := &openfgav1.ReadRequest{StoreId: store, PageSize: r.pageSize(), ContinuationToken: r.Token.S(), Consistency: cons}
		if !r.NilKey {
			req.TupleKey = &openfgav1.ReadRequestTupleKey{Object: r.T.Object.S(), Relation: r.T.Relation.S(), User: r.T.User.S()}
		}
		req, wire := viaWire(req)
		return req, wire, func(ctx context.Context) (proto.Message, error) { return nilIfNil(s.Read(ctx, req)) }
	case "ReadChanges":
		req := &openfgav1.ReadChangesRequest{StoreId: store, Type: r.Type.S(), PageSize: r.pageSize(), ContinuationToken: r.Token.S()}
		if r.StartSec != nil {
			req.StartTime = &timestamppb.Timestamp{Seconds: *r.StartSec, Nanos: r.StartNanos}
		}
		req, wire := viaWire(req)
		return req, wire, func(ctx context.Context) (proto.Message, error) { return nilIfNil(s.ReadChanges(ctx, req)) }
	case "WriteAuthorizationModel":
		mo := r.Model
		if mo == nil {
			mo = &HModel{}
		}
		req := &openfgav1.WriteAuthorizationModelRequest{StoreId: store, SchemaVersion: mo.Schema, TypeDefinitions: mo.TypeDefs(), Conditions: mo.Conditions()}
		req, wire := viaWire(req)
		return req, wire, func(ctx context.Context) (proto.Message, error) { return nilIfNil(s.WriteAuthorizationModel(ctx, req)) }
	case "ReadAuthorizationModel":
		req := &openfgav1.ReadAuthorizationModelRequest{StoreId: store, Id: model}
		req, wire := viaWire(req)
		return req, wire, func(ctx context.Context) (proto.Message, error) { return nilIfNil(s.ReadAuthorizationModel(ctx, req)) }
	case "ReadAuthorizationModels":
		req := &openfgav1.ReadAuthorizationModelsRequest{StoreId: store, PageSize: r.pageSize(), ContinuationToken: r.Token.S()}
		req, wire := viaWire(req)
		return req, wire, func(ctx context.Context) (proto.Message, error) { return nilIfNil(s.ReadAuthorizationModels(ctx, req)) }
	case "WriteAssertions":
		req := &openfgav1.WriteAssertionsRequest{StoreId: store, AuthorizationModelId: model}
		for _, it := range r.items() {
			a := &openfgav1.Assertion{Expectation: it.Expect, Context: it.Ctx.Struct(), ContextualTuples: contextualOf(it.Contextual, it.ContextualN)}
			if !it.NilKey {
				a.TupleKey = &openfgav1.AssertionTupleKey{Object: it.T.Object.S(), Relation: it.T.Relation.S(), User: it.T.User.S()}
			}
			req.Assertions = append(req.Assertions, a)
		}
		req, wire := viaWire(req)
		return req, wire, func(ctx context.Context) (proto.Message, error) { return nilIfNil(s.WriteAssertions(ctx, req)) }
	case "ReadAssertions":
		req := &openfgav1.ReadAssertionsRequest{StoreId: store, AuthorizationModelId: model}
		req, wire := viaWire(req)
		return req, wire, func(ctx context.Context) (proto.Message, error) { return nilIfNil(s.ReadAssertions(ctx, req)) }
	case "CreateStore":
		req := &openfgav1.CreateStoreRequest{Name: r.Name.S()}
		req, wire := viaWire(req)
		return req, wire, func(ctx context.Context) (proto.Message, error) { return nilIfNil(s.CreateStore(ctx, req)) }
	case "GetStore":
		req := &openfgav1.GetStoreRequest{StoreId: store}
		req, wire := viaWire(req)
		return req, wire, func(ctx context.Context) (proto.Message, error) { return nilIfNil(s.GetStore(ctx, req)) }
	case "DeleteStore":
		req := &openfgav1.DeleteStoreRequest{StoreId: store}
		req, wire := viaWire(req)
		return req, wire, func(ctx context.Context) (proto.Message, error) { return nilIfNil(s.DeleteStore(ctx, req)) }
	case "ListStores":
		req := &openfgav1.ListStoresRequest{PageSize: r.pageSize(), ContinuationToken: r.Token.S(), Name: r.Name.S()}
		req, wire := viaWire(req)
		return req, wire, func(ctx context.Context) (proto.Message, error) { return nilIfNil(s.ListStores(ctx, req)) }
	case "Evaluation":
		req := &authzenv1.EvaluationRequest{StoreId: store, Subject: r.subject(), Resource: r.resource(), Action: r.action(), Context: r.Ctx.Struct()}
		req, wire := viaWire(req)
		return req, wire, func(ctx context.Context) (proto.Message, error) { return nilIfNil(s.Evaluation(withHeader(ctx), req)) }
	case "Evaluations":
		req := &authzenv1.EvaluationsRequest{StoreId: store, Subject: r.subject(), Resource: r.resource(), Action: r.action(), Context: r.Ctx.Struct()}
		if !r.NoOptions {
			req.Options = &authzenv1.EvaluationsOptions{EvaluationsSemantic: authzenv1.EvaluationsSemantic(r.Semantic)}
		}
		for _, it := range r.items() {
			ev := &authzenv1.EvaluationsItemRequest{Context: it.Ctx.Struct()}
			if !it.NilKey {
				ut, uid := splitFirst(it.T.User.S())
				ot, oid := splitFirst(it.T.Object.S())
				ev.Subject = &authzenv1.Subject{Type: ut, Id: uid}
				ev.Resource = &authzenv1.Resource{Type: ot, Id: oid}
				ev.Action = &authzenv1.Action{Name: it.T.Relation.S()}
			}
			req.Evaluations = append(req.Evaluations, ev)
		}
		req, wire := viaWire(req)
		return req, wire, func(ctx context.Context) (proto.Message, error) { return nilIfNil(s.Evaluations(withHeader(ctx), req)) }
	case "SubjectSearch":
		req := &authzenv1.SubjectSearchRequest{StoreId: store, Resource: r.resource(), Action: r.action(), Context: r.Ctx.Struct()}
		if !r.NilSubj {
			typ, _ := splitFirst(r.T.User.S())
			req.Subject = &authzenv1.SubjectFilter{Type: typ, Properties: r.SubjProps.Struct()}
		}
		req, wire := viaWire(req)
		return req, wire, func(ctx context.Context) (proto.Message, error) {
			return nilIfNil(s.SubjectSearch(withHeader(ctx), req))
		}
	case "ResourceSearch":
		req := &authzenv1.ResourceSearchRequest{StoreId: store, Subject: r.subject(), Action: r.action(), Context: r.Ctx.Struct()}
		if !r.NilRes {
			req.Resource = &authzenv1.ResourceFilter{Type: r.Type.S(), Properties: r.ResProps.Struct()}
		}
		req, wire := viaWire(req)
		return req, wire, func(ctx context.Context) (proto.Message, error) {
			return nilIfNil(s.ResourceSearch(withHeader(ctx), req))
		}
	case "ActionSearch":
		req := &authzenv1.ActionSearchRequest{StoreId: store, Subject: r.subject(), Resource: r.resource(), Context: r.Ctx.Struct()}
		req, wire := viaWire(req)
		return req, wire, func(ctx context.Context) (proto.Message, error) {
			return nilIfNil(s.ActionSearch(withHeader(ctx), req))
		}
	case "GetConfiguration":
		req := &authzenv1.GetConfigurationRequest{StoreId: store}
		req, wire := viaWire(req)
		return req, wire, func(ctx context.Context) (proto.Message, error) { return nilIfNil(s.GetConfiguration(ctx, req)) }
	}
	return nil, "", nil
}

// viaWire delivers the message the way gRPC would: marshalled and unmarshalled
// into a fresh message (nil map values become empty messages, unknown enum
// values survive, ...). When the transport would refuse it (invalid UTF-8 in a
// string field, more than 4 MiB, nesting beyond protobuf's recursion limit) the
// original message is used in-process and the status says why; such inputs are
// reachable only by a caller linked into the process.
func viaWire[T proto.Message](msg T) (T, string) {
	b, err := proto.Marshal(msg)
	if err != nil {
		if strings.Contains(err.Error(), "UTF-8") {
			return msg, "invalid-utf8"
		}
		return msg, "error"
	}
	if len(b) > maxWire {
		return msg, "too-large"
	}
	fresh := msg.ProtoReflect().New().Interface().(T)
	if err := proto.Unmarshal(b, fresh); err != nil {
		switch {
		case strings.Contains(err.Error(), "UTF-8"):
			return msg, "invalid-utf8"
		case strings.Contains(err.Error(), "recursion") || strings.Contains(err.Error(), "depth"):
			return msg, "too-deep"
		}
		return msg, "error"
	}
	return fresh, "ok"
}

// nilIfNil converts a typed nil response pointer into an untyped nil
// proto.Message so that "no response" can be detected.
func nilIfNil[T interface {
	proto.Message
	comparable
}](resp T, err error) (proto.Message, error) {
	var zero T
	if resp == zero {
		return nil, err
	}
	return resp, err
}

// features names the hostile features carried by the request itself.
func (r *Req) features() map[string]bool {
	f := map[string]bool{}
	r.T.features(f)
	strFeatures(r.Type.S(), f)
	r.Ctx.features(f)
	if tok := r.Token.S(); tok != "" {
		f["token"] = true
		if negativeOffsetToken(tok) {
			f["token-negative-offset"] = true
		}
		if len(tok) > 512 {
			f["str-long"] = true
		}
	}
	if r.PageSize != nil && (*r.PageSize <= 0 || *r.PageSize > 100) {
		f["page-size-out-of-range"] = true
	}
	if len(r.Contextual)+r.ContextualN >= 50 {
		f["many-contextual"] = true
	}
	for _, t := range r.Contextual {
		t.features(f)
	}
	if len(r.Items)+r.ItemsRep+r.ItemsDup >= 40 {
		f["many-items"] = true
	}
	if r.ItemsDup > 0 {
		f["duplicate-items"] = true
	}
	for _, it := range r.Items {
		it.T.features(f)
		it.Ctx.features(f)
		strFeatures(it.Corr.S(), f)
		if it.Corr.S() == "" && r.RPC == "BatchCheck" {
			f["empty-correlation-id"] = true
		}
		for _, t := range it.Contextual {
			t.features(f)
		}
		if it.NilKey {
			f["nil-submessage"] = true
		}
	}
	if r.NilKey || r.NilSubj || r.NilRes || r.NilAct {
		f["nil-submessage"] = true
	}
	if r.Model != nil {
		r.Model.features(f)
	}
	for _, p := range []*HCtx{r.SubjProps, r.ResProps, r.ActProps} {
		p.features(f)
	}
	if r.Store == "bad" || r.ModelID == "bad" {
		f["bad-id"] = true
	}
	if r.StartSec != nil {
		f["start-time"] = true
	}
	if r.Header != nil {
		f["model-id-header"] = true
	}
	if r.Repeat >= 10 {
		f["many-distinct-values"] = true
	}
	for _, d := range r.Deletes {
		d.features(f)
	}
	return f
}

var negTokenRE = regexp.MustCompile(`^-\d+(\||$)`)

// negativeOffsetToken reports whether a continuation token decodes
// (base64url) to "<negative integer>|..." — the structural trigger of the
// known memory-backend panic.
func negativeOffsetToken(tok string) bool {
	b, err := base64.URLEncoding.DecodeString(tok)
	if err != nil {
		return false
	}
	return negTokenRE.Match(b)
}
