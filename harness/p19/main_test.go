package p19

import (
	"os"
	"testing"

	"github.com/openfga/openfga/verifharness/fw"
)

func TestMain(m *testing.M) {
	if os.Getenv(childEnv) == "1" {
		// worker process of the parent test binary: serve cases, never run tests
		ChildMain()
		os.Exit(0)
	}
	code := m.Run()
	StopWorker()
	fw.FlushAll()
	os.Exit(code)
}
