package p14

import (
	"fmt"
	"io"
	"os"
	"path/filepath"
	"sync"
	"sync/atomic"
	"time"

	"github.com/openfga/openfga/pkg/storage"
	"github.com/openfga/openfga/pkg/storage/memory"
	"github.com/openfga/openfga/pkg/storage/migrate"
	"github.com/openfga/openfga/pkg/storage/sqlcommon"
	"github.com/openfga/openfga/pkg/storage/sqlite"
)

// sqlite set-up: the schema is migrated once per process into a template file;
// every case works on its own copy.

var (
	tplOnce sync.Once
	tplDir  string
	tplErr  error
	dbSeq   atomic.Int64
)

func template() (string, error) {
	tplOnce.Do(func() {
		tplDir, tplErr = os.MkdirTemp("", "verif-p14-")
		if tplErr != nil {
			return
		}
		tplErr = migrate.RunMigrations(migrate.MigrationConfig{
			Engine: "sqlite", URI: "file:" + filepath.Join(tplDir, "template.db"),
			Timeout: 30 * time.Second, PingTimeout: 5 * time.Second,
		})
	})
	return tplDir, tplErr
}

func cleanupTemplate() {
	if tplDir != "" {
		_ = os.RemoveAll(tplDir)
	}
}

func copyFile(src, dst string) error {
	in, err := os.Open(src)
	if err != nil {
		return err
	}
	defer in.Close()
	out, err := os.Create(dst)
	if err != nil {
		return err
	}
	if _, err := io.Copy(out, in); err != nil {
		out.Close()
		return err
	}
	return out.Close()
}

// newDatastore returns a fresh, empty datastore of the given backend and a
// function that closes it and removes its files.
func newDatastore(backend string) (storage.OpenFGADatastore, func(), error) {
	switch backend {
	case "memory":
		ds := memory.New()
		return ds, func() { ds.Close() }, nil
	case "sqlite":
		dir, err := template()
		if err != nil {
			return nil, nil, err
		}
		base := filepath.Join(dir, fmt.Sprintf("case-%d.db", dbSeq.Add(1)))
		if err := copyFile(filepath.Join(dir, "template.db"), base); err != nil {
			return nil, nil, err
		}
		for _, suf := range []string{"-wal"} {
			if _, err := os.Stat(filepath.Join(dir, "template.db"+suf)); err == nil {
				if err := copyFile(filepath.Join(dir, "template.db"+suf), base+suf); err != nil {
					return nil, nil, err
				}
			}
		}
		ds, err := sqlite.New("file:"+base+"?_pragma=synchronous(OFF)", sqlcommon.NewConfig())
		if err != nil {
			return nil, nil, err
		}
		return ds, func() {
			ds.Close()
			for _, suf := range []string{"", "-wal", "-shm", "-journal"} {
				_ = os.Remove(base + suf)
			}
		}, nil
	}
	return nil, nil, fmt.Errorf("unknown backend %q", backend)
}
