package p14

import (
	"encoding/base64"
	"encoding/json"
	"fmt"
	"sort"
	"strconv"
	"strings"
	"sync"
	"testing"

	"pgregory.net/rapid"

	"github.com/openfga/openfga/verifharness/fw"
	"github.com/openfga/openfga/verifharness/m"
)

// C14, second half — malformed / foreign continuation tokens are rejected
// rather than misread.
//
// A case is a small data set holding items for all four APIs (plus a decoy
// store), a target API + filter + page size, and a list of attacks. Each attack
// turns tokens that the server really issued into a hostile token. The
// response to a hostile token must be
//   - an error, or
//   - a page that is a contiguous in-order slice of the true listing, and, when
//     the page comes with a token to continue from, following that token must
//     deliver exactly the rest of the listing (otherwise the token was misread:
//     a client that keeps following tokens would see items twice or forever);
//   - never a panic escaping the call, never an item of another store;
//   - a ReadChanges token issued for type X used with type Y != X: an error.

type Attack struct {
	// Kind: bitflip-raw, bitflip, truncate-raw, truncate, extend-raw, extend,
	// swap, payload, field, bytes, rawtoken, rawbytes.
	Kind  string `json:"kind"`
	Donor string `json:"donor,omitempty"` // swap: read | changes:<type> | stores | models | decoy-read | decoy-changes | decoy-models
	Pick  int    `json:"pick,omitempty"`  // which issued token is attacked (mod number of tokens)
	Pos   int    `json:"pos,omitempty"`   // byte position (mod length)
	Bit   int    `json:"bit,omitempty"`   // bit to flip
	Count int    `json:"count,omitempty"` // bytes to drop
	Text  string `json:"text,omitempty"`  // payload / replacement field / appended text / raw token
	Bytes []byte `json:"bytes,omitempty"` // arbitrary payload (kind bytes)
}

type TokCase struct {
	Data
	PageSize int      `json:"page_size"`
	Attacks  []Attack `json:"attacks"`
}

func enc(payload []byte) string { return base64.URLEncoding.EncodeToString(payload) }

// apply builds the hostile token. ok=false when the attack is not applicable
// (no issued token to start from).
func (a Attack) apply(issued []string, donors func(string) []string) (tok string, ok bool) {
	pick := func(list []string) (string, bool) {
		if len(list) == 0 {
			return "", false
		}
		return list[abs(a.Pick)%len(list)], true
	}
	switch a.Kind {
	case "payload":
		return enc([]byte(a.Text)), true
	case "bytes":
		return enc(a.Bytes), true
	case "rawtoken":
		return a.Text, true
	case "rawbytes":
		return string(a.Bytes), true
	case "swap":
		return pick(donors(a.Donor))
	}
	base, ok := pick(issued)
	if !ok {
		return "", false
	}
	dec, _ := base64.URLEncoding.DecodeString(base)
	switch a.Kind {
	case "bitflip-raw":
		b := []byte(base)
		b[abs(a.Pos)%len(b)] ^= 1 << (abs(a.Bit) % 8)
		return string(b), true
	case "bitflip":
		if len(dec) == 0 {
			return "", false
		}
		b := append([]byte(nil), dec...)
		b[abs(a.Pos)%len(b)] ^= 1 << (abs(a.Bit) % 8)
		return enc(b), true
	case "truncate-raw":
		k := abs(a.Count)%len(base) + 1
		return base[:len(base)-k], true
	case "truncate":
		if len(dec) == 0 {
			return "", false
		}
		k := abs(a.Count)%len(dec) + 1
		return enc(dec[:len(dec)-k]), true
	case "extend-raw":
		return base + a.Text, true
	case "extend":
		return enc(append(append([]byte(nil), dec...), a.Text...)), true
	case "field":
		// replace the first "|"-separated field of the payload, keep the rest
		_, rest, found := strings.Cut(string(dec), "|")
		if found {
			return enc([]byte(a.Text + "|" + rest)), true
		}
		return enc([]byte(a.Text)), true
	}
	return "", false
}

func abs(x int) int {
	if x < 0 {
		if x == -x { // MinInt
			return 0
		}
		return -x
	}
	return x
}

// decodedOffset returns the integer in front of the first "|" of the decoded
// token (the whole payload when there is no "|"), if it is one.
func decodedOffset(tok string) (int, bool) {
	dec, err := base64.URLEncoding.DecodeString(tok)
	if err != nil {
		return 0, false
	}
	first, _, _ := strings.Cut(string(dec), "|")
	n, err := strconv.Atoi(first)
	return n, err == nil
}

// verdict of one hostile request.
type verdict struct {
	outcome string   // rejected | empty-page | slice | chain
	p       *problem // nil = acceptable
}

// judge sends tok to the target API and applies the oracle. truth is the true
// listing of the target (API, main store, filter) in the server's own legit
// order (already verified against the documented listing).
func (fx *fixture) judge(api string, f Filter, size int, tok string, truth []string, mustReject bool) verdict {
	pg, err := fx.call(api, fx.store, f, size, tok)
	if err != nil {
		if pe, ok := err.(*panicError); ok {
			return verdict{"panic", &problem{"panic", fmt.Sprintf("%v\n%s", pe, pe.stack)}}
		}
		return verdict{"rejected", nil}
	}
	if mustReject {
		return verdict{"accepted", &problem{"type-mismatch-accepted", fmt.Sprintf("a ReadChanges token issued for another type filter was accepted with type %q; page %v", f.Type, pg.items)}}
	}
	if len(pg.items) > size {
		return verdict{"page", &problem{"page-too-large", fmt.Sprintf("%d items for page size %d", len(pg.items), size)}}
	}
	in := map[string]bool{}
	for _, it := range truth {
		in[it] = true
	}
	for _, it := range pg.items {
		if !in[it] {
			return verdict{"page", &problem{"foreign", fmt.Sprintf("%q is not an item of the listing (other store / deleted / filtered out); page %v", it, pg.items)}}
		}
	}
	if len(pg.items) == 0 {
		return verdict{"empty-page", nil}
	}
	if len(sliceOffsets(truth, pg.items, false)) == 0 {
		return verdict{"page", &problem{"not-a-slice", fmt.Sprintf("page %v is not a contiguous in-order slice of the listing %v", pg.items, truth)}}
	}
	if pg.next == "" {
		return verdict{"slice", nil}
	}
	// The server says "continue from here": the rest must follow.
	rest, p := fx.follow(api, fx.store, f, size, pg.next, len(truth))
	if p != nil {
		if p.kind == "panic" || p.kind == "no-termination" || p.kind == "page-too-large" {
			return verdict{"chain", &problem{"continuation-" + p.kind, fmt.Sprintf("first page %v, then: %s", pg.items, p.msg)}}
		}
		if p.kind == "error" {
			// the continuation of a hostile token may be refused as well
			return verdict{"slice", nil}
		}
		return verdict{"chain", &problem{"continuation-" + p.kind, p.msg}}
	}
	chain := append(append([]string(nil), pg.items...), rest.items...)
	if len(sliceOffsets(truth, chain, true)) == 0 {
		return verdict{"chain", &problem{"continuation-misread", fmt.Sprintf("the page %v came with token %s; following it gives %v, which together is not the rest of the listing %v", pg.items, describeToken(pg.next), rest.items, truth)}}
	}
	return verdict{"chain", nil}
}

// sliceOffsets returns every i with truth[i:i+len(part)] == part (suffixOnly:
// additionally i+len(part) == len(truth)).
func sliceOffsets(truth, part []string, suffixOnly bool) []int {
	var out []int
	for i := 0; i+len(part) <= len(truth); i++ {
		if suffixOnly && i+len(part) != len(truth) {
			continue
		}
		eq := true
		for k := range part {
			if truth[i+k] != part[k] {
				eq = false
				break
			}
		}
		if eq {
			out = append(out, i)
		}
	}
	return out
}

// tokenSig gives a failure its root-cause signature.
func tokenSig(d Data, tok string, truthLen int, p *problem) string {
	off, isInt := decodedOffset(tok)
	if d.Backend == "memory" && d.API == apiRead && isInt {
		if off < 0 && p.kind == "panic" {
			return "C14/memory-read-negative-offset-panic"
		}
		// the first page restarts at item 0 and the issued token is offset+size:
		// the walk never ends, or (offset near MaxInt) wraps to a negative offset
		if off > truthLen && strings.HasPrefix(p.kind, "continuation-") {
			return "C14/memory-read-offset-past-end-restarts"
		}
	}
	return fmt.Sprintf("C14/token-%s-%s-%s", d.API, d.Backend, p.kind)
}

// legit walks the target listing with the given size, verifies it against the
// documented listing and returns it together with the tokens issued.
func (fx *fixture) legit(api, store string, f Filter, size int, groups [][]string) (*traversal, *problem) {
	tr, p := fx.follow(api, store, f, size, "", total(groups))
	if p != nil {
		return tr, p
	}
	items := tr.items
	if api == apiChanges {
		items = number(items)
	}
	return tr, compareListing(items, groups)
}

func checkTokens(env *fw.Env, c TokCase) *fw.Failure {
	if c.Backend != "memory" && c.Backend != "sqlite" {
		env.Rec.Discard("unknown-backend")
		return nil
	}
	if _, ok := simulate(c.Ops); !ok {
		env.Rec.Discard("invalid-history")
		return nil
	}
	size := c.PageSize
	if size < 1 || size > 100 {
		env.Rec.Discard("page-size-out-of-range")
		return nil
	}
	fx, err := build(c.Data)
	if err != nil {
		return fw.Failf("C14/setup", "cannot build the data set: %v", err)
	}
	defer fx.Close()

	groups := fx.expected(c.API, c.Filter)
	tr, p := fx.legit(c.API, fx.store, c.Filter, size, groups)
	if p != nil {
		return fw.Failf(sig(c.Data, p.kind), "legit traversal of %s on %s, %s, page size %d: %s\nexpected %v\ngot %v", c.API, c.Backend, describeFilter(c.API, c.Filter), size, p, groups, tr.items)
	}
	truth := tr.items
	issued := map[string]bool{}
	for _, t := range tr.tokens {
		issued[t] = true
	}

	// donor tokens, walked lazily with page size 1
	donorCache := map[string][]string{}
	donors := func(name string) []string {
		if v, ok := donorCache[name]; ok {
			return v
		}
		api, store, f := "", fx.store, Filter{}
		switch {
		case name == "read":
			api = apiRead
		case strings.HasPrefix(name, "changes:"):
			api, f.Type = apiChanges, strings.TrimPrefix(name, "changes:")
		case name == "stores":
			api = apiStores
		case name == "models":
			api = apiModels
		case name == "decoy-read":
			api, store = apiRead, fx.decoy
		case name == "decoy-changes":
			api, store = apiChanges, fx.decoy
		case name == "decoy-models":
			api, store = apiModels, fx.decoy
		default:
			donorCache[name] = nil
			return nil
		}
		dt, _ := fx.follow(api, store, f, 1, "", 64)
		donorCache[name] = dt.tokens
		return dt.tokens
	}

	labels := map[string]bool{c.API + "/" + c.Backend: true}
	hostile := 0
	for i, a := range c.Attacks {
		tok, ok := a.apply(tr.tokens, donors)
		if !ok {
			labels["attack-not-applicable"] = true
			continue
		}
		mustReject := false
		if a.Kind == "swap" && c.API == apiChanges && strings.HasPrefix(a.Donor, "changes:") && strings.TrimPrefix(a.Donor, "changes:") != c.Filter.Type && tok != "" {
			mustReject = true
		}
		if !issued[tok] && tok != "" {
			hostile++
		}
		v := fx.judge(c.API, c.Filter, size, tok, truth, mustReject)
		labels["attack:"+a.Kind] = true
		labels["outcome:"+v.outcome] = true
		labels[c.API+"/"+c.Backend+"/"+v.outcome] = true
		if a.Kind == "swap" {
			labels["swap:"+strings.SplitN(a.Donor, ":", 2)[0]+"->"+c.API] = true
		}
		if v.p != nil {
			sg := tokenSig(c.Data, tok, len(truth), v.p)
			if fw.IsKnown(sg) && !env.Replay {
				// a recorded defect: count it and keep judging the other attacks of the case
				env.Rec.Known(sg)
				labels["known-finding-hit"] = true
				continue
			}
			return fw.Failf(sg, "attack %d %+v on %s/%s (%s, page size %d, %d items): token %s: %s",
				i, a, c.API, c.Backend, describeFilter(c.API, c.Filter), size, len(truth), describeToken(tok), v.p)
		}
	}
	if len(truth) > size {
		labels["pages>=2"] = true
	}
	// NT: the target listing spans >= 2 pages and at least one token that the
	// server never issued for this listing was sent.
	nt := len(truth) > size && hostile > 0
	var ls []string
	for l := range labels {
		ls = append(ls, l)
	}
	sort.Strings(ls)
	var sample any
	if nt {
		sample = map[string]any{"api": c.API, "backend": c.Backend, "items": len(truth), "page_size": size, "attacks": len(c.Attacks), "first_attack": fmt.Sprintf("%+v", c.Attacks[0])}
	}
	env.Rec.Case(c, nt, sample, ls...)
	return nil
}

// ---------------------------------------------------------------------------
// generator

var attackKinds = []string{"bitflip-raw", "bitflip", "truncate-raw", "truncate", "extend-raw", "extend", "swap", "swap", "payload", "payload", "field", "field", "bytes", "rawtoken"}

var donorNames = []string{"read", "changes:", "changes:doc", "changes:folder", "changes:group", "stores", "models", "decoy-read", "decoy-changes", "decoy-models"}

var edgeFields = []string{
	"-1", "-5", "0", "1", "2", "3", "7", "12", "13", "-0", "+2", " 1", "1 ", "01", "0x10", "1e3", "1.0",
	"1000000000", "2147483647", "2147483648", "4294967296", "9223372036854775807", "9223372036854775808",
	"-9223372036854775808", "-9223372036854775809", "18446744073709551616", "99999999999999999999999999",
	"", "|", "00000000000000000000000000", "7ZZZZZZZZZZZZZZZZZZZZZZZZZ", "8ZZZZZZZZZZZZZZZZZZZZZZZZZ", "ZZZZZZZZZZZZZZZZZZZZZZZZZZ",
	"0000000000000000000000000", "000000000000000000000000000", "01ARZ3NDEKTSV4RRFFQ69G5FAV", "01arz3ndektsv4rrffq69g5fav", "IIIIIIIIIIIIIIIIIIIIIIIIII",
	"' OR 1=1 --", "%", "_", "\x00",
}

func genAttack(t *rapid.T) Attack {
	a := Attack{Kind: rapid.SampledFrom(attackKinds).Draw(t, "kind")}
	switch a.Kind {
	case "bitflip-raw", "bitflip":
		a.Pick = rapid.IntRange(0, 7).Draw(t, "pick")
		a.Pos = rapid.IntRange(0, 63).Draw(t, "pos")
		a.Bit = rapid.IntRange(0, 7).Draw(t, "bit")
	case "truncate-raw", "truncate":
		a.Pick = rapid.IntRange(0, 7).Draw(t, "pick")
		a.Count = rapid.IntRange(0, 40).Draw(t, "count")
	case "extend-raw":
		a.Pick = rapid.IntRange(0, 7).Draw(t, "pick")
		a.Text = rapid.SampledFrom([]string{"A", "AA", "AAA", "AAAA", "=", "==", "-", "_", "fA==", "MDAwfA=="}).Draw(t, "text")
	case "extend":
		a.Pick = rapid.IntRange(0, 7).Draw(t, "pick")
		a.Text = rapid.SampledFrom([]string{"0", "|", "|doc", "||", "x", "Z", " ", "\x00", "9999999999999999999"}).Draw(t, "text")
	case "swap":
		a.Donor = rapid.SampledFrom(donorNames).Draw(t, "donor")
		a.Pick = rapid.IntRange(0, 7).Draw(t, "pick")
	case "payload":
		field := rapid.SampledFrom(edgeFields).Draw(t, "field")
		typ := rapid.SampledFrom([]string{"", "doc", "folder", "nosuch", "|"}).Draw(t, "ptype")
		switch rapid.IntRange(0, 3).Draw(t, "shape") {
		case 0:
			a.Text = field + "|"
		case 1:
			a.Text = field
		case 2:
			a.Text = field + "|" + typ
		default:
			a.Text = "|" + field
		}
	case "field":
		a.Pick = rapid.IntRange(0, 7).Draw(t, "pick")
		a.Text = rapid.SampledFrom(edgeFields).Draw(t, "field")
	case "bytes":
		a.Bytes = rapid.SliceOfN(rapid.Byte(), 0, 40).Draw(t, "bytes")
	case "rawtoken":
		a.Text = rapid.StringOfN(rapid.RuneFrom([]rune("ABCDEFabcdef0123456789-_=|+/ ")), 1, 40, -1).Draw(t, "raw")
	}
	return a
}

func genTokCase(t *rapid.T) TokCase {
	api := rapid.SampledFrom(allAPIs).Draw(t, "api")
	d := Data{Backend: rapid.SampledFrom([]string{"memory", "sqlite"}).Draw(t, "backend"), API: api}
	d.Ops = genOps(t, rapid.IntRange(3, 14).Draw(t, "nOps"), 20)
	d.Decoy = genDecoy(t)
	d.Stores = genStores(t, rapid.IntRange(0, 4).Draw(t, "nStores"))
	d.Models = rapid.IntRange(2, 5).Draw(t, "nModels")
	d.DecoyModels = rapid.IntRange(1, 3).Draw(t, "nDecoyModels")
	switch api {
	case apiRead:
		if rapid.IntRange(0, 3).Draw(t, "filtered") == 0 {
			d.Filter = genReadFilter(t, d.Ops)
		}
	case apiChanges:
		d.Filter.Type = rapid.SampledFrom([]string{"", "", "doc", "folder", "group"}).Draw(t, "type")
	case apiStores:
		d.Filter.Name = rapid.SampledFrom([]string{"", "", "", "alpha"}).Draw(t, "name")
	}
	n := expectedLen(d)
	hi := n - 1
	if hi < 1 {
		hi = 1
	}
	if hi > 4 {
		hi = 4
	}
	c := TokCase{Data: d, PageSize: rapid.IntRange(1, hi).Draw(t, "pageSize")}
	na := rapid.IntRange(4, 12).Draw(t, "nAttacks")
	for i := 0; i < na; i++ {
		c.Attacks = append(c.Attacks, genAttack(t))
	}
	return c
}

func TestC14Tokens(t *testing.T) { fw.Run(t, "C14", genTokCase, checkTokens) }

// ---------------------------------------------------------------------------
// Native fuzz target (thorough tier): bytes -> token -> Read / ReadChanges on a
// small fixed store, same oracle (judge). A crasher is reported as a TokCase
// JSON that TestC14Tokens replays (VERIF_REPLAY).

var fuzzData = Data{
	Ops: []Op{
		{Batch: 0, T: m.Tuple{Object: "doc:0", Relation: "viewer", User: "user:0"}},
		{Batch: 0, T: m.Tuple{Object: "doc:1", Relation: "viewer", User: "user:1"}},
		{Batch: 1, T: m.Tuple{Object: "folder:0", Relation: "editor", User: "user:*"}},
		{Batch: 2, T: m.Tuple{Object: "doc:2", Relation: "viewer", User: "group:0#member", Cond: "c1"}},
		{Batch: 3, Delete: true, T: m.Tuple{Object: "doc:1", Relation: "viewer", User: "user:1"}},
		{Batch: 4, T: m.Tuple{Object: "group:0", Relation: "member", User: "user:2"}},
		{Batch: 5, T: m.Tuple{Object: "doc:1", Relation: "viewer", User: "user:1"}},
		{Batch: 6, T: m.Tuple{Object: "doc:3", Relation: "editor", User: "user:3"}},
	},
	Decoy:       []m.Tuple{{Object: "doc:x0", Relation: "viewer", User: "user:0"}, {Object: "doc:x1", Relation: "viewer", User: "user:1"}, {Object: "folder:x0", Relation: "viewer", User: "user:1"}},
	Models:      2,
	DecoyModels: 1,
}

type fuzzFixture struct {
	fx    *fixture
	truth map[string][]string // api + "/" + type -> listing
	err   error
}

var (
	fuzzOnce sync.Once
	fuzzFx   map[string]*fuzzFixture
)

func fuzzFixtures() map[string]*fuzzFixture {
	fuzzOnce.Do(func() {
		fuzzFx = map[string]*fuzzFixture{}
		for _, be := range []string{"memory", "sqlite"} {
			d := fuzzData
			d.Backend = be
			ff := &fuzzFixture{truth: map[string][]string{}}
			fuzzFx[be] = ff
			fx, err := build(d)
			if err != nil {
				ff.err = err
				continue
			}
			ff.fx = fx
			for _, key := range []string{apiRead + "/", apiChanges + "/", apiChanges + "/doc"} {
				api, typ, _ := strings.Cut(key, "/")
				f := Filter{Type: typ}
				tr, p := fx.legit(api, fx.store, f, 100, fx.expected(api, f))
				if p != nil {
					ff.err = fmt.Errorf("legit traversal %s: %s", key, p)
					break
				}
				ff.truth[key] = tr.items
			}
		}
	})
	return fuzzFx
}

func FuzzC14Token(f *testing.F) {
	for _, s := range []string{"", "2|", "-5|", "1000000000|", "|", "|doc", "01ARZ3NDEKTSV4RRFFQ69G5FAV|", "01ARZ3NDEKTSV4RRFFQ69G5FAV|doc", "7ZZZZZZZZZZZZZZZZZZZZZZZZZ|", "9223372036854775808|"} {
		for sel := 0; sel < 8; sel++ {
			f.Add([]byte(s), uint8(sel))
		}
	}
	f.Fuzz(func(t *testing.T, data []byte, sel uint8) {
		backend := []string{"memory", "sqlite"}[sel&1]
		api, typ := apiRead, ""
		switch (sel >> 1) & 3 {
		case 1:
			api = apiChanges
		case 2:
			api, typ = apiChanges, "doc"
		}
		size := int(sel>>5)%3 + 1
		ff := fuzzFixtures()[backend]
		if ff.err != nil {
			t.Fatalf("fixture: %v", ff.err)
		}
		att := Attack{Kind: "bytes", Bytes: data}
		tok := enc(data)
		if sel&(1<<3) != 0 {
			att = Attack{Kind: "rawbytes", Bytes: data}
			tok = string(data)
		}
		filter := Filter{Type: typ}
		truth := ff.truth[api+"/"+typ]
		v := ff.fx.judge(api, filter, size, tok, truth, false)
		if v.p == nil {
			return
		}
		d := fuzzData
		d.Backend, d.API, d.Filter = backend, api, filter
		sg := tokenSig(d, tok, len(truth), v.p)
		if fw.IsKnown(sg) {
			return
		}
		replay, _ := json.Marshal(map[string]any{"property": "C14", "signature": sg, "case": TokCase{Data: d, PageSize: size, Attacks: []Attack{att}}})
		t.Fatalf("C14 violated [%s]: token %s on %s/%s page size %d: %s\nreplay file for TestC14Tokens (VERIF_REPLAY): %s", sg, describeToken(tok), api, backend, size, v.p, replay)
	})
}
