package p14

import (
	"encoding/base64"
	"fmt"
	"sort"
	"testing"
	"time"

	"pgregory.net/rapid"

	"github.com/openfga/openfga/verifharness/fw"
)

// C14 — paginated reads return every item exactly once.
//
// A case is one data set on one backend, one API, one filter. The check
// follows continuation tokens from the first page to the documented end, for
// EVERY page size 1..n+1 when the listing has n <= 12 items and for the page
// sizes of the case otherwise, and compares the concatenation of the pages
// with the listing computed by the harness's own R-store (data_test.go).

type Case struct {
	Data
	// PageSizes is used when the listing has more than 12 items.
	PageSizes []int `json:"page_sizes,omitempty"`
}

const exhaustiveUpTo = 12

func maxItems() int {
	if fw.TierIsThorough() {
		return 200
	}
	return 40
}

// genSizes draws page sizes for a listing of n > 12 items, aiming at the
// boundary classes n mod size in {0, 1, size-1}.
func genSizes(t *rapid.T, n int) []int {
	hi := n + 1
	if hi > 100 { // the API accepts page sizes 1..100
		hi = 100
	}
	var out []int
	for i := 0; i < 3; i++ {
		cls := rapid.IntRange(0, 3).Draw(t, "sizeClass")
		var cands []int
		for s := 1; s <= hi; s++ {
			switch {
			case cls == 0 && n%s == 0, cls == 1 && n%s == 1, cls == 2 && n%s == s-1 && s <= n, cls == 3:
				cands = append(cands, s)
			}
		}
		if len(cands) == 0 {
			cands = []int{1, hi}
		}
		out = append(out, rapid.SampledFrom(cands).Draw(t, "size"))
	}
	return out
}

func genData(t *rapid.T, api string, n int) Data {
	d := Data{Backend: rapid.SampledFrom([]string{"memory", "sqlite"}).Draw(t, "backend"), API: api}
	switch api {
	case apiRead:
		d.Ops = genOps(t, n, 10)
		d.Decoy = genDecoy(t)
		d.Filter = genReadFilter(t, d.Ops)
	case apiChanges:
		d.Ops = genOps(t, n, 25)
		d.Decoy = genDecoy(t)
		d.Filter.Type = rapid.SampledFrom([]string{"", "", "", "doc", "folder", "group", "nosuch"}).Draw(t, "type")
	case apiStores:
		d.Stores = genStores(t, n)
		d.Filter.Name = rapid.SampledFrom([]string{"", "", "", "alpha", "beta", "gamma", mainStoreName}).Draw(t, "name")
	case apiModels:
		d.Models = n
		d.DecoyModels = rapid.IntRange(0, 3).Draw(t, "decoyModels")
	}
	return d
}

func genCase(t *rapid.T) Case {
	api := rapid.SampledFrom(allAPIs).Draw(t, "api")
	hi := 40
	if maxItems() > 40 && rapid.IntRange(0, 9).Draw(t, "large") < 3 {
		hi = maxItems()
	}
	n := rapid.IntRange(0, hi).Draw(t, "n")
	c := Case{Data: genData(t, api, n)}
	if m := expectedLen(c.Data); m > exhaustiveUpTo {
		c.PageSizes = genSizes(t, m)
	}
	return c
}

func sig(d Data, kind string) string { return fmt.Sprintf("C14/%s-%s-%s", d.API, d.Backend, kind) }

func checkC14(env *fw.Env, c Case) *fw.Failure {
	if c.Backend != "memory" && c.Backend != "sqlite" {
		env.Rec.Discard("unknown-backend")
		return nil
	}
	if _, ok := simulate(c.Ops); !ok {
		env.Rec.Discard("invalid-history")
		return nil
	}
	t0 := time.Now()
	fx, err := build(c.Data)
	if err != nil {
		return fw.Failf("C14/setup", "cannot build the data set: %v", err)
	}
	t1 := time.Now()
	defer func() { // cost accounting only, never part of the oracle
		t2 := time.Now()
		fx.Close()
		env.Rec.Add("us_build_"+c.Backend, int(t1.Sub(t0).Microseconds()))
		env.Rec.Add("us_page_"+c.Backend, int(t2.Sub(t1).Microseconds()))
		env.Rec.Add("us_close_"+c.Backend, int(time.Since(t2).Microseconds()))
		env.Rec.Add("cases_"+c.Backend, 1)
	}()

	groups := fx.expected(c.API, c.Filter)
	n := total(groups)

	var sizes []int
	if n <= exhaustiveUpTo {
		for s := 1; s <= n+1; s++ {
			sizes = append(sizes, s)
		}
	} else {
		sizes = append(sizes, c.PageSizes...)
		if len(sizes) == 0 {
			sizes = []int{1, 7, n}
		}
	}

	labels := map[string]bool{}
	base := c.API + "/" + c.Backend
	labels[base] = true
	nt := false
	var firstToken string
	for _, size := range sizes {
		if size < 1 || size > 100 {
			continue
		}
		tr, p := fx.follow(c.API, fx.store, c.Filter, size, "", n)
		if c.API == apiChanges {
			tr.items = number(tr.items)
		}
		if p == nil {
			p = compareListing(tr.items, groups)
		}
		if p != nil {
			return fw.Failf(sig(c.Data, p.kind), "%s on %s, %s, page size %d, %d expected items: %s\nexpected (documented order, groups unordered inside): %v\ngot: %v",
				c.API, c.Backend, describeFilter(c.API, c.Filter), size, n, p, groups, tr.items)
		}
		if firstToken == "" && len(tr.tokens) > 0 {
			firstToken = tr.tokens[0]
		}
		// NT: n > page size, i.e. the listing spans at least two pages.
		if n > size {
			nt = true
			labels[base+"/pages>=2"] = true
			if n%size == 0 {
				labels["rem=0"] = true
				labels[base+"/rem=0"] = true
			}
			if size > 1 && n%size == 1 {
				labels["rem=1"] = true
				labels[base+"/rem=1"] = true
			}
			if size > 1 && n%size == size-1 {
				labels["rem=size-1"] = true
				labels[base+"/rem=size-1"] = true
			}
		}
	}
	if n <= exhaustiveUpTo {
		labels["exhaustive-sizes"] = true
	} else {
		labels["sampled-sizes"] = true
	}
	if n == 0 {
		labels["empty-listing"] = true
	}
	if c.API == apiRead && c.Filter != (Filter{}) {
		labels["read-filtered"] = true
	}

	// A ReadChanges token is bound to the type filter it was issued for.
	if c.API == apiChanges && firstToken != "" {
		others := []string{"doc", "folder"}
		if c.Filter.Type != "" {
			others = []string{"", "doc"}
			if c.Filter.Type == "doc" {
				others = []string{"", "group"}
			}
		}
		for _, ot := range others {
			pg, err := fx.call(apiChanges, fx.store, Filter{Type: ot}, 2, firstToken)
			if pe, ok := err.(*panicError); ok {
				return fw.Failf(sig(c.Data, "panic"), "ReadChanges with a token issued for type %q and type %q: %v\n%s", c.Filter.Type, ot, pe, pe.stack)
			}
			if err == nil {
				return fw.Failf(sig(c.Data, "type-mismatch-accepted"), "ReadChanges accepted a token issued for type %q together with type %q and returned %v", c.Filter.Type, ot, pg.items)
			}
		}
		labels["changes-type-mismatch-rejected"] = true
	}

	var ls []string
	for l := range labels {
		ls = append(ls, l)
	}
	sort.Strings(ls)
	var sample any
	if nt {
		sample = map[string]any{"api": c.API, "backend": c.Backend, "filter": describeFilter(c.API, c.Filter), "items": n, "page_sizes": sizes}
	}
	env.Rec.Case(c, nt, sample, ls...)
	return nil
}

func TestC14(t *testing.T) { fw.Run(t, "C14", genCase, checkC14) }

// describeToken renders a token with its decoded payload for messages.
func describeToken(tok string) string {
	if tok == "" {
		return `""`
	}
	b, err := base64.URLEncoding.DecodeString(tok)
	if err != nil {
		return fmt.Sprintf("%q (not base64)", tok)
	}
	return fmt.Sprintf("%q (payload %q)", tok, string(b))
}
