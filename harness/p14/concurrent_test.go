package p14

import (
	"context"
	"fmt"
	"sync"
	"testing"

	openfgav1 "github.com/openfga/api/proto/openfga/v1"
	"google.golang.org/protobuf/types/known/wrapperspb"
	"pgregory.net/rapid"

	"github.com/openfga/openfga/verifharness/fw"
	"github.com/openfga/openfga/verifharness/m"
	"github.com/openfga/openfga/verifharness/sut"
)

// TestC14Concurrent — paginated ReadChanges after CONCURRENT writers.
//
// W writers issue M single-tuple Writes each, concurrently (real goroutines),
// against the in-memory backend; afterwards ReadChanges is walked with several
// page sizes. Oracle (independent of the unknowable commit order): every paged
// walk visits every written tuple exactly once, and visits them in the same
// order as one oversized page (which needs no continuation token). A changelog
// whose continuation tokens do not follow commit order skips entries.
//
// Non-trivial: >= 2 writers and the walk spans >= 2 pages.

type ConcCase struct {
	Writers  int   `json:"writers"`
	PerWrite int   `json:"per_writer"`
	Pages    []int `json:"pages"`
}

func genConc(t *rapid.T) ConcCase {
	c := ConcCase{Writers: rapid.IntRange(2, 8).Draw(t, "writers"), PerWrite: rapid.IntRange(5, 25).Draw(t, "perWriter")}
	n := rapid.IntRange(1, 3).Draw(t, "nPages")
	for i := 0; i < n; i++ {
		c.Pages = append(c.Pages, []int{1, 2, 3, 7, 10, 50}[rapid.IntRange(0, 5).Draw(t, "page")])
	}
	return c
}

func walkChanges(s *sut.SUT, storeID string, page int32) ([]string, error) {
	var out []string
	token := ""
	for guard := 0; guard < 100000; guard++ {
		resp, err := s.Srv.ReadChanges(context.Background(), &openfgav1.ReadChangesRequest{StoreId: storeID, PageSize: wrapperspb.Int32(page), ContinuationToken: token})
		if err != nil {
			return out, err
		}
		for _, ch := range resp.GetChanges() {
			tk := ch.GetTupleKey()
			out = append(out, tk.GetObject()+"#"+tk.GetRelation()+"@"+tk.GetUser())
		}
		if len(resp.GetChanges()) == 0 {
			return out, nil
		}
		token = resp.GetContinuationToken()
		if token == "" {
			return out, nil
		}
	}
	return out, fmt.Errorf("paging did not terminate")
}

func checkConc(env *fw.Env, c ConcCase) *fw.Failure {
	if c.Writers == 0 {
		env.Rec.Discard("replay-file-of-another-test")
		return nil
	}
	s := sut.New()
	defer s.Close()
	storeID := s.CreateStore("verif")
	mo := &m.Model{Types: []m.TypeDef{{Name: "user"}, {Name: "doc", Relations: []m.Relation{{Name: "viewer", Rewrite: &m.Rewrite{Kind: m.This}, Restr: []m.Restriction{{Type: "user"}}}}}}}
	modelID, err := s.WriteModel(storeID, mo)
	if err != nil {
		return fw.Failf("harness/model", "%v", err)
	}
	var wg sync.WaitGroup
	start := make(chan struct{})
	errs := make(chan error, c.Writers*c.PerWrite)
	for w := 0; w < c.Writers; w++ {
		wg.Add(1)
		go func(w int) {
			defer wg.Done()
			<-start
			for i := 0; i < c.PerWrite; i++ {
				if err := s.WriteAPI(storeID, modelID, []m.Tuple{{Object: fmt.Sprintf("doc:%d", i), Relation: "viewer", User: fmt.Sprintf("user:w%d", w)}}); err != nil {
					errs <- err
				}
			}
		}(w)
	}
	close(start)
	wg.Wait()
	close(errs)
	for err := range errs {
		return fw.Failf("", "a Write of a fresh tuple failed: %v", err)
	}
	total := c.Writers * c.PerWrite
	oneShot, err := walkChanges(s, storeID, 100)
	if err != nil {
		return fw.Failf("", "ReadChanges failed: %v", err)
	}
	if total <= 100 && len(oneShot) != total {
		return fw.Failf("", "%d writes, but one page of 100 lists %d changes", total, len(oneShot))
	}
	classes := []string{fmt.Sprintf("writers:%d", c.Writers)}
	multi := false
	for _, p := range c.Pages {
		got, err := walkChanges(s, storeID, int32(p))
		if err != nil {
			return fw.Failf("", "ReadChanges (page size %d) failed: %v", p, err)
		}
		seen := map[string]int{}
		for _, k := range got {
			seen[k]++
		}
		if len(got) != total || len(seen) != total {
			return fw.Failf("C14/concurrent-writers-paged-walk-skips-or-repeats", "%d concurrent writers x %d writes = %d changes; walking ReadChanges with page size %d visited %d entries (%d distinct): entries are skipped or repeated",
				c.Writers, c.PerWrite, total, p, len(got), len(seen))
		}
		if total <= 100 {
			for i := range got {
				if got[i] != oneShot[i] {
					return fw.Failf("", "page size %d: entry %d is %s, one page of 100 has %s there (order differs)", p, i, got[i], oneShot[i])
				}
			}
		}
		if p < total {
			multi = true
		}
		classes = append(classes, fmt.Sprintf("page:%d", p))
	}
	env.Rec.Case(c, multi, map[string]any{"writers": c.Writers, "per_writer": c.PerWrite, "pages": c.Pages}, classes...)
	return nil
}

func TestC14Concurrent(t *testing.T) { fw.Run(t, "C14", genConc, checkConc) }
