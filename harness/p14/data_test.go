package p14

import (
	"context"
	"fmt"
	"runtime/debug"
	"sort"
	"strings"

	openfgav1 "github.com/openfga/api/proto/openfga/v1"
	"google.golang.org/protobuf/types/known/wrapperspb"
	"pgregory.net/rapid"

	"github.com/openfga/openfga/verifharness/conv"
	"github.com/openfga/openfga/verifharness/m"
	"github.com/openfga/openfga/verifharness/sut"
)

// ---------------------------------------------------------------------------
// The data set of a case. Everything is plain JSON; the fixture (server,
// stores, ids) is rebuilt from it.

const (
	apiRead    = "read"
	apiChanges = "changes"
	apiStores  = "stores"
	apiModels  = "models"

	mainStoreName  = "main"
	decoyStoreName = "decoy"
)

var allAPIs = []string{apiRead, apiChanges, apiStores, apiModels}

// Op is one tuple write or delete. Ops carrying the same Batch number are
// sent in ONE datastore Write call; batch numbers never decrease.
type Op struct {
	Batch  int     `json:"batch"`
	Delete bool    `json:"delete,omitempty"`
	T      m.Tuple `json:"t"`
}

// StoreSpec is one extra store (besides "main" and "decoy").
type StoreSpec struct {
	Name    string `json:"name"`
	Deleted bool   `json:"deleted,omitempty"`
}

// Filter holds the request filter of whichever API is exercised.
type Filter struct {
	Object   string `json:"object,omitempty"`   // Read: "type:id" or "type:"
	Relation string `json:"relation,omitempty"` // Read
	User     string `json:"user,omitempty"`     // Read
	Type     string `json:"type,omitempty"`     // ReadChanges
	Name     string `json:"name,omitempty"`     // ListStores
}

// Data is the content of one datastore.
type Data struct {
	Backend     string      `json:"backend"`
	API         string      `json:"api"` // the API under test
	Ops         []Op        `json:"ops,omitempty"`
	Decoy       []m.Tuple   `json:"decoy,omitempty"` // tuples of the second store (objects ids start with "x")
	Stores      []StoreSpec `json:"stores,omitempty"`
	Models      int         `json:"models,omitempty"`
	DecoyModels int         `json:"decoy_models,omitempty"`
	Filter      Filter      `json:"filter"`
}

// ---------------------------------------------------------------------------
// R-store: what the documentation says each listing must contain, and in which
// order. A listing is described as a sequence of groups: groups are totally
// ordered, the order inside a group is not prescribed.
//   Read               : one group (no order is documented for Read)
//   ReadChanges        : one group per Write call, in commit order
//   ListStores         : singletons, ascending id
//   ReadAuthorizationModels : singletons, newest first

func tupleItem(object, relation, user, cond string) string {
	s := object + "#" + relation + "@" + user
	if cond != "" {
		s += "[" + cond + "]"
	}
	return s
}

func changeItem(del bool, object, relation, user, cond string) string {
	if del {
		// the condition of a deleted tuple is not part of the change entry
		return "D " + tupleItem(object, relation, user, "")
	}
	return "W " + tupleItem(object, relation, user, cond)
}

func objectType(object string) string {
	if i := strings.IndexByte(object, ':'); i >= 0 {
		return object[:i]
	}
	return object
}

// matchesRead implements the documented meaning of the Read tuple_key filter:
// object is "type:id" or "type:" (type only), relation and user are exact,
// empty fields do not constrain.
func matchesRead(f Filter, t m.Tuple) bool {
	if f.Object != "" {
		if strings.HasSuffix(f.Object, ":") {
			if objectType(t.Object)+":" != f.Object {
				return false
			}
		} else if t.Object != f.Object {
			return false
		}
	}
	if f.Relation != "" && t.Relation != f.Relation {
		return false
	}
	if f.User != "" && t.User != f.User {
		return false
	}
	return true
}

// batches splits ops into Write calls.
func batches(ops []Op) [][]Op {
	var out [][]Op
	for i, op := range ops {
		if i == 0 || op.Batch != ops[i-1].Batch {
			out = append(out, nil)
		}
		out[len(out)-1] = append(out[len(out)-1], op)
	}
	return out
}

// simulate replays the history on a map. ok=false when the history is not a
// valid one (write of a present tuple, delete of an absent one, a key twice
// in one call, decreasing batch numbers).
func simulate(ops []Op) (present map[string]m.Tuple, ok bool) {
	present = map[string]m.Tuple{}
	last := -1 << 31
	for _, b := range batches(ops) {
		if b[0].Batch < last {
			return nil, false
		}
		last = b[0].Batch
		seen := map[string]bool{}
		for _, op := range b {
			k := op.T.Key()
			if seen[k] {
				return nil, false
			}
			seen[k] = true
			_, has := present[k]
			if op.Delete {
				if !has {
					return nil, false
				}
				delete(present, k)
			} else {
				if has {
					return nil, false
				}
				present[k] = op.T
			}
		}
	}
	return present, true
}

func expectedRead(ops []Op, f Filter) [][]string {
	present, _ := simulate(ops)
	var g []string
	for _, t := range present {
		if matchesRead(f, t) {
			g = append(g, tupleItem(t.Object, t.Relation, t.User, t.Cond))
		}
	}
	sort.Strings(g)
	if len(g) == 0 {
		return nil
	}
	return [][]string{g}
}

// number makes the entries of a changelog distinguishable: the k-th occurrence
// (k >= 2) of the same entry gets the suffix " #k". The same tuple may be
// written, deleted and written again.
func number(items []string) []string {
	cnt := map[string]int{}
	out := make([]string, len(items))
	for i, it := range items {
		cnt[it]++
		out[i] = it
		if cnt[it] > 1 {
			out[i] = fmt.Sprintf("%s #%d", it, cnt[it])
		}
	}
	return out
}

func expectedChanges(ops []Op, typ string) [][]string {
	var out [][]string
	cnt := map[string]int{}
	for _, b := range batches(ops) {
		var g []string
		for _, op := range b {
			if typ != "" && objectType(op.T.Object) != typ {
				continue
			}
			it := changeItem(op.Delete, op.T.Object, op.T.Relation, op.T.User, op.T.Cond)
			cnt[it]++
			if cnt[it] > 1 {
				it = fmt.Sprintf("%s #%d", it, cnt[it])
			}
			g = append(g, it)
		}
		if len(g) > 0 {
			out = append(out, g)
		}
	}
	return out
}

// expectedLen is the number of items the API under test must list; it only
// depends on the data (used by the generator to choose page sizes).
func expectedLen(d Data) int {
	switch d.API {
	case apiRead:
		return total(expectedRead(d.Ops, d.Filter))
	case apiChanges:
		return total(expectedChanges(d.Ops, d.Filter.Type))
	case apiStores:
		n := 0
		for _, name := range []string{mainStoreName, decoyStoreName} {
			if d.Filter.Name == "" || d.Filter.Name == name {
				n++
			}
		}
		for _, s := range d.Stores {
			if !s.Deleted && (d.Filter.Name == "" || d.Filter.Name == s.Name) {
				n++
			}
		}
		return n
	case apiModels:
		return d.Models
	}
	return 0
}

func total(groups [][]string) int {
	n := 0
	for _, g := range groups {
		n += len(g)
	}
	return n
}

// ---------------------------------------------------------------------------
// Fixture: a fresh datastore + server holding the data.

type storeRec struct {
	id, name string
	deleted  bool
}

type fixture struct {
	d         Data
	s         *sut.SUT
	closeFn   func()
	store     string
	decoy     string
	stores    []storeRec // every store created, creation order
	models    []string   // model ids of the main store, creation order
	decoyMods []string
}

func (fx *fixture) Close() {
	if fx.s != nil {
		fx.s.Close()
	}
	if fx.closeFn != nil {
		fx.closeFn()
	}
}

func modelRequest(store string, i int) *openfgav1.WriteAuthorizationModelRequest {
	direct := func(types ...string) *openfgav1.RelationMetadata {
		md := &openfgav1.RelationMetadata{}
		for _, t := range types {
			md.DirectlyRelatedUserTypes = append(md.DirectlyRelatedUserTypes, &openfgav1.RelationReference{Type: t})
		}
		return md
	}
	this := &openfgav1.Userset{Userset: &openfgav1.Userset_This{This: &openfgav1.DirectUserset{}}}
	tds := []*openfgav1.TypeDefinition{
		{Type: "user"},
		{Type: "doc", Relations: map[string]*openfgav1.Userset{"viewer": this},
			Metadata: &openfgav1.Metadata{Relations: map[string]*openfgav1.RelationMetadata{"viewer": direct("user")}}},
	}
	for k := 0; k < i%3; k++ {
		tds = append(tds, &openfgav1.TypeDefinition{Type: fmt.Sprintf("extra%d", k)})
	}
	return &openfgav1.WriteAuthorizationModelRequest{StoreId: store, SchemaVersion: "1.1", TypeDefinitions: tds}
}

// build creates the datastore content described by d.
func build(d Data) (*fixture, error) {
	ds, closeFn, err := newDatastore(d.Backend)
	if err != nil {
		return nil, fmt.Errorf("datastore: %w", err)
	}
	fx := &fixture{d: d, closeFn: closeFn}
	fx.s = sut.NewWithDS(ds)
	ctx := context.Background()
	ok := false
	defer func() {
		if !ok {
			fx.Close()
		}
	}()

	create := func(name string) (string, error) {
		resp, err := fx.s.Srv.CreateStore(ctx, &openfgav1.CreateStoreRequest{Name: name})
		if err != nil {
			return "", fmt.Errorf("CreateStore(%q): %w", name, err)
		}
		fx.stores = append(fx.stores, storeRec{id: resp.GetId(), name: name})
		return resp.GetId(), nil
	}
	// extra stores are interleaved with the two fixed ones
	half := len(d.Stores) / 2
	for _, sp := range d.Stores[:half] {
		if _, err := create(sp.Name); err != nil {
			return nil, err
		}
	}
	if fx.store, err = create(mainStoreName); err != nil {
		return nil, err
	}
	if fx.decoy, err = create(decoyStoreName); err != nil {
		return nil, err
	}
	for _, sp := range d.Stores[half:] {
		if _, err := create(sp.Name); err != nil {
			return nil, err
		}
	}
	k := 0
	for i := range fx.stores {
		if fx.stores[i].name == mainStoreName || fx.stores[i].name == decoyStoreName {
			continue
		}
		if d.Stores[k].Deleted {
			if _, err := fx.s.Srv.DeleteStore(ctx, &openfgav1.DeleteStoreRequest{StoreId: fx.stores[i].id}); err != nil {
				return nil, fmt.Errorf("DeleteStore: %w", err)
			}
			fx.stores[i].deleted = true
		}
		k++
	}

	// tuples: decoy store first half, main history, decoy second half
	writeDecoy := func(ts []m.Tuple) error {
		if len(ts) == 0 {
			return nil
		}
		return fx.s.WriteRaw(fx.decoy, ts)
	}
	dh := len(d.Decoy) / 2
	if err := writeDecoy(d.Decoy[:dh]); err != nil {
		return nil, fmt.Errorf("decoy write: %w", err)
	}
	for _, b := range batches(d.Ops) {
		var dels []*openfgav1.TupleKeyWithoutCondition
		var wr []*openfgav1.TupleKey
		for _, op := range b {
			if op.Delete {
				dels = append(dels, &openfgav1.TupleKeyWithoutCondition{Object: op.T.Object, Relation: op.T.Relation, User: op.T.User})
			} else {
				wr = append(wr, conv.TupleKey(op.T))
			}
		}
		if err := ds.Write(ctx, fx.store, dels, wr); err != nil {
			return nil, fmt.Errorf("write batch %d: %w", b[0].Batch, err)
		}
	}
	if err := writeDecoy(d.Decoy[dh:]); err != nil {
		return nil, fmt.Errorf("decoy write: %w", err)
	}

	// models, decoy models interleaved
	dm := 0
	writeModel := func(store string, i int) (string, error) {
		resp, err := fx.s.Srv.WriteAuthorizationModel(ctx, modelRequest(store, i))
		if err != nil {
			return "", fmt.Errorf("WriteAuthorizationModel: %w", err)
		}
		return resp.GetAuthorizationModelId(), nil
	}
	for i := 0; i < d.Models || dm < d.DecoyModels; i++ {
		if dm < d.DecoyModels && (i%3 == 0 || i >= d.Models) {
			id, err := writeModel(fx.decoy, dm)
			if err != nil {
				return nil, err
			}
			fx.decoyMods = append(fx.decoyMods, id)
			dm++
		}
		if i < d.Models {
			id, err := writeModel(fx.store, i)
			if err != nil {
				return nil, err
			}
			fx.models = append(fx.models, id)
		}
	}
	ok = true
	return fx, nil
}

// expected returns the documented listing of api (with filter f) in the main
// store (or the whole datastore for ListStores).
func (fx *fixture) expected(api string, f Filter) [][]string {
	switch api {
	case apiRead:
		return expectedRead(fx.d.Ops, f)
	case apiChanges:
		return expectedChanges(fx.d.Ops, f.Type)
	case apiStores:
		var ids []string
		for _, s := range fx.stores {
			if !s.deleted && (f.Name == "" || f.Name == s.name) {
				ids = append(ids, s.id)
			}
		}
		sort.Strings(ids) // documented: by id
		return singletons(ids)
	case apiModels:
		ids := append([]string(nil), fx.models...)
		for i, j := 0, len(ids)-1; i < j; i, j = i+1, j-1 { // newest first
			ids[i], ids[j] = ids[j], ids[i]
		}
		return singletons(ids)
	}
	return nil
}

func singletons(ids []string) [][]string {
	var out [][]string
	for _, id := range ids {
		out = append(out, []string{id})
	}
	return out
}

// ---------------------------------------------------------------------------
// One paged request through the Server API. Panics escaping the server are
// caught here and returned as *panicError.

type panicError struct {
	val   string
	stack string
}

func (p *panicError) Error() string { return "PANIC escaped the request: " + p.val }

type page struct {
	items []string
	next  string
}

func (fx *fixture) call(api, store string, f Filter, size int, token string) (pg page, err error) {
	defer func() {
		if r := recover(); r != nil {
			err = &panicError{val: fmt.Sprint(r), stack: string(debug.Stack())}
		}
	}()
	ctx := context.Background()
	ps := wrapperspb.Int32(int32(size))
	switch api {
	case apiRead:
		req := &openfgav1.ReadRequest{StoreId: store, PageSize: ps, ContinuationToken: token}
		if f.Object != "" || f.Relation != "" || f.User != "" {
			req.TupleKey = &openfgav1.ReadRequestTupleKey{Object: f.Object, Relation: f.Relation, User: f.User}
		}
		resp, err := fx.s.Srv.Read(ctx, req)
		if err != nil {
			return page{}, err
		}
		for _, t := range resp.GetTuples() {
			k := t.GetKey()
			pg.items = append(pg.items, tupleItem(k.GetObject(), k.GetRelation(), k.GetUser(), k.GetCondition().GetName()))
		}
		pg.next = resp.GetContinuationToken()
	case apiChanges:
		resp, err := fx.s.Srv.ReadChanges(ctx, &openfgav1.ReadChangesRequest{StoreId: store, Type: f.Type, PageSize: ps, ContinuationToken: token})
		if err != nil {
			return page{}, err
		}
		for _, c := range resp.GetChanges() {
			k := c.GetTupleKey()
			var it string
			switch c.GetOperation() {
			case openfgav1.TupleOperation_TUPLE_OPERATION_WRITE:
				it = changeItem(false, k.GetObject(), k.GetRelation(), k.GetUser(), k.GetCondition().GetName())
			case openfgav1.TupleOperation_TUPLE_OPERATION_DELETE:
				it = "D " + tupleItem(k.GetObject(), k.GetRelation(), k.GetUser(), k.GetCondition().GetName())
			default:
				it = fmt.Sprintf("?%v %s", c.GetOperation(), tupleItem(k.GetObject(), k.GetRelation(), k.GetUser(), ""))
			}
			pg.items = append(pg.items, it)
		}
		pg.next = resp.GetContinuationToken()
	case apiStores:
		resp, err := fx.s.Srv.ListStores(ctx, &openfgav1.ListStoresRequest{PageSize: ps, ContinuationToken: token, Name: f.Name})
		if err != nil {
			return page{}, err
		}
		for _, s := range resp.GetStores() {
			pg.items = append(pg.items, s.GetId())
		}
		pg.next = resp.GetContinuationToken()
	case apiModels:
		resp, err := fx.s.Srv.ReadAuthorizationModels(ctx, &openfgav1.ReadAuthorizationModelsRequest{StoreId: store, PageSize: ps, ContinuationToken: token})
		if err != nil {
			return page{}, err
		}
		for _, mo := range resp.GetAuthorizationModels() {
			pg.items = append(pg.items, mo.GetId())
		}
		pg.next = resp.GetContinuationToken()
	default:
		return page{}, fmt.Errorf("unknown api %q", api)
	}
	return pg, nil
}

// traversal is the result of following tokens from the first page.
type traversal struct {
	items  []string
	tokens []string // every non-empty token issued, in order
	pages  int
}

// problem describes why a listing is wrong (kind is part of the signature).
type problem struct {
	kind string
	msg  string
}

func (p *problem) String() string { return p.kind + ": " + p.msg }

// follow requests pages from token `start` until the documented end:
//   - Read / ListStores / ReadAuthorizationModels: the server returns an empty token;
//   - ReadChanges: the server returns no changes and echoes the token it was given
//     (every page that carries changes must carry a token to continue from).
//
// maxItems bounds the walk (a correct server needs at most maxItems+1 calls).
func (fx *fixture) follow(api, store string, f Filter, size int, start string, maxItems int) (*traversal, *problem) {
	tr := &traversal{}
	tok := start
	bound := 2*maxItems + 5
	for {
		if tr.pages >= bound {
			return tr, &problem{"no-termination", fmt.Sprintf("%d pages requested (size %d) for a listing of at most %d items and the server still returns a token", tr.pages, size, maxItems)}
		}
		pg, err := fx.call(api, store, f, size, tok)
		if err != nil {
			if pe, ok := err.(*panicError); ok {
				return tr, &problem{"panic", fmt.Sprintf("page %d (token %s): %v\n%s", tr.pages+1, describeToken(tok), pe, pe.stack)}
			}
			return tr, &problem{"error", fmt.Sprintf("page %d (token %s): %v", tr.pages+1, describeToken(tok), err)}
		}
		tr.pages++
		if len(pg.items) > size {
			return tr, &problem{"page-too-large", fmt.Sprintf("page %d has %d items, page size %d", tr.pages, len(pg.items), size)}
		}
		tr.items = append(tr.items, pg.items...)
		if api == apiChanges {
			if len(pg.items) == 0 {
				if pg.next != tok {
					return tr, &problem{"terminal-token", fmt.Sprintf("the page without changes must echo the request token %s, got %s", describeToken(tok), describeToken(pg.next))}
				}
				return tr, nil
			}
			if pg.next == "" {
				return tr, &problem{"terminal-token", fmt.Sprintf("page %d carries %d changes but no continuation token", tr.pages, len(pg.items))}
			}
		} else if pg.next == "" {
			return tr, nil
		}
		tr.tokens = append(tr.tokens, pg.next)
		tok = pg.next
	}
}

// compareListing checks got against the documented listing: every expected
// item exactly once, groups in order, nothing else.
func compareListing(got []string, groups [][]string) *problem {
	where := map[string]int{}
	for gi, g := range groups {
		for _, it := range g {
			where[it] = gi
		}
	}
	seen := map[string]int{}
	gi, inGroup := 0, 0
	for i, it := range got {
		g, known := where[it]
		if !known {
			if k := strings.LastIndex(it, " #"); k > 0 {
				if _, base := where[it[:k]]; base {
					return &problem{"duplicate", fmt.Sprintf("position %d: %q returned more often than it was recorded (%s)", i, it[:k], it[k+1:])}
				}
			}
			return &problem{"foreign", fmt.Sprintf("position %d: %q is not an item of the listing (another store, a deleted or a filtered-out item)", i, it)}
		}
		if j, dup := seen[it]; dup {
			return &problem{"duplicate", fmt.Sprintf("%q returned twice (positions %d and %d)", it, j, i)}
		}
		seen[it] = i
		for gi < len(groups) && inGroup == len(groups[gi]) {
			gi, inGroup = gi+1, 0
		}
		if g != gi {
			if g > gi {
				// either an item of the current group is missing or the order is wrong; decide at the end
				return &problem{missingOrOrder(got, where), fmt.Sprintf("position %d: %q belongs to group %d of the documented order but group %d is not complete yet", i, it, g, gi)}
			}
			return &problem{"order", fmt.Sprintf("position %d: %q belongs to the earlier group %d (now at group %d)", i, it, g, gi)}
		}
		inGroup++
	}
	if len(got) != len(where) {
		var miss []string
		for it := range where {
			if _, ok := seen[it]; !ok {
				miss = append(miss, it)
			}
		}
		sort.Strings(miss)
		if len(miss) > 5 {
			miss = append(miss[:5], "...")
		}
		return &problem{"missing", fmt.Sprintf("%d of %d items never returned: %v", len(where)-len(got), len(where), miss)}
	}
	return nil
}

func missingOrOrder(got []string, where map[string]int) string {
	all := map[string]bool{}
	for _, it := range got {
		all[it] = true
	}
	for it := range where {
		if !all[it] {
			return "missing"
		}
	}
	return "order"
}

func flatten(groups [][]string) []string {
	var out []string
	for _, g := range groups {
		out = append(out, g...)
	}
	return out
}

// ---------------------------------------------------------------------------
// Generators (all randomness through rapid).

var (
	objTypes  = []string{"doc", "folder", "group"}
	relations = []string{"viewer", "editor", "member"}
	storeNms  = []string{"alpha", "beta", "gamma"}
)

// genTuple draws a tuple of the universe with nIDs object ids. prefix is put
// in front of object ids ("" main store, "x" decoy store).
func genTuple(t *rapid.T, nIDs int, prefix string) m.Tuple {
	tu := m.Tuple{
		Object:   fmt.Sprintf("%s:%s%d", rapid.SampledFrom(objTypes).Draw(t, "otype"), prefix, rapid.IntRange(0, nIDs-1).Draw(t, "oid")),
		Relation: rapid.SampledFrom(relations).Draw(t, "rel"),
	}
	switch k := rapid.IntRange(0, 7).Draw(t, "ukind"); {
	case k <= 4:
		tu.User = fmt.Sprintf("user:%d", rapid.IntRange(0, 4).Draw(t, "uid"))
	case k == 5:
		tu.User = "user:*"
	default:
		tu.User = fmt.Sprintf("group:%d#member", rapid.IntRange(0, nIDs-1).Draw(t, "gid"))
	}
	if rapid.IntRange(0, 5).Draw(t, "cond") == 0 {
		tu.Cond = "c1"
		if rapid.Bool().Draw(t, "ctx") {
			tu.Ctx = map[string]any{"x": float64(rapid.IntRange(0, 3).Draw(t, "x"))}
		}
	}
	return tu
}

// genOps draws a valid history of about n operations; delPct % of them delete
// a tuple that is present.
func genOps(t *rapid.T, n, delPct int) []Op {
	nIDs := rapid.IntRange(n/30+1, n/30+4).Draw(t, "nIDs")
	var ops []Op
	var presentKeys []string
	present := map[string]m.Tuple{}
	batch, inBatch := 0, map[string]bool{}
	for i := 0; i < n; i++ {
		if len(inBatch) > 0 && (len(inBatch) >= 20 || rapid.IntRange(0, 2).Draw(t, "newBatch") == 0) {
			batch, inBatch = batch+1, map[string]bool{}
		}
		if len(presentKeys) > 0 && rapid.IntRange(0, 99).Draw(t, "del") < delPct {
			j := rapid.IntRange(0, len(presentKeys)-1).Draw(t, "delIdx")
			k := presentKeys[j]
			if !inBatch[k] {
				ops = append(ops, Op{Batch: batch, Delete: true, T: present[k]})
				inBatch[k] = true
				delete(present, k)
				presentKeys = append(presentKeys[:j], presentKeys[j+1:]...)
				continue
			}
		}
		for try := 0; try < 8; try++ {
			tu := genTuple(t, nIDs, "")
			k := tu.Key()
			if _, has := present[k]; has || inBatch[k] {
				continue
			}
			ops = append(ops, Op{Batch: batch, T: tu})
			inBatch[k] = true
			present[k] = tu
			presentKeys = append(presentKeys, k)
			break
		}
	}
	return ops
}

func genDecoy(t *rapid.T) []m.Tuple {
	n := rapid.IntRange(0, 6).Draw(t, "nDecoy")
	seen := map[string]bool{}
	var out []m.Tuple
	for i := 0; i < n; i++ {
		tu := genTuple(t, 3, "x")
		if !seen[tu.Key()] {
			seen[tu.Key()] = true
			out = append(out, tu)
		}
	}
	return out
}

// genReadFilter draws one of the filter shapes the Read API allows, mostly
// anchored at a tuple that is present so that it selects something.
func genReadFilter(t *rapid.T, ops []Op) Filter {
	shape := rapid.IntRange(0, 9).Draw(t, "filterShape")
	if shape <= 2 {
		return Filter{}
	}
	var pivot m.Tuple
	present, _ := simulate(ops)
	if len(present) > 0 && rapid.IntRange(0, 7).Draw(t, "anchored") != 0 {
		keys := make([]string, 0, len(present))
		for k := range present {
			keys = append(keys, k)
		}
		sort.Strings(keys)
		pivot = present[rapid.SampledFrom(keys).Draw(t, "pivot")]
	} else {
		pivot = genTuple(t, 3, "")
	}
	typeOnly := objectType(pivot.Object) + ":"
	switch shape {
	case 3:
		return Filter{Object: pivot.Object}
	case 4:
		return Filter{Object: pivot.Object, Relation: pivot.Relation}
	case 5:
		return Filter{Object: pivot.Object, User: pivot.User}
	case 6:
		return Filter{Object: pivot.Object, Relation: pivot.Relation, User: pivot.User}
	case 7:
		return Filter{Object: typeOnly, User: pivot.User}
	case 8:
		return Filter{Object: typeOnly, Relation: pivot.Relation, User: pivot.User}
	}
	// relation + user need an object type as well
	return Filter{Object: typeOnly, Relation: pivot.Relation, User: pivot.User}
}

func genStores(t *rapid.T, n int) []StoreSpec {
	out := make([]StoreSpec, 0, n)
	for i := 0; i < n; i++ {
		out = append(out, StoreSpec{Name: rapid.SampledFrom(storeNms).Draw(t, "storeName"), Deleted: rapid.IntRange(0, 9).Draw(t, "deleted") == 0})
	}
	return out
}

func describeFilter(api string, f Filter) string {
	switch api {
	case apiRead:
		if f == (Filter{}) {
			return "no filter"
		}
		return fmt.Sprintf("object=%q relation=%q user=%q", f.Object, f.Relation, f.User)
	case apiChanges:
		return fmt.Sprintf("type=%q", f.Type)
	case apiStores:
		return fmt.Sprintf("name=%q", f.Name)
	}
	return "-"
}
