package p24

// An independent decoder for the encoding documented in
// pkg/storage/cache/keys/build.go ("Encoding rule"):
//
//	zero-size markers   tagNull(0) tagUnset(11) tagPair(8) tagKey(9) tagValue(10): tag only
//	fixed-size payloads tagByte(1)+1B  tagBool(2)+1B  tagUint64(3)+8B little endian
//	variable-size       tagString(4)/tagBytes(5): tag + uvarint length + payload
//	                    tagArray(6): tag + uvarint element count + the elements
//	                    tagMap(7):   tag + uvarint entry count + key,value,key,value...
//
// decode∘encode must give back the canonical form of the input: then the
// pre-hash encoding is injective up to semantic equality.

import (
	"encoding/binary"
	"errors"
	"fmt"
	"math"
	"sort"
	"strconv"
	"strings"

	"google.golang.org/protobuf/types/known/structpb"

	"github.com/openfga/openfga/pkg/storage/cache/keys"
)

const (
	tNull = iota
	tByte
	tBool
	tUint64
	tString
	tBytes
	tArray
	tMap
	tPair
	tKey
	tValue
	tUnset
)

type tok struct {
	tag byte
	s   string // string / bytes payload
	u   uint64 // byte, bool(0/1), uint64, array / map count
}

type dec struct {
	b []byte
	p int
}

var errEOF = errors.New("tlv: unexpected end of stream")

func (d *dec) eof() bool { return d.p >= len(d.b) }

func (d *dec) tok() (tok, error) {
	if d.eof() {
		return tok{}, errEOF
	}
	t := tok{tag: d.b[d.p]}
	d.p++
	switch t.tag {
	case tNull, tUnset, tPair, tKey, tValue:
	case tByte, tBool:
		if d.p+1 > len(d.b) {
			return t, errEOF
		}
		t.u = uint64(d.b[d.p])
		d.p++
		if t.tag == tBool && t.u > 1 {
			return t, fmt.Errorf("tlv: bool payload %d", t.u)
		}
	case tUint64:
		if d.p+8 > len(d.b) {
			return t, errEOF
		}
		t.u = binary.LittleEndian.Uint64(d.b[d.p:])
		d.p += 8
	case tString, tBytes, tArray, tMap:
		n, w := binary.Uvarint(d.b[d.p:])
		if w <= 0 {
			return t, fmt.Errorf("tlv: bad uvarint at %d", d.p)
		}
		d.p += w
		t.u = n
		if t.tag == tString || t.tag == tBytes {
			if n > uint64(len(d.b)-d.p) {
				return t, errEOF
			}
			t.s = string(d.b[d.p : d.p+int(n)])
			d.p += int(n)
		} else if n > uint64(len(d.b)) {
			return t, fmt.Errorf("tlv: count %d exceeds stream", n)
		}
	default:
		return t, fmt.Errorf("tlv: unknown tag %d at %d", t.tag, d.p-1)
	}
	return t, nil
}

func (d *dec) peek(k int) (tok, bool) {
	save := d.p
	defer func() { d.p = save }()
	var t tok
	var err error
	for i := 0; i <= k; i++ {
		if t, err = d.tok(); err != nil {
			return tok{}, false
		}
	}
	return t, true
}

// item decodes one self-contained value (containers hold single-value elements).
func (d *dec) item() (Item, error) {
	t, err := d.tok()
	if err != nil {
		return Item{}, err
	}
	switch t.tag {
	case tNull:
		return Item{T: "null"}, nil
	case tUnset:
		return Item{T: "unset"}, nil
	case tByte:
		return Item{T: "byte", U: t.u}, nil
	case tBool:
		return Item{T: "bool", B: t.u == 1}, nil
	case tUint64:
		return Item{T: "u64", U: t.u}, nil
	case tString:
		return Item{T: "str", S: t.s}, nil
	case tBytes:
		return Item{T: "bytes", S: t.s}, nil
	case tArray, tMap:
		it := Item{T: "arr"}
		n := int(t.u)
		if t.tag == tMap {
			it.T = "map"
			n *= 2
		}
		for i := 0; i < n; i++ {
			e, err := d.item()
			if err != nil {
				return it, err
			}
			it.L = append(it.L, e)
		}
		return it, nil
	case tPair:
		if k, err := d.tok(); err != nil || k.tag != tKey {
			return Item{}, fmt.Errorf("tlv: pair without key marker")
		}
		k, err := d.item()
		if err != nil {
			return Item{}, err
		}
		if v, err := d.tok(); err != nil || v.tag != tValue {
			return Item{}, fmt.Errorf("tlv: pair without value marker")
		}
		v, err := d.item()
		if err != nil {
			return Item{}, err
		}
		return Item{T: "pair", L: []Item{k, v}}, nil
	}
	return Item{}, fmt.Errorf("tlv: marker %d where a value is expected", t.tag)
}

// decodeItems decodes a whole stream of self-contained values.
func decodeItems(b []byte) ([]Item, error) {
	d := &dec{b: b}
	var out []Item
	for !d.eof() {
		it, err := d.item()
		if err != nil {
			return out, err
		}
		out = append(out, it)
	}
	return out, nil
}

// normItems brings generated items to the shape the decoder returns.
func normItems(is []Item) []Item {
	out := make([]Item, 0, len(is))
	for _, it := range is {
		n := Item{T: it.T}
		switch it.T {
		case "byte":
			n.U = uint64(byte(it.U))
		case "u64":
			n.U = it.U
		case "bool":
			n.B = it.B
		case "str", "bytes":
			n.S = it.S
		case "arr", "pair":
			n.L = normItems(it.L)
		case "map":
			n.L = normItems(it.L[:len(it.L)/2*2])
		}
		if len(n.L) == 0 {
			n.L = nil
		}
		out = append(out, n)
	}
	return out
}

// itemCanonVal renders a decoded context value in the notation of canonVal. Map
// entries are rendered in stream order and must be strictly increasing: the
// stream itself has to be canonical.
func itemCanonVal(it Item) (string, error) {
	switch it.T {
	case "null":
		return "null", nil
	case "unset":
		return "unset", nil
	case "bool":
		return "bool:" + strconv.FormatBool(it.B), nil
	case "u64":
		return "num:" + strconv.FormatUint(it.U, 16), nil
	case "str":
		return "str:" + q(it.S), nil
	case "arr":
		parts := make([]string, len(it.L))
		for i, e := range it.L {
			s, err := itemCanonVal(e)
			if err != nil {
				return "", err
			}
			parts[i] = s
		}
		return "[" + strings.Join(parts, ",") + "]", nil
	case "map":
		var parts []string
		prev := ""
		for i := 0; i+1 < len(it.L); i += 2 {
			k := it.L[i]
			if k.T != "str" {
				return "", fmt.Errorf("map key of type %s", k.T)
			}
			if i > 0 && k.S <= prev {
				return "", fmt.Errorf("map keys not strictly increasing: %q after %q", k.S, prev)
			}
			prev = k.S
			s, err := itemCanonVal(it.L[i+1])
			if err != nil {
				return "", err
			}
			parts = append(parts, q(k.S)+"="+s)
		}
		return "{" + strings.Join(parts, ",") + "}", nil
	}
	return "", fmt.Errorf("value of type %s in a context", it.T)
}

func (d *dec) str() (string, error) {
	t, err := d.tok()
	if err != nil {
		return "", err
	}
	if t.tag != tString {
		return "", fmt.Errorf("tlv: tag %d where a string is expected", t.tag)
	}
	return t.s, nil
}

// tuple decodes one contextual tuple: object, relation, user and, only when a
// string directly followed by a map comes next, condition name + context.
func (d *dec) tuple() (string, error) {
	var f [3]string
	for i := range f {
		s, err := d.str()
		if err != nil {
			return "", err
		}
		f[i] = s
	}
	out := q(f[0]) + "#" + q(f[1]) + "@" + q(f[2])
	t0, ok0 := d.peek(0)
	t1, ok1 := d.peek(1)
	if ok0 && ok1 && t0.tag == tString && t1.tag == tMap {
		name, _ := d.str()
		it, err := d.item()
		if err != nil {
			return "", err
		}
		c, err := itemCanonVal(it)
		if err != nil {
			return "", err
		}
		out += " with " + q(name) + c
	}
	return out, nil
}

// decodeInvariant parses the pre-hash stream of the invariant key (store,
// model, array of tuples, context) into the notation of canon(KInv, ·). The
// tuples are returned in stream order.
func decodeInvariant(b []byte) (string, error) {
	d := &dec{b: b}
	store, err := d.str()
	if err != nil {
		return "", err
	}
	model, err := d.str()
	if err != nil {
		return "", err
	}
	a, err := d.tok()
	if err != nil || a.tag != tArray {
		return "", fmt.Errorf("tlv: no tuple array (%v)", err)
	}
	parts := make([]string, 0, a.u)
	for i := uint64(0); i < a.u; i++ {
		t, err := d.tuple()
		if err != nil {
			return "", err
		}
		parts = append(parts, t)
	}
	it, err := d.item()
	if err != nil {
		return "", err
	}
	c, err := itemCanonVal(it)
	if err != nil {
		return "", err
	}
	if it.T != "map" {
		return "", fmt.Errorf("tlv: context is a %s", it.T)
	}
	if !d.eof() {
		return "", fmt.Errorf("tlv: %d trailing bytes", len(d.b)-d.p)
	}
	return strings.Join([]string{q(store), q(model), "(" + strings.Join(parts, ";") + ")", c}, "|"), nil
}

// ---------------------------------------------------------------------------
// reconstruction of the hashed (inner) byte streams with the exported encoders
// of /repo. The layout is an assumption that is verified, case by case, by
// re-computing the digest: when it matches, the bytes are the pre-hash bytes.

func sortedTuples(ts []CT) []CT {
	c := append([]CT(nil), ts...)
	sort.SliceStable(c, func(i, j int) bool {
		a, b := c[i], c[j]
		if a.Object != b.Object {
			return a.Object < b.Object
		}
		if a.Relation != b.Relation {
			return a.Relation < b.Relation
		}
		return a.User < b.User
	})
	return c
}

func strArray(ss []string) []keys.Serializable {
	c := append([]string(nil), ss...)
	sort.Strings(c)
	out := make([]keys.Serializable, len(c))
	for i, s := range c {
		out[i] = keys.String(s)
	}
	return out
}

func ufStrings(fs []OR) []string {
	var out []string
	for _, f := range fs {
		s := f.Object
		if f.Relation != "" {
			s += "#" + f.Relation
		}
		out = append(out, s)
	}
	return out
}

func refStrings(rs []Ref) []string {
	var out []string
	for _, r := range rs {
		switch {
		case r.Wildcard:
			out = append(out, r.Type+":*")
		case r.Relation != "":
			out = append(out, r.Type+"#"+r.Relation)
		default:
			out = append(out, r.Type)
		}
	}
	return out
}

func dedupSorted(ss []string) []string {
	c := append([]string(nil), ss...)
	sort.Strings(c)
	var out []string
	for i, s := range c {
		if i > 0 && c[i-1] == s {
			continue
		}
		out = append(out, s)
	}
	return out
}

// recon returns the presumed pre-hash bytes of the hashed part of a key, or nil
// for kinds without a hashed part.
func recon(kind string, in Input) []byte {
	b := &keys.Builder{}
	switch kind {
	case KInv, KReq, KEdge, KBatch:
		b.EncodeString(in.Store)
		b.EncodeString(in.Model)
		ts := sortedTuples(in.Tuples)
		a := make([]keys.Serializable, len(ts))
		for i, t := range ts {
			a[i] = (*keys.Tuple)(pbTuple(t))
		}
		b.EncodeArray(a)
		b.Serialize((*keys.PbValue)(structpb.NewStructValue(pbCtx(in.Ctx))))
	case KRead:
		b.EncodeArray(strArray(in.Conds))
	case KRSWU:
		b.EncodeArray(strArray(ufStrings(in.UserFilter)))
		b.EncodeArray(strArray(dedupSorted(in.OIDs)))
		b.EncodeArray(strArray(in.Conds))
	case KRUT:
		b.EncodeArray(strArray(refStrings(in.Refs)))
		b.EncodeArray(strArray(in.Conds))
	default:
		return nil
	}
	return append([]byte(nil), b.Bytes()...)
}

func digestOf(b []byte) uint64 {
	d := keys.NewDigest()
	_, _ = d.Write(b)
	return d.Sum64()
}

// lastU64 returns the last uint64 item of an outer key (the embedded digest).
func lastU64(items []Item) (uint64, bool) {
	for i := len(items) - 1; i >= 0; i-- {
		if items[i].T == "u64" {
			return items[i].U, true
		}
	}
	return 0, false
}

func f64bits(f float64) uint64 { return math.Float64bits(f) }
