package p24

import (
	"os"
	"testing"

	"github.com/openfga/openfga/verifharness/evid"
	"github.com/openfga/openfga/verifharness/fw"
)

// FuzzC24: the fuzz input bytes drive the same generator (every decision of
// genCase reads one or two bytes) and the same oracle as TestC24. A crasher is
// reproducible through the plain test: the failure message ends with a replay
// file body; save it and run TestC24 with VERIF_REPLAY=<file>.
func FuzzC24(f *testing.F) {
	f.Add([]byte{})
	f.Add([]byte{1, 0, 1, 2, 3, 4, 5, 6, 7, 8, 9, 10, 11, 12, 13, 14, 15, 16})
	f.Add([]byte{3, 30, 7, 1, 2, 3, 200, 100, 50, 25, 12, 6, 3, 1, 0, 255, 254, 253, 9, 9, 9, 9})
	f.Add([]byte("\x05\x14\x0b\x04\x02ab\x04\x01a\x06\x01\x07\x00 context tuples conditions filter"))
	env := &fw.Env{ID: "C24", Rec: evid.New("C24-fuzz"), Tier: os.Getenv("VERIF_TIER")}
	f.Fuzz(func(t *testing.T, data []byte) {
		c := genCase(&byteSrc{b: data})
		fail := func() (fl *fw.Failure) {
			defer func() {
				if r := recover(); r != nil {
					fl = fw.Failf("C24/harness-or-sut-panic", "panic: %v", r)
				}
			}()
			return check(env, c)
		}()
		if fail != nil && !fw.IsKnown(fail.Signature) {
			t.Fatalf("property C24 violated [%s]: %s\nreplay file: {\"property\":\"C24\",\"signature\":%q,\"case\":%s}", fail.Signature, fail.Msg, fail.Signature, describeCase(c))
		}
	})
}
