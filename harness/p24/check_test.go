package p24

import (
	"bytes"
	"encoding/json"
	"fmt"
	"os"
	"strings"
	"sync"
	"testing"

	"google.golang.org/protobuf/types/known/structpb"
	"pgregory.net/rapid"

	"github.com/openfga/openfga/pkg/storage/cache/keys"

	"github.com/openfga/openfga/verifharness/fw"
)

// C24 — cache keys distinguish every answer-relevant input.
//
// Oracle (from the property statement and the documentation of the inputs):
//
//	O2 final keys   canon(x) == canon(y)  ⇒ key(x) == key(y)       (semantic no-op)
//	                canon(x) != canon(y)  ⇒ key(x) != key(y)       (a 64-bit digest collision has
//	                                                               probability 2^-64 and is treated as a violation)
//	O1 pre-hash     the bytes in front of the hash, parsed by the independent TLV decoder of
//	                tlv_test.go, give back the canonical input (decode∘encode = canonicalise):
//	                - the outer key bytes (keys.Key.Bytes()): every directly encoded input is found
//	                  again at a fixed position (positions learnt from two probe inputs, not from the code);
//	                - the hashed part (invariant; filter suffix of iterator keys) is rebuilt with the exported
//	                  encoders of /repo (keys.Builder, keys.Tuple, keys.PbValue); when the digest of the rebuilt
//	                  stream equals the digest inside the key, the stream is the pre-hash stream (class
//	                  prehash:verified) and must decode to canon(x);
//	                - ENC: an arbitrary item tree written through keys.Builder decodes to itself.
//
// NT: the pair is a derived pair (not "identical") whose members really differ as
// written (a non-identity permutation / one near-miss edit touching one field or
// two adjacent fields) and the key builder accepted both inputs.

type layout struct {
	n      int
	pos    map[string]int // directly encoded field -> item index
	consts map[int]Item   // items that do not depend on the input
}

var (
	layoutMu sync.Mutex
	layouts  = map[string]*layout{}
)

func probeInput(kind string, v int) Input {
	tag := fmt.Sprintf("§%d", v)
	in := Input{Store: "store" + tag, Model: "model" + tag, Object: "object" + tag, Relation: "relation" + tag,
		User: "user" + tag, ObjectType: "otype" + tag, Invariant: 0xA5A5A5A5A5A50000 + uint64(v),
		Ctx:        Ctx{Fields: []Field{{Key: "probe" + tag, V: num(float64(v))}}},
		Conds:      []string{"cond" + tag},
		OIDsSet:    true,
		OIDs:       []string{"oid" + tag},
		UserFilter: []OR{{Object: "t:u" + tag}},
		Refs:       []Ref{{Type: "t" + tag}},
		Edge:       v,
	}
	if modelKind(kind) {
		in.Object, in.User = "doc:o"+tag, "user:u"+tag
		in.Relation = []string{"viewer", "editor", "owner"}[v%3]
	}
	return in
}

// layoutOf learns, from the keys of two probe inputs, at which item position of
// the outer key each directly encoded input appears.
func layoutOf(kind string) (*layout, error) {
	layoutMu.Lock()
	defer layoutMu.Unlock()
	if l, ok := layouts[kind]; ok {
		return l, nil
	}
	np := 2
	if kind == KEdge {
		np = len(fixedEdges()) // the edge-derived items must not be mistaken for constants
	}
	items := make([][]Item, np)
	ins := make([]Input, np)
	for v := 0; v < np; v++ {
		ins[v] = probeInput(kind, v+1)
		k, rej, err := buildKey(kind, ins[v])
		if err != nil || rej {
			return nil, fmt.Errorf("probe rejected: %v", err)
		}
		if items[v], err = decodeItems(k); err != nil {
			return nil, fmt.Errorf("probe key does not parse: %v (% x)", err, k)
		}
		if len(items[v]) != len(items[0]) {
			return nil, fmt.Errorf("probe keys have %d and %d items", len(items[0]), len(items[v]))
		}
	}
	l := &layout{n: len(items[0]), pos: map[string]int{}, consts: map[int]Item{}}
	all := func(i int, pred func(v int, it Item) bool) bool {
		for v := range items {
			if !pred(v, items[v][i]) {
				return false
			}
		}
		return true
	}
	for i := range items[0] {
		if all(i, func(_ int, it Item) bool { return rawEqual(it, items[0][i]) }) {
			l.consts[i] = items[0][i]
			continue
		}
		if kind == KSP && all(i, func(v int, it Item) bool { return it.T == "u64" && it.U == ins[v].Invariant }) {
			l.pos["invariant"] = i
			continue
		}
		for _, f := range []string{"store", "model", "object", "relation", "user", "object_type"} {
			if _, dup := l.pos[f]; !dup && all(i, func(v int, it Item) bool { return it.T == "str" && it.S == *strField(&ins[v], f) }) {
				l.pos[f] = i
				break
			}
		}
	}
	layouts[kind] = l
	return l, nil
}

// checkOuter: the outer key bytes are a sequence of self-contained values with
// the learnt shape, and each directly encoded input is found at its position.
func checkOuter(kind string, in Input, key []byte) (items []Item, f *fw.Failure) {
	items, err := decodeItems(key)
	if err != nil {
		return nil, fw.Failf("C24/"+kind+"/outer-key-unparseable", "key bytes % x of %s do not parse: %v", key, describe(kind, in), err)
	}
	l, err := layoutOf(kind)
	if err != nil {
		return items, fw.Failf("C24/"+kind+"/outer-layout", "%v", err)
	}
	if len(items) != l.n {
		return items, fw.Failf("C24/"+kind+"/outer-decode-mismatch", "key of %s has %d items, the probes had %d: % x", describe(kind, in), len(items), l.n, key)
	}
	for i, c := range l.consts {
		if !rawEqual(items[i], c) {
			return items, fw.Failf("C24/"+kind+"/outer-decode-mismatch", "item %d of the key of %s is %+v, it was the constant %+v for the probes", i, describe(kind, in), items[i], c)
		}
	}
	for f, i := range l.pos {
		if f == "invariant" {
			if items[i].T != "u64" || items[i].U != in.Invariant {
				return items, fw.Failf("C24/"+kind+"/outer-decode-mismatch", "item %d of the key of %s should be the invariant, is %+v", i, describe(kind, in), items[i])
			}
			continue
		}
		if want := *strField(&in, f); items[i].T != "str" || items[i].S != want {
			return items, fw.Failf("C24/"+kind+"/outer-decode-mismatch", "item %d of the key of %s should be %s=%q, is %+v", i, describe(kind, in), f, want, items[i])
		}
	}
	return items, nil
}

// innerDigest extracts the digest of the hashed part from a key.
func innerDigest(kind string, key []byte, items []Item) (uint64, bool) {
	switch kind {
	case KInv:
		if len(key) == 8 {
			return uint64(key[0]) | uint64(key[1])<<8 | uint64(key[2])<<16 | uint64(key[3])<<24 | uint64(key[4])<<32 | uint64(key[5])<<40 | uint64(key[6])<<48 | uint64(key[7])<<56, true
		}
	case KReq, KEdge, KRead, KRSWU, KRUT:
		return lastU64(items)
	}
	return 0, false
}

type inner struct {
	bytes    []byte
	verified bool
}

// checkInner rebuilds the hashed part and, independent of whether it could be
// verified against the key's digest, requires that it decodes to the canonical input.
func checkInner(kind string, in Input, key []byte, items []Item) (res inner, f *fw.Failure) {
	res.bytes = recon(kind, in)
	if res.bytes == nil {
		return res, nil
	}
	if d, ok := innerDigest(kind, key, items); ok {
		res.verified = digestOf(res.bytes) == d
	}
	switch kind {
	case KInv, KReq, KEdge, KBatch:
		got, err := decodeInvariant(res.bytes)
		inv := Input{Store: in.Store, Model: in.Model, Tuples: sortedTuples(in.Tuples), Ctx: in.Ctx}
		parts := make([]string, len(inv.Tuples))
		for i, t := range inv.Tuples {
			parts[i] = canonTuple(t)
		}
		want := strings.Join([]string{q(in.Store), q(in.Model), "(" + strings.Join(parts, ";") + ")", canonCtx(in.Ctx)}, "|")
		if err != nil || got != want {
			return res, fw.Failf("C24/"+kind+"/prehash-decode-mismatch", "pre-hash stream % x of %s decodes to\n  %s (err %v)\nwant\n  %s", res.bytes, describe(kind, in), got, err, want)
		}
	default:
		its, err := decodeItems(res.bytes)
		var want [][]string
		switch kind {
		case KRead:
			want = [][]string{in.Conds}
		case KRSWU:
			want = [][]string{ufStrings(in.UserFilter), dedupSorted(in.OIDs), in.Conds}
		case KRUT:
			want = [][]string{refStrings(in.Refs), in.Conds}
		}
		ok := err == nil && len(its) == len(want)
		for i := 0; ok && i < len(want); i++ {
			w := append([]string(nil), want[i]...)
			sortStrings(w)
			ok = its[i].T == "arr" && len(its[i].L) == len(w)
			for j := 0; ok && j < len(w); j++ {
				ok = its[i].L[j].T == "str" && its[i].L[j].S == w[j]
			}
		}
		if !ok {
			return res, fw.Failf("C24/"+kind+"/prehash-decode-mismatch", "pre-hash stream % x of %s decodes to %+v (err %v), want the sorted lists %q", res.bytes, describe(kind, in), its, err, want)
		}
	}
	return res, nil
}

func sortStrings(s []string) {
	for i := 1; i < len(s); i++ {
		for j := i; j > 0 && s[j] < s[j-1]; j-- {
			s[j], s[j-1] = s[j-1], s[j]
		}
	}
}

// checkComponents: the exported context / tuple encoders, on their own.
func checkComponents(kind string, in Input) *fw.Failure {
	if !hasTuples(kind) {
		return nil
	}
	ctxs := []Ctx{in.Ctx}
	for _, t := range in.Tuples {
		if t.HasCond {
			ctxs = append(ctxs, t.Ctx)
		}
	}
	for _, c := range ctxs {
		b := &keys.Builder{}
		b.Serialize((*keys.PbValue)(structpb.NewStructValue(pbCtx(c))))
		its, err := decodeItems(b.Bytes())
		got := ""
		if err == nil && len(its) == 1 {
			got, err = itemCanonVal(its[0])
		}
		if err != nil || len(its) != 1 || got != canonCtx(c) {
			return fw.Failf("C24/PbValue/decode-mismatch", "keys.PbValue stream % x decodes to %s (err %v), want %s", b.Bytes(), got, err, canonCtx(c))
		}
	}
	return nil
}

func checkEnc(in Input, key []byte) *fw.Failure {
	got, err := decodeItems(key)
	want := normItems(in.Items)
	if err != nil || !rawEqual(got, want) {
		g, _ := json.Marshal(got)
		w, _ := json.Marshal(want)
		return fw.Failf("C24/ENC/decode-mismatch", "Builder stream % x decodes to %s (err %v), written %s", key, g, err, w)
	}
	return nil
}

func knownCollision(c Case) string {
	if c.Kind != KRSWU || c.kindY() != KRSWU {
		return ""
	}
	x, y := c.X, c.Y
	if x.OIDsSet != y.OIDsSet && len(x.OIDs) == 0 && len(y.OIDs) == 0 {
		x.OIDsSet, y.OIDsSet = false, false
		if canon(KRSWU, x) == canon(KRSWU, y) {
			return "C24/RSWU/objectids-nil-vs-empty-same-key"
		}
	}
	return ""
}

func check(env *fw.Env, c Case) *fw.Failure {
	kx, ky := c.Kind, c.kindY()
	cross := kx != ky
	if dupTuple(c.X.Tuples) || dupTuple(c.Y.Tuples) {
		env.Rec.Discard("duplicate-contextual-tuple")
		return nil
	}
	if kx == KBatch && (c.X.Store != c.Y.Store || c.X.Model != c.Y.Model) {
		env.Rec.Discard("batch-items-of-different-stores")
		return nil
	}

	cx, cy := canon(kx, c.X), canon(ky, c.Y)
	expectEq := !cross && cx == cy
	classes := []string{"kind:" + kx, kx + ":" + c.PairKind}

	var keyX, keyY []byte
	var same bool
	if kx == KBatch {
		// generateCacheKeyFromCheck is unexported: observe the de-duplication itself
		s, err := batchSameKey(c.X.Store, c.X.Model, c.X, c.Y)
		if err != nil {
			env.Rec.Discard("batch-rejected")
			return nil
		}
		same = s
	} else {
		var rejX, rejY bool
		var errX, errY error
		keyX, rejX, errX = buildKey(kx, c.X)
		keyY, rejY, errY = buildKey(ky, c.Y)
		if rejX || rejY {
			env.Rec.Discard("request-rejected")
			return nil
		}
		if errX != nil || errY != nil {
			return fw.Failf("C24/harness", "buildKey: %v / %v", errX, errY)
		}
		same = bytes.Equal(keyX, keyY)
	}

	// O1 on both members (VERIF_C24_ONLY_FINAL_KEYS=1 switches O1 off; used only to
	// measure, with mutants of /repo, what the final-key oracle O2 catches on its own)
	var inX, inY inner
	sides := []struct {
		kind string
		in   Input
		key  []byte
		out  *inner
	}{{kx, c.X, keyX, &inX}, {ky, c.Y, keyY, &inY}}
	if onlyFinalKeys {
		sides = nil
	}
	for i, side := range sides {
		if side.kind == KEnc {
			if f := checkEnc(side.in, side.key); f != nil {
				return f
			}
			continue
		}
		var items []Item
		if side.kind != KBatch && side.kind != KInv {
			var f *fw.Failure
			if items, f = checkOuter(side.kind, side.in, side.key); f != nil {
				return f
			}
		}
		r, f := checkInner(side.kind, side.in, side.key, items)
		if f != nil {
			return f
		}
		*side.out = r
		if f := checkComponents(side.kind, side.in); f != nil {
			return f
		}
		if i == 0 && r.bytes != nil && side.kind != KBatch {
			if r.verified {
				classes = append(classes, "prehash:"+side.kind+":verified")
			} else {
				classes = append(classes, "prehash:"+side.kind+":unverified")
			}
		}
	}

	// O2
	if expectEq != same {
		detail := ""
		if inX.bytes != nil && inY.bytes != nil {
			detail = fmt.Sprintf("\npre-hash bytes (rebuilt; verified against the key digest: x=%v y=%v) equal=%v\n  x: % x\n  y: % x",
				inX.verified, inY.verified, bytes.Equal(inX.bytes, inY.bytes), inX.bytes, inY.bytes)
		}
		if expectEq {
			return fw.Failf("C24/"+kx+"/semantic-noop-changes-key", "%s: semantically equal inputs (canonical form %s) have different keys\n  x: %s -> % x\n  y: %s -> % x%s",
				c.PairKind, cx, describe(kx, c.X), keyX, describe(ky, c.Y), keyY, detail)
		}
		sig := knownCollision(c)
		if sig == "" {
			sig = "C24/" + kx + "/different-inputs-same-key"
			if cross {
				sig = "C24/" + kx + "-" + ky + "/cross-kind-same-key"
			}
		}
		return fw.Failf(sig, "%s: semantically different inputs have the same key % x\n  x: %s\n     canonical %s\n  y: %s\n     canonical %s%s",
			c.PairKind, keyX, describe(kx, c.X), cx, describe(ky, c.Y), cy, detail)
	}

	// NT: a derived pair whose members differ as written
	nt := c.PairKind != "identical" && (cross || !rawEqual(c.X, c.Y))
	if nt && strings.HasPrefix(c.PairKind, "near:") && expectEq {
		// the edit did not change the meaning (e.g. a set member added twice)
		classes = append(classes, kx+":near-edit-without-semantic-change")
		nt = false
	}
	if nt && strings.HasPrefix(c.PairKind, "noop:") && !expectEq {
		return fw.Failf("C24/harness", "generator bug: %s produced semantically different inputs\n  %s\n  %s", c.PairKind, cx, cy)
	}
	if expectEq {
		classes = append(classes, "expect:equal")
	} else {
		classes = append(classes, "expect:different")
	}
	var sample any
	if nt {
		sample = map[string]any{"kind": kx, "kind_y": ky, "pair": c.PairKind, "x": cx, "y": cy, "same_key": same}
	}
	env.Rec.Case(c, nt, sample, classes...)
	return nil
}

var onlyFinalKeys = os.Getenv("VERIF_C24_ONLY_FINAL_KEYS") != ""

func gen(t *rapid.T) Case { return genCase(rapidSrc{t}) }

func TestC24(t *testing.T) { fw.Run(t, "C24", gen, check) }
