package p24

// Derivation of Y from X: identical, semantic no-ops, near misses. A mutation
// may first reshape X (e.g. add a second context field) so that it applies; it
// returns Y. The label only feeds classes / NT: the oracle recomputes from the
// canonical forms whether the two inputs are semantically equal.

import "strings"

type mut struct {
	name  string
	apply func(s src, kind string, x *Input) Input
}

var seps = []string{"\x00", "|", "#", ":", ",", "\x01", "\x02", "\x03", "\x04", "\x05", "\x06", "\x07", "\x08", "\t", "\n", "\x0b", " ", "@", "*"}

// ---- flat string fields ----------------------------------------------------

func twoFields(s src, kind string) (string, string) {
	fs := flatFields(kind)
	i := s.n(len(fs)-1, "field.i")
	return fs[i], fs[i+1]
}

// mMoveChar: one character changes sides of a field boundary; half of the time
// it is a separator-like byte (x: "a#","b"  y: "a","#b").
func mMoveChar(s src, kind string, x *Input) Input {
	a, b := twoFields(s, kind)
	if chance(s, "move.sep", 1, 2) {
		*strField(x, a) += pick(s, "sep", seps)
	}
	if *strField(x, a) == "" {
		*strField(x, a) = "ab"
	}
	y := clone(*x)
	rest, r := lastRune(*strField(&y, a))
	*strField(&y, a) = rest
	*strField(&y, b) = r + *strField(&y, b)
	return y
}

func mConcat(s src, kind string, x *Input) Input {
	a, b := twoFields(s, kind)
	if *strField(x, b) == "" {
		*strField(x, b) = "b"
	}
	y := clone(*x)
	if chance(s, "concat.dir", 1, 2) {
		*strField(&y, a) += *strField(&y, b)
		*strField(&y, b) = ""
	} else {
		*strField(&y, b) = *strField(&y, a) + *strField(&y, b)
		*strField(&y, a) = ""
	}
	return y
}

func mSwapFields(s src, kind string, x *Input) Input {
	a, b := twoFields(s, kind)
	if *strField(x, a) == *strField(x, b) {
		*strField(x, b) += "'"
	}
	y := clone(*x)
	*strField(&y, a), *strField(&y, b) = *strField(&y, b), *strField(&y, a)
	return y
}

func mSepInsert(s src, kind string, x *Input) Input {
	f := pick(s, "field", flatFields(kind))
	y := clone(*x)
	*strField(&y, f) = insertAt(s, *strField(&y, f), pick(s, "sep", seps))
	return y
}

// mTLVEmbed: Y's field a holds X's field a followed by the TLV (or just
// length+bytes) of X's field b, and Y's b is empty: equal streams if strings
// were written without tag / length.
func mTLVEmbed(s src, kind string, x *Input) Input {
	a, b := twoFields(s, kind)
	y := clone(*x)
	bv := *strField(&y, b)
	if len(bv) > 100 {
		bv = bv[:1]
		*strField(x, b) = bv
	}
	emb := string(rune(len(bv))) + bv
	if chance(s, "tlv.tag", 2, 3) {
		emb = "\x04" + emb
	}
	*strField(&y, a) += emb
	*strField(&y, b) = ""
	return y
}

func mEdit(s src, kind string, x *Input) Input {
	f := pick(s, "field", flatFields(kind))
	y := clone(*x)
	*strField(&y, f) += pick(s, "edit.piece", plainPieces)
	return y
}

func mEmpty(s src, kind string, x *Input) Input {
	f := pick(s, "field", flatFields(kind))
	if *strField(x, f) == "" {
		*strField(x, f) = "a"
	}
	y := clone(*x)
	*strField(&y, f) = ""
	return y
}

// ---- string lists (condition filter, object ids) ---------------------------

type strList struct {
	name string
	get  func(in *Input) *[]string
}

var condsList = strList{"conds", func(in *Input) *[]string { return &in.Conds }}
var oidsList = strList{"oids", func(in *Input) *[]string { in.OIDsSet = true; return &in.OIDs }}

func listMuts(l strList) []mut {
	return []mut{
		{"near:" + l.name + "-split", func(s src, _ string, x *Input) Input {
			// ["ab"] vs ["a","b"]
			p := l.get(x)
			i := -1
			for j, v := range *p {
				if _, _, ok := splitRunes(v); ok {
					i = j
				}
			}
			if i < 0 {
				*p = append(*p, "ab")
				i = len(*p) - 1
			}
			y := clone(*x)
			q := l.get(&y)
			a, b, _ := splitRunes((*q)[i])
			(*q)[i] = a
			*q = append(*q, b)
			return y
		}},
		{"near:" + l.name + "-sepjoin", func(s src, _ string, x *Input) Input {
			// ["a","b"] vs ["a,b"]
			p := l.get(x)
			for len(*p) < 2 {
				*p = append(*p, pick(s, "join.elem", []string{"a", "b", "c1"}))
			}
			y := clone(*x)
			q := l.get(&y)
			sep := pick(s, "join.sep", []string{"", ",", "\x00", "|", "\x04", "\x04\x01"})
			j := (*q)[0] + sep + (*q)[1]
			*q = append([]string{j}, (*q)[2:]...)
			return y
		}},
		{"near:" + l.name + "-empty-vs-emptystring", func(s src, _ string, x *Input) Input {
			// nil / [] vs [""]
			*l.get(x) = nil
			y := clone(*x)
			*l.get(&y) = []string{""}
			return y
		}},
		{"near:" + l.name + "-add-emptystring", func(s src, _ string, x *Input) Input {
			p := l.get(x)
			var keep []string
			for _, v := range *p {
				if v != "" {
					keep = append(keep, v)
				}
			}
			*p = keep
			y := clone(*x)
			*l.get(&y) = append(*l.get(&y), "")
			return y
		}},
		{"near:" + l.name + "-drop", func(s src, _ string, x *Input) Input {
			p := l.get(x)
			if len(*p) == 0 {
				*p = append(*p, pick(s, "drop.elem", condPool))
			}
			y := clone(*x)
			q := l.get(&y)
			i := s.n(len(*q), "drop.i")
			*q = append((*q)[:i:i], (*q)[i+1:]...)
			return y
		}},
		{"near:" + l.name + "-elem-edit", func(s src, _ string, x *Input) Input {
			p := l.get(x)
			if len(*p) == 0 {
				*p = append(*p, "c1")
			}
			y := clone(*x)
			q := l.get(&y)
			i := s.n(len(*q), "edit.i")
			(*q)[i] = insertAt(s, (*q)[i], pick(s, "edit.sep", append(seps, "a", "1")))
			return y
		}},
		{"noop:" + l.name + "-reorder", func(s src, _ string, x *Input) Input {
			p := l.get(x)
			for len(*p) < 2 {
				*p = append(*p, pick(s, "reorder.elem", condPool)+strings.Repeat("'", len(*p)))
			}
			y := clone(*x)
			q := l.get(&y)
			permute(s, len(*q), func(i, j int) { (*q)[i], (*q)[j] = (*q)[j], (*q)[i] })
			return y
		}},
	}
}

// permute applies a non-identity permutation (reverse or rotate) through swap.
func permute(s src, n int, swap func(i, j int)) {
	if n < 2 {
		return
	}
	if n == 2 || chance(s, "perm.reverse", 1, 2) {
		for i, j := 0, n-1; i < j; i, j = i+1, j-1 {
			swap(i, j)
		}
		return
	}
	for i := 0; i+1 < n; i++ { // rotate left by one
		swap(i, i+1)
	}
}

// ---- RSWU ------------------------------------------------------------------

func rswuMuts() []mut {
	ms := []mut{
		{"near:oids-nil-vs-empty", func(s src, _ string, x *Input) Input {
			x.OIDsSet, x.OIDs = false, nil
			y := clone(*x)
			y.OIDsSet = true
			return y
		}},
		{"near:oids-nil-vs-elems", func(s src, _ string, x *Input) Input {
			x.OIDsSet = true
			if len(x.OIDs) == 0 {
				x.OIDs = []string{genStr(s, "oid")}
			}
			y := clone(*x)
			y.OIDsSet, y.OIDs = false, nil
			return y
		}},
		{"near:oid-to-cond", func(s src, _ string, x *Input) Input {
			// the arrays are adjacent in the hashed part: an element must not change sides
			x.OIDsSet = true
			v := pick(s, "move.elem", []string{"c1", "a", ""})
			x.OIDs = append(dropStr(x.OIDs, v), v)
			x.Conds = dropStr(x.Conds, v)
			y := clone(*x)
			y.OIDs = dropStr(y.OIDs, v)
			y.Conds = append(y.Conds, v)
			return y
		}},
		{"near:uf-to-oid", func(s src, _ string, x *Input) Input {
			x.OIDsSet = true
			f := OR{Object: genName(s, "uf.type") + ":" + genName(s, "uf.id")}
			x.UserFilter = append(x.UserFilter, f)
			x.OIDs = dropStr(x.OIDs, f.Object)
			y := clone(*x)
			y.UserFilter = y.UserFilter[:len(y.UserFilter)-1]
			y.OIDs = append(y.OIDs, f.Object)
			return y
		}},
		{"near:uf-move-char", func(s src, _ string, x *Input) Input {
			// {t:ab, c} vs {t:a, bc}
			x.UserFilter = append(x.UserFilter, OR{Object: genName(s, "uf.type") + ":" + genName(s, "uf.id") + "b", Relation: genName(s, "uf.rel")})
			y := clone(*x)
			f := &y.UserFilter[len(y.UserFilter)-1]
			rest, r := lastRune(f.Object)
			f.Object, f.Relation = rest, r+f.Relation
			return y
		}},
		{"near:uf-rel-vs-none", func(s src, _ string, x *Input) Input {
			x.UserFilter = append(x.UserFilter, OR{Object: genName(s, "uf.type") + ":" + genName(s, "uf.id"), Relation: genName(s, "uf.rel")})
			y := clone(*x)
			f := &y.UserFilter[len(y.UserFilter)-1]
			if chance(s, "uf.relnone", 1, 2) {
				f.Object, f.Relation = f.Object+f.Relation, ""
			} else {
				f.Relation = ""
			}
			return y
		}},
		{"near:uf-split", func(s src, _ string, x *Input) Input {
			// one filter {t:ab} vs two {t:a},{t:b}
			t := genName(s, "uf.type")
			x.UserFilter = append(x.UserFilter, OR{Object: t + ":ab"})
			y := clone(*x)
			y.UserFilter[len(y.UserFilter)-1].Object = t + ":a"
			y.UserFilter = append(y.UserFilter, OR{Object: t + ":b"})
			return y
		}},
		{"near:uf-drop", func(s src, _ string, x *Input) Input {
			if len(x.UserFilter) == 0 {
				x.UserFilter = append(x.UserFilter, genOR(s))
			}
			y := clone(*x)
			i := s.n(len(y.UserFilter), "drop.i")
			y.UserFilter = append(y.UserFilter[:i:i], y.UserFilter[i+1:]...)
			return y
		}},
		{"noop:uf-reorder", func(s src, _ string, x *Input) Input {
			for len(x.UserFilter) < 2 {
				x.UserFilter = append(x.UserFilter, genOR(s))
			}
			y := clone(*x)
			permute(s, len(y.UserFilter), func(i, j int) { y.UserFilter[i], y.UserFilter[j] = y.UserFilter[j], y.UserFilter[i] })
			return y
		}},
		{"noop:oids-duplicate", func(s src, _ string, x *Input) Input {
			// ObjectIDs is a set: adding a member again changes nothing
			x.OIDsSet = true
			if len(x.OIDs) == 0 {
				x.OIDs = []string{genStr(s, "oid")}
			}
			y := clone(*x)
			y.OIDs = append(y.OIDs, y.OIDs[0])
			return y
		}},
	}
	ms = append(ms, listMuts(oidsList)...)
	return ms
}

func dropStr(ss []string, v string) []string {
	var out []string
	for _, e := range ss {
		if e != v {
			out = append(out, e)
		}
	}
	return out
}

// ---- RUT -------------------------------------------------------------------

func rutMuts() []mut {
	return []mut{
		{"near:ref-kind", func(s src, _ string, x *Input) Input {
			// type vs type:* vs type#rel (also a relation literally named "*")
			r := Ref{Type: genName(s, "ref.type")}
			x.Refs = append(x.Refs, r)
			y := clone(*x)
			yr := &y.Refs[len(y.Refs)-1]
			switch s.n(3, "ref.to") {
			case 0:
				yr.Wildcard = true
			case 1:
				yr.Relation = "*"
			default:
				x.Refs[len(x.Refs)-1].Wildcard = true
				yr.Relation = "*"
			}
			return y
		}},
		{"near:ref-move-char", func(s src, _ string, x *Input) Input {
			x.Refs = append(x.Refs, Ref{Type: genName(s, "ref.type") + "b", Relation: genName(s, "ref.rel")})
			y := clone(*x)
			r := &y.Refs[len(y.Refs)-1]
			rest, c := lastRune(r.Type)
			r.Type, r.Relation = rest, c+r.Relation
			return y
		}},
		{"near:ref-split", func(s src, _ string, x *Input) Input {
			x.Refs = append(x.Refs, Ref{Type: "ab"})
			y := clone(*x)
			y.Refs[len(y.Refs)-1].Type = "a"
			y.Refs = append(y.Refs, Ref{Type: "b"})
			return y
		}},
		{"near:ref-to-cond", func(s src, _ string, x *Input) Input {
			v := pick(s, "move.elem", []string{"c1", "a", "user"})
			x.Refs = append(x.Refs, Ref{Type: v})
			x.Conds = dropStr(x.Conds, v)
			y := clone(*x)
			y.Refs = y.Refs[:len(y.Refs)-1]
			y.Conds = append(y.Conds, v)
			return y
		}},
		{"near:ref-drop", func(s src, _ string, x *Input) Input {
			if len(x.Refs) == 0 {
				x.Refs = append(x.Refs, genRef(s))
			}
			y := clone(*x)
			i := s.n(len(y.Refs), "drop.i")
			y.Refs = append(y.Refs[:i:i], y.Refs[i+1:]...)
			return y
		}},
		{"noop:refs-reorder", func(s src, _ string, x *Input) Input {
			for len(x.Refs) < 2 {
				x.Refs = append(x.Refs, genRef(s))
			}
			y := clone(*x)
			permute(s, len(y.Refs), func(i, j int) { y.Refs[i], y.Refs[j] = y.Refs[j], y.Refs[i] })
			return y
		}},
	}
}

// ---- contexts --------------------------------------------------------------

// ctxTarget picks the field list of the request context, of a conditioned
// tuple's context or of a nested map inside one of them (same path in any clone).
type ctxPath struct {
	tuple int   // -1: request context
	path  []int // indexes of map-valued fields to descend into
}

func fieldsAt(in *Input, p ctxPath) *[]Field {
	var c *Ctx
	if p.tuple < 0 {
		c = &in.Ctx
	} else {
		c = &in.Tuples[p.tuple].Ctx
	}
	c.Nil = false
	fs := &c.Fields
	for _, i := range p.path {
		fs = &(*fs)[i].V.M
	}
	return fs
}

func pickCtxPath(s src, kind string, x *Input) ctxPath {
	p := ctxPath{tuple: -1}
	if hasTuples(kind) && chance(s, "ctx.intuple", 1, 3) {
		var idx []int
		for i, t := range x.Tuples {
			if t.HasCond {
				idx = append(idx, i)
			}
		}
		if len(idx) == 0 {
			n := len(x.Tuples)
			x.Tuples = addTuple(s, kind, x.Tuples, true)
			if len(x.Tuples) > n {
				idx = []int{n}
			}
		}
		if len(idx) > 0 {
			p.tuple = pick(s, "ctx.tuple", idx)
		}
	}
	fs := fieldsAt(x, p)
	for depth := 0; depth < 2; depth++ {
		var maps []int
		for i, f := range *fs {
			if f.V.K == "map" {
				maps = append(maps, i)
			}
		}
		if len(maps) == 0 || !chance(s, "ctx.descend", 1, 2) {
			break
		}
		i := pick(s, "ctx.descend.i", maps)
		p.path = append(p.path, i)
		fs = &(*fs)[i].V.M
	}
	return p
}

// valueSwap: X gets field k = a at a random context position, Y gets k = b.
func valueSwap(name string, mk func(s src) (Val, Val)) mut {
	return mut{name, func(s src, kind string, x *Input) Input {
		p := pickCtxPath(s, kind, x)
		fs := fieldsAt(x, p)
		k := freshKey(s, *fs)
		a, b := mk(s)
		*fs = append(*fs, Field{Key: k, V: a})
		y := clone(*x)
		ys := fieldsAt(&y, p)
		(*ys)[len(*ys)-1].V = b
		return y
	}}
}

func str(v string) Val  { return Val{K: "str", S: v} }
func num(f float64) Val { return Val{K: "num", N: f} }
func list(vs ...Val) Val {
	return Val{K: "list", L: vs}
}
func mp(fs ...Field) Val { return Val{K: "map", M: fs} }

func ctxMuts() []mut {
	return []mut{
		valueSwap("near:num-vs-numeric-string", func(s src) (Val, Val) {
			f := pick(s, "num", []float64{0, 1, 2, -1, 1.5, 100, 9007199254740992})
			return num(f), str(fmtNum(f))
		}),
		valueSwap("near:bool-vs-string", func(s src) (Val, Val) {
			b := chance(s, "bool", 1, 2)
			if b {
				return Val{K: "bool", B: true}, str("true")
			}
			return Val{K: "bool"}, str("false")
		}),
		valueSwap("near:null-like", func(s src) (Val, Val) {
			vs := []Val{{K: "null"}, {K: "unset"}, {K: "bool"}, num(0), str(""), str("null"), list(), mp()}
			i := s.n(len(vs), "nulllike.a")
			j := (i + 1 + s.n(len(vs)-1, "nulllike.b")) % len(vs)
			return vs[i], vs[j]
		}),
		valueSwap("near:num-vs-bool", func(s src) (Val, Val) {
			if chance(s, "numbool", 1, 2) {
				return num(1), Val{K: "bool", B: true}
			}
			return num(0), Val{K: "bool"}
		}),
		valueSwap("near:num-adjacent", func(s src) (Val, Val) {
			f := pick(s, "num", []float64{0, 1, 100, 0.1, 9007199254740992})
			return num(f), num(pick(s, "num2", []float64{f + 1, f * 2, f + 0.5, 4.9e-324 + f, f - 1}))
		}),
		valueSwap("near:list-split", func(s src) (Val, Val) {
			// ["ab"] vs ["a","b"], "ab" vs ["ab"], ["a",["b"]] vs ["a","b"]
			switch s.n(5, "listsplit") {
			case 0:
				return list(str("ab")), list(str("a"), str("b"))
			case 1:
				return str("ab"), list(str("ab"))
			case 2:
				return list(str("a"), list(str("b"))), list(str("a"), str("b"))
			case 3:
				return list(), list(str(""))
			default:
				return list(list()), list()
			}
		}),
		valueSwap("near:list-order", func(s src) (Val, Val) {
			a, b := genVal(s, 1), genVal(s, 1)
			if canonVal(a) == canonVal(b) {
				b = list(a)
			}
			return list(a, b), list(b, a)
		}),
		valueSwap("near:list-vs-indexed-map", func(s src) (Val, Val) {
			a, b := genVal(s, 1), genVal(s, 1)
			return list(a, b), mp(Field{"0", a}, Field{"1", b})
		}),
		valueSwap("near:nested-vs-flattened", func(s src) (Val, Val) {
			v := genVal(s, 1)
			switch s.n(3, "nestflat") {
			case 0:
				return mp(Field{"a", mp(Field{"b", v})}), mp(Field{"a.b", v})
			case 1:
				return mp(Field{"a", mp(Field{"b", v})}), mp(Field{"a", v}, Field{"b", v})
			default:
				return mp(Field{"a", mp(Field{"b", v})}), mp(Field{"a", mp()}, Field{"b", v})
			}
		}),
		valueSwap("near:key-value-boundary", func(s src) (Val, Val) {
			// {"ab":"c"} vs {"a":"bc"}, {"a":"b"} vs {"b":"a"}, {"a":""} vs {"":"a"}
			switch s.n(4, "kvb") {
			case 0:
				return mp(Field{"ab", str("c")}), mp(Field{"a", str("bc")})
			case 1:
				return mp(Field{"a", str("b")}), mp(Field{"b", str("a")})
			case 2:
				return mp(Field{"a", str("")}), mp(Field{"", str("a")})
			default:
				return mp(Field{"a", str("b")}, Field{"c", str("d")}), mp(Field{"a", str("b\x04\x01c\x04\x01d")})
			}
		}),
		valueSwap("near:string-with-embedded-tlv", func(s src) (Val, Val) {
			// ["a","b"] vs ["a\x04\x01b"]; "a" + 1 vs "a\x03<8 bytes>"
			if chance(s, "embtlv", 1, 2) {
				return list(str("a"), str("b")), list(str("a\x04\x01b"))
			}
			return list(str("a"), num(0)), list(str("a\x03\x00\x00\x00\x00\x00\x00\x00\x00"))
		}),
		{"near:field-drop", func(s src, kind string, x *Input) Input {
			p := pickCtxPath(s, kind, x)
			fs := fieldsAt(x, p)
			*fs = append(*fs, Field{Key: freshKey(s, *fs), V: genVal(s, 1)})
			y := clone(*x)
			ys := fieldsAt(&y, p)
			*ys = (*ys)[:len(*ys)-1]
			return y
		}},
		{"near:key-rename", func(s src, kind string, x *Input) Input {
			p := pickCtxPath(s, kind, x)
			fs := fieldsAt(x, p)
			*fs = append(*fs, Field{Key: freshKey(s, *fs), V: genVal(s, 1)})
			y := clone(*x)
			ys := fieldsAt(&y, p)
			k := insertAt(s, (*ys)[len(*ys)-1].Key, pick(s, "sep", seps))
			for hasKey(*ys, k) {
				k += "z"
			}
			(*ys)[len(*ys)-1].Key = k
			return y
		}},
		{"near:values-swapped-between-keys", func(s src, kind string, x *Input) Input {
			p := pickCtxPath(s, kind, x)
			fs := fieldsAt(x, p)
			a, b := genVal(s, 1), genVal(s, 1)
			if canonVal(a) == canonVal(b) {
				b = list(a)
			}
			k1 := freshKey(s, *fs)
			*fs = append(*fs, Field{Key: k1, V: a})
			*fs = append(*fs, Field{Key: freshKey(s, *fs), V: b})
			y := clone(*x)
			ys := fieldsAt(&y, p)
			n := len(*ys)
			(*ys)[n-1].V, (*ys)[n-2].V = (*ys)[n-2].V, (*ys)[n-1].V
			return y
		}},
		{"noop:ctx-fields-reorder", func(s src, kind string, x *Input) Input {
			p := pickCtxPath(s, kind, x)
			fs := fieldsAt(x, p)
			for len(*fs) < 2 {
				*fs = append(*fs, Field{Key: freshKey(s, *fs), V: genVal(s, 1)})
			}
			y := clone(*x)
			ys := fieldsAt(&y, p)
			permute(s, len(*ys), func(i, j int) { (*ys)[i], (*ys)[j] = (*ys)[j], (*ys)[i] })
			return y
		}},
		{"noop:ctx-deep-reorder", func(s src, kind string, x *Input) Input {
			x.Ctx.Nil = false
			x.Ctx.Fields = append(x.Ctx.Fields, Field{Key: freshKey(s, x.Ctx.Fields), V: mp(Field{"p", genVal(s, 1)}, Field{"q", genVal(s, 1)}, Field{"r", list(mp(Field{"u", num(1)}, Field{"v", str("1")}))})})
			if len(x.Ctx.Fields) < 2 {
				x.Ctx.Fields = append(x.Ctx.Fields, Field{Key: freshKey(s, x.Ctx.Fields), V: genVal(s, 1)})
			}
			y := clone(*x)
			y.Ctx.Fields = deepReverse(y.Ctx.Fields)
			for i := range y.Tuples {
				y.Tuples[i].Ctx.Fields = deepReverse(y.Tuples[i].Ctx.Fields)
			}
			return y
		}},
		{"noop:ctx-nil-vs-empty", func(s src, kind string, x *Input) Input {
			x.Ctx = Ctx{Nil: true}
			y := clone(*x)
			y.Ctx = Ctx{}
			return y
		}},
	}
}

func deepReverse(fs []Field) []Field {
	out := make([]Field, 0, len(fs))
	for i := len(fs) - 1; i >= 0; i-- {
		f := fs[i]
		f.V = deepReverseVal(f.V)
		out = append(out, f)
	}
	return out
}

func deepReverseVal(v Val) Val {
	switch v.K {
	case "map":
		v.M = deepReverse(v.M)
	case "list":
		l := make([]Val, len(v.L))
		for i, e := range v.L {
			l[i] = deepReverseVal(e)
		}
		v.L = l
	}
	return v
}

// ---- contextual tuples -----------------------------------------------------

func ensureTuples(s src, kind string, x *Input, n int, cond bool) {
	for try := 0; len(x.Tuples) < n && try < 8; try++ {
		x.Tuples = addTuple(s, kind, x.Tuples, cond)
	}
}

func tupleMuts() []mut {
	return []mut{
		{"noop:tuples-reorder", func(s src, kind string, x *Input) Input {
			ensureTuples(s, kind, x, 2, false)
			y := clone(*x)
			permute(s, len(y.Tuples), func(i, j int) { y.Tuples[i], y.Tuples[j] = y.Tuples[j], y.Tuples[i] })
			return y
		}},
		{"noop:tuples-and-contexts-reorder", func(s src, kind string, x *Input) Input {
			ensureTuples(s, kind, x, 2, true)
			y := clone(*x)
			permute(s, len(y.Tuples), func(i, j int) { y.Tuples[i], y.Tuples[j] = y.Tuples[j], y.Tuples[i] })
			y.Ctx.Fields = deepReverse(y.Ctx.Fields)
			for i := range y.Tuples {
				y.Tuples[i].Ctx.Fields = deepReverse(y.Tuples[i].Ctx.Fields)
			}
			return y
		}},
		{"noop:tuple-ctx-nil-vs-empty", func(s src, kind string, x *Input) Input {
			ensureTuples(s, kind, x, 1, true)
			i := firstCond(x.Tuples)
			if i < 0 {
				return clone(*x)
			}
			x.Tuples[i].Ctx = Ctx{Nil: true}
			y := clone(*x)
			y.Tuples[i].Ctx = Ctx{}
			return y
		}},
		{"near:tuple-drop", func(s src, kind string, x *Input) Input {
			ensureTuples(s, kind, x, 1, false)
			y := clone(*x)
			if len(y.Tuples) > 0 {
				i := s.n(len(y.Tuples), "drop.i")
				y.Tuples = append(y.Tuples[:i:i], y.Tuples[i+1:]...)
			}
			return y
		}},
		{"near:tuple-id-edit", func(s src, kind string, x *Input) Input {
			ensureTuples(s, kind, x, 1, false)
			y := clone(*x)
			if len(y.Tuples) > 0 {
				t := &y.Tuples[s.n(len(y.Tuples), "edit.i")]
				t.Object += pick(s, "edit.piece", idPieces)
			}
			return y
		}},
		{"near:ctx-value-moved-into-tuple-ctx", func(s src, kind string, x *Input) Input {
			// a request context value is not the same as that value in one tuple's condition context
			ensureTuples(s, kind, x, 1, true)
			i := firstCond(x.Tuples)
			if i < 0 {
				return clone(*x)
			}
			x.Ctx.Nil = false
			k := freshKey(s, append(append([]Field(nil), x.Ctx.Fields...), x.Tuples[i].Ctx.Fields...))
			x.Ctx.Fields = append(x.Ctx.Fields, Field{Key: k, V: genVal(s, 1)})
			y := clone(*x)
			f := y.Ctx.Fields[len(y.Ctx.Fields)-1]
			y.Ctx.Fields = y.Ctx.Fields[:len(y.Ctx.Fields)-1]
			y.Tuples[i].Ctx.Nil = false
			y.Tuples[i].Ctx.Fields = append(y.Tuples[i].Ctx.Fields, f)
			return y
		}},
		{"near:ctx-value-moved-between-tuples", func(s src, kind string, x *Input) Input {
			ensureTuples(s, kind, x, 1, true)
			ensureTuples(s, kind, x, len(x.Tuples)+1, true)
			var idx []int
			for i, t := range x.Tuples {
				if t.HasCond {
					idx = append(idx, i)
				}
			}
			if len(idx) < 2 {
				return clone(*x)
			}
			a, b := idx[0], idx[1]
			k := freshKey(s, append(append([]Field(nil), x.Tuples[a].Ctx.Fields...), x.Tuples[b].Ctx.Fields...))
			x.Tuples[a].Ctx.Nil = false
			x.Tuples[a].Ctx.Fields = append(x.Tuples[a].Ctx.Fields, Field{Key: k, V: genVal(s, 1)})
			y := clone(*x)
			fa := &y.Tuples[a].Ctx.Fields
			f := (*fa)[len(*fa)-1]
			*fa = (*fa)[:len(*fa)-1]
			y.Tuples[b].Ctx.Nil = false
			y.Tuples[b].Ctx.Fields = append(y.Tuples[b].Ctx.Fields, f)
			return y
		}},
	}
}

func firstCond(ts []CT) int {
	for i, t := range ts {
		if t.HasCond {
			return i
		}
	}
	return -1
}

// freeTupleMuts need tuples that are not validated against a model.
func freeTupleMuts() []mut {
	fields := func(t *CT) []*string { return []*string{&t.Object, &t.Relation, &t.User} }
	return []mut{
		{"near:tuple-move-char", func(s src, kind string, x *Input) Input {
			ensureTuples(s, kind, x, 1, false)
			ti := s.n(len(x.Tuples), "tuple.i")
			nf := 3
			if x.Tuples[ti].HasCond {
				nf = 4
			}
			i := s.n(nf-1, "field.i")
			all := func(t *CT) []*string { return append(fields(t), &t.Cond) }
			if chance(s, "move.sep", 1, 2) {
				*all(&x.Tuples[ti])[i] += pick(s, "sep", seps)
			}
			y := clone(*x)
			fs := all(&y.Tuples[ti])
			rest, r := lastRune(*fs[i])
			*fs[i], *fs[i+1] = rest, r+*fs[i+1]
			return y
		}},
		{"near:tuple-field-swap", func(s src, kind string, x *Input) Input {
			ensureTuples(s, kind, x, 1, false)
			y := clone(*x)
			t := &y.Tuples[s.n(len(y.Tuples), "tuple.i")]
			t.Object, t.User = t.User, t.Object
			return y
		}},
		{"near:tuple-cond-none-vs-named", func(s src, kind string, x *Input) Input {
			ensureTuples(s, kind, x, 1, false)
			i := s.n(len(x.Tuples), "tuple.i")
			x.Tuples[i].HasCond, x.Tuples[i].Cond, x.Tuples[i].Ctx = false, "", Ctx{}
			y := clone(*x)
			y.Tuples[i].HasCond, y.Tuples[i].Cond = true, genName(s, "ct.condname")
			return y
		}},
		{"near:tuple-cond-name-vs-ctx-key", func(s src, kind string, x *Input) Input {
			// cond "ab" {c: v} vs cond "a" {bc: v}; cond name moved into the context
			ensureTuples(s, kind, x, 1, true)
			i := firstCond(x.Tuples)
			if i < 0 {
				return clone(*x)
			}
			x.Tuples[i].Cond = genName(s, "ct.condname") + "b"
			x.Tuples[i].Ctx = Ctx{Fields: []Field{{Key: "c", V: genVal(s, 1)}}}
			y := clone(*x)
			rest, r := lastRune(y.Tuples[i].Cond)
			y.Tuples[i].Cond = rest
			y.Tuples[i].Ctx.Fields[0].Key = r + "c"
			return y
		}},
		{"near:tuple-regroup", func(s src, kind string, x *Input) Input {
			// [(a,b,c),(d,e,f) with g{}] vs [(a,b,c) with d{}, (e,f,g)]: the same strings in the
			// same order with the condition attached to the other tuple
			a := genFreeTuple(s)
			b := genFreeTuple(s)
			a.HasCond, a.Cond, a.Ctx = false, "", Ctx{}
			b.HasCond, b.Ctx = true, Ctx{}
			b.Cond = genName(s, "ct.condname")
			x.Tuples = []CT{a, b}
			y := clone(*x)
			y.Tuples = []CT{
				{Object: a.Object, Relation: a.Relation, User: a.User, HasCond: true, Cond: b.Object},
				{Object: b.Relation, Relation: b.User, User: b.Cond},
			}
			return y
		}},
		{"near:tuple-into-request-fields", func(s src, kind string, x *Input) Input {
			// INV: store/model vs tuple strings
			ensureTuples(s, kind, x, 1, false)
			y := clone(*x)
			y.Model = y.Model + y.Tuples[0].Object
			y.Tuples[0].Object = ""
			return y
		}},
	}
}

// ---- validated request (REQ / EDGE) ----------------------------------------

func splitObj(o string) (string, string) {
	i := strings.IndexByte(o, ':')
	return o[:i], o[i+1:]
}

func reqMuts(kind string) []mut {
	ms := reqBaseMuts()
	if kind == KReq { // the edge key does not (and need not) contain the request's relation
		ms = append(ms, mut{"near:relation-change", func(s src, kind string, x *Input) Input {
			// the sub-problem key must tell the relations of one object type apart
			x.Object = "doc:" + genID(s, "req.oid")
			x.Relation = "viewer"
			y := clone(*x)
			y.Relation = pick(s, "rel.to", []string{"editor", "owner", "can_read", "blocked"})
			return y
		}})
	}
	return ms
}

func reqBaseMuts() []mut {
	return []mut{
		{"near:id-move-char", func(s src, kind string, x *Input) Input {
			// object id "ab" user id "c" vs object id "a" user id "bc"
			x.Object += "b"
			if x.User == "user:*" {
				x.User = "user:c"
			}
			y := clone(*x)
			rest, r := lastRune(y.Object)
			ut, uid := splitObj(y.User)
			y.Object, y.User = rest, ut+":"+r+uid
			return y
		}},
		{"near:object-id-edit", func(s src, kind string, x *Input) Input {
			y := clone(*x)
			ot, oid := splitObj(y.Object)
			y.Object = ot + ":" + insertAt(s, oid, pick(s, "edit.piece", idPieces))
			return y
		}},
		{"near:user-id-edit", func(s src, kind string, x *Input) Input {
			if x.User == "user:*" {
				x.User = "user:a"
			}
			y := clone(*x)
			ut, uid := splitObj(y.User)
			y.User = ut + ":" + pick(s, "edit.piece", idPieces) + uid
			return y
		}},
		{"near:user-kind", func(s src, kind string, x *Input) Input {
			// user:* vs user:a ; group:g#member vs group:g (object)
			x.User = "user:*"
			y := clone(*x)
			y.User = pick(s, "user.to", []string{"user:a", "user:*a", "group:x#member"})
			return y
		}},
		{"near:object-user-swap-ids", func(s src, kind string, x *Input) Input {
			if x.User == "user:*" {
				x.User = "user:a"
			}
			ot, oid := splitObj(x.Object)
			ut, uid := splitObj(x.User)
			rel := ""
			if i := strings.IndexByte(uid, '#'); i >= 0 {
				uid, rel = uid[:i], uid[i:]
			}
			if oid == uid {
				oid += "1"
				x.Object = ot + ":" + oid
			}
			y := clone(*x)
			y.Object, y.User = ot+":"+uid, ut+":"+oid+rel
			return y
		}},
	}
}

func edgeMuts() []mut {
	return []mut{
		{"near:edge-sibling", func(s src, kind string, x *Input) Input {
			// another edge of the same relation definition (differs only in target / tupleset / type)
			es := fixedEdges()
			x.Edge = ((x.Edge % len(es)) + len(es)) % len(es)
			var sib []int
			for i, e := range es {
				if e.RelDef == es[x.Edge].RelDef && e.identity() != es[x.Edge].identity() {
					sib = append(sib, i)
				}
			}
			y := clone(*x)
			if len(sib) == 0 {
				y.Edge = (x.Edge + 1) % len(es)
			} else {
				y.Edge = pick(s, "edge.sib", sib)
			}
			return y
		}},
		{"near:edge-change", func(s src, kind string, x *Input) Input {
			n := len(fixedEdges())
			y := clone(*x)
			y.Edge = (x.Edge + 1 + s.n(n-1, "edge.to")) % n
			return y
		}},
	}
}

// ---- raw TLV items (ENC) ---------------------------------------------------

func itemSwap(name string, mk func(s src) ([]Item, []Item)) mut {
	return mut{name, func(s src, kind string, x *Input) Input {
		a, b := mk(s)
		pos := s.n(len(x.Items)+1, "items.pos")
		splice := func(in []Item, mid []Item) []Item {
			out := append([]Item(nil), in[:pos]...)
			out = append(out, mid...)
			return append(out, in[pos:]...)
		}
		base := x.Items
		wrap := s.n(3, "items.wrap")
		y := clone(*x)
		switch wrap {
		case 0: // top-level sequence
			x.Items, y.Items = splice(base, a), splice(base, b)
		case 1: // inside an array
			x.Items, y.Items = splice(base, []Item{{T: "arr", L: a}}), splice(base, []Item{{T: "arr", L: b}})
		default: // as a pair value
			x.Items = splice(base, []Item{{T: "pair", L: []Item{{T: "str", S: "k"}, {T: "arr", L: a}}}})
			y.Items = splice(base, []Item{{T: "pair", L: []Item{{T: "str", S: "k"}, {T: "arr", L: b}}}})
		}
		return y
	}}
}

func is(v string) Item    { return Item{T: "str", S: v} }
func ib(v string) Item    { return Item{T: "bytes", S: v} }
func iu(v uint64) Item    { return Item{T: "u64", U: v} }
func iarr(l ...Item) Item { return Item{T: "arr", L: l} }
func imap(l ...Item) Item { return Item{T: "map", L: l} }

func encMuts() []mut {
	return []mut{
		itemSwap("near:str-split", func(s src) ([]Item, []Item) {
			return []Item{is("ab")}, []Item{is("a"), is("b")}
		}),
		itemSwap("near:str-move-char", func(s src) ([]Item, []Item) {
			c := pick(s, "sep", append(seps, "x"))
			a, b := genStr(s, "item.str")+c, genStr(s, "item.str")
			return []Item{is(a), is(b)}, []Item{is(a[:len(a)-len(c)]), is(c + b)}
		}),
		itemSwap("near:str-embeds-next-tlv", func(s src) ([]Item, []Item) {
			a, b := genStr(s, "item.str"), genStr(s, "item.str")
			if len(b) > 100 {
				b = "b"
			}
			if chance(s, "emb.drop", 1, 2) {
				return []Item{is(a), is(b)}, []Item{is(a + "\x04" + string(rune(len(b))) + b)}
			}
			return []Item{is(a), is(b)}, []Item{is(a + string(rune(len(b))) + b), is("")}
		}),
		itemSwap("near:str-vs-bytes", func(s src) ([]Item, []Item) {
			v := genStr(s, "item.str")
			return []Item{is(v)}, []Item{ib(v)}
		}),
		itemSwap("near:small-scalars", func(s src) ([]Item, []Item) {
			vs := []Item{{T: "null"}, {T: "unset"}, {T: "bool"}, {T: "bool", B: true}, {T: "byte"}, {T: "byte", U: 1}, iu(0), iu(1), is(""), ib(""), is("\x00"), ib("\x01"), iarr(), imap()}
			i := s.n(len(vs), "scalar.a")
			j := (i + 1 + s.n(len(vs)-1, "scalar.b")) % len(vs)
			return []Item{vs[i]}, []Item{vs[j]}
		}),
		itemSwap("near:u64-vs-bytes", func(s src) ([]Item, []Item) {
			return []Item{iu(0x0101010101010101)}, []Item{ib("\x01\x01\x01\x01\x01\x01\x01\x01")}
		}),
		itemSwap("near:arr-vs-map-vs-pair", func(s src) ([]Item, []Item) {
			k, v := is(genStr(s, "item.str")), genItem(s, 0)
			vs := []Item{iarr(k, v), imap(k, v), {T: "pair", L: []Item{k, v}}}
			i := s.n(3, "amp.a")
			j := (i + 1 + s.n(2, "amp.b")) % 3
			return []Item{vs[i]}, []Item{vs[j]}
		}),
		itemSwap("near:arr-nesting", func(s src) ([]Item, []Item) {
			a, b := genItem(s, 0), genItem(s, 0)
			vs := [][]Item{{iarr(a, b)}, {iarr(iarr(a), b)}, {iarr(a), b}, {iarr(iarr(a, b))}, {a, b}, {iarr(a), iarr(b)}, {iarr(), a, b}}
			i := s.n(len(vs), "nest.a")
			j := (i + 1 + s.n(len(vs)-1, "nest.b")) % len(vs)
			return vs[i], vs[j]
		}),
		itemSwap("near:item-order", func(s src) ([]Item, []Item) {
			a, b := genItem(s, 1), genItem(s, 1)
			if rawEqual(a, b) {
				b = iarr(a)
			}
			return []Item{a, b}, []Item{b, a}
		}),
		itemSwap("near:item-drop", func(s src) ([]Item, []Item) {
			a := genItem(s, 1)
			return []Item{a}, nil
		}),
	}
}

// ---------------------------------------------------------------------------

var crossKinds = [][2]string{
	{KIQ, KCC}, {KCC, KIQ}, {KIQOR, KIQUOT}, {KIQUOT, KIQOR}, {KIQ, KIQOR}, {KIQ, KIQUOT}, {KSP, KRead}, {KRead, KSP},
	{KRead, KRUT}, {KRUT, KRSWU}, {KRSWU, KRead}, {KMG, KCC}, {KMG, KIQOR}, {KSP, KIQOR}, {KIQUOT, KRead},
}

func mutsFor(kind string) (noops, nears []mut) {
	var all []mut
	if hasConds(kind) {
		all = append(all, listMuts(condsList)...)
	}
	switch kind {
	case KRSWU:
		all = append(all, rswuMuts()...)
	case KRUT:
		all = append(all, rutMuts()...)
	case KEnc:
		all = append(all, encMuts()...)
	case KSP:
		all = append(all, mut{"near:invariant-change", func(s src, _ string, x *Input) Input {
			y := clone(*x)
			y.Invariant = x.Invariant ^ (1 << uint(s.n(64, "inv.bit")))
			return y
		}})
	}
	if kind == KEdge {
		all = append(all, edgeMuts()...)
	}
	if hasTuples(kind) {
		all = append(all, ctxMuts()...)
		all = append(all, tupleMuts()...)
		if modelKind(kind) {
			all = append(all, reqMuts(kind)...)
		} else {
			all = append(all, freeTupleMuts()...)
		}
	}
	// generic edits of the plain string inputs last: rapid favours small indexes
	if fs := flatFields(kind); len(fs) > 0 {
		all = append(all, mut{"near:sep-insert", mSepInsert}, mut{"near:edit", mEdit}, mut{"near:empty", mEmpty})
		if len(fs) > 1 {
			all = append(all, mut{"near:move-char", mMoveChar}, mut{"near:concat", mConcat}, mut{"near:swap-fields", mSwapFields}, mut{"near:tlv-embed", mTLVEmbed})
		}
	}
	for _, m := range all {
		if strings.HasPrefix(m.name, "noop:") {
			noops = append(noops, m)
		} else {
			nears = append(nears, m)
		}
	}
	return noops, nears
}

var kindWeights = []struct {
	kind string
	w    int
}{
	{KInv, 5}, {KBatch, 2}, {KReq, 3}, {KEdge, 3}, {KSP, 2}, {KRead, 2}, {KRSWU, 5}, {KRUT, 3}, {KEnc, 4},
	{KIQ, 1}, {KIQOR, 1}, {KIQUOT, 1}, {KCC, 1}, {KMG, 1},
}

func genKind(s src) string {
	total := 0
	for _, kw := range kindWeights {
		total += kw.w
	}
	r := s.n(total, "kind")
	for _, kw := range kindWeights {
		if r < kw.w {
			return kw.kind
		}
		r -= kw.w
	}
	return KInv
}

func genCase(s src) Case {
	// 1 in 16: a cross-kind pair (same strings fed to two different key builders)
	if s.n(16, "cross") == 0 {
		p := pick(s, "cross.kinds", crossKinds)
		x := genInput(s, p[0])
		// fill every flat field so that the other builder sees the same strings
		x.Store, x.Model = genStoreish(s, "store"), genStr(s, "model")
		x.Object, x.Relation, x.User, x.ObjectType = genStr(s, "object"), genStr(s, "relation"), genStr(s, "user"), genStr(s, "otype")
		if chance(s, "cross.align", 1, 2) { // the two builders see the same strings at the same positions
			x.User, x.ObjectType, x.Model = x.Object, x.Relation, x.Object
		}
		return Case{Kind: p[0], KindY: p[1], PairKind: "near:cross-kind", X: x, Y: clone(x)}
	}
	kind := genKind(s)
	x := genInput(s, kind)
	noops, nears := mutsFor(kind)
	r := s.n(20, "pairkind")
	var c Case
	switch {
	case r == 19:
		c = Case{Kind: kind, PairKind: "identical", X: x, Y: clone(x)}
	case r >= 13 && len(noops) > 0:
		m := pick(s, "noop", noops)
		y := m.apply(s, kind, &x)
		c = Case{Kind: kind, PairKind: m.name, X: x, Y: y}
	default:
		m := pick(s, "near", nears)
		y := m.apply(s, kind, &x)
		c = Case{Kind: kind, PairKind: m.name, X: x, Y: y}
	}
	if kind == KBatch { // store and model are per batch
		c.Y.Store, c.Y.Model = c.X.Store, c.X.Model
	}
	// the case must survive a JSON round trip unchanged
	return clone(c)
}
