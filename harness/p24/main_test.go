package p24

import (
	"os"
	"testing"

	"github.com/openfga/openfga/pkg/storage/cache/keys"

	"github.com/openfga/openfga/verifharness/fw"
)

func TestMain(m *testing.M) {
	// keys.Seed is "exported solely so tests can pin it": pin the digest seed so
	// that a replayed case hashes exactly as the failing run did.
	keys.Seed = 0x5eed_c24c_24c2_4c24
	code := m.Run()
	fw.FlushAll()
	os.Exit(code)
}
