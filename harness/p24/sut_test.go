package p24

// The key builders of /repo, called through their exported entry points.

import (
	"context"
	"encoding/binary"
	"fmt"
	"sort"
	"strings"
	"sync"

	openfgav1 "github.com/openfga/api/proto/openfga/v1"
	authzGraph "github.com/openfga/language/pkg/go/graph"

	wcheck "github.com/openfga/openfga/internal/check"
	"github.com/openfga/openfga/internal/modelgraph"
	"github.com/openfga/openfga/pkg/server/commands"
	"github.com/openfga/openfga/pkg/storage"
	"github.com/openfga/openfga/pkg/storage/cache/keys"
)

// ---------------------------------------------------------------------------
// fixed model for the kinds that need a validated check.Request (REQ, EDGE)

func direct(rs ...*openfgav1.RelationReference) *openfgav1.RelationMetadata {
	return &openfgav1.RelationMetadata{DirectlyRelatedUserTypes: rs}
}
func rObj(t string) *openfgav1.RelationReference { return &openfgav1.RelationReference{Type: t} }
func rObjC(t, c string) *openfgav1.RelationReference {
	return &openfgav1.RelationReference{Type: t, Condition: c}
}
func rSet(t, r string) *openfgav1.RelationReference {
	return &openfgav1.RelationReference{Type: t, RelationOrWildcard: &openfgav1.RelationReference_Relation{Relation: r}}
}
func rWild(t, c string) *openfgav1.RelationReference {
	return &openfgav1.RelationReference{Type: t, Condition: c, RelationOrWildcard: &openfgav1.RelationReference_Wildcard{Wildcard: &openfgav1.Wildcard{}}}
}
func this() *openfgav1.Userset {
	return &openfgav1.Userset{Userset: &openfgav1.Userset_This{This: &openfgav1.DirectUserset{}}}
}
func computed(r string) *openfgav1.Userset {
	return &openfgav1.Userset{Userset: &openfgav1.Userset_ComputedUserset{ComputedUserset: &openfgav1.ObjectRelation{Relation: r}}}
}
func ttu(tupleset, rel string) *openfgav1.Userset {
	return &openfgav1.Userset{Userset: &openfgav1.Userset_TupleToUserset{TupleToUserset: &openfgav1.TupleToUserset{
		Tupleset: &openfgav1.ObjectRelation{Relation: tupleset}, ComputedUserset: &openfgav1.ObjectRelation{Relation: rel}}}}
}
func union(cs ...*openfgav1.Userset) *openfgav1.Userset {
	return &openfgav1.Userset{Userset: &openfgav1.Userset_Union{Union: &openfgav1.Usersets{Child: cs}}}
}
func diff(a, b *openfgav1.Userset) *openfgav1.Userset {
	return &openfgav1.Userset{Userset: &openfgav1.Userset_Difference{Difference: &openfgav1.Difference{Base: a, Subtract: b}}}
}

// fixedModel (schema 1.1):
//
//	type user
//	type group   member: [user, user:*, group#member, user with c1]
//	type folder  viewer: [user, group#member]
//	type doc     parent: [folder]
//	             owner: [user, user with c1, user with c2]
//	             editor: [user, group#member] or owner
//	             viewer: [user:* with c1] or editor or viewer from parent
//	             blocked: [user]
//	             can_read: viewer but not blocked
//	condition c1(x: int) {x < 100}; condition c2(s: string) {s == "a"}
func fixedModel(id string) *openfgav1.AuthorizationModel {
	return &openfgav1.AuthorizationModel{
		Id:            id,
		SchemaVersion: "1.1",
		TypeDefinitions: []*openfgav1.TypeDefinition{
			{Type: "user"},
			{Type: "group",
				Relations: map[string]*openfgav1.Userset{"member": this()},
				Metadata: &openfgav1.Metadata{Relations: map[string]*openfgav1.RelationMetadata{
					"member": direct(rObj("user"), rWild("user", ""), rSet("group", "member"), rObjC("user", "c1"))}}},
			{Type: "folder",
				Relations: map[string]*openfgav1.Userset{"viewer": this()},
				Metadata: &openfgav1.Metadata{Relations: map[string]*openfgav1.RelationMetadata{
					"viewer": direct(rObj("user"), rSet("group", "member"))}}},
			{Type: "doc",
				Relations: map[string]*openfgav1.Userset{
					"parent":   this(),
					"owner":    this(),
					"editor":   union(this(), computed("owner")),
					"viewer":   union(this(), computed("editor"), ttu("parent", "viewer")),
					"blocked":  this(),
					"can_read": diff(computed("viewer"), computed("blocked")),
				},
				Metadata: &openfgav1.Metadata{Relations: map[string]*openfgav1.RelationMetadata{
					"parent":   direct(rObj("folder")),
					"owner":    direct(rObj("user"), rObjC("user", "c1"), rObjC("user", "c2")),
					"editor":   direct(rObj("user"), rSet("group", "member")),
					"viewer":   direct(rWild("user", "c1")),
					"blocked":  direct(rObj("user")),
					"can_read": direct(),
				}}},
		},
		Conditions: map[string]*openfgav1.Condition{
			"c1": {Name: "c1", Expression: "x < 100", Parameters: map[string]*openfgav1.ConditionParamTypeRef{
				"x": {TypeName: openfgav1.ConditionParamTypeRef_TYPE_NAME_INT}}},
			"c2": {Name: "c2", Expression: "s == \"a\"", Parameters: map[string]*openfgav1.ConditionParamTypeRef{
				"s": {TypeName: openfgav1.ConditionParamTypeRef_TYPE_NAME_STRING}}},
		},
	}
}

// Relations a request may ask for, per object type, and the contextual tuple
// shapes (object type, relation, user shape, allowed conditions) of the model.
var reqRelations = map[string][]string{
	"doc":    {"parent", "owner", "editor", "viewer", "blocked", "can_read"},
	"group":  {"member"},
	"folder": {"viewer"},
}

type ctShape struct {
	ObjType, Relation string
	UserType          string // "user", "folder", "group#member", "user:*"
	Conds             []string
}

var ctShapes = []ctShape{
	{"doc", "owner", "user", []string{"", "c1", "c2"}},
	{"doc", "editor", "user", []string{""}},
	{"doc", "editor", "group#member", []string{""}},
	{"doc", "blocked", "user", []string{""}},
	{"doc", "parent", "folder", []string{""}},
	{"doc", "viewer", "user:*", []string{"c1"}},
	{"group", "member", "user", []string{"", "c1"}},
	{"group", "member", "group#member", []string{""}},
	{"group", "member", "user:*", []string{""}},
	{"folder", "viewer", "user", []string{""}},
	{"folder", "viewer", "group#member", []string{""}},
}

type graphEntry struct {
	g     *modelgraph.AuthorizationModelGraph
	edges []*authzGraph.WeightedAuthorizationModelEdge
}

var (
	graphMu    sync.Mutex
	graphCache = map[string]*graphEntry{}
)

// graphFor builds (and memoises, bounded) the weighted graph of the fixed model
// under the given model id. The id is an arbitrary string: it is one of the key inputs.
func graphFor(modelID string) (*graphEntry, error) {
	graphMu.Lock()
	defer graphMu.Unlock()
	if g, ok := graphCache[modelID]; ok {
		return g, nil
	}
	g, err := modelgraph.New(fixedModel(modelID))
	if err != nil {
		return nil, err
	}
	if len(graphCache) > 4096 {
		graphCache = map[string]*graphEntry{}
	}
	ge := &graphEntry{g: g, edges: sortedEdges(g)}
	graphCache[modelID] = ge
	return ge, nil
}

type edgeInfo struct {
	From, To, RelDef, Tupleset string
	Type                       int
}

func (e edgeInfo) identity() string {
	return fmt.Sprintf("%s|%d|%s|%s", q(e.RelDef), e.Type, q(e.To), q(e.Tupleset))
}

// normLabel strips the random ULID the graph builder puts into the label of an
// operator node ("union:01M33..."), which differs between two builds of the same
// model. The fixed model has at most one operator node per relation definition,
// so (relation definition, normalised label) still identifies the node.
func normLabel(l string) string {
	for _, p := range []string{"union:", "intersection:", "exclusion:"} {
		if strings.HasPrefix(l, p) {
			return p + "*"
		}
	}
	return l
}

func edgeDesc(e *authzGraph.WeightedAuthorizationModelEdge) edgeInfo {
	return edgeInfo{From: normLabel(e.GetFrom().GetUniqueLabel()), To: normLabel(e.GetTo().GetUniqueLabel()), RelDef: e.GetRelationDefinition(),
		Tupleset: e.GetTuplesetRelation(), Type: int(e.GetEdgeType())}
}

// sortedEdges lists the edges of a graph in a deterministic order (the graph
// stores them in maps). Edges with the same description are interchangeable.
func sortedEdges(g *modelgraph.AuthorizationModelGraph) []*authzGraph.WeightedAuthorizationModelEdge {
	var all []*authzGraph.WeightedAuthorizationModelEdge
	for _, es := range g.GetEdges() {
		all = append(all, es...)
	}
	key := func(e *authzGraph.WeightedAuthorizationModelEdge) string {
		d := edgeDesc(e)
		return fmt.Sprintf("%s|%s|%s", q(d.From), d.identity(), q(d.To))
	}
	sort.SliceStable(all, func(i, j int) bool { return key(all[i]) < key(all[j]) })
	return all
}

var (
	edgeOnce  sync.Once
	edgeInfos []edgeInfo
)

func fixedEdges() []edgeInfo {
	edgeOnce.Do(func() {
		g, err := graphFor("probe-model")
		if err != nil {
			panic(err)
		}
		for _, e := range g.edges {
			edgeInfos = append(edgeInfos, edgeDesc(e))
		}
	})
	return edgeInfos
}

func edgeIdentity(i int) string {
	es := fixedEdges()
	return es[((i%len(es))+len(es))%len(es)].identity()
}

func newRequest(in Input) (*wcheck.Request, *graphEntry, error) {
	g, err := graphFor(in.Model)
	if err != nil {
		return nil, nil, err
	}
	req, err := wcheck.NewRequest(wcheck.RequestParams{
		StoreID:          in.Store,
		Model:            g.g,
		TupleKey:         &openfgav1.TupleKey{Object: in.Object, Relation: in.Relation, User: in.User},
		ContextualTuples: pbTuples(in.Tuples),
		Context:          pbCtx(in.Ctx),
	})
	return req, g, err
}

// ---------------------------------------------------------------------------

type stubChecker struct{}

func (stubChecker) Execute(context.Context, *commands.CheckCommandParams) (*commands.CheckResult, error) {
	return &commands.CheckResult{Allowed: true}, nil
}

func batchItem(in Input, corr string) *openfgav1.BatchCheckItem {
	it := &openfgav1.BatchCheckItem{
		TupleKey:      &openfgav1.CheckRequestTupleKey{Object: in.Object, Relation: in.Relation, User: in.User},
		Context:       pbCtx(in.Ctx),
		CorrelationId: corr,
	}
	if in.Tuples != nil {
		it.ContextualTuples = &openfgav1.ContextualTupleKeys{TupleKeys: pbTuples(in.Tuples)}
	}
	return it
}

// batchSameKey reports whether BatchCheckQuery de-duplicates the two items, i.e.
// whether generateCacheKeyFromCheck gave them the same key.
func batchSameKey(store, model string, x, y Input) (bool, error) {
	bq := commands.NewBatchCheckCommand(stubChecker{})
	_, meta, err := bq.Execute(context.Background(), &commands.BatchCheckCommandParams{
		StoreID: store, AuthorizationModelID: model,
		Checks: []*openfgav1.BatchCheckItem{batchItem(x, "x"), batchItem(y, "y")},
	})
	if err != nil {
		return false, err
	}
	return meta.DuplicateCheckCount == 1, nil
}

// ---------------------------------------------------------------------------

// encItem converts an Item to the Serializable of /repo's keys package.
func encItem(it Item) keys.Serializable {
	switch it.T {
	case "null":
		return keys.Null{}
	case "unset":
		return keys.Unset{}
	case "byte":
		return keys.Byte(byte(it.U))
	case "bool":
		return keys.Bool(it.B)
	case "u64":
		return keys.Uint64(it.U)
	case "str":
		return keys.String(it.S)
	case "bytes":
		return keys.Bytes([]byte(it.S))
	case "arr":
		a := make(keys.Array, len(it.L))
		for i, e := range it.L {
			a[i] = encItem(e)
		}
		return a
	case "map":
		var mm keys.Map
		for i := 0; i+1 < len(it.L); i += 2 {
			mm = append(mm, keys.MapEntry{Key: encItem(it.L[i]), Value: encItem(it.L[i+1])})
		}
		return mm
	case "pair":
		return keys.Pair{Key: encItem(it.L[0]), Value: encItem(it.L[1])}
	}
	panic("bad item " + it.T)
}

func encItems(is []Item) []byte {
	b := keys.GetBuilder()
	defer b.Close()
	for _, it := range is {
		b.Serialize(encItem(it))
	}
	return append([]byte(nil), b.Bytes()...)
}

func u64bytes(v uint64) []byte { return binary.LittleEndian.AppendUint64(nil, v) }

// buildKey calls the key builder of the kind and returns the key bytes (for
// ENC: the raw Builder stream; for INV: the 8 digest bytes). rejected=true means
// the builder refused the input (request validation), the case is outside the domain.
func buildKey(kind string, in Input) (key []byte, rejected bool, err error) {
	cp := func(k keys.Key) []byte { return append([]byte(nil), k.Bytes()...) }
	switch kind {
	case KEnc:
		return encItems(in.Items), false, nil
	case KInv:
		return u64bytes(storage.InvariantCacheKey(in.Store, in.Model, pbCtx(in.Ctx), pbTuples(in.Tuples)...)), false, nil
	case KSP:
		return cp(storage.CheckCacheKey(in.Store, in.Object, in.Relation, in.User, in.Invariant)), false, nil
	case KReq:
		req, _, err := newRequest(in)
		if err != nil {
			return nil, true, err
		}
		return cp(req.GetCacheKey()), false, nil
	case KEdge:
		req, g, err := newRequest(in)
		if err != nil {
			return nil, true, err
		}
		es := g.edges
		return cp(wcheck.EdgeCacheKey(req, es[((in.Edge%len(es))+len(es))%len(es)])), false, nil
	case KRead:
		return cp(storage.ReadKey(in.Store, storage.ReadFilter{Object: in.Object, Relation: in.Relation, User: in.User, Conditions: condsArg(in.Conds)})), false, nil
	case KRSWU:
		return cp(storage.ReadStartingWithUserKey(in.Store, rswuFilter(in))), false, nil
	case KRUT:
		return cp(storage.ReadUsersetTuplesKey(in.Store, rutFilter(in))), false, nil
	case KIQ:
		return cp(storage.InvalidIteratorCacheKey(in.Store)), false, nil
	case KCC:
		return cp(storage.ChangelogCacheKey(in.Store)), false, nil
	case KIQOR:
		return cp(storage.InvalidIteratorByObjectRelationCacheKey(in.Store, in.Object, in.Relation)), false, nil
	case KIQUOT:
		return cp(storage.InvalidIteratorByUserObjectTypeCacheKey(in.Store, in.User, in.ObjectType)), false, nil
	case KMG:
		return cp(modelgraph.CacheKey(in.Store, in.Model)), false, nil
	}
	return nil, false, fmt.Errorf("kind %q has no direct key builder", kind)
}
