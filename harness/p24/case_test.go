package p24

// C24 — cache keys distinguish every answer-relevant input.
//
// This file: the JSON-serialisable case (a pair of key inputs), the canonical
// ("semantic") form of an input per key kind, and the conversion of an input
// to the protobuf / storage values the key builders of /repo take.

import (
	"encoding/json"
	"fmt"
	"math"
	"sort"
	"strconv"
	"strings"

	"google.golang.org/protobuf/types/known/structpb"

	openfgav1 "github.com/openfga/api/proto/openfga/v1"

	"github.com/openfga/openfga/pkg/storage"
)

// Key kinds.
const (
	KEnc   = "ENC"   // keys.Builder + keys.{String,Bytes,Byte,Bool,Uint64,Null,Unset,Array,Map,Pair}: raw TLV stream
	KInv   = "INV"   // storage.InvariantCacheKey
	KSP    = "SP"    // storage.CheckCacheKey (invariant given as a number)
	KReq   = "REQ"   // check.NewRequest(...).GetCacheKey()  (sub-problem key of the weighted engine)
	KEdge  = "EDGE"  // check.EdgeCacheKey
	KBatch = "BATCH" // commands.generateCacheKeyFromCheck observed through BatchCheckQuery.Execute
	KRead  = "READ"  // storage.ReadKey
	KRSWU  = "RSWU"  // storage.ReadStartingWithUserKey
	KRUT   = "RUT"   // storage.ReadUsersetTuplesKey
	KIQ    = "IQ"    // storage.InvalidIteratorCacheKey
	KIQOR  = "IQOR"  // storage.InvalidIteratorByObjectRelationCacheKey
	KIQUOT = "IQUOT" // storage.InvalidIteratorByUserObjectTypeCacheKey
	KCC    = "CC"    // storage.ChangelogCacheKey
	KMG    = "MG"    // modelgraph.CacheKey
)

// Val is a JSON-like context value (structpb.Value). Map fields are kept as an
// ordered list: the order is the insertion order into the protobuf map and has
// no meaning.
type Val struct {
	K string  `json:"k"` // null | unset | bool | num | str | list | map
	B bool    `json:"b,omitempty"`
	N float64 `json:"n,omitempty"`
	S string  `json:"s,omitempty"`
	L []Val   `json:"l,omitempty"`
	M []Field `json:"m,omitempty"`
}

type Field struct {
	Key string `json:"key"`
	V   Val    `json:"v"`
}

// Ctx is a request context or a condition context (structpb.Struct).
// Nil=true means the nil pointer; it is semantically the empty context.
type Ctx struct {
	Nil    bool    `json:"nil,omitempty"`
	Fields []Field `json:"fields,omitempty"`
}

// CT is a contextual tuple.
type CT struct {
	Object   string `json:"object"`
	Relation string `json:"relation"`
	User     string `json:"user"`
	HasCond  bool   `json:"has_cond,omitempty"`
	Cond     string `json:"cond,omitempty"`
	Ctx      Ctx    `json:"ctx"`
}

// OR is one entry of ReadStartingWithUserFilter.UserFilter.
type OR struct {
	Object   string `json:"object"`
	Relation string `json:"relation,omitempty"`
}

// Ref is one entry of ReadUsersetTuplesFilter.AllowedUserTypeRestrictions.
type Ref struct {
	Type     string `json:"type"`
	Relation string `json:"relation,omitempty"`
	Wildcard bool   `json:"wildcard,omitempty"`
}

// Item is one value written through the keys.Builder (kind ENC).
type Item struct {
	T string `json:"t"` // null unset byte bool u64 str bytes arr map pair
	S string `json:"s,omitempty"`
	U uint64 `json:"u,omitempty"`
	B bool   `json:"b,omitempty"`
	L []Item `json:"l,omitempty"` // arr: elements; map: k0,v0,k1,v1...; pair: key,value
}

// Input is the union of the inputs of all key kinds; a kind reads only its own fields.
type Input struct {
	Store      string   `json:"store,omitempty"`
	Model      string   `json:"model,omitempty"`
	Object     string   `json:"object,omitempty"`
	Relation   string   `json:"relation,omitempty"`
	User       string   `json:"user,omitempty"`
	Invariant  uint64   `json:"invariant,omitempty"`
	Ctx        Ctx      `json:"ctx"`
	Tuples     []CT     `json:"tuples,omitempty"`
	ObjectType string   `json:"object_type,omitempty"`
	UserFilter []OR     `json:"user_filter,omitempty"`
	OIDsSet    bool     `json:"oids_set,omitempty"` // ObjectIDs != nil
	OIDs       []string `json:"oids,omitempty"`
	Conds      []string `json:"conds,omitempty"` // empty is passed as nil (nil vs empty is not documented to differ)
	Refs       []Ref    `json:"refs,omitempty"`
	Edge       int      `json:"edge,omitempty"` // index into the fixed model's edge list (EDGE)
	Items      []Item   `json:"items,omitempty"`
}

// Case is a pair of key inputs.
type Case struct {
	Kind     string `json:"kind"`
	KindY    string `json:"kind_y,omitempty"` // cross-kind pair when set and != Kind
	PairKind string `json:"pair_kind"`        // label of how Y was derived from X (classes / NT only; the oracle recomputes the expectation)
	X        Input  `json:"x"`
	Y        Input  `json:"y"`
}

func (c Case) kindY() string {
	if c.KindY == "" {
		return c.Kind
	}
	return c.KindY
}

func clone[T any](v T) T {
	b, err := json.Marshal(v)
	if err != nil {
		panic(err)
	}
	var out T
	if err := json.Unmarshal(b, &out); err != nil {
		panic(err)
	}
	return out
}

func rawEqual(a, b any) bool {
	x, _ := json.Marshal(a)
	y, _ := json.Marshal(b)
	return string(x) == string(y)
}

// ---------------------------------------------------------------------------
// canonical forms (what "semantically equal" means)

func q(s string) string { return strconv.Quote(s) }

// canonVal: maps are unordered (sorted by key, last duplicate wins like a map
// insert), lists are ordered, numbers are IEEE doubles compared by value bits.
func canonVal(v Val) string {
	switch v.K {
	case "null":
		return "null"
	case "unset":
		return "unset"
	case "bool":
		return "bool:" + strconv.FormatBool(v.B)
	case "num":
		return "num:" + strconv.FormatUint(math.Float64bits(v.N), 16)
	case "str":
		return "str:" + q(v.S)
	case "list":
		parts := make([]string, len(v.L))
		for i, e := range v.L {
			parts[i] = canonVal(e)
		}
		return "[" + strings.Join(parts, ",") + "]"
	case "map":
		return canonFields(v.M)
	}
	panic("bad val kind " + v.K)
}

func fieldMap(fs []Field) (map[string]Val, []string) {
	mm := map[string]Val{}
	for _, f := range fs {
		mm[f.Key] = f.V
	}
	ks := make([]string, 0, len(mm))
	for k := range mm {
		ks = append(ks, k)
	}
	sort.Strings(ks)
	return mm, ks
}

func canonFields(fs []Field) string {
	mm, ks := fieldMap(fs)
	parts := make([]string, len(ks))
	for i, k := range ks {
		parts[i] = q(k) + "=" + canonVal(mm[k])
	}
	return "{" + strings.Join(parts, ",") + "}"
}

// canonCtx: the nil context and the empty context both carry no values.
func canonCtx(c Ctx) string {
	if c.Nil {
		return "{}"
	}
	return canonFields(c.Fields)
}

func canonTuple(t CT) string {
	s := q(t.Object) + "#" + q(t.Relation) + "@" + q(t.User)
	if t.HasCond {
		s += " with " + q(t.Cond) + canonCtx(t.Ctx)
	}
	return s
}

// canonTuples: contextual tuples are a set (the check never looks at their
// position); the generator keeps (object, relation, user) distinct.
func canonTuples(ts []CT) string {
	parts := make([]string, len(ts))
	for i, t := range ts {
		parts[i] = canonTuple(t)
	}
	sort.Strings(parts)
	return "(" + strings.Join(parts, ";") + ")"
}

func sortedQuoted(ss []string, dedup bool) string {
	c := append([]string(nil), ss...)
	sort.Strings(c)
	out := make([]string, 0, len(c))
	for i, s := range c {
		if dedup && i > 0 && c[i-1] == s {
			continue
		}
		out = append(out, q(s))
	}
	return "(" + strings.Join(out, ",") + ")"
}

func canonUF(fs []OR) string {
	parts := make([]string, len(fs))
	for i, f := range fs {
		parts[i] = q(f.Object) + "/" + q(f.Relation)
	}
	sort.Strings(parts)
	return "(" + strings.Join(parts, ",") + ")"
}

func canonRefs(rs []Ref) string {
	parts := make([]string, len(rs))
	for i, r := range rs {
		switch {
		case r.Wildcard:
			parts[i] = q(r.Type) + ":*"
		case r.Relation != "":
			parts[i] = q(r.Type) + "#" + q(r.Relation)
		default:
			parts[i] = q(r.Type)
		}
	}
	sort.Strings(parts)
	return "(" + strings.Join(parts, ",") + ")"
}

func canonItems(is []Item) string {
	b, _ := json.Marshal(is)
	return string(b)
}

// canon returns the semantic identity of an input for one key kind. Two inputs
// of the same kind are semantically equal iff their canon strings are equal:
//   - strings (store, model, object, relation, user, condition names, ids) by bytes;
//   - request / condition contexts as unordered maps (nil == empty), lists ordered;
//   - contextual tuples, user filters, object ids, condition filters, user type
//     restrictions as (multi)sets: order is irrelevant, multiplicity is kept
//     (ObjectIDs is a storage.SortedSet, so a set proper);
//   - ObjectIDs nil ("no filter") differs from the present empty set
//     (storage.go: "If present ... the datastore should return the intersection").
func canon(kind string, in Input) string {
	switch kind {
	case KEnc:
		return canonItems(in.Items)
	case KInv:
		return strings.Join([]string{q(in.Store), q(in.Model), canonTuples(in.Tuples), canonCtx(in.Ctx)}, "|")
	case KSP:
		return strings.Join([]string{q(in.Store), q(in.Object), q(in.Relation), q(in.User), strconv.FormatUint(in.Invariant, 16)}, "|")
	case KReq:
		return strings.Join([]string{q(in.Store), q(in.Model), q(in.Object), q(in.Relation), q(in.User), canonTuples(in.Tuples), canonCtx(in.Ctx)}, "|")
	case KEdge:
		// Relation is not part of the semantic identity of an edge evaluation: the edge says what is evaluated.
		return strings.Join([]string{q(in.Store), q(in.Model), q(in.Object), q(in.User), edgeIdentity(in.Edge), canonTuples(in.Tuples), canonCtx(in.Ctx)}, "|")
	case KBatch:
		// store and model are per batch, shared by both items
		return strings.Join([]string{q(in.Object), q(in.Relation), q(in.User), canonTuples(in.Tuples), canonCtx(in.Ctx)}, "|")
	case KRead:
		return strings.Join([]string{q(in.Store), q(in.Object), q(in.Relation), q(in.User), sortedQuoted(in.Conds, false)}, "|")
	case KRSWU:
		oids := "nil"
		if in.OIDsSet {
			oids = sortedQuoted(in.OIDs, true)
		}
		return strings.Join([]string{q(in.Store), q(in.ObjectType), q(in.Relation), canonUF(in.UserFilter), oids, sortedQuoted(in.Conds, false)}, "|")
	case KRUT:
		return strings.Join([]string{q(in.Store), q(in.Object), q(in.Relation), canonRefs(in.Refs), sortedQuoted(in.Conds, false)}, "|")
	case KIQ, KCC:
		return q(in.Store)
	case KIQOR:
		return strings.Join([]string{q(in.Store), q(in.Object), q(in.Relation)}, "|")
	case KIQUOT:
		return strings.Join([]string{q(in.Store), q(in.User), q(in.ObjectType)}, "|")
	case KMG:
		return strings.Join([]string{q(in.Store), q(in.Model)}, "|")
	}
	panic("unknown kind " + kind)
}

// dupTuple reports a pair of contextual tuples with the same (object, relation,
// user): such lists are outside the asserted domain (the engines are not
// documented to treat them as a set: the weighted engine keeps the first).
func dupTuple(ts []CT) bool {
	seen := map[string]bool{}
	for _, t := range ts {
		k := q(t.Object) + q(t.Relation) + q(t.User)
		if seen[k] {
			return true
		}
		seen[k] = true
	}
	return false
}

// ---------------------------------------------------------------------------
// input -> protobuf / storage values

func pbVal(v Val) *structpb.Value {
	switch v.K {
	case "null":
		return structpb.NewNullValue()
	case "unset":
		return &structpb.Value{}
	case "bool":
		return structpb.NewBoolValue(v.B)
	case "num":
		return structpb.NewNumberValue(v.N)
	case "str":
		return structpb.NewStringValue(v.S)
	case "list":
		l := &structpb.ListValue{}
		for _, e := range v.L {
			l.Values = append(l.Values, pbVal(e))
		}
		return structpb.NewListValue(l)
	case "map":
		return structpb.NewStructValue(pbFields(v.M))
	}
	panic("bad val kind " + v.K)
}

// pbFields inserts the fields in list order (a later duplicate overwrites).
func pbFields(fs []Field) *structpb.Struct {
	s := &structpb.Struct{Fields: map[string]*structpb.Value{}}
	for _, f := range fs {
		s.Fields[f.Key] = pbVal(f.V)
	}
	return s
}

func pbCtx(c Ctx) *structpb.Struct {
	if c.Nil {
		return nil
	}
	return pbFields(c.Fields)
}

func pbTuple(t CT) *openfgav1.TupleKey {
	tk := &openfgav1.TupleKey{Object: t.Object, Relation: t.Relation, User: t.User}
	if t.HasCond {
		tk.Condition = &openfgav1.RelationshipCondition{Name: t.Cond, Context: pbCtx(t.Ctx)}
	}
	return tk
}

func pbTuples(ts []CT) []*openfgav1.TupleKey {
	out := make([]*openfgav1.TupleKey, len(ts))
	for i, t := range ts {
		out[i] = pbTuple(t)
	}
	return out
}

func condsArg(cs []string) []string {
	if len(cs) == 0 {
		return nil
	}
	return append([]string(nil), cs...)
}

func rswuFilter(in Input) storage.ReadStartingWithUserFilter {
	f := storage.ReadStartingWithUserFilter{ObjectType: in.ObjectType, Relation: in.Relation, Conditions: condsArg(in.Conds)}
	for _, u := range in.UserFilter {
		f.UserFilter = append(f.UserFilter, &openfgav1.ObjectRelation{Object: u.Object, Relation: u.Relation})
	}
	if in.OIDsSet {
		f.ObjectIDs = storage.NewSortedSet(in.OIDs...)
	}
	return f
}

func rutFilter(in Input) storage.ReadUsersetTuplesFilter {
	f := storage.ReadUsersetTuplesFilter{Object: in.Object, Relation: in.Relation, Conditions: condsArg(in.Conds)}
	for _, r := range in.Refs {
		ref := &openfgav1.RelationReference{Type: r.Type}
		switch {
		case r.Wildcard:
			ref.RelationOrWildcard = &openfgav1.RelationReference_Wildcard{Wildcard: &openfgav1.Wildcard{}}
		case r.Relation != "":
			ref.RelationOrWildcard = &openfgav1.RelationReference_Relation{Relation: r.Relation}
		}
		f.AllowedUserTypeRestrictions = append(f.AllowedUserTypeRestrictions, ref)
	}
	return f
}

func describe(kind string, in Input) string {
	b, _ := json.Marshal(in)
	return fmt.Sprintf("%s %s", kind, b)
}

func describeCase(c Case) string {
	b, _ := json.Marshal(c)
	return string(b)
}
