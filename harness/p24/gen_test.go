package p24

// Generator of C24 cases. All randomness goes through a `src`: rapid draws in
// TestC24, the fuzz input bytes in FuzzC24 — one generator for both.

import (
	"strconv"
	"strings"
	"unicode/utf8"

	"pgregory.net/rapid"
)

type src interface {
	n(k int, label string) int // uniform-ish in [0,k)
}

type rapidSrc struct{ t *rapid.T }

func (r rapidSrc) n(k int, label string) int {
	if k <= 1 {
		return 0
	}
	return rapid.IntRange(0, k-1).Draw(r.t, label)
}

type byteSrc struct {
	b []byte
	p int
}

func (s *byteSrc) n(k int, _ string) int {
	if k <= 1 || s.p >= len(s.b) {
		return 0
	}
	v := int(s.b[s.p])
	s.p++
	if k > 256 && s.p < len(s.b) {
		v = v<<8 | int(s.b[s.p])
		s.p++
	}
	return v % k
}

func pick[T any](s src, label string, xs []T) T     { return xs[s.n(len(xs), label)] }
func chance(s src, label string, num, den int) bool { return s.n(den, label) < num }

// ---------------------------------------------------------------------------
// strings

var plainPieces = []string{"a", "b", "c", "ab", "bc", "abc", "1", "01", "x", "doc", "user", "viewer", "A", "é"}

// separator-like bytes, tag-like bytes 0..11, TLV fragments (tag+uvarint+bytes),
// key-kind prefixes.
var trickyPieces = []string{
	"\x00", "|", "#", ":", ",", "\x01", "\x02", "\x03", "\x04", "\x05", "\x06", "\x07", "\x08", "\t", "\n", "\x0b",
	"*", "@", " ", "/", ".", "\x04\x01a", "\x04\x02ab", "\x04\x00", "\x06\x01", "\x07\x00", "\x01a", "\x02ab", "\x03",
	"SP", "IC", "IQ", "CC", "OR", "UOT", "READ", "RSWU", "RUT", "EDGE", "WG",
}

// pieces allowed inside type / relation names and object ids ([^:#@\s]).
var namePieces = []string{"a", "b", "c", "ab", "bc", "abc", "1", "x", "doc", "user", "é", "-", "_", "|", ",", ".", "/",
	"\x00", "\x01", "\x02", "\x03", "\x04", "\x05", "\x06", "\x07", "\x08", "\x0b", "\x04\x01a", "\x06\x01", "*"}

// pieces allowed inside the ids of a validated request (tuple.IsValidUser: no
// control characters, no '#', ':', ' ').
var idPieces = []string{"a", "b", "c", "ab", "bc", "abc", "1", "01", "x", "é", "-", "_", "|", ",", ".", "/", "@", "a|b", "a,b"}

// boundary lengths of the uvarint length prefix (1 -> 2 bytes at 128, 2 -> 3 bytes at 16384) and of a byte
var boundaryLens = []int{127, 128, 129, 255, 256, 16383, 16384}

// padBoundary stretches v, in one of forty draws, to a length at which the length prefix changes size.
func padBoundary(s src, label, v string) string {
	if !chance(s, label+".boundary", 1, 40) {
		return v
	}
	n := pick(s, label+".boundaryLen", boundaryLens)
	if len(v) >= n {
		return v
	}
	return v + strings.Repeat("a", n-len(v))
}

func genStr(s src, label string) string {
	return padBoundary(s, label, genStrShort(s, label))
}

func genStrShort(s src, label string) string {
	var sb strings.Builder
	for i, k := 0, s.n(4, label+".len"); i < k; i++ {
		if chance(s, label+".tricky", 2, 5) {
			sb.WriteString(pick(s, label+".piece", trickyPieces))
		} else {
			sb.WriteString(pick(s, label+".piece", plainPieces))
		}
	}
	return sb.String()
}

func genFrom(s src, label string, pieces []string, min int) string {
	var sb strings.Builder
	for i, k := 0, min+s.n(3, label+".len"); i < k; i++ {
		sb.WriteString(pick(s, label+".piece", pieces))
	}
	return sb.String()
}

func genName(s src, label string) string { return padBoundary(s, label, genFrom(s, label, namePieces, 1)) }
func genID(s src, label string) string   { return padBoundary(s, label, genFrom(s, label, idPieces, 1)) }

var storePool = []string{"01HXSTORE0000000000000000A", "01HXSTORE0000000000000000B", "s", "S", "store"}

func genStoreish(s src, label string) string {
	if chance(s, label+".pool", 1, 2) {
		return pick(s, label, storePool)
	}
	return genStr(s, label)
}

func nonEmpty(v string) string {
	if v == "" {
		return "s"
	}
	return v
}

// ---------------------------------------------------------------------------
// context values

var numPool = []float64{0, 1, 2, -1, 1.5, 100, 99, 0.1, 1e21, 9007199254740992, 4294967296, -1e-7}
var keyPool = []string{"x", "s", "a", "b", "ab", "a.b", "0", "1", "k", "k|", "\x04\x01a", "", "true", "x\x00"}

func genVal(s src, depth int) Val {
	k := s.n(12, "val.kind")
	if depth <= 0 && k >= 8 {
		k = s.n(8, "val.leaf")
	}
	switch k {
	case 0:
		return Val{K: "null"}
	case 1:
		return Val{K: "bool", B: chance(s, "val.bool", 1, 2)}
	case 2, 3:
		return Val{K: "num", N: pick(s, "val.num", numPool)}
	case 4, 5:
		return Val{K: "str", S: genStr(s, "val.str")}
	case 6:
		return Val{K: "str", S: pick(s, "val.strpool", []string{"1", "0", "true", "false", "null", "1.5", "[]", "{}", ""})}
	case 7:
		if chance(s, "val.unset", 1, 4) {
			return Val{K: "unset"}
		}
		return Val{K: "str", S: genID(s, "val.id")}
	case 8, 9:
		v := Val{K: "list"}
		for i, n := 0, s.n(4, "val.listlen"); i < n; i++ {
			v.L = append(v.L, genVal(s, depth-1))
		}
		return v
	default:
		return Val{K: "map", M: genFields(s, depth-1, 3)}
	}
}

func hasKey(fs []Field, k string) bool {
	for _, f := range fs {
		if f.Key == k {
			return true
		}
	}
	return false
}

func genKey(s src) string {
	if chance(s, "key.pool", 3, 4) {
		return pick(s, "key", keyPool)
	}
	return genStr(s, "key")
}

func genFields(s src, depth, max int) []Field {
	var fs []Field
	for i, n := 0, s.n(max+1, "fields.len"); i < n; i++ {
		k := genKey(s)
		if hasKey(fs, k) {
			continue
		}
		fs = append(fs, Field{Key: k, V: genVal(s, depth)})
	}
	return fs
}

func genCtx(s src) Ctx {
	if chance(s, "ctx.nil", 1, 8) {
		return Ctx{Nil: true}
	}
	return Ctx{Fields: genFields(s, 2, 4)}
}

// freshKey returns a key not present in fs.
func freshKey(s src, fs []Field) string {
	k := genKey(s)
	for i := 0; hasKey(fs, k); i++ {
		k += "z"
	}
	return k
}

// ---------------------------------------------------------------------------
// contextual tuples

func genFreeTuple(s src) CT {
	t := CT{Object: genName(s, "ct.otype") + ":" + genName(s, "ct.oid"), Relation: genName(s, "ct.rel")}
	switch s.n(4, "ct.userkind") {
	case 0:
		t.User = genName(s, "ct.utype") + ":" + genName(s, "ct.uid") + "#" + genName(s, "ct.urel")
	case 1:
		t.User = genName(s, "ct.utype") + ":*"
	default:
		t.User = genName(s, "ct.utype") + ":" + genName(s, "ct.uid")
	}
	if chance(s, "ct.cond", 1, 2) {
		t.HasCond = true
		t.Cond = genName(s, "ct.condname")
		t.Ctx = genCtx(s)
	}
	return t
}

func genModelTuple(s src) CT {
	sh := pick(s, "ct.shape", ctShapes)
	t := CT{Object: sh.ObjType + ":" + genID(s, "ct.oid"), Relation: sh.Relation}
	switch sh.UserType {
	case "user:*":
		t.User = "user:*"
	case "group#member":
		t.User = "group:" + genID(s, "ct.uid") + "#member"
	default:
		t.User = sh.UserType + ":" + genID(s, "ct.uid")
	}
	if c := pick(s, "ct.cond", sh.Conds); c != "" {
		t.HasCond = true
		t.Cond = c
		t.Ctx = genCtx(s)
	}
	return t
}

func modelKind(kind string) bool { return kind == KReq || kind == KEdge }

func genTuple(s src, kind string) CT {
	if modelKind(kind) {
		return genModelTuple(s)
	}
	return genFreeTuple(s)
}

func sameKey(a, b CT) bool {
	return a.Object == b.Object && a.Relation == b.Relation && a.User == b.User
}

// addTuple appends a tuple whose (object, relation, user) is new.
func addTuple(s src, kind string, ts []CT, wantCond bool) []CT {
	for try := 0; try < 8; try++ {
		t := genTuple(s, kind)
		if wantCond && !t.HasCond {
			if modelKind(kind) {
				t = CT{Object: "doc:" + genID(s, "ct.oid"), Relation: "owner", User: "user:" + genID(s, "ct.uid"), HasCond: true, Cond: "c1", Ctx: genCtx(s)}
			} else {
				t.HasCond, t.Cond, t.Ctx = true, genName(s, "ct.condname"), genCtx(s)
			}
		}
		dup := false
		for _, o := range ts {
			dup = dup || sameKey(o, t)
		}
		if !dup {
			return append(ts, t)
		}
	}
	return ts
}

func genTuples(s src, kind string) []CT {
	var ts []CT
	for i, n := 0, s.n(4, "tuples.len"); i < n; i++ {
		ts = addTuple(s, kind, ts, false)
	}
	return ts
}

// ---------------------------------------------------------------------------
// inputs

var condPool = []string{"", "c1", "c2", "c", "ab", "a", "b", "c1,c2", "\x04\x02c1"}

func genConds(s src) []string {
	var cs []string
	for i, n := 0, s.n(4, "conds.len"); i < n; i++ {
		if chance(s, "conds.pool", 3, 4) {
			cs = append(cs, pick(s, "cond", condPool))
		} else {
			cs = append(cs, genStr(s, "cond"))
		}
	}
	return cs
}

func genOR(s src) OR {
	o := OR{Object: genName(s, "uf.type") + ":" + genName(s, "uf.id")}
	switch s.n(4, "uf.kind") {
	case 0:
		o.Relation = genName(s, "uf.rel")
	case 1:
		o.Object = genName(s, "uf.type") + ":*"
	}
	return o
}

func genRef(s src) Ref {
	r := Ref{Type: genName(s, "ref.type")}
	switch s.n(3, "ref.kind") {
	case 0:
		r.Relation = genName(s, "ref.rel")
	case 1:
		r.Wildcard = true
	}
	return r
}

var invPool = []uint64{0, 1, 4, 255, 256, 1 << 32, 1<<64 - 1, 0x0404040404040404, 0x5eedc24c24c24c24}

func genItem(s src, depth int) Item {
	k := s.n(13, "item.kind")
	if depth <= 0 && k >= 10 {
		k = s.n(10, "item.leaf")
	}
	switch k {
	case 0:
		return Item{T: "null"}
	case 1:
		return Item{T: "unset"}
	case 2:
		return Item{T: "byte", U: uint64(s.n(13, "item.byte"))}
	case 3:
		return Item{T: "bool", B: chance(s, "item.bool", 1, 2)}
	case 4, 5:
		return Item{T: "u64", U: pick(s, "item.u64", invPool)}
	case 6, 7, 8:
		return Item{T: "str", S: genStr(s, "item.str")}
	case 9:
		return Item{T: "bytes", S: genStr(s, "item.bytes")}
	case 10:
		it := Item{T: "arr"}
		for i, n := 0, s.n(4, "item.arrlen"); i < n; i++ {
			it.L = append(it.L, genItem(s, depth-1))
		}
		return it
	case 11:
		it := Item{T: "map"}
		for i, n := 0, s.n(3, "item.maplen"); i < n; i++ {
			it.L = append(it.L, genItem(s, depth-1), genItem(s, depth-1))
		}
		return it
	default:
		return Item{T: "pair", L: []Item{genItem(s, depth-1), genItem(s, depth-1)}}
	}
}

func genRequestParts(s src, in *Input) {
	typ := pick(s, "req.type", []string{"doc", "doc", "group", "folder"})
	in.Object = typ + ":" + genID(s, "req.oid")
	in.Relation = pick(s, "req.rel", reqRelations[typ])
	switch s.n(5, "req.userkind") {
	case 0:
		in.User = "group:" + genID(s, "req.uid") + "#member"
	case 1:
		in.User = "user:*"
	default:
		in.User = "user:" + genID(s, "req.uid")
	}
}

func genInput(s src, kind string) Input {
	var in Input
	switch kind {
	case KEnc:
		for i, n := 0, 1+s.n(4, "items.len"); i < n; i++ {
			in.Items = append(in.Items, genItem(s, 2))
		}
	case KInv:
		in.Store, in.Model = genStoreish(s, "store"), genStoreish(s, "model")
		in.Tuples, in.Ctx = genTuples(s, kind), genCtx(s)
	case KSP:
		in.Store, in.Object, in.Relation, in.User = genStoreish(s, "store"), genStr(s, "object"), genStr(s, "relation"), genStr(s, "user")
		in.Invariant = pick(s, "invariant", invPool)
	case KBatch:
		in.Store, in.Model = genStoreish(s, "store"), genStoreish(s, "model")
		in.Object, in.Relation, in.User = genStr(s, "object"), genStr(s, "relation"), genStr(s, "user")
		in.Tuples, in.Ctx = genTuples(s, kind), genCtx(s)
	case KReq, KEdge:
		in.Store, in.Model = nonEmpty(genStoreish(s, "store")), nonEmpty(genStoreish(s, "model"))
		genRequestParts(s, &in)
		in.Tuples, in.Ctx = genTuples(s, kind), genCtx(s)
		if kind == KEdge {
			in.Edge = s.n(len(fixedEdges()), "edge")
		}
	case KRead:
		in.Store, in.Object, in.Relation, in.User = genStoreish(s, "store"), genStr(s, "object"), genStr(s, "relation"), genStr(s, "user")
		in.Conds = genConds(s)
	case KRSWU:
		in.Store, in.ObjectType, in.Relation = genStoreish(s, "store"), genName(s, "otype"), genName(s, "relation")
		for i, n := 0, s.n(4, "uf.len"); i < n; i++ {
			in.UserFilter = append(in.UserFilter, genOR(s))
		}
		if in.OIDsSet = chance(s, "oids.set", 2, 3); in.OIDsSet {
			for i, n := 0, s.n(4, "oids.len"); i < n; i++ {
				in.OIDs = append(in.OIDs, genStr(s, "oid"))
			}
		}
		in.Conds = genConds(s)
	case KRUT:
		in.Store, in.Object, in.Relation = genStoreish(s, "store"), genStr(s, "object"), genStr(s, "relation")
		for i, n := 0, s.n(4, "refs.len"); i < n; i++ {
			in.Refs = append(in.Refs, genRef(s))
		}
		in.Conds = genConds(s)
	case KIQ, KCC:
		in.Store = genStoreish(s, "store")
	case KIQOR:
		in.Store, in.Object, in.Relation = genStoreish(s, "store"), genStr(s, "object"), genStr(s, "relation")
	case KIQUOT:
		in.Store, in.User, in.ObjectType = genStoreish(s, "store"), genStr(s, "user"), genStr(s, "otype")
	case KMG:
		in.Store, in.Model = genStoreish(s, "store"), genStoreish(s, "model")
	}
	return in
}

// ---------------------------------------------------------------------------
// string helpers

func lastRune(v string) (string, string) {
	_, w := utf8.DecodeLastRuneInString(v)
	return v[:len(v)-w], v[len(v)-w:]
}

func insertAt(s src, v, piece string) string {
	// at a rune boundary
	var cuts []int
	for i := range v {
		cuts = append(cuts, i)
	}
	cuts = append(cuts, len(v))
	p := pick(s, "insert.pos", cuts)
	return v[:p] + piece + v[p:]
}

func splitRunes(v string) (string, string, bool) {
	if utf8.RuneCountInString(v) < 2 {
		return "", "", false
	}
	_, w := utf8.DecodeRuneInString(v)
	return v[:w], v[w:], true
}

// strField returns the flat string field of an input by name.
func strField(in *Input, name string) *string {
	switch name {
	case "store":
		return &in.Store
	case "model":
		return &in.Model
	case "object":
		return &in.Object
	case "relation":
		return &in.Relation
	case "user":
		return &in.User
	case "object_type":
		return &in.ObjectType
	}
	panic("no field " + name)
}

// flatFields: the string inputs of a kind that may hold any value (for the
// validated kinds only those that need no grammar).
func flatFields(kind string) []string {
	switch kind {
	case KInv, KMG, KReq, KEdge:
		return []string{"store", "model"}
	case KSP, KRead:
		return []string{"store", "object", "relation", "user"}
	case KBatch:
		return []string{"object", "relation", "user"}
	case KRSWU:
		return []string{"store", "object_type", "relation"}
	case KRUT, KIQOR:
		return []string{"store", "object", "relation"}
	case KIQ, KCC:
		return []string{"store"}
	case KIQUOT:
		return []string{"store", "user", "object_type"}
	}
	return nil
}

func hasTuples(kind string) bool {
	return kind == KInv || kind == KBatch || kind == KReq || kind == KEdge
}
func hasConds(kind string) bool { return kind == KRead || kind == KRSWU || kind == KRUT }

func fmtNum(f float64) string { return strconv.FormatFloat(f, 'f', -1, 64) }
