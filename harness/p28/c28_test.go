// Package p28 checks property C28: continuation tokens round-trip and resist tampering.
//
// Statement: "A continuation token issued by the server decodes back to exactly the position it
// encodes. With a token encryption key configured, any token not issued under that key (modified,
// truncated or forged) is rejected rather than decoded to some other position."
//
// Code under test: /repo/pkg/encoder (Base64Encoder, TokenEncoder, StringContinuationTokenSerializer)
// and /repo/pkg/encrypter (GCMEncrypter).
package p28

import (
	"bytes"
	"encoding/base64"
	"encoding/json"
	"fmt"
	"strconv"
	"strings"
	"testing"
	"unicode/utf8"

	"pgregory.net/rapid"

	"github.com/openfga/openfga/pkg/encoder"
	"github.com/openfga/openfga/pkg/encrypter"
	"github.com/openfga/openfga/verifharness/fw"
)

// ---------------------------------------------------------------------------------------------
// Case
// ---------------------------------------------------------------------------------------------

// Mutation describes positionally (never by content: the GCM nonce is random) how an issued
// token is turned into a token that was not issued.
type Mutation struct {
	// Kind: none | flip | trunc | trunc-str | extend | splice | foreign | forge | plaintext | b64char | b64alphabet
	Kind string `json:"kind"`
	// Variant: flip: nonce|ct|tag; trunc: to-empty|in-nonce|at-nonce|in-ct|drop-tag|in-tag|head;
	// extend: tail|head|str; splice: nonce-swap|tag-swap|ct-swap|cut|concat;
	// foreign: same-payload|other-payload; b64alphabet: std|nopad.
	Variant string `json:"variant,omitempty"`
	Off     int    `json:"off,omitempty"`   // offset selector inside the region (taken modulo its size)
	Mask    int    `json:"mask,omitempty"`  // xor mask (flip, 1..255) or replacement char index (b64char)
	Bytes   []byte `json:"bytes,omitempty"` // bytes added (extend) or the whole forged raw token (forge)
	Text    string `json:"text,omitempty"`  // characters appended to the token string (extend/str)
}

// Case is one C28 case. Enc "gcm" = a token encryption key is configured (AES-GCM then base64, the
// TokenEncoder of pkg/encoder), Enc "base64" = no key. Ser "string" = the position/type pair goes
// through StringContinuationTokenSerializer, Ser "raw" = only the encoder layer with an arbitrary
// byte payload.
type Case struct {
	Enc   string   `json:"enc"`
	Key   string   `json:"key,omitempty"`
	Key2  string   `json:"key2,omitempty"`
	Ser   string   `json:"ser"`
	Pos   string   `json:"pos,omitempty"`
	Type  string   `json:"type,omitempty"`
	Raw   []byte   `json:"raw,omitempty"`
	Pos2  string   `json:"pos2,omitempty"`
	Type2 string   `json:"type2,omitempty"`
	Raw2  []byte   `json:"raw2,omitempty"`
	Mut   Mutation `json:"mut"`
}

const (
	nonceLen = 12 // AES-GCM standard nonce
	tagLen   = 16 // AES-GCM standard tag
)

const b64URL = "ABCDEFGHIJKLMNOPQRSTUVWXYZabcdefghijklmnopqrstuvwxyz0123456789-_"

// ---------------------------------------------------------------------------------------------
// Generator
// ---------------------------------------------------------------------------------------------

var (
	crockford   = []rune("0123456789ABCDEFGHJKMNPQRSTVWXYZ")
	identRunes  = []rune("abcdefghijklmnopqrstuvwxyz0123456789_-")
	hostileRune = []rune("|:#@* \t\n\x00\x7f\"\\{},=%+/-_aZ09é日本😀\u0085\u00a0\u2028")
	keyPool     = []string{"secret", "key", "k", "0123456789abcdef0123456789abcdef", "pässwörd", "a b", "KEY"}
	typePool    = []string{"document", "user", "group", "folder", "a", "doc|v2", "|", "||", "a|", "|a", "a|b|c", "répertoire", "文档"}
	extendText  = []string{"A", "AA", "AAAA", "=", "==", "\n", "\r\n", " ", "%", "QUFB", "-", "_", "+", "/"}
	forgeLens   = []int{1, 2, 11, 12, 13, 16, 27, 28, 29, 30, 40, 64}
	mutKindsKey = []string{"flip", "flip", "flip", "trunc", "trunc", "trunc-str", "extend", "extend", "splice", "splice",
		"foreign", "foreign", "forge", "plaintext", "b64char", "b64char", "b64alphabet"}
	flipVariants    = []string{"nonce", "ct", "tag"}
	truncVariants   = []string{"to-empty", "in-nonce", "at-nonce", "in-ct", "drop-tag", "in-tag", "head"}
	extendVariants  = []string{"tail", "head", "str"}
	spliceVariants  = []string{"nonce-swap", "tag-swap", "ct-swap", "cut", "concat"}
	foreignVariants = []string{"same-payload", "other-payload"}
	alphaVariants   = []string{"std", "nopad"}
)

// uni draws 0..n-1 (n <= 1024) uniformly from ten fair coin flips. rapid's integer and index draws
// are deliberately biased towards small values (geometric bit length), which would skew the class
// mix; rapid.Bool is a fair coin.
func uni(t *rapid.T, label string, n int) int {
	v := 0
	for i := 0; i < 10; i++ {
		if rapid.Bool().Draw(t, label) {
			v |= 1 << i
		}
	}
	return v * n / 1024
}

func pct(t *rapid.T, label string) int { return uni(t, label, 100) }

func pickOne(t *rapid.T, label string, list []string) string { return list[uni(t, label, len(list))] }

func genULID(t *rapid.T, label string) string {
	first := rapid.SampledFrom([]rune("01234567")).Draw(t, label+"0")
	return string(first) + rapid.StringOfN(rapid.RuneFrom(crockford), 25, 25, -1).Draw(t, label)
}

func genHostile(t *rapid.T, label string, min, max int, noPipe bool) string {
	s := rapid.StringOfN(rapid.OneOf(rapid.RuneFrom(hostileRune), rapid.RuneFrom(identRunes), rapid.Rune()), min, max, -1).Draw(t, label)
	if noPipe {
		s = strings.ReplaceAll(s, "|", "/")
	}
	return s
}

// genPos draws a position. The server issues ULIDs (SQL stores, ReadChanges) and decimal offsets
// (memory store); arbitrary strings without the serializer's separator are the generalisation.
func genPos(t *rapid.T, label string, allowOutOfDomain bool) string {
	k := pct(t, label+"Kind")
	switch {
	case k < 35:
		return genULID(t, label)
	case k < 55:
		if rapid.Bool().Draw(t, label+"Small") {
			return strconv.Itoa(rapid.IntRange(0, 200).Draw(t, label+"Off"))
		}
		return strconv.FormatInt(rapid.Int64Range(-5, 1<<62).Draw(t, label+"Off"), 10)
	case k < 85:
		s := genHostile(t, label, 1, 40, true)
		if s == "" {
			s = "0"
		}
		return s
	case k < 94:
		b, _ := json.Marshal(map[string]string{"ulid": genULID(t, label), "ObjectType": rapid.SampledFrom(typePool).Draw(t, label+"JT")})
		return strings.ReplaceAll(string(b), "|", "/")
	case k < 98 && allowOutOfDomain:
		return genHostile(t, label+"A", 0, 10, true) + "|" + genHostile(t, label+"B", 0, 10, false)
	case allowOutOfDomain:
		return ""
	}
	return genULID(t, label)
}

func genType(t *rapid.T, label string) string {
	k := pct(t, label+"Kind")
	switch {
	case k < 25:
		return ""
	case k < 65:
		return rapid.SampledFrom(typePool).Draw(t, label)
	case k < 80:
		return rapid.StringOfN(rapid.RuneFrom(identRunes), 1, 30, -1).Draw(t, label)
	case k < 97:
		return genHostile(t, label, 1, 30, false)
	}
	return strings.Repeat("t", 253) + "|"
}

func genRaw(t *rapid.T, label string, allowEmpty bool) []byte {
	min := 1
	if allowEmpty && pct(t, label+"Empty") < 5 {
		return []byte{}
	}
	n := rapid.IntRange(min, 48).Draw(t, label+"Len")
	if pct(t, label+"Text") < 25 {
		// text-like payloads including the separator
		s := genHostile(t, label+"S", 1, n, false)
		return []byte(s)
	}
	return rapid.SliceOfN(rapid.Byte(), n, n).Draw(t, label)
}

func genKey(t *rapid.T, label string) string {
	if rapid.Bool().Draw(t, label+"Pool") {
		return rapid.SampledFrom(keyPool).Draw(t, label)
	}
	s := rapid.StringN(1, 40, -1).Draw(t, label)
	if s == "" {
		s = "k"
	}
	return s
}

// genKey2 draws a key different from key: unrelated, or a near miss of it.
func genKey2(t *rapid.T, key string) string {
	var k2 string
	switch uni(t, "key2Kind", 6) {
	case 0:
		k2 = genKey(t, "key2")
	case 1:
		k2 = key + " "
	case 2:
		k2 = strings.ToUpper(key)
		if k2 == key {
			k2 = strings.ToLower(key)
		}
	case 3:
		r := []rune(key)
		k2 = string(r[:len(r)-1])
	case 4:
		k2 = ""
	default:
		k2 = key + "\x00"
	}
	if k2 == key {
		k2 = key + "x"
	}
	return k2
}

func genMutation(t *rapid.T, kinds []string) Mutation {
	m := Mutation{Kind: pickOne(t, "mutKind", kinds)}
	m.Off = uni(t, "mutOffHi", 1024)*8 + uni(t, "mutOffLo", 8) // uniform, so every byte of a region is hit
	switch m.Kind {
	case "flip":
		m.Variant = pickOne(t, "flipRegion", flipVariants)
		if rapid.Bool().Draw(t, "singleBit") {
			m.Mask = 1 << uni(t, "bit", 8)
		} else {
			m.Mask = 1 + uni(t, "mask", 255)
		}
	case "trunc":
		m.Variant = pickOne(t, "truncVariant", truncVariants)
	case "extend":
		m.Variant = pickOne(t, "extendVariant", extendVariants)
		if m.Variant == "str" {
			m.Text = pickOne(t, "extendText", extendText)
		} else {
			m.Bytes = rapid.SliceOfN(rapid.Byte(), 1, 20).Draw(t, "extendBytes")
		}
	case "splice":
		m.Variant = pickOne(t, "spliceVariant", spliceVariants)
	case "foreign":
		m.Variant = pickOne(t, "foreignVariant", foreignVariants)
	case "forge":
		n := forgeLens[uni(t, "forgeLen", len(forgeLens))]
		m.Bytes = rapid.SliceOfN(rapid.Byte(), n, n).Draw(t, "forgeBytes")
	case "b64char":
		m.Mask = uni(t, "b64Char", 64)
		if rapid.Bool().Draw(t, "b64Tail") {
			m.Off = -1 - uni(t, "b64TailOff", 4) // counted from the end of the token string
		}
	case "b64alphabet":
		m.Variant = pickOne(t, "alphaVariant", alphaVariants)
	}
	return m
}

func gen(t *rapid.T) Case {
	c := Case{Enc: "gcm", Ser: "string"}
	if pct(t, "noKey") < 20 {
		c.Enc = "base64"
	}
	if pct(t, "rawLayer") < 30 {
		c.Ser = "raw"
	}
	if c.Enc == "gcm" {
		c.Key = genKey(t, "key")
		c.Key2 = genKey2(t, c.Key)
	}
	if c.Ser == "string" {
		c.Pos = genPos(t, "pos", true)
		c.Type = genType(t, "type")
		c.Pos2 = genPos(t, "pos2", false)
		c.Type2 = genType(t, "type2")
	} else {
		c.Raw = genRaw(t, "raw", true)
		c.Raw2 = genRaw(t, "raw2", false)
	}
	noMut := 25
	if c.Enc == "base64" {
		noMut = 70
	}
	if pct(t, "noMutation") < noMut {
		c.Mut = Mutation{Kind: "none"}
	} else {
		c.Mut = genMutation(t, mutKindsKey)
	}
	return c
}

// ---------------------------------------------------------------------------------------------
// Oracle
// ---------------------------------------------------------------------------------------------

type result struct {
	discard string
	nt      bool
	classes []string
	sample  any
	fail    *fw.Failure
}

func (r *result) class(format string, a ...any) {
	r.classes = append(r.classes, fmt.Sprintf(format, a...))
}

func posKind(p string) string {
	switch {
	case p == "":
		return "empty"
	case strings.Contains(p, "|"):
		return "with-separator"
	case len(p) == 26 && strings.Trim(p, string(crockford)) == "":
		return "ulid"
	case strings.HasPrefix(p, "{"):
		return "json"
	}
	if _, err := strconv.ParseInt(p, 10, 64); err == nil {
		return "offset"
	}
	return "arbitrary"
}

func typeKind(s string) string {
	switch {
	case s == "":
		return "empty"
	case strings.Contains(s, "|"):
		return "with-separator"
	}
	for _, r := range s {
		if r >= 0x80 || r < 0x21 || r == 0x7f {
			return "hostile"
		}
	}
	return "plain"
}

func newEncoder(c Case, key string) (encoder.Encoder, error) {
	if c.Enc != "gcm" {
		return encoder.NewBase64Encoder(), nil
	}
	g, err := encrypter.NewGCMEncrypter(key)
	if err != nil {
		return nil, err
	}
	return encoder.NewTokenEncoder(g, encoder.NewBase64Encoder()), nil
}

func b64(raw []byte) string { return base64.URLEncoding.EncodeToString(raw) }

func cat(parts ...[]byte) []byte {
	var out []byte
	for _, p := range parts {
		out = append(out, p...)
	}
	return out
}

// mutate builds the not-issued token. ok=false: the mutation is not applicable to this token
// (e.g. no ciphertext region because the payload is empty).
func mutate(c Case, tokA, tokB string, rawA, rawB, payload, payload2 []byte, foreign func([]byte) (string, error)) (mut string, label string, ok bool, err error) {
	m := c.Mut
	la, lb := len(rawA), len(rawB)
	keyed := c.Enc == "gcm"
	// Region boundaries are those of the documented token layout nonce|ciphertext|tag (AES-GCM);
	// without a key the whole raw token is the "ct" region.
	ns, ts := 0, 0
	if keyed {
		ns, ts = nonceLen, tagLen
	}
	hasLayout := func(l int) bool { return l > ns+ts }
	switch m.Kind {
	case "flip":
		if !hasLayout(la) {
			return "", "", false, nil
		}
		start, size := ns, la-ns-ts
		v := m.Variant
		switch {
		case v == "nonce" && keyed:
			start, size = 0, ns
		case v == "tag" && keyed:
			start, size = la-ts, ts
		default:
			v = "ct"
		}
		r := bytes.Clone(rawA)
		r[start+m.Off%size] ^= byte(m.Mask)
		bits := "multibit"
		if m.Mask&(m.Mask-1) == 0 {
			bits = "1bit"
		}
		return b64(r), "flip/" + v + "/" + bits, true, nil
	case "trunc":
		if !hasLayout(la) {
			return "", "", false, nil
		}
		n := la - ns - ts
		v := m.Variant
		if !keyed && v != "to-empty" && v != "head" {
			v = "in-ct"
		}
		var r []byte
		switch v {
		case "to-empty":
			r = rawA[:0]
		case "in-nonce":
			r = rawA[:1+m.Off%(ns-1)]
		case "at-nonce":
			r = rawA[:ns]
		case "in-ct":
			if n < 2 {
				v = "at-nonce"
				r = rawA[:ns]
			} else {
				r = rawA[:ns+1+m.Off%(n-1)]
			}
		case "drop-tag":
			r = rawA[:ns+n]
		case "in-tag":
			r = rawA[:ns+n+1+m.Off%(ts-1)]
		default:
			if la < 2 {
				return "", "", false, nil
			}
			v = "head"
			r = rawA[1+m.Off%(la-1):]
		}
		return b64(r), "trunc/" + v, true, nil
	case "trunc-str":
		if len(tokA) < 2 {
			return "", "", false, nil
		}
		k := 1 + m.Off%4
		if k >= len(tokA) {
			k = len(tokA) - 1
		}
		return tokA[:len(tokA)-k], fmt.Sprintf("trunc-str/%d", k), true, nil
	case "extend":
		switch m.Variant {
		case "head":
			return b64(cat(m.Bytes, rawA)), "extend/head", true, nil
		case "str":
			return tokA + m.Text, "extend/str", true, nil
		}
		return b64(cat(rawA, m.Bytes)), "extend/tail", true, nil
	case "splice":
		if !hasLayout(la) || !hasLayout(lb) {
			return "", "", false, nil
		}
		v := m.Variant
		if !keyed && v != "concat" {
			v = "cut"
		}
		var r []byte
		switch v {
		case "nonce-swap":
			r = cat(rawA[:ns], rawB[ns:])
		case "tag-swap":
			r = cat(rawA[:la-ts], rawB[lb-ts:])
		case "ct-swap":
			r = cat(rawB[:ns], rawA[ns:la-ts], rawB[lb-ts:])
		case "concat":
			r = cat(rawA, rawB)
		default:
			v = "cut"
			ml := min(la, lb)
			if ml < 2 {
				return "", "", false, nil
			}
			i := 1 + m.Off%(ml-1)
			r = cat(rawA[:i], rawB[i:])
		}
		return b64(r), "splice/" + v, true, nil
	case "foreign":
		if !keyed {
			return "", "", false, nil
		}
		p, v := payload, "same-payload"
		if m.Variant == "other-payload" {
			p, v = payload2, "other-payload"
		}
		tok, err := foreign(p)
		return tok, "foreign/" + v, true, err
	case "forge":
		l := "len>=nonce+tag"
		switch {
		case len(m.Bytes) < nonceLen:
			l = "len<nonce"
		case len(m.Bytes) == nonceLen:
			l = "len=nonce"
		case len(m.Bytes) < nonceLen+tagLen:
			l = "nonce<len<nonce+tag"
		case len(m.Bytes) == nonceLen+tagLen:
			l = "len=nonce+tag"
		}
		return b64(m.Bytes), "forge/" + l, true, nil
	case "plaintext":
		return b64(payload), "plaintext", true, nil
	case "b64char":
		if tokA == "" {
			return "", "", false, nil
		}
		i := m.Off
		if i < 0 {
			i = len(tokA) + i
			if i < 0 {
				i = 0
			}
		} else {
			i %= len(tokA)
		}
		b := []byte(tokA)
		b[i] = b64URL[m.Mask%64]
		where := "body"
		if i >= len(tokA)-4 {
			where = "last-quantum"
		}
		return string(b), "b64char/" + where, true, nil
	case "b64alphabet":
		if m.Variant == "nopad" {
			return strings.TrimRight(tokA, "="), "b64alphabet/nopad", true, nil
		}
		return strings.NewReplacer("-", "+", "_", "/").Replace(tokA), "b64alphabet/std", true, nil
	}
	return "", "", false, nil
}

func show(b []byte) string {
	if utf8.Valid(b) {
		return strconv.Quote(string(b))
	}
	return fmt.Sprintf("hex:%x", b)
}

// eval is the whole check as a pure function of the case (shared by TestC28 and FuzzC28).
//
// Oracle (from the property statement only):
//
//	R  round trip: Decode(Encode(payload)) = payload and, through the serializer,
//	   Deserialize(Decode(Encode(Serialize(pos,type)))) = (pos,type), for every position the server can
//	   issue (non-empty, not containing the serializer's separator '|') and every type filter.
//	T  tampering, key configured: a token string that was not issued under the key must make Decode
//	   return an error. The only accepted exceptions are the ones in which no *other* position is
//	   produced: (a) the modified string is another base64 spelling of exactly the issued bytes and
//	   decodes to the issued payload; (b) the string spells zero bytes, i.e. it is the absent token
//	   (empty payload, which no deserializer accepts as a position); (c) a splice happens to be
//	   byte-identical to the second token issued under the same key and decodes to that token's payload.
//
// Non-trivial (NT): the payload is not empty AND (no mutation: a real position makes the round trip; or, with
// a key, the mutation changed, removed or added at least one byte of the nonce/ciphertext/tag
// region and the result is not the absent token). Trivial: empty payloads, not-applicable and no-op
// mutations, base64 respellings, mutations without a key (nothing to assert but "no panic").
func eval(c Case) (res result) {
	res.class("enc:%s", c.Enc)
	res.class("layer:%s", c.Ser)
	if c.Enc != "gcm" && c.Enc != "base64" || c.Ser != "string" && c.Ser != "raw" {
		res.discard = "malformed-case"
		return
	}
	if c.Enc == "gcm" && c.Key == c.Key2 {
		res.discard = "foreign-key-equals-key"
		return
	}
	enc, err := newEncoder(c, c.Key)
	if err != nil {
		res.fail = fw.Failf("C28/encrypter-construction", "NewGCMEncrypter(%q): %v", c.Key, err)
		return
	}
	ser := encoder.NewStringContinuationTokenSerializer()

	// ---- issue the token(s) ----
	var payload, payload2 []byte
	if c.Ser == "string" {
		res.class("pos:%s", posKind(c.Pos))
		res.class("type:%s", typeKind(c.Type))
		if c.Pos == "" || strings.Contains(c.Pos, "|") || c.Pos2 == "" || strings.Contains(c.Pos2, "|") {
			// Outside the domain: the server never issues such a position and "pos|type" cannot
			// represent it. Only exercised for panics.
			_, _ = ser.Serialize(c.Pos, c.Type)
			res.discard = "position-empty-or-contains-separator"
			return
		}
		if payload, err = ser.Serialize(c.Pos, c.Type); err != nil {
			res.fail = fw.Failf("C28/serialize-error", "Serialize(%q,%q): %v", c.Pos, c.Type, err)
			return
		}
		if payload2, err = ser.Serialize(c.Pos2, c.Type2); err != nil {
			res.fail = fw.Failf("C28/serialize-error", "Serialize(%q,%q): %v", c.Pos2, c.Type2, err)
			return
		}
	} else {
		payload, payload2 = c.Raw, c.Raw2
		if len(payload) == 0 {
			res.class("payload:empty")
		}
	}
	tokA, err := enc.Encode(payload)
	if err != nil {
		res.fail = fw.Failf("C28/encode-error", "Encode(%s): %v", show(payload), err)
		return
	}
	tokB, err := enc.Encode(payload2)
	if err != nil {
		res.fail = fw.Failf("C28/encode-error", "Encode(%s): %v", show(payload2), err)
		return
	}

	// ---- R: round trip (both issued tokens) ----
	roundTrip := func(tok string, payload []byte, pos, typ string) *fw.Failure {
		got, err := enc.Decode(tok)
		if err != nil {
			return fw.Failf("C28/roundtrip-decode-error", "enc=%s key=%q: Decode(Encode(%s)) failed: %v (token %q)", c.Enc, c.Key, show(payload), err, tok)
		}
		if !bytes.Equal(got, payload) {
			return fw.Failf("C28/roundtrip-payload-mismatch", "enc=%s key=%q: Decode(Encode(%s)) = %s (token %q)", c.Enc, c.Key, show(payload), show(got), tok)
		}
		if c.Ser != "string" {
			return nil
		}
		p, ty, err := ser.Deserialize(string(got))
		if err != nil {
			return fw.Failf("C28/roundtrip-deserialize-error", "Deserialize(Decode(Encode(Serialize(%q,%q)))) failed: %v", pos, typ, err)
		}
		if p != pos || ty != typ {
			sig := "C28/roundtrip-position-mismatch"
			if strings.Contains(typ, "|") {
				sig = "C28/roundtrip-type-with-separator"
			}
			return fw.Failf(sig, "issued (pos=%q,type=%q) decodes to (pos=%q,type=%q); payload %s", pos, typ, p, ty, show(payload))
		}
		return nil
	}
	if res.fail = roundTrip(tokA, payload, c.Pos, c.Type); res.fail != nil {
		return
	}
	if res.fail = roundTrip(tokB, payload2, c.Pos2, c.Type2); res.fail != nil {
		return
	}

	// ---- T: tampering ----
	rawA, errA := base64.URLEncoding.DecodeString(tokA)
	rawB, errB := base64.URLEncoding.DecodeString(tokB)
	if errA != nil || errB != nil {
		// The property does not prescribe the outer encoding; without knowing it the harness cannot
		// address the nonce/ciphertext/tag bytes, so the tamper part is skipped (and shows up as a discard).
		res.discard = "issued-token-not-base64url(tamper-part-skipped)"
		return
	}
	if c.Mut.Kind == "none" || c.Mut.Kind == "" {
		res.class("mutation:none")
		res.nt = len(payload) > 0
		if res.nt {
			res.sample = map[string]any{"enc": c.Enc, "payload": show(payload), "token_len": len(tokA)}
		}
		return
	}
	foreign := func(p []byte) (string, error) {
		e2, err := newEncoder(c, c.Key2)
		if err != nil {
			return "", err
		}
		return e2.Encode(p)
	}
	mutTok, label, ok, err := mutate(c, tokA, tokB, rawA, rawB, payload, payload2, foreign)
	if err != nil {
		res.fail = fw.Failf("C28/encode-error", "issuing the foreign-key token failed: %v", err)
		return
	}
	if !ok {
		res.class("mutation:n/a(%s)", c.Mut.Kind)
		return
	}
	res.class("mutation:%s", label)
	if c.Mut.Kind == "foreign" {
		res.class("foreign-key:%s", keyRelation(c.Key, c.Key2))
	}
	if mutTok == tokA {
		res.class("outcome:no-op")
		return
	}
	rawM, errM := base64.URLEncoding.DecodeString(mutTok)
	gotM, errD := enc.Decode(mutTok)
	if c.Enc != "gcm" {
		// No key: no integrity is promised; the call just must not panic.
		res.class("outcome:nokey-unasserted")
		return
	}
	sameBytes := errM == nil && bytes.Equal(rawM, rawA)
	absent := errM == nil && len(rawM) == 0
	// A splice can reproduce, by chance (equal leading nonce bytes), exactly the second token that
	// was issued under the same key: that is an issued token, not a tampered one.
	isOther := errM == nil && bytes.Equal(rawM, rawB)
	switch {
	case errD != nil:
		res.class("outcome:rejected")
	case isOther && bytes.Equal(gotM, payload2):
		res.class("outcome:is-the-other-issued-token")
	case sameBytes && bytes.Equal(gotM, payload):
		res.class("outcome:respelling-same-position")
	case absent && len(gotM) == 0:
		res.class("outcome:absent-token")
	default:
		other := ""
		if c.Ser == "string" {
			p, ty, e := ser.Deserialize(string(gotM))
			other = fmt.Sprintf("; as a position: (pos=%q,type=%q,err=%v) instead of (pos=%q,type=%q)", p, ty, e, c.Pos, c.Type)
		}
		res.fail = fw.Failf("C28/tampered-token-accepted/"+c.Mut.Kind,
			"key %q configured, token %q issued for %s; not-issued token %q (%s; key2=%q) was accepted: Decode = %s%s",
			c.Key, tokA, show(payload), mutTok, label, c.Key2, show(gotM), other)
		return
	}
	res.nt = len(payload) > 0 && !sameBytes && !absent && !isOther
	if res.nt {
		res.sample = map[string]any{"mutation": label, "payload": show(payload), "issued_len": len(rawA), "mutated_len": len(rawM), "rejected": errD != nil}
	}
	return
}

func keyRelation(k, k2 string) string {
	switch {
	case k2 == "":
		return "empty"
	case strings.EqualFold(k, k2):
		return "case-changed"
	case strings.HasPrefix(k2, k):
		return "extension"
	case strings.HasPrefix(k, k2):
		return "prefix"
	}
	return "unrelated"
}

func check(env *fw.Env, c Case) *fw.Failure {
	r := eval(c)
	if r.fail != nil {
		return r.fail
	}
	if r.discard != "" {
		env.Rec.Discard(r.discard)
		return nil
	}
	env.Rec.Case(c, r.nt, r.sample, r.classes...)
	return nil
}

func TestC28(t *testing.T) { fw.Run(t, "C28", gen, check) }

// TestC28CaseJSON: generated cases survive the JSON round trip the replay files rely on.
func TestC28CaseJSON(t *testing.T) {
	rapid.Check(t, func(rt *rapid.T) {
		c := gen(rt)
		b, err := json.Marshal(c)
		if err != nil {
			rt.Fatalf("marshal: %v", err)
		}
		var d Case
		if err := json.Unmarshal(b, &d); err != nil {
			rt.Fatalf("unmarshal: %v", err)
		}
		b2, _ := json.Marshal(d)
		if !bytes.Equal(b, b2) || c.Pos != d.Pos || c.Type != d.Type || c.Key != d.Key || c.Key2 != d.Key2 || !bytes.Equal(c.Raw, d.Raw) || c.Mut.Text != d.Mut.Text {
			rt.Fatalf("case does not survive JSON: %s vs %s", b, b2)
		}
	})
}

// ---------------------------------------------------------------------------------------------
// Native fuzz target: same oracle (eval), the fuzzer mutates the fields of the case directly.
// A crasher is printed as a replay file; save it and run `VERIF_REPLAY=<file> go test ./p28/ -run TestC28`.
// ---------------------------------------------------------------------------------------------

var fuzzKinds = []string{"none", "flip", "trunc", "trunc-str", "extend", "splice", "foreign", "forge", "plaintext", "b64char", "b64alphabet"}

func pick(list []string, i uint8) string { return list[int(i)%len(list)] }

func caseFromFuzz(keyed, rawLayer bool, key, key2, pos, typ, pos2, typ2 string, raw, raw2 []byte, kind, variant uint8, off uint16, mask uint8, extra []byte) Case {
	valid := func(s string) string { return strings.ToValidUTF8(s, "\uFFFD") } // the case must survive JSON
	c := Case{Enc: "base64", Ser: "string"}
	if keyed {
		c.Enc, c.Key, c.Key2 = "gcm", valid(key), valid(key2)
	}
	if rawLayer {
		c.Ser, c.Raw, c.Raw2 = "raw", raw, raw2
		if c.Raw == nil {
			c.Raw = []byte{}
		}
		if len(c.Raw2) == 0 {
			c.Raw2 = []byte{0}
		}
	} else {
		c.Pos, c.Type, c.Pos2, c.Type2 = valid(pos), valid(typ), valid(pos2), valid(typ2)
	}
	m := Mutation{Kind: pick(fuzzKinds, kind), Off: int(off)}
	switch m.Kind {
	case "flip":
		m.Variant, m.Mask = pick(flipVariants, variant), int(mask)
		if m.Mask == 0 {
			m.Mask = 1
		}
	case "trunc":
		m.Variant = pick(truncVariants, variant)
	case "extend":
		m.Variant = pick(extendVariants, variant)
		if m.Variant == "str" {
			m.Text = valid(string(extra))
			if m.Text == "" {
				m.Text = "A"
			}
		} else {
			m.Bytes = extra
			if len(m.Bytes) == 0 {
				m.Bytes = []byte{0}
			}
		}
	case "splice":
		m.Variant = pick(spliceVariants, variant)
	case "foreign":
		m.Variant = pick(foreignVariants, variant)
	case "forge":
		m.Bytes = extra
	case "b64char":
		m.Mask = int(mask)
		if variant%2 == 1 {
			m.Off = -1 - int(off%4)
		}
	case "b64alphabet":
		m.Variant = pick(alphaVariants, variant)
	}
	c.Mut = m
	return c
}

func FuzzC28(f *testing.F) {
	ulid1, ulid2 := "01HZX3V5T8QJ4N7M2K9P6R0W1C", "01HZX3V5T8QJ4N7M2K9P6R0W1D"
	for k := range fuzzKinds {
		for v := uint8(0); v < 7; v++ {
			f.Add(true, false, "secret", "Secret", ulid1, "document", ulid2, "doc|v2", []byte("x"), []byte("y"), uint8(k), v, uint16(3), uint8(0x80), []byte("AAAAAAAAAAAAAAAAAAAAAAAAAAAAAAAA"))
		}
		f.Add(true, true, "k", "", "", "", "", "", []byte{0, 1, 2, 0xff, '|'}, []byte("0|"), uint8(k), uint8(1), uint16(700), uint8(1), []byte{1})
		f.Add(false, false, "", "", "17", "", "42", "a|b|c", []byte{}, []byte{}, uint8(k), uint8(2), uint16(0), uint8(7), []byte("\n"))
	}
	f.Fuzz(func(t *testing.T, keyed, rawLayer bool, key, key2, pos, typ, pos2, typ2 string, raw, raw2 []byte, kind, variant uint8, off uint16, mask uint8, extra []byte) {
		c := caseFromFuzz(keyed, rawLayer, key, key2, pos, typ, pos2, typ2, raw, raw2, kind, variant, off, mask, extra)
		r := eval(c)
		if r.fail != nil && !fw.IsKnown(r.fail.Signature) {
			b, _ := json.MarshalIndent(map[string]any{"property": "C28", "signature": r.fail.Signature, "msg": r.fail.Msg, "case": c}, "", " ")
			t.Fatalf("property C28 violated [%s]: %s\nreplay file:\n%s", r.fail.Signature, r.fail.Msg, b)
		}
	})
}
