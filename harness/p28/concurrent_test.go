package p28

import (
	"bytes"
	"fmt"
	"sync"
	"testing"

	"pgregory.net/rapid"

	"github.com/openfga/openfga/pkg/encoder"
	"github.com/openfga/openfga/pkg/encrypter"
	"github.com/openfga/openfga/verifharness/fw"
)

// TestC28Issued — every token the server has handed out stays valid while it
// keeps issuing others.
//
// One encoder (AES-GCM key drawn, or plain base64); W goroutines issue N tokens
// each for their own payloads at the same time (real scheduler), decode some of
// them straight away and all of them at the end; in a second, single-threaded
// part the encrypter is used directly: ciphertext A is kept, B..K are sealed,
// then A is opened. Oracle: every token / ciphertext decodes to exactly the
// payload it was issued for.
//
// Non-trivial: >= 2 goroutines and >= 2 tokens each, with a key.

type IssueCase struct {
	Key     string `json:"key"` // "" = base64 only
	Workers int    `json:"workers"`
	Each    int    `json:"each"`
	Size    int    `json:"size"` // payload size in bytes
}

func genIssue(t *rapid.T) IssueCase {
	c := IssueCase{Workers: rapid.IntRange(2, 16).Draw(t, "workers"), Each: rapid.IntRange(2, 40).Draw(t, "each"),
		Size: []int{1, 8, 26, 60, 200, 400}[rapid.IntRange(0, 5).Draw(t, "size")]}
	if rapid.IntRange(0, 4).Draw(t, "withKey") > 0 {
		c.Key = rapid.StringMatching("[a-zA-Z0-9]{1,24}").Draw(t, "key")
	}
	return c
}

func issuePayload(w, i, size int) []byte {
	p := []byte(fmt.Sprintf("w%d/i%d|", w, i))
	for len(p) < size {
		p = append(p, byte('a'+(w+i+len(p))%26))
	}
	return p
}

func checkIssue(env *fw.Env, c IssueCase) *fw.Failure {
	if c.Workers == 0 {
		env.Rec.Discard("replay-file-of-another-test")
		return nil
	}
	var enc encoder.Encoder = encoder.NewBase64Encoder()
	var g *encrypter.GCMEncrypter
	if c.Key != "" {
		var err error
		g, err = encrypter.NewGCMEncrypter(c.Key)
		if err != nil {
			return fw.Failf("harness/key", "%v", err)
		}
		enc = encoder.NewTokenEncoder(g, encoder.NewBase64Encoder())
	}
	type issued struct {
		w, i int
		tok  string
	}
	all := make([][]issued, c.Workers)
	fails := make(chan *fw.Failure, c.Workers)
	start := make(chan struct{})
	var wg sync.WaitGroup
	for w := 0; w < c.Workers; w++ {
		wg.Add(1)
		go func(w int) {
			defer wg.Done()
			<-start
			for i := 0; i < c.Each; i++ {
				p := issuePayload(w, i, c.Size)
				tok, err := enc.Encode(p)
				if err != nil {
					fails <- fw.Failf("C28/encode-error", "Encode: %v", err)
					return
				}
				all[w] = append(all[w], issued{w, i, tok})
				if i%3 == 0 {
					got, err := enc.Decode(tok)
					if err != nil || !bytes.Equal(got, p) {
						fails <- fw.Failf("C28/issued-token-invalid-while-others-are-issued", "key=%q, %d goroutines issuing: the token just issued for %q decodes to %q (err %v)", c.Key, c.Workers, p, got, err)
						return
					}
				}
			}
		}(w)
	}
	close(start)
	wg.Wait()
	close(fails)
	for f := range fails {
		return f
	}
	for w := range all {
		for _, it := range all[w] {
			p := issuePayload(it.w, it.i, c.Size)
			got, err := enc.Decode(it.tok)
			if err != nil || !bytes.Equal(got, p) {
				return fw.Failf("C28/issued-token-invalid-while-others-are-issued", "key=%q, %d goroutines x %d tokens: the token issued for %q decodes to %q (err %v) after the others were issued", c.Key, c.Workers, c.Each, p, got, err)
			}
		}
	}
	if g != nil {
		first := issuePayload(99, 0, c.Size)
		sealed, err := g.Encrypt(first)
		if err != nil {
			return fw.Failf("C28/encode-error", "Encrypt: %v", err)
		}
		for i := 1; i <= c.Each; i++ {
			if _, err := g.Encrypt(issuePayload(99, i, c.Size)); err != nil {
				return fw.Failf("C28/encode-error", "Encrypt: %v", err)
			}
		}
		opened, err := g.Decrypt(sealed)
		if err != nil || !bytes.Equal(opened, first) {
			return fw.Failf("C28/issued-token-invalid-while-others-are-issued", "key=%q: a ciphertext kept while %d others were sealed opens to %q (err %v), it was sealed from %q", c.Key, c.Each, opened, err, first)
		}
	}
	env.Rec.Case(c, c.Key != "" && c.Workers >= 2 && c.Each >= 2, map[string]any{"case": c}, fmt.Sprintf("key:%v", c.Key != ""), fmt.Sprintf("size:%d", c.Size))
	return nil
}

func TestC28Issued(t *testing.T) { fw.Run(t, "C28", genIssue, checkIssue) }
