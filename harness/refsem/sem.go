package refsem

import (
	"sort"

	"github.com/openfga/openfga/verifharness/m"
)

// R-sem: least-fixpoint semantics of the OpenFGA rewrite language, evaluated
// in Kleene three-valued logic so that a conditional tuple whose condition
// cannot be evaluated contributes "Unknown": True means the relation holds
// whatever the unevaluable conditions would have said, False that it cannot
// hold, Unknown that the answer depends on an unevaluable condition (the
// request must fail).

type relKey struct{ typ, rel string }

type dep struct {
	to  relKey
	neg bool
}

func relDeps(mo *m.Model, typ string, r *m.Relation) []dep {
	var out []dep
	var walk func(rw *m.Rewrite, neg bool)
	walk = func(rw *m.Rewrite, neg bool) {
		switch rw.Kind {
		case m.This:
			for _, re := range r.Restr {
				if re.Rel != "" {
					out = append(out, dep{relKey{re.Type, re.Rel}, neg})
				}
			}
		case m.Computed:
			out = append(out, dep{relKey{typ, rw.Rel}, neg})
		case m.TTU:
			if ts := mo.Relation(typ, rw.Tupleset); ts != nil {
				for _, re := range ts.Restr {
					if mo.Relation(re.Type, rw.Rel) != nil {
						out = append(out, dep{relKey{re.Type, rw.Rel}, neg})
					}
				}
			}
		case m.Union, m.Intersection:
			for _, c := range rw.Children {
				walk(c, neg)
			}
		case m.Difference:
			walk(rw.Children[0], neg)
			walk(rw.Children[1], true)
		}
	}
	walk(r.Rewrite, false)
	return out
}

// Stratify assigns every type#relation a stratum such that positive
// dependencies stay within or below the stratum and negative dependencies are
// strictly below. ok=false when negation occurs inside a recursion (the
// semantics is then not defined by a least fixpoint and the model is outside
// the property's domain).
func Stratify(mo *m.Model) (map[relKey]int, bool) {
	st := map[relKey]int{}
	var keys []relKey
	deps := map[relKey][]dep{}
	for _, td := range mo.Types {
		for i := range td.Relations {
			k := relKey{td.Name, td.Relations[i].Name}
			keys = append(keys, k)
			st[k] = 0
			deps[k] = relDeps(mo, td.Name, &td.Relations[i])
		}
	}
	n := len(keys)
	for round := 0; ; round++ {
		changed := false
		for _, k := range keys {
			for _, d := range deps[k] {
				want := st[d.to]
				if d.neg {
					want++
				}
				if want > st[k] {
					st[k] = want
					changed = true
				}
			}
		}
		if !changed {
			return st, true
		}
		if round > n+1 {
			return nil, false
		}
	}
}

// Stratified reports whether the model is inside the property's domain.
func Stratified(mo *m.Model) bool {
	_, ok := Stratify(mo)
	return ok
}

// Eval evaluates relations for one fixed subject, request context and tuple
// set (already filtered for validity and merged with contextual tuples).
type Eval struct {
	mo      *m.Model
	subject string
	skind   string
	stype   string
	byNode  map[string][]tupleOut // object#relation -> tuples
	objects []string
	v       map[string]Outcome
	// HasUnknownTuple reports whether any tuple's condition failed to evaluate.
	HasUnknownTuple bool
}

type tupleOut struct {
	t m.Tuple
	c Outcome
}

func node(o, r string) string { return o + "#" + r }

// NewEval builds the evaluator and computes the fixpoint. tuples must already
// be the valid stored tuples plus the contextual tuples.
func NewEval(mo *m.Model, tuples []m.Tuple, subject string, reqCtx map[string]any, extraObjects ...string) *Eval {
	return newEval(mo, tuples, subject, reqCtx, false, extraObjects...)
}

// NewEvalDroppingUnknown is NewEval with every tuple whose condition cannot be
// evaluated treated as absent. It is NOT the specification; it is used only to
// recognise the signature of a known defect (condition errors swallowed).
func NewEvalDroppingUnknown(mo *m.Model, tuples []m.Tuple, subject string, reqCtx map[string]any, extraObjects ...string) *Eval {
	return newEval(mo, tuples, subject, reqCtx, true, extraObjects...)
}

// TupleOutcome pairs a tuple with the outcome of its condition.
type TupleOutcome struct {
	Tuple   m.Tuple
	Outcome Outcome
}

// TupleOutcomes lists every tuple of the evaluation with its condition outcome.
func (e *Eval) TupleOutcomes() []TupleOutcome {
	var out []TupleOutcome
	for _, k := range sortedNodeKeys(e.byNode) {
		for _, to := range e.byNode[k] {
			out = append(out, TupleOutcome{to.t, to.c})
		}
	}
	return out
}

func sortedNodeKeys(mp map[string][]tupleOut) []string {
	out := make([]string, 0, len(mp))
	for k := range mp {
		out = append(out, k)
	}
	sort.Strings(out)
	return out
}

func newEval(mo *m.Model, tuples []m.Tuple, subject string, reqCtx map[string]any, dropUnknown bool, extraObjects ...string) *Eval {
	e := &Eval{mo: mo, subject: subject, skind: m.UserKind(subject), stype: m.UserType(subject),
		byNode: map[string][]tupleOut{}, v: map[string]Outcome{}}
	objset := map[string]bool{}
	addObj := func(o string) {
		if t, id := m.SplitObject(o); id != "*" && mo.Type(t) != nil {
			objset[o] = true
		}
	}
	for _, t := range tuples {
		c := True
		if t.Cond != "" {
			cd := mo.Cond(t.Cond)
			if cd == nil {
				c = Unknown
			} else {
				c = EvalCondition(cd, reqCtx, t.Ctx)
			}
			if c == Unknown {
				e.HasUnknownTuple = true
				if dropUnknown {
					c = False
				}
			}
		}
		e.byNode[node(t.Object, t.Relation)] = append(e.byNode[node(t.Object, t.Relation)], tupleOut{t, c})
		addObj(t.Object)
		uo, _ := m.SplitUser(t.User)
		addObj(uo)
	}
	so, _ := m.SplitUser(subject)
	addObj(so)
	for _, o := range extraObjects {
		addObj(o)
	}
	for o := range objset {
		e.objects = append(e.objects, o)
	}
	sort.Strings(e.objects)
	e.solve()
	return e
}

func (e *Eval) solve() {
	strata, ok := Stratify(e.mo)
	if !ok {
		panic("refsem: model is not stratified")
	}
	maxS := 0
	for _, s := range strata {
		if s > maxS {
			maxS = s
		}
	}
	for s := 0; s <= maxS; s++ {
		type nd struct {
			o   string
			rel *m.Relation
		}
		var nodes []nd
		for _, o := range e.objects {
			typ, _ := m.SplitObject(o)
			td := e.mo.Type(typ)
			for i := range td.Relations {
				if strata[relKey{typ, td.Relations[i].Name}] == s {
					nodes = append(nodes, nd{o, &td.Relations[i]})
				}
			}
		}
		for changed := true; changed; {
			changed = false
			for _, n := range nodes {
				nv := e.evalNode(n.o, n.rel)
				k := node(n.o, n.rel.Name)
				if nv > e.v[k] {
					e.v[k] = nv
					changed = true
				}
			}
		}
	}
}

func (e *Eval) evalNode(o string, rel *m.Relation) Outcome {
	if e.skind == "userset" && e.subject == node(o, rel.Name) {
		return True // a userset is trivially a member of itself
	}
	return e.evalRewrite(o, rel, rel.Rewrite)
}

func minO(a, b Outcome) Outcome {
	if a < b {
		return a
	}
	return b
}

func maxO(a, b Outcome) Outcome {
	if a > b {
		return a
	}
	return b
}

func (e *Eval) lookup(o, r string) Outcome {
	if e.skind == "userset" && e.subject == node(o, r) {
		return True
	}
	return e.v[node(o, r)]
}

func (e *Eval) evalRewrite(o string, rel *m.Relation, rw *m.Rewrite) Outcome {
	switch rw.Kind {
	case m.This:
		res := False
		for _, to := range e.byNode[node(o, rel.Name)] {
			u := to.t.User
			switch m.UserKind(u) {
			case "object":
				if e.subject == u {
					res = maxO(res, to.c)
				}
			case "wildcard":
				if e.subject == u || (e.skind == "object" && e.stype == m.UserType(u)) {
					res = maxO(res, to.c)
				}
			case "userset":
				if e.subject == u {
					res = maxO(res, to.c)
				} else {
					uo, ur := m.SplitUser(u)
					res = maxO(res, minO(to.c, e.lookup(uo, ur)))
				}
			}
		}
		return res
	case m.Computed:
		return e.lookup(o, rw.Rel)
	case m.TTU:
		res := False
		for _, to := range e.byNode[node(o, rw.Tupleset)] {
			if m.UserKind(to.t.User) != "object" {
				continue
			}
			pt := m.UserType(to.t.User)
			if e.mo.Relation(pt, rw.Rel) == nil {
				continue
			}
			res = maxO(res, minO(to.c, e.lookup(to.t.User, rw.Rel)))
		}
		return res
	case m.Union:
		res := False
		for _, c := range rw.Children {
			res = maxO(res, e.evalRewrite(o, rel, c))
		}
		return res
	case m.Intersection:
		res := True
		for _, c := range rw.Children {
			res = minO(res, e.evalRewrite(o, rel, c))
		}
		return res
	case m.Difference:
		b := e.evalRewrite(o, rel, rw.Children[0])
		s := e.evalRewrite(o, rel, rw.Children[1])
		return minO(b, True-s)
	}
	return False
}

// Holds returns the value of object#relation for the evaluator's subject.
func (e *Eval) Holds(object, relation string) Outcome {
	typ, _ := m.SplitObject(object)
	rel := e.mo.Relation(typ, relation)
	if rel == nil {
		return False
	}
	if _, ok := e.v[node(object, relation)]; ok || e.known(object) {
		return e.lookup(object, relation)
	}
	// Object not in the universe: it has no tuples; evaluate on the fly.
	return e.evalNode(object, rel)
}

func (e *Eval) known(o string) bool {
	i := sort.SearchStrings(e.objects, o)
	return i < len(e.objects) && e.objects[i] == o
}

// Objects lists the objects of the evaluation universe (sorted).
func (e *Eval) Objects() []string { return e.objects }

// Check is the reference answer for one request against stored tuples
// (raw: invalid leftovers are filtered here).
func Check(mo *m.Model, stored []m.Tuple, req m.Request) Outcome {
	ts := append(FilterValid(mo, stored), req.Contextual...)
	return NewEval(mo, ts, req.User, req.Ctx, req.Object).Holds(req.Object, req.Relation)
}
