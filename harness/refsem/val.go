package refsem

import (
	"strings"

	"github.com/openfga/openfga/verifharness/m"
)

// R-val: an independent restatement of "a tuple is valid for the model":
// its object type and relation exist, its user matches one of the relation's
// type restrictions of the same kind (object type, type wildcard or userset),
// tupleset relations receive only concrete objects, and its condition is one
// the *matching* restriction allows, with a context that fits the declared
// parameter types.

// Reason is a short machine-comparable rejection reason ("" = valid).
type Reason string

const (
	OK              Reason = ""
	BadObject       Reason = "bad-object"
	BadRelation     Reason = "bad-relation"
	BadUser         Reason = "bad-user"
	UnknownType     Reason = "unknown-type"
	UnknownRelation Reason = "unknown-relation"
	TuplesetUser    Reason = "tupleset-user"
	NotAssignable   Reason = "not-assignable"
	NoRestriction   Reason = "no-restriction"
	BadCondition    Reason = "bad-condition"
	BadContext      Reason = "bad-context"
	SelfReference   Reason = "self-reference"
)

func validID(s string) bool {
	if s == "" {
		return false
	}
	return !strings.ContainsAny(s, ":#@ \t\n\r*")
}

// WellFormedObject: "type:id", one type prefix, non-empty id without
// separators or whitespace.
func WellFormedObject(o string) bool {
	typ, id := m.SplitObject(o)
	if !strings.Contains(o, ":") {
		return false
	}
	return validID(typ) && validID(id)
}

// ValidForRead decides whether a stored tuple counts for evaluation under the
// model (everything else is "left over from another model" and ignored).
func ValidForRead(mo *m.Model, t m.Tuple) Reason {
	otype, _ := m.SplitObject(t.Object)
	rel := mo.Relation(otype, t.Relation)
	if mo.Type(otype) == nil {
		return UnknownType
	}
	if rel == nil {
		return UnknownRelation
	}
	kind := m.UserKind(t.User)
	if mo.IsTupleset(otype, t.Relation) && kind != "object" {
		return TuplesetUser
	}
	if !rel.Rewrite.HasThis() {
		return NotAssignable
	}
	utype := m.UserType(t.User)
	_, urel := m.SplitUser(t.User)
	matchedKind := false
	matched := false
	for _, r := range rel.Restr {
		if r.Type != utype || r.Kind() != kind {
			continue
		}
		if kind == "userset" && r.Rel != urel {
			continue
		}
		matchedKind = true
		if r.Cond == t.Cond {
			matched = true
		}
	}
	if !matchedKind {
		return NoRestriction
	}
	if !matched {
		return BadCondition
	}
	if t.Cond != "" {
		c := mo.Cond(t.Cond)
		if c == nil {
			return BadCondition
		}
		for k, v := range t.Ctx {
			var p *m.Param
			for i := range c.Params {
				if c.Params[i].Name == k {
					p = &c.Params[i]
				}
			}
			if p == nil {
				return BadContext
			}
			if _, ok := Convert(p.Type, v); !ok {
				return BadContext
			}
		}
	}
	return OK
}

// FilterValid returns the tuples valid for the model.
func FilterValid(mo *m.Model, ts []m.Tuple) []m.Tuple {
	var out []m.Tuple
	for _, t := range ts {
		if ValidForRead(mo, t) == OK {
			out = append(out, t)
		}
	}
	return out
}
