// Package refsem contains the harness's independent reference models:
// R-cel (condition evaluation), R-val (tuple validity) and R-sem (least
// fixpoint relation semantics, three-valued). It imports nothing from the
// repository under test.
package refsem

import (
	"fmt"
	"math"
	"math/big"
	"net/netip"
	"sort"
	"strings"
	"time"

	"github.com/openfga/openfga/verifharness/m"
)

// Outcome of evaluating a conditional tuple.
type Outcome int

const (
	False Outcome = iota
	Unknown
	True
)

func (o Outcome) String() string { return [...]string{"F", "U", "T"}[o] }

// val is a typed CEL value of the reference evaluator.
type val struct {
	t  string // bool,int,uint,double,string,duration,timestamp,ipaddress,list,map,any-*
	b  bool
	i  int64
	u  uint64
	f  float64
	s  string
	d  time.Duration
	ts time.Time
	ip netip.Addr
	l  []val
	mp map[string]val
}

// splitGeneric("list<int>") = ("list","int").
func splitGeneric(t string) (string, string) {
	i := strings.IndexByte(t, '<')
	if i < 0 || !strings.HasSuffix(t, ">") {
		return t, ""
	}
	return t[:i], t[i+1 : len(t)-1]
}

// Convert converts a JSON-like context value (bool, float64, string, []any,
// map[string]any, nil) to the declared parameter type following the documented
// conversion rules. ok=false means "conversion fails" (evaluation error).
func Convert(typ string, v any) (val, bool) {
	base, gen := splitGeneric(typ)
	switch base {
	case "bool":
		b, ok := v.(bool)
		return val{t: "bool", b: b}, ok
	case "string":
		s, ok := v.(string)
		return val{t: "string", s: s}, ok
	case "int", "uint", "double":
		var bf *big.Float
		switch x := v.(type) {
		case float64:
			bf = big.NewFloat(x)
		case string:
			f, _, err := big.ParseFloat(x, 10, 64, 0)
			if err != nil {
				return val{}, false
			}
			bf = f
		default:
			return val{}, false
		}
		switch base {
		case "int":
			// a value that is not an integer, or that no int64 can hold, is
			// not convertible (it must not be clamped to some other value)
			if !bf.IsInt() {
				return val{}, false
			}
			n, acc := bf.Int64()
			if acc != big.Exact {
				return val{}, false
			}
			return val{t: "int", i: n}, true
		case "uint":
			if !bf.IsInt() {
				return val{}, false
			}
			n, acc := bf.Uint64()
			if acc != big.Exact {
				return val{}, false
			}
			return val{t: "uint", u: n}, true
		default:
			f, acc := bf.Float64()
			if acc != big.Exact && (math.IsInf(f, 0)) {
				return val{}, false
			}
			return val{t: "double", f: f}, true
		}
	case "duration":
		s, ok := v.(string)
		if !ok {
			return val{}, false
		}
		d, err := time.ParseDuration(s)
		if err != nil {
			return val{}, false
		}
		return val{t: "duration", d: d}, true
	case "timestamp":
		s, ok := v.(string)
		if !ok {
			return val{}, false
		}
		ts, err := time.Parse(time.RFC3339, s)
		if err != nil {
			return val{}, false
		}
		return val{t: "timestamp", ts: ts}, true
	case "ipaddress":
		s, ok := v.(string)
		if !ok {
			return val{}, false
		}
		a, err := netip.ParseAddr(s)
		if err != nil {
			return val{}, false
		}
		return val{t: "ipaddress", ip: a.Unmap()}, true
	case "list":
		l, ok := v.([]any)
		if !ok {
			return val{}, false
		}
		out := val{t: "list"}
		for _, it := range l {
			c, ok := Convert(gen, it)
			if !ok {
				return val{}, false
			}
			out.l = append(out.l, c)
		}
		return out, true
	case "map":
		mp, ok := v.(map[string]any)
		if !ok {
			return val{}, false
		}
		out := val{t: "map", mp: map[string]val{}}
		for k, it := range mp {
			c, ok := Convert(gen, it)
			if !ok {
				return val{}, false
			}
			out.mp[k] = c
		}
		return out, true
	case "any":
		return dyn(v), true
	}
	return val{}, false
}

// dyn maps a JSON-like value to the CEL value it becomes under type `any`.
func dyn(v any) val {
	switch x := v.(type) {
	case bool:
		return val{t: "bool", b: x}
	case float64:
		return val{t: "double", f: x}
	case string:
		return val{t: "string", s: x}
	case []any:
		out := val{t: "list"}
		for _, it := range x {
			out.l = append(out.l, dyn(it))
		}
		return out
	case map[string]any:
		out := val{t: "map", mp: map[string]val{}}
		for k, it := range x {
			out.mp[k] = dyn(it)
		}
		return out
	}
	return val{t: "null"}
}

// MergeContexts overlays the tuple's stored context on the request context:
// stored values take precedence for the same parameter.
func MergeContexts(req, stored map[string]any) map[string]any {
	out := map[string]any{}
	for k, v := range req {
		out[k] = v
	}
	for k, v := range stored {
		out[k] = v
	}
	return out
}

// EvalCondition returns the outcome of condition c for a tuple with stored
// context `stored` under request context `req`:
// True/False when the expression evaluates, Unknown when the evaluation fails
// (missing parameter, failed conversion, runtime error).
func EvalCondition(c *m.Condition, req, stored map[string]any) Outcome {
	merged := MergeContexts(req, stored)
	if len(merged) > 0 && len(c.Params) == 0 {
		return Unknown
	}
	env := map[string]val{}
	missing := false
	for _, p := range c.Params {
		raw, ok := merged[p.Name]
		if !ok {
			missing = true
			continue
		}
		v, ok := Convert(p.Type, raw)
		if !ok {
			return Unknown
		}
		env[p.Name] = v
	}
	if missing {
		return Unknown
	}
	r, err := evalExpr(c.Expr, env)
	if err != nil || r.t != "bool" {
		return Unknown
	}
	if r.b {
		return True
	}
	return False
}

var errEval = fmt.Errorf("evaluation error")

func boolOf(v val, err error) (bool, bool) {
	if err != nil || v.t != "bool" {
		return false, false
	}
	return v.b, true
}

func mkBool(b bool) (val, error) { return val{t: "bool", b: b}, nil }

// evalExpr evaluates e following the CEL language definition: strict
// evaluation of every operator except the commutative, error-absorbing && and
// ||, and the conditional; an operand of a type the operator has no overload
// for is a runtime error ("no such overload"), equality is heterogeneous
// (values of different non-numeric types are unequal, numbers compare by
// value across int/uint/double).
func evalExpr(e *m.Expr, env map[string]val) (val, error) {
	if e == nil {
		return val{}, errEval
	}
	switch e.Kind {
	case "lit":
		return litVal(e)
	case "var":
		v, ok := env[e.Name]
		if !ok {
			return val{}, errEval
		}
		return v, nil
	case "not":
		a, ok := boolOf(evalExpr(e.A, env))
		if !ok {
			return val{}, errEval
		}
		return mkBool(!a)
	case "and", "or":
		a, oka := boolOf(evalExpr(e.A, env))
		b, okb := boolOf(evalExpr(e.B, env))
		absorbing := e.Kind == "or" // true absorbs for or, false for and
		if (oka && a == absorbing) || (okb && b == absorbing) {
			return mkBool(absorbing)
		}
		if !oka || !okb {
			return val{}, errEval
		}
		return mkBool(!absorbing)
	case "ite":
		if len(e.Args) != 3 {
			return val{}, errEval
		}
		c, ok := boolOf(evalExpr(e.Args[0], env))
		if !ok {
			return val{}, errEval
		}
		if c {
			return evalExpr(e.Args[1], env)
		}
		return evalExpr(e.Args[2], env)
	case "list":
		out := val{t: "list"}
		for _, it := range e.Args {
			v, err := evalExpr(it, env)
			if err != nil {
				return val{}, err
			}
			out.l = append(out.l, v)
		}
		return out, nil
	case "size", "cidr", "sel", "has":
		a, err := evalExpr(e.A, env)
		if err != nil {
			return val{}, err
		}
		switch e.Kind {
		case "size":
			switch a.t {
			case "list":
				return val{t: "int", i: int64(len(a.l))}, nil
			case "map":
				return val{t: "int", i: int64(len(a.mp))}, nil
			case "string":
				return val{t: "int", i: int64(len([]rune(a.s)))}, nil
			}
		case "cidr":
			if a.t != "ipaddress" {
				return val{}, errEval
			}
			p, perr := netip.ParsePrefix(e.Name)
			if perr != nil {
				return val{}, errEval
			}
			return mkBool(p.Contains(a.ip))
		case "sel":
			if a.t == "map" {
				if v, ok := a.mp[e.Name]; ok {
					return v, nil
				}
			}
		case "has":
			if a.t == "map" {
				_, ok := a.mp[e.Name]
				return mkBool(ok)
			}
		}
		return val{}, errEval
	}
	// strict binary operators
	a, err := evalExpr(e.A, env)
	if err != nil {
		return val{}, err
	}
	b, err := evalExpr(e.B, env)
	if err != nil {
		return val{}, err
	}
	switch e.Kind {
	case "cmp":
		if e.Op == "==" || e.Op == "!=" {
			return mkBool(equalVal(a, b) == (e.Op == "=="))
		}
		c, ok := compareVal(a, b)
		if !ok {
			return val{}, errEval
		}
		switch e.Op {
		case "<":
			return mkBool(c < 0)
		case "<=":
			return mkBool(c <= 0)
		case ">":
			return mkBool(c > 0)
		case ">=":
			return mkBool(c >= 0)
		}
	case "in":
		switch b.t {
		case "list":
			for _, it := range b.l {
				if equalVal(a, it) {
					return mkBool(true)
				}
			}
			return mkBool(false)
		case "map":
			// context maps have string keys only
			_, ok := b.mp[a.s]
			return mkBool(a.t == "string" && ok)
		}
	case "index":
		switch a.t {
		case "map":
			if b.t == "string" {
				if v, ok := a.mp[b.s]; ok {
					return v, nil
				}
			}
		case "list":
			if b.t == "int" && b.i >= 0 && b.i < int64(len(a.l)) {
				return a.l[b.i], nil
			}
		}
	case "add", "sub", "mul", "div", "mod":
		return arith(e.Kind, a, b)
	case "starts", "contains", "ends":
		if a.t != "string" || b.t != "string" {
			return val{}, errEval
		}
		switch e.Kind {
		case "starts":
			return mkBool(strings.HasPrefix(a.s, b.s))
		case "contains":
			return mkBool(strings.Contains(a.s, b.s))
		}
		return mkBool(strings.HasSuffix(a.s, b.s))
	}
	return val{}, errEval
}

var (
	minInt64  = big.NewInt(math.MinInt64)
	maxInt64  = big.NewInt(math.MaxInt64)
	maxUint64 = new(big.Int).SetUint64(math.MaxUint64)
)

// arith implements + - * / % : checked 64-bit integer arithmetic (overflow,
// division by zero are errors), IEEE doubles (no modulus), string and list
// concatenation, timestamp/duration arithmetic. No mixed-type overloads.
func arith(op string, a, b val) (val, error) {
	switch {
	case (a.t == "int" && b.t == "int") || (a.t == "uint" && b.t == "uint"):
		var x, y *big.Int
		if a.t == "int" {
			x, y = big.NewInt(a.i), big.NewInt(b.i)
		} else {
			x, y = new(big.Int).SetUint64(a.u), new(big.Int).SetUint64(b.u)
		}
		r := new(big.Int)
		switch op {
		case "add":
			r.Add(x, y)
		case "sub":
			r.Sub(x, y)
		case "mul":
			r.Mul(x, y)
		case "div", "mod":
			if y.Sign() == 0 {
				return val{}, errEval
			}
			if op == "div" {
				r.Quo(x, y) // truncated division
			} else {
				if a.t == "int" && a.i == math.MinInt64 && b.i == -1 {
					return val{}, errEval // the quotient overflows
				}
				r.Rem(x, y) // sign follows the dividend
			}
		}
		if a.t == "int" {
			if r.Cmp(minInt64) < 0 || r.Cmp(maxInt64) > 0 {
				return val{}, errEval
			}
			return val{t: "int", i: r.Int64()}, nil
		}
		if r.Sign() < 0 || r.Cmp(maxUint64) > 0 {
			return val{}, errEval
		}
		return val{t: "uint", u: r.Uint64()}, nil
	case a.t == "double" && b.t == "double":
		switch op {
		case "add":
			return val{t: "double", f: a.f + b.f}, nil
		case "sub":
			return val{t: "double", f: a.f - b.f}, nil
		case "mul":
			return val{t: "double", f: a.f * b.f}, nil
		case "div":
			return val{t: "double", f: a.f / b.f}, nil
		}
	case a.t == "string" && b.t == "string" && op == "add":
		return val{t: "string", s: a.s + b.s}, nil
	case a.t == "list" && b.t == "list" && op == "add":
		return val{t: "list", l: append(append([]val{}, a.l...), b.l...)}, nil
	case a.t == "timestamp" && b.t == "duration" && (op == "add" || op == "sub"):
		d := b.d
		if op == "sub" {
			d = -d
		}
		return tsInRange(a.ts.Add(d))
	case a.t == "duration" && b.t == "timestamp" && op == "add":
		return tsInRange(b.ts.Add(a.d))
	case a.t == "timestamp" && b.t == "timestamp" && op == "sub":
		r := new(big.Int).Sub(unixNanos(a.ts), unixNanos(b.ts))
		if !r.IsInt64() {
			return val{}, errEval
		}
		return val{t: "duration", d: time.Duration(r.Int64())}, nil
	case a.t == "duration" && b.t == "duration" && (op == "add" || op == "sub"):
		x, y := big.NewInt(int64(a.d)), big.NewInt(int64(b.d))
		r := new(big.Int)
		if op == "add" {
			r.Add(x, y)
		} else {
			r.Sub(x, y)
		}
		if !r.IsInt64() {
			return val{}, errEval
		}
		return val{t: "duration", d: time.Duration(r.Int64())}, nil
	}
	return val{}, errEval
}

func unixNanos(t time.Time) *big.Int {
	r := new(big.Int).Mul(big.NewInt(t.Unix()), big.NewInt(1_000_000_000))
	return r.Add(r, big.NewInt(int64(t.Nanosecond())))
}

// CEL timestamps range over 0001-01-01T00:00:00Z .. 9999-12-31T23:59:59.999999999Z.
func tsInRange(t time.Time) (val, error) {
	if t.Unix() < -62135596800 || t.Unix() > 253402300799 {
		return val{}, errEval
	}
	return val{t: "timestamp", ts: t}, nil
}

func litVal(e *m.Expr) (val, error) {
	switch e.T {
	case "bool":
		b, _ := e.V.(bool)
		return val{t: "bool", b: b}, nil
	case "int":
		return val{t: "int", i: m.LitInt64(e.V)}, nil
	case "uint":
		return val{t: "uint", u: m.LitUint64(e.V)}, nil
	case "double":
		f, _ := e.V.(float64)
		if i, ok := e.V.(int); ok {
			f = float64(i)
		}
		return val{t: "double", f: f}, nil
	case "string":
		return val{t: "string", s: fmt.Sprint(e.V)}, nil
	case "duration":
		d, err := time.ParseDuration(fmt.Sprint(e.V))
		if err != nil {
			return val{}, errEval
		}
		return val{t: "duration", d: d}, nil
	case "timestamp":
		ts, err := time.Parse(time.RFC3339, fmt.Sprint(e.V))
		if err != nil {
			return val{}, errEval
		}
		return val{t: "timestamp", ts: ts}, nil
	case "ipaddress":
		a, err := netip.ParseAddr(fmt.Sprint(e.V))
		if err != nil {
			return val{}, errEval
		}
		return val{t: "ipaddress", ip: a.Unmap()}, nil
	case "null":
		return val{t: "null"}, nil
	}
	return val{}, errEval
}

func num64(v any) int64 {
	switch x := v.(type) {
	case int:
		return int64(x)
	case int64:
		return x
	case float64:
		return int64(x)
	}
	return 0
}

func equalVal(a, b val) bool {
	if a.t != b.t {
		// cross-type numeric equality
		if c, ok := compareVal(a, b); ok {
			return c == 0
		}
		return false
	}
	switch a.t {
	case "bool":
		return a.b == b.b
	case "int":
		return a.i == b.i
	case "uint":
		return a.u == b.u
	case "double":
		return a.f == b.f
	case "string":
		return a.s == b.s
	case "duration":
		return a.d == b.d
	case "timestamp":
		return a.ts.Equal(b.ts)
	case "ipaddress":
		return a.ip.Compare(b.ip) == 0
	case "list":
		if len(a.l) != len(b.l) {
			return false
		}
		for i := range a.l {
			if !equalVal(a.l[i], b.l[i]) {
				return false
			}
		}
		return true
	case "map":
		if len(a.mp) != len(b.mp) {
			return false
		}
		keys := make([]string, 0, len(a.mp))
		for k := range a.mp {
			keys = append(keys, k)
		}
		sort.Strings(keys)
		for _, k := range keys {
			bv, ok := b.mp[k]
			if !ok || !equalVal(a.mp[k], bv) {
				return false
			}
		}
		return true
	case "null":
		return true
	}
	return false
}

func numAsBig(v val) (*big.Float, bool) {
	switch v.t {
	case "int":
		return new(big.Float).SetInt64(v.i), true
	case "uint":
		return new(big.Float).SetUint64(v.u), true
	case "double":
		if math.IsNaN(v.f) {
			return nil, false
		}
		return big.NewFloat(v.f), true
	}
	return nil, false
}

func compareVal(a, b val) (int, bool) {
	if a.t == b.t {
		switch a.t {
		case "bool":
			x, y := 0, 0
			if a.b {
				x = 1
			}
			if b.b {
				y = 1
			}
			return x - y, true
		case "string":
			return strings.Compare(a.s, b.s), true
		case "duration":
			switch {
			case a.d < b.d:
				return -1, true
			case a.d > b.d:
				return 1, true
			}
			return 0, true
		case "timestamp":
			return a.ts.Compare(b.ts), true
		}
	}
	x, ok1 := numAsBig(a)
	y, ok2 := numAsBig(b)
	if ok1 && ok2 {
		return x.Cmp(y), true
	}
	return 0, false
}
