// Package refsem contains the harness's independent reference models:
// R-cel (condition evaluation), R-val (tuple validity) and R-sem (least
// fixpoint relation semantics, three-valued). It imports nothing from the
// repository under test.
package refsem

import (
	"fmt"
	"math"
	"math/big"
	"net/netip"
	"sort"
	"strings"
	"time"

	"github.com/openfga/openfga/verifharness/m"
)

// Outcome of evaluating a conditional tuple.
type Outcome int

const (
	False Outcome = iota
	Unknown
	True
)

func (o Outcome) String() string { return [...]string{"F", "U", "T"}[o] }

// val is a typed CEL value of the reference evaluator.
type val struct {
	t  string // bool,int,uint,double,string,duration,timestamp,ipaddress,list,map,any-*
	b  bool
	i  int64
	u  uint64
	f  float64
	s  string
	d  time.Duration
	ts time.Time
	ip netip.Addr
	l  []val
	mp map[string]val
}

// splitGeneric("list<int>") = ("list","int").
func splitGeneric(t string) (string, string) {
	i := strings.IndexByte(t, '<')
	if i < 0 || !strings.HasSuffix(t, ">") {
		return t, ""
	}
	return t[:i], t[i+1 : len(t)-1]
}

// Convert converts a JSON-like context value (bool, float64, string, []any,
// map[string]any, nil) to the declared parameter type following the documented
// conversion rules. ok=false means "conversion fails" (evaluation error).
func Convert(typ string, v any) (val, bool) {
	base, gen := splitGeneric(typ)
	switch base {
	case "bool":
		b, ok := v.(bool)
		return val{t: "bool", b: b}, ok
	case "string":
		s, ok := v.(string)
		return val{t: "string", s: s}, ok
	case "int", "uint", "double":
		var bf *big.Float
		switch x := v.(type) {
		case float64:
			bf = big.NewFloat(x)
		case string:
			f, _, err := big.ParseFloat(x, 10, 64, 0)
			if err != nil {
				return val{}, false
			}
			bf = f
		default:
			return val{}, false
		}
		switch base {
		case "int":
			if !bf.IsInt() {
				return val{}, false
			}
			n, _ := bf.Int64()
			return val{t: "int", i: n}, true
		case "uint":
			if !bf.IsInt() {
				return val{}, false
			}
			n, _ := bf.Int64()
			if n < 0 {
				return val{}, false
			}
			return val{t: "uint", u: uint64(n)}, true
		default:
			f, acc := bf.Float64()
			if acc != big.Exact && (math.IsInf(f, 0)) {
				return val{}, false
			}
			return val{t: "double", f: f}, true
		}
	case "duration":
		s, ok := v.(string)
		if !ok {
			return val{}, false
		}
		d, err := time.ParseDuration(s)
		if err != nil {
			return val{}, false
		}
		return val{t: "duration", d: d}, true
	case "timestamp":
		s, ok := v.(string)
		if !ok {
			return val{}, false
		}
		ts, err := time.Parse(time.RFC3339, s)
		if err != nil {
			return val{}, false
		}
		return val{t: "timestamp", ts: ts}, true
	case "ipaddress":
		s, ok := v.(string)
		if !ok {
			return val{}, false
		}
		a, err := netip.ParseAddr(s)
		if err != nil {
			return val{}, false
		}
		return val{t: "ipaddress", ip: a.Unmap()}, true
	case "list":
		l, ok := v.([]any)
		if !ok {
			return val{}, false
		}
		out := val{t: "list"}
		for _, it := range l {
			c, ok := Convert(gen, it)
			if !ok {
				return val{}, false
			}
			out.l = append(out.l, c)
		}
		return out, true
	case "map":
		mp, ok := v.(map[string]any)
		if !ok {
			return val{}, false
		}
		out := val{t: "map", mp: map[string]val{}}
		for k, it := range mp {
			c, ok := Convert(gen, it)
			if !ok {
				return val{}, false
			}
			out.mp[k] = c
		}
		return out, true
	case "any":
		return dyn(v), true
	}
	return val{}, false
}

// dyn maps a JSON-like value to the CEL value it becomes under type `any`.
func dyn(v any) val {
	switch x := v.(type) {
	case bool:
		return val{t: "bool", b: x}
	case float64:
		return val{t: "double", f: x}
	case string:
		return val{t: "string", s: x}
	case []any:
		out := val{t: "list"}
		for _, it := range x {
			out.l = append(out.l, dyn(it))
		}
		return out
	case map[string]any:
		out := val{t: "map", mp: map[string]val{}}
		for k, it := range x {
			out.mp[k] = dyn(it)
		}
		return out
	}
	return val{t: "null"}
}

// MergeContexts overlays the tuple's stored context on the request context:
// stored values take precedence for the same parameter.
func MergeContexts(req, stored map[string]any) map[string]any {
	out := map[string]any{}
	for k, v := range req {
		out[k] = v
	}
	for k, v := range stored {
		out[k] = v
	}
	return out
}

// EvalCondition returns the outcome of condition c for a tuple with stored
// context `stored` under request context `req`:
// True/False when the expression evaluates, Unknown when the evaluation fails
// (missing parameter, failed conversion, runtime error).
func EvalCondition(c *m.Condition, req, stored map[string]any) Outcome {
	merged := MergeContexts(req, stored)
	if len(merged) > 0 && len(c.Params) == 0 {
		return Unknown
	}
	env := map[string]val{}
	missing := false
	for _, p := range c.Params {
		raw, ok := merged[p.Name]
		if !ok {
			missing = true
			continue
		}
		v, ok := Convert(p.Type, raw)
		if !ok {
			return Unknown
		}
		env[p.Name] = v
	}
	if missing {
		return Unknown
	}
	r, err := evalExpr(c.Expr, env)
	if err != nil || r.t != "bool" {
		return Unknown
	}
	if r.b {
		return True
	}
	return False
}

var errEval = fmt.Errorf("evaluation error")

func evalExpr(e *m.Expr, env map[string]val) (val, error) {
	switch e.Kind {
	case "lit":
		return litVal(e)
	case "var":
		v, ok := env[e.Name]
		if !ok {
			return val{}, errEval
		}
		return v, nil
	case "not":
		a, err := evalExpr(e.A, env)
		if err != nil {
			return val{}, err
		}
		return val{t: "bool", b: !a.b}, nil
	case "and", "or":
		a, ea := evalExpr(e.A, env)
		b, eb := evalExpr(e.B, env)
		absorbing := e.Kind == "or" // true absorbs for or, false for and
		if ea == nil && a.b == absorbing {
			return val{t: "bool", b: absorbing}, nil
		}
		if eb == nil && b.b == absorbing {
			return val{t: "bool", b: absorbing}, nil
		}
		if ea != nil {
			return val{}, ea
		}
		if eb != nil {
			return val{}, eb
		}
		return val{t: "bool", b: !absorbing}, nil
	case "cmp":
		a, err := evalExpr(e.A, env)
		if err != nil {
			return val{}, err
		}
		b, err := evalExpr(e.B, env)
		if err != nil {
			return val{}, err
		}
		if e.Op == "==" || e.Op == "!=" {
			eq := equalVal(a, b)
			return val{t: "bool", b: eq == (e.Op == "==")}, nil
		}
		c, ok := compareVal(a, b)
		if !ok {
			return val{}, errEval
		}
		var r bool
		switch e.Op {
		case "<":
			r = c < 0
		case "<=":
			r = c <= 0
		case ">":
			r = c > 0
		case ">=":
			r = c >= 0
		}
		return val{t: "bool", b: r}, nil
	case "in":
		a, err := evalExpr(e.A, env)
		if err != nil {
			return val{}, err
		}
		b, err := evalExpr(e.B, env)
		if err != nil {
			return val{}, err
		}
		for _, it := range b.l {
			if equalVal(a, it) {
				return val{t: "bool", b: true}, nil
			}
		}
		return val{t: "bool", b: false}, nil
	case "index":
		a, err := evalExpr(e.A, env)
		if err != nil {
			return val{}, err
		}
		b, err := evalExpr(e.B, env)
		if err != nil {
			return val{}, err
		}
		v, ok := a.mp[b.s]
		if !ok {
			return val{}, errEval
		}
		return v, nil
	case "add":
		a, err := evalExpr(e.A, env)
		if err != nil {
			return val{}, err
		}
		b, err := evalExpr(e.B, env)
		if err != nil {
			return val{}, err
		}
		switch {
		case a.t == "int" && b.t == "int":
			s := a.i + b.i
			if (b.i > 0 && s < a.i) || (b.i < 0 && s > a.i) {
				return val{}, errEval
			}
			return val{t: "int", i: s}, nil
		case a.t == "string" && b.t == "string":
			return val{t: "string", s: a.s + b.s}, nil
		case a.t == "timestamp" && b.t == "duration":
			return val{t: "timestamp", ts: a.ts.Add(b.d)}, nil
		case a.t == "duration" && b.t == "duration":
			return val{t: "duration", d: a.d + b.d}, nil
		}
		return val{}, errEval
	case "cidr":
		a, err := evalExpr(e.A, env)
		if err != nil {
			return val{}, err
		}
		p, perr := netip.ParsePrefix(e.Name)
		if perr != nil {
			return val{}, errEval
		}
		return val{t: "bool", b: p.Contains(a.ip)}, nil
	case "starts":
		a, err := evalExpr(e.A, env)
		if err != nil {
			return val{}, err
		}
		b, err := evalExpr(e.B, env)
		if err != nil {
			return val{}, err
		}
		return val{t: "bool", b: strings.HasPrefix(a.s, b.s)}, nil
	case "size":
		a, err := evalExpr(e.A, env)
		if err != nil {
			return val{}, err
		}
		switch a.t {
		case "list":
			return val{t: "int", i: int64(len(a.l))}, nil
		case "map":
			return val{t: "int", i: int64(len(a.mp))}, nil
		case "string":
			return val{t: "int", i: int64(len([]rune(a.s)))}, nil
		}
		return val{}, errEval
	}
	return val{}, errEval
}

func litVal(e *m.Expr) (val, error) {
	switch e.T {
	case "bool":
		b, _ := e.V.(bool)
		return val{t: "bool", b: b}, nil
	case "int":
		return val{t: "int", i: num64(e.V)}, nil
	case "uint":
		return val{t: "uint", u: uint64(num64(e.V))}, nil
	case "double":
		f, _ := e.V.(float64)
		if i, ok := e.V.(int); ok {
			f = float64(i)
		}
		return val{t: "double", f: f}, nil
	case "string":
		return val{t: "string", s: fmt.Sprint(e.V)}, nil
	case "duration":
		d, err := time.ParseDuration(fmt.Sprint(e.V))
		if err != nil {
			return val{}, errEval
		}
		return val{t: "duration", d: d}, nil
	case "timestamp":
		ts, err := time.Parse(time.RFC3339, fmt.Sprint(e.V))
		if err != nil {
			return val{}, errEval
		}
		return val{t: "timestamp", ts: ts}, nil
	}
	return val{}, errEval
}

func num64(v any) int64 {
	switch x := v.(type) {
	case int:
		return int64(x)
	case int64:
		return x
	case float64:
		return int64(x)
	}
	return 0
}

func equalVal(a, b val) bool {
	if a.t != b.t {
		// cross-type numeric equality
		if c, ok := compareVal(a, b); ok {
			return c == 0
		}
		return false
	}
	switch a.t {
	case "bool":
		return a.b == b.b
	case "int":
		return a.i == b.i
	case "uint":
		return a.u == b.u
	case "double":
		return a.f == b.f
	case "string":
		return a.s == b.s
	case "duration":
		return a.d == b.d
	case "timestamp":
		return a.ts.Equal(b.ts)
	case "ipaddress":
		return a.ip.Compare(b.ip) == 0
	case "list":
		if len(a.l) != len(b.l) {
			return false
		}
		for i := range a.l {
			if !equalVal(a.l[i], b.l[i]) {
				return false
			}
		}
		return true
	case "map":
		if len(a.mp) != len(b.mp) {
			return false
		}
		keys := make([]string, 0, len(a.mp))
		for k := range a.mp {
			keys = append(keys, k)
		}
		sort.Strings(keys)
		for _, k := range keys {
			bv, ok := b.mp[k]
			if !ok || !equalVal(a.mp[k], bv) {
				return false
			}
		}
		return true
	case "null":
		return true
	}
	return false
}

func numAsBig(v val) (*big.Float, bool) {
	switch v.t {
	case "int":
		return new(big.Float).SetInt64(v.i), true
	case "uint":
		return new(big.Float).SetUint64(v.u), true
	case "double":
		if math.IsNaN(v.f) {
			return nil, false
		}
		return big.NewFloat(v.f), true
	}
	return nil, false
}

func compareVal(a, b val) (int, bool) {
	if a.t == b.t {
		switch a.t {
		case "bool":
			x, y := 0, 0
			if a.b {
				x = 1
			}
			if b.b {
				y = 1
			}
			return x - y, true
		case "string":
			return strings.Compare(a.s, b.s), true
		case "duration":
			switch {
			case a.d < b.d:
				return -1, true
			case a.d > b.d:
				return 1, true
			}
			return 0, true
		case "timestamp":
			return a.ts.Compare(b.ts), true
		}
	}
	x, ok1 := numAsBig(a)
	y, ok2 := numAsBig(b)
	if ok1 && ok2 {
		return x.Cmp(y), true
	}
	return 0, false
}
