package p31

import (
	"context"
	"fmt"
	"sort"
	"testing"

	openfgav1 "github.com/openfga/api/proto/openfga/v1"
	"google.golang.org/protobuf/encoding/prototext"
	"google.golang.org/protobuf/proto"

	"github.com/openfga/openfga/verifharness/conv"
	"github.com/openfga/openfga/verifharness/fw"
	"github.com/openfga/openfga/verifharness/sut"
)

// C31 — assertions are stored and returned verbatim per store and model.
//
// Oracle (R-store): a map (store, model) -> last list successfully written.
// After every step EVERY pair is read back through Server.ReadAssertions and
// compared element-wise, in order, with proto.Equal (tuple key, expectation,
// contextual tuples with conditions, context). A pair never written reads as an
// empty list. A list that is not valid for the model (assertion tuple key not a
// valid Check input, contextual tuple not a valid Write input, more than 20
// contextual tuples, more than 64 KB) must be rejected and change nothing.
//
// NT: >= 2 pairs were written with different lists and one pair was overwritten
// with a different list.

const maxAssertionBytes = 64000 // DefaultMaxAssertionSizeInBytes as documented in commands/write_assertions.go

type pairKey struct{ store, model int }

func dumpList(l []*openfgav1.Assertion) string {
	return prototext.MarshalOptions{Multiline: false}.Format(&openfgav1.Assertions{Assertions: l})
}

func sameList(got, want []*openfgav1.Assertion) (bool, string) {
	if len(got) != len(want) {
		return false, fmt.Sprintf("%d assertions returned, %d expected", len(got), len(want))
	}
	for i := range want {
		if !proto.Equal(got[i], want[i]) {
			why := "differs"
			g, w := got[i], want[i]
			switch {
			case !proto.Equal(g.GetTupleKey(), w.GetTupleKey()):
				why = "tuple key differs"
			case g.GetExpectation() != w.GetExpectation():
				why = "expectation differs"
			case !proto.Equal(&openfgav1.ContextualTupleKeys{TupleKeys: g.GetContextualTuples()}, &openfgav1.ContextualTupleKeys{TupleKeys: w.GetContextualTuples()}):
				why = "contextual tuples differ"
			case !proto.Equal(g.GetContext(), w.GetContext()):
				why = "context differs"
			}
			return false, fmt.Sprintf("assertion %d: %s\n got: %s\nwant: %s", i, why, prototext.MarshalOptions{}.Format(g), prototext.MarshalOptions{}.Format(w))
		}
	}
	return true, ""
}

// listKey is a canonical encoding used to tell lists apart.
func listKey(l []Assertion) string {
	b, err := proto.MarshalOptions{Deterministic: true}.Marshal(&openfgav1.Assertions{Assertions: protoList(l)})
	if err != nil {
		panic(err)
	}
	return string(b)
}

func listSize(l []*openfgav1.Assertion) int {
	n := 0
	for _, a := range l {
		n += proto.Size(a)
	}
	return n
}

func checkC31(env *fw.Env, c Case) *fw.Failure {
	var s *sut.SUT
	switch c.Backend {
	case "memory":
		s = memServer()
	case "sqlite":
		var closeFn func()
		var err error
		s, closeFn, err = sqliteServer()
		if err != nil {
			return fw.Failf("C31/harness-sqlite-setup", "sqlite setup: %v", err)
		}
		defer closeFn()
	default:
		return fw.Failf("C31/harness-bad-case", "unknown backend %q", c.Backend)
	}
	ctx := context.Background()
	// stores and models
	storeIDs := make([]string, len(c.Models))
	modelIDs := make([][]string, len(c.Models))
	var pairs []pairKey
	for si, vs := range c.Models {
		storeIDs[si] = s.CreateStore(fmt.Sprintf("c31-%d", si))
		for mi, v := range vs {
			var id string
			var err error
			if c.SharedIDs && si > 0 && mi < len(modelIDs[0]) {
				id = modelIDs[0][mi]
				err = s.DS.WriteAuthorizationModel(ctx, storeIDs[si], conv.Model(modelVariant(v), id))
			} else {
				id, err = s.WriteModel(storeIDs[si], modelVariant(v))
			}
			if err != nil {
				return fw.Failf("C31/harness-model-rejected", "fixed model variant %d rejected: %v", v, err)
			}
			modelIDs[si] = append(modelIDs[si], id)
			pairs = append(pairs, pairKey{si, mi})
		}
	}
	classes := map[string]bool{"backend:" + c.Backend: true}
	if c.SharedIDs {
		classes["shared-model-ids"] = true
	}
	cls := func(f string, a ...any) { classes[fmt.Sprintf(f, a...)] = true }

	last := map[pairKey][]Assertion{}  // R-store
	written := map[pairKey]int{}       // successful writes per pair
	overwrittenDifferent := false      // a pair was overwritten with a different list
	distinctLists := map[string]bool{} // distinct non-trivially different lists currently stored (by text)
	describe := func(p pairKey) string {
		if p.store < 0 {
			return "(no pair)"
		}
		return fmt.Sprintf("(store %d, model %d = %s/%s)", p.store, p.model, storeIDs[p.store], modelIDs[p.store][p.model])
	}
	// verifyAll reads every pair and compares with R-store.
	verifyAll := func(when string, touched pairKey) *fw.Failure {
		for _, p := range pairs {
			resp, err := s.Srv.ReadAssertions(ctx, &openfgav1.ReadAssertionsRequest{StoreId: storeIDs[p.store], AuthorizationModelId: modelIDs[p.store][p.model]})
			if err != nil {
				return fw.Failf("C31/read-assertions-error", "%s: ReadAssertions%s: %v", when, describe(p), err)
			}
			want := protoList(last[p])
			if ok, why := sameList(resp.GetAssertions(), want); !ok {
				sig := "C31/read-differs-from-last-write"
				switch {
				case p != touched && written[p] == 0:
					sig = "C31/never-written-pair-not-empty"
				case p != touched:
					sig = "C31/other-pair-affected"
				}
				return fw.Failf(sig, "%s [%s]: ReadAssertions%s (written %d times; the step touched %s): %s\n got list: %s\nwant list: %s",
					when, c.Backend, describe(p), written[p], describe(touched), why, dumpList(resp.GetAssertions()), dumpList(want))
			}
		}
		return nil
	}

	for i, st := range c.Steps {
		p := pairKey{st.Store, st.Model}
		at := fmt.Sprintf("step %d (%s %s)", i, st.Op, describe(p))
		switch st.Op {
		case OpRead:
			if written[p] == 0 {
				cls("read:never-written")
			} else {
				cls("read:written")
			}
			if f := verifyAll(at, p); f != nil {
				return f
			}
		case OpWrite:
			req := &openfgav1.WriteAssertionsRequest{StoreId: storeIDs[p.store], AuthorizationModelId: modelIDs[p.store][p.model], Assertions: protoList(st.List)}
			size := listSize(req.GetAssertions())
			expectReject := st.Invalid != ""
			ambiguous := false
			if st.Invalid == "" && size > maxAssertionBytes-4000 {
				// close to / above the documented 64 KB limit: either outcome is fine near the limit
				expectReject = size > maxAssertionBytes+4000
				ambiguous = !expectReject
			}
			_, err := s.Srv.WriteAssertions(ctx, req)
			switch {
			case err != nil && !expectReject && !ambiguous:
				return fw.Failf("C31/valid-assertions-rejected", "%s [%s]: WriteAssertions rejected a list that is valid for the model (size %d bytes): %v\nlist: %s", at, c.Backend, size, err, dumpList(protoList(st.List)))
			case err == nil && expectReject:
				return fw.Failf("C31/invalid-assertions-accepted:"+st.Invalid, "%s [%s]: WriteAssertions accepted a list that must be rejected (%s, %d bytes)\nlist: %s", at, c.Backend, st.Invalid, size, dumpList(protoList(st.List)))
			}
			if err != nil {
				cls("rejected:%s", st.Invalid)
				if f := verifyAll("after rejected write at "+at, pairKey{-1, -1}); f != nil {
					f.Signature = "C31/rejected-write-changed-state"
					return f
				}
				continue
			}
			// accepted
			newText := listKey(st.List)
			if written[p] > 0 {
				cls("overwrite")
				if listKey(last[p]) != newText {
					overwrittenDifferent = true
					cls("overwrite:different-list")
				}
				if len(st.List) == 0 && len(last[p]) > 0 {
					cls("overwrite:with-empty-list")
				}
				if len(st.List) < len(last[p]) {
					cls("overwrite:shorter-list")
				}
			}
			last[p] = st.List
			written[p]++
			switch n := len(st.List); {
			case n == 0:
				cls("list:empty")
			case n <= 4:
				cls("list:1-4")
			case n <= 12:
				cls("list:5-12")
			default:
				cls("list:13-20")
			}
			for _, a := range st.List {
				if len(a.Contextual) > 0 {
					cls("assertion:contextual-tuples")
				}
				if len(a.Contextual) == 20 {
					cls("assertion:20-contextual-tuples")
				}
				for _, ct := range a.Contextual {
					if ct.Cond != "" {
						cls("assertion:conditional-contextual-tuple")
					}
				}
				if a.Ctx != nil {
					cls("assertion:context")
					if len(a.Ctx) == 0 {
						cls("assertion:empty-context")
					}
					for _, v := range a.Ctx {
						switch v.(type) {
						case map[string]any:
							cls("context:nested-map")
						case []any:
							cls("context:list")
						case float64:
							cls("context:number")
						case nil:
							cls("context:null")
						}
					}
				}
			}
			if f := verifyAll("after "+at, p); f != nil {
				return f
			}
		}
	}
	if f := verifyAll("final sweep", pairKey{-1, -1}); f != nil {
		return f
	}
	// NT: >= 2 pairs hold different lists and one pair was overwritten with a different list.
	nWritten := 0
	sameModelOtherStore, sameStoreOtherModel := false, false
	for p, n := range written {
		if n > 0 {
			nWritten++
			distinctLists[listKey(last[p])] = true
			for q, k := range written {
				if k > 0 && q != p {
					if q.store == p.store {
						sameStoreOtherModel = true
					} else {
						sameModelOtherStore = true
					}
				}
			}
		}
	}
	if sameStoreOtherModel {
		cls("pairs:same-store-two-models")
	}
	if sameModelOtherStore {
		cls("pairs:two-stores")
	}
	nt := nWritten >= 2 && len(distinctLists) >= 2 && overwrittenDifferent
	var sample any
	if nt {
		var ops []string
		for _, st := range c.Steps {
			o := fmt.Sprintf("%s(s%d,m%d", st.Op, st.Store, st.Model)
			if st.Op == OpWrite {
				o += fmt.Sprintf(",%d assertions", len(st.List))
				if st.Invalid != "" {
					o += ",invalid:" + st.Invalid
				}
			}
			ops = append(ops, o+")")
		}
		sample = map[string]any{"backend": c.Backend, "models": c.Models, "steps": ops}
	}
	var cl []string
	for k := range classes {
		cl = append(cl, k)
	}
	sort.Strings(cl)
	env.Rec.Case(c, nt, sample, cl...)
	return nil
}

func TestC31(t *testing.T) { fw.Run(t, "C31", genCase, checkC31) }
