package p31

import (
	"unicode/utf8"

	"pgregory.net/rapid"

	"github.com/openfga/openfga/verifharness/fw"
)

func pick[T any](t *rapid.T, label string, xs []T) T {
	return xs[rapid.IntRange(0, len(xs)-1).Draw(t, label)]
}

var (
	ids     = []string{"1", "2", "budget", "ünï", "文档", "a-b_c.d"}
	userIDs = []string{"anne", "bob", "ça", "用户", "*"}
	strPool = []string{"", "a", "héllo wörld", "日本語のテキスト", "emoji 🎉🔥", "line\nbreak\ttab", "quote\"back\\slash", "\u0000nul", "<&>", " sep", "mixed ½ ℵ 𝔘"}
	numPool = []float64{0, 1, -1, 0.5, -2.75, 9, 10, 1e21, -1e-7, 9007199254740993, 1.7976931348623157e308, 5e-324, 3.141592653589793}
)

func genString(t *rapid.T, label string) string {
	if rapid.IntRange(0, 3).Draw(t, label+"Kind") > 0 {
		return pick(t, label+"Pool", strPool)
	}
	s := rapid.StringN(0, 12, 40).Draw(t, label+"Any")
	if !utf8.ValidString(s) {
		return "fallback"
	}
	return s
}

// genValue draws a JSON-like value (float64 numbers only, so that the case
// survives the JSON round trip unchanged).
func genValue(t *rapid.T, depth int) any {
	k := rapid.IntRange(0, 9).Draw(t, "valueKind")
	if depth <= 0 && k >= 6 {
		k = k % 6
	}
	switch {
	case k < 2:
		return pick(t, "num", numPool)
	case k < 4:
		return genString(t, "str")
	case k == 4:
		return rapid.Bool().Draw(t, "bool")
	case k == 5:
		return nil
	case k < 8:
		n := rapid.IntRange(0, 3).Draw(t, "listLen")
		l := make([]any, 0, n)
		for i := 0; i < n; i++ {
			l = append(l, genValue(t, depth-1))
		}
		return l
	default:
		return genMap(t, depth-1)
	}
}

func genMap(t *rapid.T, depth int) map[string]any {
	n := rapid.IntRange(0, 3).Draw(t, "mapLen")
	out := map[string]any{}
	for i := 0; i < n; i++ {
		key := pick(t, "key", []string{"x", "s", "ip", "nested", "ключ", "キー", "", "a.b", "k k"})
		if rapid.IntRange(0, 5).Draw(t, "keyAny") == 0 {
			key = genString(t, "keyStr")
		}
		out[key] = genValue(t, depth)
	}
	return out
}

// relations and users that are valid Check inputs for model variant v.
func relationsOf(v int) map[string][]string {
	out := map[string][]string{"group": {"member"}, "folder": {"viewer"}, "doc": {"parent", "owner", "viewer"}}
	if v >= 1 {
		out["doc"] = append(out["doc"], "editor")
	}
	if v == 2 {
		out["team"] = []string{"member"}
	}
	return out
}

func objectTypes(v int) []string {
	if v == 2 {
		return []string{"doc", "folder", "group", "team"}
	}
	return []string{"doc", "folder", "group"}
}

// contextual tuples that Write accepts under every variant.
func genContextual(t *rapid.T) CTuple {
	id := pick(t, "ctObjID", ids)
	switch rapid.IntRange(0, 7).Draw(t, "ctKind") {
	case 0:
		return CTuple{Object: "doc:" + id, Relation: "viewer", User: "user:" + pick(t, "ctUser", userIDs[:4])}
	case 1:
		return CTuple{Object: "doc:" + id, Relation: "viewer", User: "user:*"}
	case 2:
		return CTuple{Object: "doc:" + id, Relation: "viewer", User: "group:" + pick(t, "ctGroup", ids) + "#member"}
	case 3: // conditional, with a (partial) context of the declared parameter types
		ct := CTuple{Object: "doc:" + id, Relation: "viewer", User: "user:" + pick(t, "ctUser", userIDs[:4]), Cond: "cnd"}
		switch rapid.IntRange(0, 3).Draw(t, "ctCtx") {
		case 0: // nil context
		case 1:
			ct.Ctx = map[string]any{}
		case 2:
			ct.Ctx = map[string]any{"x": pick(t, "ctX", []float64{0, 5, 10, -3, 1000000})}
		default:
			ct.Ctx = map[string]any{"x": pick(t, "ctX", []float64{0, 5, 10, -3}), "s": pick(t, "ctS", []string{"", "a", "héllo", "日本語", "🎉"})}
		}
		return ct
	case 4:
		return CTuple{Object: "doc:" + id, Relation: "parent", User: "folder:" + pick(t, "ctFolder", ids)}
	case 5:
		return CTuple{Object: "folder:" + id, Relation: "viewer", User: "group:" + pick(t, "ctGroup", ids) + "#member"}
	case 6:
		g := pick(t, "ctGroup", ids)
		if g == id {
			// a userset pointing at itself is not a valid contextual tuple (C18); use a plain user instead
			return CTuple{Object: "group:" + id, Relation: "member", User: "user:" + pick(t, "ctUser", userIDs[:4])}
		}
		return CTuple{Object: "group:" + id, Relation: "member", User: "group:" + g + "#member"}
	default:
		return CTuple{Object: "doc:" + id, Relation: "owner", User: "user:" + pick(t, "ctUser", userIDs[:4])}
	}
}

func genAssertion(t *rapid.T, v int) Assertion {
	ot := pick(t, "objType", objectTypes(v))
	a := Assertion{
		Object:   ot + ":" + pick(t, "objID", ids),
		Relation: pick(t, "relation", relationsOf(v)[ot]),
		Expect:   rapid.Bool().Draw(t, "expect"),
	}
	switch rapid.IntRange(0, 4).Draw(t, "userKind") {
	case 0, 1:
		a.User = "user:" + pick(t, "userID", userIDs)
	case 2:
		a.User = "group:" + pick(t, "userGroup", ids) + "#member"
	case 3:
		a.User = "folder:" + pick(t, "userFolder", ids)
	default:
		a.User = "user:" + pick(t, "userID", userIDs[:4])
	}
	if rapid.IntRange(0, 2).Draw(t, "hasContextual") == 0 {
		n := rapid.IntRange(1, 4).Draw(t, "nContextual")
		if rapid.IntRange(0, 15).Draw(t, "maxContextual") == 0 {
			n = 20
		}
		for i := 0; i < n; i++ {
			a.Contextual = append(a.Contextual, genContextual(t))
		}
	}
	switch rapid.IntRange(0, 5).Draw(t, "ctxKind") {
	case 0, 1: // no context
	case 2:
		a.Ctx = map[string]any{}
	default:
		a.Ctx = genMap(t, 3)
	}
	return a
}

var invalidKinds = []string{
	"unknown-object-type", "unknown-relation", "unknown-user-type", "unknown-userset-relation",
	"ctx-tuple-type-restriction", "ctx-tuple-undefined-condition", "ctx-tuple-bad-context", "ctx-tuple-unknown-relation",
	"too-many-contextual", "oversize",
}

// spoil makes the list invalid for every model variant, for the given reason.
func spoil(t *rapid.T, list []Assertion, v int, kind string) []Assertion {
	bad := genAssertion(t, v)
	switch kind {
	case "unknown-object-type":
		bad.Object = "ghost:1"
	case "unknown-relation":
		bad.Relation = "ghost"
	case "unknown-user-type":
		bad.User = "ghost:1"
	case "unknown-userset-relation":
		bad.User = "group:1#ghost"
	case "ctx-tuple-type-restriction":
		bad.Contextual = append(bad.Contextual, CTuple{Object: "doc:1", Relation: "owner", User: "group:1#member"})
	case "ctx-tuple-undefined-condition":
		bad.Contextual = append(bad.Contextual, CTuple{Object: "doc:1", Relation: "viewer", User: "user:anne", Cond: "nocond"})
	case "ctx-tuple-bad-context":
		bad.Contextual = append(bad.Contextual, CTuple{Object: "doc:1", Relation: "viewer", User: "user:anne", Cond: "cnd", Ctx: map[string]any{"x": "not-an-int"}})
	case "ctx-tuple-unknown-relation":
		bad.Contextual = append(bad.Contextual, CTuple{Object: "doc:1", Relation: "ghost", User: "user:anne"})
	case "too-many-contextual":
		for len(bad.Contextual) < 21 {
			bad.Contextual = append(bad.Contextual, CTuple{Object: "doc:1", Relation: "viewer", User: "user:anne"})
		}
	case "oversize":
		bad.Pad = 70000
	default:
		panic("unknown invalid kind " + kind)
	}
	if len(bad.Contextual) > 20 && kind != "too-many-contextual" {
		bad.Contextual = bad.Contextual[len(bad.Contextual)-20:]
	}
	pos := rapid.IntRange(0, len(list)).Draw(t, "badPos")
	out := append([]Assertion{}, list[:pos]...)
	out = append(out, bad)
	out = append(out, list[pos:]...)
	if len(out) > 20 {
		// keep the bad one
		if pos >= 20 {
			out = out[len(out)-20:]
		} else {
			out = out[:20]
		}
	}
	return out
}

func genList(t *rapid.T, v int) []Assertion {
	// (rapid favours small numbers; the size classes are drawn first)
	var n int
	switch rapid.IntRange(0, 9).Draw(t, "sizeClass") {
	case 0:
		n = 0
	case 1, 2, 3, 4, 5:
		n = rapid.IntRange(1, 4).Draw(t, "nSmall")
	case 6, 7, 8:
		n = rapid.IntRange(5, 12).Draw(t, "nMedium")
	default:
		n = rapid.IntRange(13, 20).Draw(t, "nLarge")
	}
	out := []Assertion{}
	for i := 0; i < n; i++ {
		out = append(out, genAssertion(t, v))
	}
	return out
}

func genCase(t *rapid.T) Case {
	c := Case{Backend: pick(t, "backend", []string{"memory", "sqlite"})}
	for s := 0; s < 2; s++ {
		n := 3 - rapid.IntRange(0, 2).Draw(t, "fewerModels")
		var vs []int
		for i := 0; i < n; i++ {
			vs = append(vs, rapid.IntRange(0, 2).Draw(t, "variant"))
		}
		c.Models = append(c.Models, vs)
	}
	c.SharedIDs = rapid.IntRange(0, 2).Draw(t, "sharedIDs") == 0
	maxSteps := 10
	if fw.TierIsThorough() {
		maxSteps = 16
	}
	n := rapid.IntRange(3, maxSteps).Draw(t, "nSteps")
	var lists [][]Assertion // earlier lists, re-used so that different pairs also hold equal lists
	for i := 0; i < n; i++ {
		st := Step{Store: rapid.IntRange(0, 1).Draw(t, "store")}
		st.Model = rapid.IntRange(0, len(c.Models[st.Store])-1).Draw(t, "model")
		v := c.Models[st.Store][st.Model]
		// favour pairs already touched: overwrites are the interesting part
		if k := rapid.IntRange(0, 9).Draw(t, "op"); k < 7 {
			st.Op = OpWrite
			if len(lists) > 0 && rapid.IntRange(0, 5).Draw(t, "reuseList") == 0 {
				// re-use an earlier list when it is valid for this variant (variant 0 lists are valid everywhere)
				st.List = lists[rapid.IntRange(0, len(lists)-1).Draw(t, "reuseIdx")]
				if !validFor(st.List, v) {
					st.List = genList(t, v)
				}
			} else {
				st.List = genList(t, v)
			}
			if rapid.IntRange(0, 6).Draw(t, "invalid") == 0 {
				st.Invalid = pick(t, "invalidKind", invalidKinds)
				st.List = spoil(t, st.List, v, st.Invalid)
			} else {
				lists = append(lists, st.List)
			}
		} else {
			st.Op = OpRead
		}
		c.Steps = append(c.Steps, st)
	}
	return c
}

// validFor: every object type / relation of the list exists in variant v.
func validFor(l []Assertion, v int) bool {
	rels := relationsOf(v)
	for _, a := range l {
		ot := a.Object[:indexByte(a.Object, ':')]
		ok := false
		for _, r := range rels[ot] {
			if r == a.Relation {
				ok = true
			}
		}
		if !ok {
			return false
		}
	}
	return true
}

func indexByte(s string, b byte) int {
	for i := 0; i < len(s); i++ {
		if s[i] == b {
			return i
		}
	}
	return len(s)
}
