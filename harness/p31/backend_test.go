package p31

import (
	"fmt"
	"os"
	"path/filepath"
	"sync"
	"sync/atomic"
	"time"

	"github.com/openfga/openfga/pkg/storage/migrate"
	"github.com/openfga/openfga/pkg/storage/sqlcommon"
	"github.com/openfga/openfga/pkg/storage/sqlite"

	"github.com/openfga/openfga/verifharness/sut"
)

// memory: one process-wide server, fresh stores per case.
// sqlite: the schema is migrated ONCE per process into a template file; every
// case copies it, opens the copy with sqlite.New, and closes/deletes it afterwards.

var (
	memOnce sync.Once
	memSUT  *sut.SUT

	tmplOnce sync.Once
	tmplRoot string
	tmplFile string
	tmplErr  error
	caseSeq  atomic.Uint64
)

func memServer() *sut.SUT {
	memOnce.Do(func() { memSUT = sut.New() })
	return memSUT
}

func template() (string, string, error) {
	tmplOnce.Do(func() {
		tmplRoot, tmplErr = os.MkdirTemp("", "verif-p31-")
		if tmplErr != nil {
			return
		}
		tmplFile = filepath.Join(tmplRoot, "template.db")
		// both timeouts must be non-zero, otherwise the migration retries forever
		tmplErr = migrate.RunMigrations(migrate.MigrationConfig{
			Engine:      "sqlite",
			URI:         "file:" + tmplFile,
			Timeout:     60 * time.Second,
			PingTimeout: 10 * time.Second,
		})
	})
	return tmplRoot, tmplFile, tmplErr
}

// cleanupTemplate removes the per-process temp dir (TestMain).
func cleanupTemplate() {
	if tmplRoot != "" {
		_ = os.RemoveAll(tmplRoot)
	}
}

// sqliteServer returns a server over a private copy of the migrated template
// and the function that closes and deletes it.
func sqliteServer() (*sut.SUT, func(), error) {
	root, tmpl, err := template()
	if err != nil {
		return nil, nil, fmt.Errorf("sqlite template: %w", err)
	}
	dir := filepath.Join(root, fmt.Sprintf("case-%d", caseSeq.Add(1)))
	if err := os.Mkdir(dir, 0o755); err != nil {
		return nil, nil, err
	}
	b, err := os.ReadFile(tmpl)
	if err != nil {
		_ = os.RemoveAll(dir)
		return nil, nil, err
	}
	db := filepath.Join(dir, "case.db")
	if err := os.WriteFile(db, b, 0o644); err != nil {
		_ = os.RemoveAll(dir)
		return nil, nil, err
	}
	// synchronous(OFF): no fsync per commit; durability is irrelevant here.
	ds, err := sqlite.New("file:"+db+"?_pragma=synchronous(OFF)", sqlcommon.NewConfig())
	if err != nil {
		_ = os.RemoveAll(dir)
		return nil, nil, err
	}
	s := sut.NewWithDS(ds)
	return s, func() {
		s.Close() // closes the datastore too
		_ = os.RemoveAll(dir)
	}, nil
}
