package p31

import (
	"strings"

	openfgav1 "github.com/openfga/api/proto/openfga/v1"
	"google.golang.org/protobuf/types/known/structpb"

	"github.com/openfga/openfga/verifharness/m"
)

// CTuple is a contextual tuple of an assertion. No omitempty on Ctx: a nil and
// an empty context are different protobuf values and must survive the JSON
// round trip of a replay file.
type CTuple struct {
	Object   string         `json:"object"`
	Relation string         `json:"relation"`
	User     string         `json:"user"`
	Cond     string         `json:"cond"`
	Ctx      map[string]any `json:"ctx"`
}

// Assertion is one assertion of a list. Ctx is JSON-like (map[string]any,
// []any, float64, string, bool, nil); nil map = no context.
type Assertion struct {
	Object     string         `json:"object"`
	Relation   string         `json:"relation"`
	User       string         `json:"user"`
	Expect     bool           `json:"expect"`
	Contextual []CTuple       `json:"contextual"`
	Ctx        map[string]any `json:"ctx"`
	// Pad > 0 adds a context entry "pad" of that many bytes (used for the
	// oversize list, keeps the case file small).
	Pad int `json:"pad,omitempty"`
}

const (
	OpWrite = "write"
	OpRead  = "read"
)

type Step struct {
	Op    string      `json:"op"`
	Store int         `json:"store"`
	Model int         `json:"model"` // index into the store's models
	List  []Assertion `json:"list"`
	// Invalid is "" for a list that is valid for the model, otherwise the reason
	// the list must be rejected.
	Invalid string `json:"invalid,omitempty"`
}

type Case struct {
	Backend string  `json:"backend"` // memory | sqlite
	Models  [][]int `json:"models"`  // per store: the model variant (0..2) of each of its 1..3 models
	// SharedIDs: the i-th model of store 1 gets the SAME model id as the i-th model
	// of store 0 (written through the datastore, because the API always mints a
	// fresh id). Only then does the store part of the (store, model) key matter.
	SharedIDs bool   `json:"shared_ids"`
	Steps     []Step `json:"steps"`
}

// modelVariant returns the fixed small model, variant v:
//
//	type user
//	type group   member: [user, user:*, group#member]
//	type folder  viewer: [user, group#member]
//	type doc     parent: [folder]; owner: [user];
//	             viewer: [user, user:*, group#member, user with cnd] or owner or viewer from parent
//	             (v>=1) editor: [user] and viewer
//	(v==2) type team  member: [user]
//	condition cnd(x: int, s: string) { x < 10 }
func modelVariant(v int) *m.Model {
	this := func() *m.Rewrite { return &m.Rewrite{Kind: m.This} }
	doc := m.TypeDef{Name: "doc", Relations: []m.Relation{
		{Name: "parent", Rewrite: this(), Restr: []m.Restriction{{Type: "folder"}}},
		{Name: "owner", Rewrite: this(), Restr: []m.Restriction{{Type: "user"}}},
		{Name: "viewer", Rewrite: &m.Rewrite{Kind: m.Union, Children: []*m.Rewrite{this(), {Kind: m.Computed, Rel: "owner"}, {Kind: m.TTU, Tupleset: "parent", Rel: "viewer"}}},
			Restr: []m.Restriction{{Type: "user"}, {Type: "user", Wildcard: true}, {Type: "group", Rel: "member"}, {Type: "user", Cond: "cnd"}}},
	}}
	if v >= 1 {
		doc.Relations = append(doc.Relations, m.Relation{Name: "editor", Rewrite: &m.Rewrite{Kind: m.Intersection, Children: []*m.Rewrite{this(), {Kind: m.Computed, Rel: "viewer"}}},
			Restr: []m.Restriction{{Type: "user"}}})
	}
	mo := &m.Model{Types: []m.TypeDef{
		{Name: "user"},
		{Name: "group", Relations: []m.Relation{{Name: "member", Rewrite: this(), Restr: []m.Restriction{{Type: "user"}, {Type: "user", Wildcard: true}, {Type: "group", Rel: "member"}}}}},
		{Name: "folder", Relations: []m.Relation{{Name: "viewer", Rewrite: this(), Restr: []m.Restriction{{Type: "user"}, {Type: "group", Rel: "member"}}}}},
		doc,
	}, Conds: []m.Condition{{Name: "cnd", Params: []m.Param{{Name: "x", Type: "int"}, {Name: "s", Type: "string"}}, Expr: m.Cmp("<", m.Var("x"), m.Lit("int", 10))}}}
	if v == 2 {
		mo.Types = append(mo.Types, m.TypeDef{Name: "team", Relations: []m.Relation{{Name: "member", Rewrite: this(), Restr: []m.Restriction{{Type: "user"}}}}})
	}
	return mo
}

func mustStruct(ctx map[string]any) *structpb.Struct {
	if ctx == nil {
		return nil
	}
	s, err := structpb.NewStruct(ctx)
	if err != nil {
		panic("p31: context not representable: " + err.Error())
	}
	return s
}

func (t CTuple) proto() *openfgav1.TupleKey {
	tk := &openfgav1.TupleKey{Object: t.Object, Relation: t.Relation, User: t.User}
	if t.Cond != "" {
		tk.Condition = &openfgav1.RelationshipCondition{Name: t.Cond, Context: mustStruct(t.Ctx)}
	}
	return tk
}

// proto builds the API value afresh (never shared with a value handed to the server).
func (a Assertion) proto() *openfgav1.Assertion {
	out := &openfgav1.Assertion{
		TupleKey:    &openfgav1.AssertionTupleKey{Object: a.Object, Relation: a.Relation, User: a.User},
		Expectation: a.Expect,
		Context:     mustStruct(a.Ctx),
	}
	if a.Pad > 0 {
		if out.Context == nil {
			out.Context = &structpb.Struct{Fields: map[string]*structpb.Value{}}
		}
		if out.Context.Fields == nil {
			out.Context.Fields = map[string]*structpb.Value{}
		}
		out.Context.Fields["pad"] = structpb.NewStringValue(strings.Repeat("x", a.Pad))
	}
	for _, ct := range a.Contextual {
		out.ContextualTuples = append(out.ContextualTuples, ct.proto())
	}
	return out
}

func protoList(l []Assertion) []*openfgav1.Assertion {
	out := make([]*openfgav1.Assertion, 0, len(l))
	for _, a := range l {
		out = append(out, a.proto())
	}
	return out
}
