package p18

import (
	"context"
	"encoding/json"
	"fmt"
	"sort"
	"strings"
	"sync"
	"testing"

	openfgav1 "github.com/openfga/api/proto/openfga/v1"
	"google.golang.org/grpc/codes"
	"google.golang.org/grpc/status"
	"pgregory.net/rapid"

	"github.com/openfga/openfga/pkg/server"
	serverconfig "github.com/openfga/openfga/pkg/server/config"
	"github.com/openfga/openfga/pkg/storage/memory"

	"github.com/openfga/openfga/verifharness/conv"
	"github.com/openfga/openfga/verifharness/fw"
	"github.com/openfga/openfga/verifharness/gen"
	"github.com/openfga/openfga/verifharness/m"
	"github.com/openfga/openfga/verifharness/sut"
)

// C18 — tuple validation accepts exactly what the model allows.
//
// Case  = a model (shared generator G) + ~30 candidate tuples over the model
//         vocabulary (valid tuples, one-field mutants of them, a sampled grid
//         of object type x relation x user x condition x context, malformed
//         strings, self-referencing usersets).
// Oracle = ValidForWrite (R-val-write, rvalwrite.go).
//   Write: accepted <=> R-val-write accepts; a rejected write (alone, and in a
//          batch next to a valid tuple) leaves the store's content unchanged
//          and fails with a validation-class error.
//   Contextual (Check, BatchCheck, ListObjects, ListUsers, Expand on the
//          default engine; Check and BatchCheck on the weighted-graph
//          engine): the request is rejected with a validation-class error
//          <=> R-val-write rejects the tuple; otherwise it returns an answer.
// NT: both accepted and rejected candidates exist for the model and at least
//     one rejected candidate differs from an accepted one in exactly one of
//     the fields object / relation / user / condition / context.

// Cand is one candidate tuple.
type Cand struct {
	T m.Tuple `json:"t"`
	// PadKey/PadLen: the context additionally carries PadKey = PadLen x "a"
	// (keeps replay files small for the oversize cases).
	PadKey string `json:"pad_key,omitempty"`
	PadLen int    `json:"pad_len,omitempty"`
	Origin string `json:"origin,omitempty"` // how it was drawn (label only)
}

func (c Cand) Tuple() m.Tuple {
	t := c.T
	if c.PadLen > 0 {
		ctx := map[string]any{}
		for k, v := range c.T.Ctx {
			ctx[k] = v
		}
		ctx[c.PadKey] = strings.Repeat("a", c.PadLen)
		t.Ctx = ctx
	}
	return t
}

func (c Cand) String() string {
	s := c.T.String()
	if c.PadLen > 0 {
		s += fmt.Sprintf(" +ctx[%s]=%d bytes", c.PadKey, c.PadLen)
	}
	return fmt.Sprintf("%q", s)
}

type Case struct {
	Model *m.Model `json:"model"`
	Cands []Cand   `json:"cands"`
}

// ---------------------------------------------------------------- generator

func pick[T any](t *rapid.T, label string, xs []T) T {
	return xs[rapid.IntRange(0, len(xs)-1).Draw(t, label)]
}

func chance(t *rapid.T, label string, pct int) bool {
	return rapid.IntRange(0, 99).Draw(t, label) < pct
}

type slot struct {
	typ string
	rel *m.Relation
}

func assignable(mo *m.Model) []slot {
	var out []slot
	for ti := range mo.Types {
		for ri := range mo.Types[ti].Relations {
			r := &mo.Types[ti].Relations[ri]
			if len(r.Restr) > 0 {
				out = append(out, slot{mo.Types[ti].Name, r})
			}
		}
	}
	return out
}

func typeNames(mo *m.Model) (all, withRel []string) {
	for _, td := range mo.Types {
		all = append(all, td.Name)
		if len(td.Relations) > 0 {
			withRel = append(withRel, td.Name)
		}
	}
	return
}

var ids = []string{"0", "1"}

const (
	oversizeLen  = 44000 // well above the 32 KiB limit
	largeFitsLen = 12000 // well below it
)

func stringParam(c *m.Condition) string {
	for _, p := range c.Params {
		if p.Type == "string" {
			return p.Name
		}
	}
	return ""
}

func goodValue(t *rapid.T, label, typ string) any {
	switch typ {
	case "int":
		return float64(rapid.IntRange(0, 20).Draw(t, label+"Int"))
	case "string":
		return pick(t, label+"Str", []string{"a", "b", ""})
	case "bool":
		return rapid.Bool().Draw(t, label+"Bool")
	}
	return "?"
}

func badValue(t *rapid.T, label, typ string) any {
	switch typ {
	case "int":
		return pick[any](t, label+"Bad", []any{true, "abc", 1.5, []any{1.0}, map[string]any{"a": 1.0}})
	case "string":
		return pick[any](t, label+"Bad", []any{true, 5.0, []any{"a"}, map[string]any{"a": "b"}})
	}
	return []any{}
}

// ctxModes are the context shapes of a conditioned candidate.
var ctxModes = []string{"complete", "partial", "none", "extra-key", "extra-key-only", "mistyped", "oversize", "large-fits"}

// withContext fills the candidate's context for condition c in the given mode.
func withContext(t *rapid.T, cd *Cand, c *m.Condition, mode string) {
	cd.T.Ctx, cd.PadKey, cd.PadLen = nil, "", 0
	fill := func(n int) {
		cd.T.Ctx = map[string]any{}
		for i, p := range c.Params {
			if i >= n {
				break
			}
			cd.T.Ctx[p.Name] = goodValue(t, "ctx_"+p.Name, p.Type)
		}
	}
	switch mode {
	case "none":
	case "partial":
		fill(1)
	case "complete":
		fill(len(c.Params))
	case "extra-key":
		fill(len(c.Params))
		cd.T.Ctx["zz"] = 1.0
	case "extra-key-only":
		cd.T.Ctx = map[string]any{"zz": "a"}
	case "mistyped":
		fill(len(c.Params))
		p := pick(t, "mistypedParam", c.Params)
		cd.T.Ctx[p.Name] = badValue(t, "ctx_"+p.Name, p.Type)
	case "oversize", "large-fits":
		fill(len(c.Params))
		n := oversizeLen
		if mode == "large-fits" {
			n = largeFitsLen
		}
		if sp := stringParam(c); sp != "" {
			delete(cd.T.Ctx, sp)
			cd.PadKey, cd.PadLen = sp, n
		} else if mode == "oversize" {
			// no string parameter: an oversize context needs an undeclared key
			cd.PadKey, cd.PadLen = "zz", n
		}
	}
	if len(cd.T.Ctx) == 0 {
		cd.T.Ctx = nil
	}
}

func userFor(re m.Restriction, id string) string {
	switch re.Kind() {
	case "wildcard":
		return re.Type + ":*"
	case "userset":
		return re.Type + ":" + id + "#" + re.Rel
	}
	return re.Type + ":" + id
}

// validCand draws a tuple built from a restriction of the slot (valid for the
// model unless the relation is a tupleset with a non-object restriction, which
// model validation excludes).
func validCand(t *rapid.T, mo *m.Model, s slot) Cand {
	re := pick(t, "restr", s.rel.Restr)
	if chance(t, "preferConditioned", 40) {
		// conditioned restrictions are the minority; draw them more often
		var cs []m.Restriction
		for _, r := range s.rel.Restr {
			if r.Cond != "" {
				cs = append(cs, r)
			}
		}
		if len(cs) > 0 {
			re = pick(t, "restrConditioned", cs)
		}
	}
	oid := pick(t, "objID", ids)
	uid := pick(t, "userID", ids)
	if re.Kind() == "userset" && re.Type == s.typ && re.Rel == s.rel.Name && uid == oid {
		uid = ids[0]
		if oid == ids[0] {
			uid = ids[1]
		}
	}
	cd := Cand{T: m.Tuple{Object: s.typ + ":" + oid, Relation: s.rel.Name, User: userFor(re, uid)}, Origin: "valid"}
	if re.Cond != "" {
		cd.T.Cond = re.Cond
		if c := mo.Cond(re.Cond); c != nil {
			withContext(t, &cd, c, pick(t, "validCtx", []string{"complete", "partial", "none", "large-fits"}))
		}
	}
	return cd
}

func malformedUsers(typ string) []string {
	return []string{"", typ, typ + ":", ":1", typ + ":b:c", typ + ":1#", typ + ":1#r0#r0", typ + ": 1", typ + ":1 2", " " + typ + ":1",
		typ + ":1#r 0", "#r0", typ + "#r0", typ + ":1\n", "*"}
}

func malformedObjects(typ string) []string {
	return []string{"", typ, typ + ":", ":1", typ + ":1:2", typ + ":*", typ + ":1#r0", typ + ": 1", typ + ":1 2"}
}

var malformedRelations = []string{"", "r 0", "r:0", "r#0", "r@0"}

var oddConditionNames = []string{"gone", "c\u0001x", "c 0", "c0\t"}

func relNamesOf(mo *m.Model, typ string) []string {
	var out []string
	if td := mo.Type(typ); td != nil {
		for _, r := range td.Relations {
			out = append(out, r.Name)
		}
	}
	return out
}

// anyUser draws a user string of the given type in any position kind.
func anyUser(t *rapid.T, mo *m.Model, typ string) string {
	switch rapid.IntRange(0, 3).Draw(t, "userKind") {
	case 0:
		return typ + ":" + pick(t, "uid", ids)
	case 1:
		return typ + ":*"
	case 2:
		rels := append(relNamesOf(mo, typ), "nope")
		return typ + ":" + pick(t, "uid", ids) + "#" + pick(t, "urel", rels)
	default:
		return typ + ":" + pick(t, "oddID", []string{"a@b.c", "x-y_z.1", "q"})
	}
}

// mutate changes exactly one field of a (valid) candidate.
func mutate(t *rapid.T, mo *m.Model, base Cand) Cand {
	all, _ := typeNames(mo)
	cd := base
	cd.T.Ctx = base.T.Ctx // shared, only replaced never modified
	otyp, oid := m.SplitObject(base.T.Object)
	fields := []string{"object", "relation", "user", "user", "cond"}
	if base.T.Cond != "" {
		fields = append(fields, "ctx", "ctx", "ctx", "ctx")
	}
	f := pick(t, "mutField", fields)
	switch f {
	case "object":
		switch rapid.IntRange(0, 3).Draw(t, "objMut") {
		case 0:
			cd.T.Object = pick(t, "objType", all) + ":" + oid
		case 1:
			cd.T.Object = "ghost:" + oid
		case 2:
			cd.T.Object = pick(t, "objBad", malformedObjects(otyp))
		default:
			cd.T.Object = otyp + ":" + pick(t, "objOddID", []string{"a@b.c", "x-y_z.1", "2"})
		}
	case "relation":
		switch rapid.IntRange(0, 2).Draw(t, "relMut") {
		case 0:
			var rels []string
			for _, tn := range all {
				rels = append(rels, relNamesOf(mo, tn)...)
			}
			cd.T.Relation = pick(t, "relOther", rels)
		case 1:
			cd.T.Relation = "nope"
		default:
			cd.T.Relation = pick(t, "relBad", malformedRelations)
		}
	case "user":
		utyp := m.UserType(base.T.User)
		switch rapid.IntRange(0, 6).Draw(t, "userMut") {
		case 0, 1:
			cd.T.User = anyUser(t, mo, utyp)
		case 2, 3:
			cd.T.User = anyUser(t, mo, pick(t, "userType", all))
		case 4:
			cd.T.User = anyUser(t, mo, "ghost")
		case 5:
			cd.T.User = pick(t, "userBad", malformedUsers(utyp))
		default:
			cd.T.User = base.T.Object + "#" + base.T.Relation // pointing at itself
		}
	case "cond":
		names := []string{""}
		for _, c := range mo.Conds {
			names = append(names, c.Name)
		}
		names = append(names, oddConditionNames...)
		cd.T.Cond = pick(t, "condMut", names)
		cd.T.Ctx, cd.PadKey, cd.PadLen = nil, "", 0
		if c := mo.Cond(cd.T.Cond); c != nil && chance(t, "condMutCtx", 50) {
			withContext(t, &cd, c, "complete")
		}
	case "ctx":
		withContext(t, &cd, mo.Cond(base.T.Cond), pick(t, "ctxMut", ctxModes))
	}
	cd.Origin = "mutant:" + f
	return cd
}

// gridCand draws a tuple over the whole vocabulary without regard for the restrictions.
func gridCand(t *rapid.T, mo *m.Model) Cand {
	all, withRel := typeNames(mo)
	otyp := pick(t, "gType", append(append([]string{}, withRel...), all...))
	// rapid favours the ends of an integer range: rare alternatives sit in the middle
	rare := func(label string) bool { return rapid.IntRange(0, 11).Draw(t, label) == 5 }
	if rare("gGhostType") {
		otyp = "ghost"
	}
	rels := relNamesOf(mo, otyp)
	if chance(t, "gForeignRel", 15) {
		for _, tn := range withRel {
			rels = append(rels, relNamesOf(mo, tn)...)
		}
	}
	if len(rels) == 0 || rare("gUnknownRel") {
		rels = []string{"nope"}
	}
	cd := Cand{T: m.Tuple{Object: otyp + ":" + pick(t, "gObjID", ids), Relation: pick(t, "gRel", rels)}, Origin: "grid"}
	utyp := pick(t, "gUserType", all)
	if rare("gGhostUser") {
		utyp = "ghost"
	}
	cd.T.User = anyUser(t, mo, utyp)
	if rapid.IntRange(0, 15).Draw(t, "gBadUser") == 7 { // rapid favours the ends of a range; keep this rare
		cd.T.User = pick(t, "gUserBad", malformedUsers(utyp))
	}
	names := []string{"", "", ""}
	for _, c := range mo.Conds {
		names = append(names, c.Name, c.Name)
	}
	names = append(names, oddConditionNames[0])
	cd.T.Cond = pick(t, "gCond", names)
	if c := mo.Cond(cd.T.Cond); c != nil {
		withContext(t, &cd, c, pick(t, "gCtx", ctxModes))
	}
	return cd
}

// selfRefs draws usersets pointing at themselves: on relations whose
// restrictions allow their own userset (the only clause violated is the
// self-reference one) and on arbitrary relations.
func selfRefs(t *rapid.T, mo *m.Model, slots []slot) []Cand {
	var out []Cand
	for _, s := range slots {
		for _, re := range s.rel.Restr {
			if re.Kind() == "userset" && re.Type == s.typ && re.Rel == s.rel.Name {
				obj := s.typ + ":" + pick(t, "selfID", ids)
				cd := Cand{T: m.Tuple{Object: obj, Relation: s.rel.Name, User: obj + "#" + s.rel.Name, Cond: re.Cond}, Origin: "selfref"}
				if c := mo.Cond(re.Cond); c != nil {
					withContext(t, &cd, c, pick(t, "selfCtx", []string{"complete", "none"}))
				}
				out = append(out, cd)
				if len(out) >= 3 {
					return out
				}
			}
		}
	}
	if len(slots) > 0 {
		s := pick(t, "selfSlot", slots)
		obj := s.typ + ":" + pick(t, "selfID2", ids)
		out = append(out, Cand{T: m.Tuple{Object: obj, Relation: s.rel.Name, User: obj + "#" + s.rel.Name}, Origin: "selfref"})
	}
	return out
}

// boost raises the share of models on which the rarer clauses can be the
// only violated one: a relation that allows its own userset (self reference)
// and a restriction conditioned on a condition with a string parameter
// (well-typed oversize context). The model stays subject to the server's
// model validation.
func boost(t *rapid.T, mo *m.Model) {
	var cands []*m.Relation
	var owner []string
	for ti := range mo.Types {
		for ri := range mo.Types[ti].Relations {
			r := &mo.Types[ti].Relations[ri]
			if len(r.Restr) > 0 && !mo.IsTupleset(mo.Types[ti].Name, r.Name) {
				cands = append(cands, r)
				owner = append(owner, mo.Types[ti].Name)
			}
		}
	}
	if len(cands) == 0 {
		return
	}
	if chance(t, "boostSelfUserset", 25) {
		i := rapid.IntRange(0, len(cands)-1).Draw(t, "boostSelfRel")
		re := m.Restriction{Type: owner[i], Rel: cands[i].Name}
		if !hasRestr(cands[i].Restr, re) {
			cands[i].Restr = append(cands[i].Restr, re)
		}
	}
	if chance(t, "boostStringCond", 30) {
		name := ""
		for _, c := range mo.Conds {
			if stringParam(&c) != "" {
				name = c.Name
			}
		}
		if name == "" {
			name = "cs"
			mo.Conds = append(mo.Conds, m.Condition{Name: "cs", Params: []m.Param{{Name: "s", Type: "string"}, {Name: "n", Type: "int"}},
				Expr: m.Or(m.Cmp("==", m.Var("s"), m.Lit("string", "a")), m.Cmp("<", m.Var("n"), m.Lit("int", 3)))})
		}
		i := rapid.IntRange(0, len(cands)-1).Draw(t, "boostCondRel")
		re := cands[i].Restr[rapid.IntRange(0, len(cands[i].Restr)-1).Draw(t, "boostCondRestr")]
		re.Cond = name
		if !hasRestr(cands[i].Restr, re) {
			cands[i].Restr = append(cands[i].Restr, re)
		}
	}
}

func hasRestr(rs []m.Restriction, re m.Restriction) bool {
	for _, r := range rs {
		if r == re {
			return true
		}
	}
	return false
}

func genC18(t *rapid.T) Case {
	mo := gen.Model(t, gen.DefaultOpts())
	boost(t, mo)
	c := Case{Model: mo}
	slots := assignable(mo)
	if len(slots) == 0 {
		return c
	}
	nValid := rapid.IntRange(3, 5).Draw(t, "nValid")
	var valid []Cand
	for i := 0; i < nValid; i++ {
		valid = append(valid, validCand(t, mo, pick(t, "slot", slots)))
	}
	c.Cands = append(c.Cands, valid...)
	for _, v := range valid {
		k := rapid.IntRange(2, 3).Draw(t, "nMutants")
		for i := 0; i < k; i++ {
			c.Cands = append(c.Cands, mutate(t, mo, v))
		}
	}
	nGrid := rapid.IntRange(8, 11).Draw(t, "nGrid")
	for i := 0; i < nGrid; i++ {
		c.Cands = append(c.Cands, gridCand(t, mo))
	}
	c.Cands = append(c.Cands, selfRefs(t, mo, slots)...)
	return c
}

// -------------------------------------------------------------------- check

var (
	srvOnce sync.Once
	srvD    *sut.SUT // default engine
	srvW    *sut.SUT // weighted-graph Check engine, same datastore
)

func servers() (*sut.SUT, *sut.SUT) {
	srvOnce.Do(func() {
		ds := memory.New()
		srvD = sut.NewWithDS(ds)
		srvW = sut.NewWithDS(ds, server.WithExperimentals(serverconfig.ExperimentalWeightedGraphCheck))
	})
	return srvD, srvW
}

// outcome of one submission.
type outcome struct {
	rejected bool
	class    string // "validation", "evaluation", "other:<code>"
	err      string
}

func classify(err error) outcome {
	if err == nil {
		return outcome{}
	}
	o := outcome{rejected: true, err: err.Error()}
	c := status.Code(err)
	switch {
	case strings.Contains(o.err, "evaluate relationship condition"):
		o.class = "evaluation"
	case c == codes.InvalidArgument, c >= 2000 && c < 3000 && c != codes.Code(openfgav1.ErrorCode_authorization_model_resolution_too_complex):
		o.class = "validation"
	default:
		o.class = fmt.Sprintf("other:%d", c)
	}
	return o
}

func classifyBatch(resp *openfgav1.BatchCheckResponse, err error) outcome {
	if err != nil {
		return classify(err)
	}
	r := resp.GetResult()["a"]
	if r == nil {
		return outcome{rejected: true, class: "other:no-result", err: "no result for the correlation id"}
	}
	e := r.GetError()
	if e == nil {
		return outcome{}
	}
	o := outcome{rejected: true, err: e.GetMessage()}
	switch {
	case strings.Contains(o.err, "evaluate relationship condition"):
		o.class = "evaluation"
	case e.GetInputError() >= 2000 && e.GetInputError() != openfgav1.ErrorCode_authorization_model_resolution_too_complex:
		o.class = "validation"
	default:
		o.class = fmt.Sprintf("other:internal-%d", e.GetInternalError())
	}
	return o
}

type surface struct {
	name string
	v2   bool
	call func(ctx context.Context, ct []*openfgav1.TupleKey) outcome
}

func sameTuples(a, b []m.Tuple) bool {
	ja, _ := json.Marshal(a)
	jb, _ := json.Marshal(b)
	return string(ja) == string(jb)
}

func fieldsDiffering(a, b m.Tuple) int {
	n := 0
	if a.Object != b.Object {
		n++
	}
	if a.Relation != b.Relation {
		n++
	}
	if a.User != b.User {
		n++
	}
	if a.Cond != b.Cond {
		n++
	}
	ja, _ := json.Marshal(a.Ctx)
	jb, _ := json.Marshal(b.Ctx)
	if string(ja) != string(jb) {
		n++
	}
	return n
}

// contextualSig names the root cause of a contextual-tuple mismatch.
func contextualSig(s surface, exp Reason, got outcome, v1Agrees bool) string {
	// The weighted engine validates contextual tuples with its own rule
	// (check.validateCtxTupleInModel): a mismatch there that the default
	// engine does not share belongs to the v2 family. A self-referencing
	// userset accepted by a weighted-engine surface always does (the default
	// engine's rule lives in validation.ValidateTupleForWrite since 84c25b2).
	if s.v2 && (v1Agrees || (exp == SelfReference && !got.rejected)) {
		if exp == OK {
			return "C18/v2-contextual-validation-differs:rejects-valid"
		}
		return "C18/v2-contextual-validation-differs:" + string(exp)
	}
	switch {
	case exp == SelfReference && !got.rejected:
		return "C18/contextual-self-referencing-userset-accepted"
	case exp == ContextOversize && !got.rejected:
		return "C18/contextual-oversize-context-accepted"
	case exp != OK && !got.rejected:
		return "C18/contextual-accepts-invalid:" + string(exp)
	}
	return "C18/contextual-rejects-valid"
}

func checkC18(env *fw.Env, c Case) *fw.Failure {
	if c.Model == nil {
		env.Rec.Discard("no-model")
		return nil
	}
	mo := c.Model
	slots := assignable(mo)
	if len(slots) == 0 || len(c.Cands) == 0 {
		env.Rec.Discard("no-assignable-relation")
		return nil
	}
	d, w := servers()
	bg := context.Background()
	storeID := d.CreateStore("verif")
	modelID, err := d.WriteModel(storeID, mo)
	if err != nil {
		env.Rec.Discard("model-rejected")
		return nil
	}

	var stop *fw.Failure
	fail := func(sig, format string, a ...any) bool {
		if !env.Replay && fw.IsKnown(sig) {
			env.Rec.Known(sig)
			return false
		}
		stop = fw.Failf(sig, format+"\nmodel:\n%s", append(a, mo.DSL())...)
		return true
	}

	// the query the contextual tuples ride on: built from the first
	// restriction of the first assignable relation, on ids ("q") no candidate
	// uses, with a request context that fits every condition of the model.
	q0 := slots[0]
	r0 := q0.rel.Restr[0]
	qObj, qRel, qUser := q0.typ+":q", q0.rel.Name, r0.Type+":q"
	if r0.Kind() == "userset" {
		qUser += "#" + r0.Rel
	}
	reqCtx := map[string]any{}
	for _, cd := range mo.Conds {
		for _, p := range cd.Params {
			switch p.Type {
			case "int":
				reqCtx[p.Name] = 1.0
			case "string":
				reqCtx[p.Name] = "a"
			case "bool":
				reqCtx[p.Name] = true
			}
		}
	}
	reqStruct := conv.Struct(reqCtx)
	checkReq := func(ct []*openfgav1.TupleKey) *openfgav1.CheckRequest {
		return &openfgav1.CheckRequest{StoreId: storeID, AuthorizationModelId: modelID,
			TupleKey:         &openfgav1.CheckRequestTupleKey{Object: qObj, Relation: qRel, User: qUser},
			ContextualTuples: &openfgav1.ContextualTupleKeys{TupleKeys: ct}, Context: reqStruct}
	}
	batchReq := func(ct []*openfgav1.TupleKey) *openfgav1.BatchCheckRequest {
		return &openfgav1.BatchCheckRequest{StoreId: storeID, AuthorizationModelId: modelID, Checks: []*openfgav1.BatchCheckItem{{
			TupleKey:         &openfgav1.CheckRequestTupleKey{Object: qObj, Relation: qRel, User: qUser},
			ContextualTuples: &openfgav1.ContextualTupleKeys{TupleKeys: ct}, Context: reqStruct, CorrelationId: "a"}}}
	}
	surfaces := []surface{
		{"check", false, func(ctx context.Context, ct []*openfgav1.TupleKey) outcome {
			_, err := d.Srv.Check(ctx, checkReq(ct))
			return classify(err)
		}},
		{"batchcheck", false, func(ctx context.Context, ct []*openfgav1.TupleKey) outcome {
			return classifyBatch(d.Srv.BatchCheck(ctx, batchReq(ct)))
		}},
		{"listobjects", false, func(ctx context.Context, ct []*openfgav1.TupleKey) outcome {
			_, err := d.Srv.ListObjects(ctx, &openfgav1.ListObjectsRequest{StoreId: storeID, AuthorizationModelId: modelID,
				Type: q0.typ, Relation: qRel, User: qUser, ContextualTuples: &openfgav1.ContextualTupleKeys{TupleKeys: ct}, Context: reqStruct})
			return classify(err)
		}},
		{"listusers", false, func(ctx context.Context, ct []*openfgav1.TupleKey) outcome {
			_, err := d.Srv.ListUsers(ctx, &openfgav1.ListUsersRequest{StoreId: storeID, AuthorizationModelId: modelID,
				Object: &openfgav1.Object{Type: q0.typ, Id: "q"}, Relation: qRel,
				UserFilters:      []*openfgav1.UserTypeFilter{{Type: r0.Type, Relation: r0.Rel}},
				ContextualTuples: ct, Context: reqStruct})
			return classify(err)
		}},
		{"expand", false, func(ctx context.Context, ct []*openfgav1.TupleKey) outcome {
			_, err := d.Srv.Expand(ctx, &openfgav1.ExpandRequest{StoreId: storeID, AuthorizationModelId: modelID,
				TupleKey:         &openfgav1.ExpandRequestTupleKey{Object: qObj, Relation: qRel},
				ContextualTuples: &openfgav1.ContextualTupleKeys{TupleKeys: ct}})
			return classify(err)
		}},
		{"check-v2", true, func(ctx context.Context, ct []*openfgav1.TupleKey) outcome {
			_, err := w.Srv.Check(ctx, checkReq(ct))
			return classify(err)
		}},
		{"batchcheck-v2", true, func(ctx context.Context, ct []*openfgav1.TupleKey) outcome {
			return classifyBatch(w.Srv.BatchCheck(ctx, batchReq(ct)))
		}},
	}

	// resident tuples: valid tuples on object ids no candidate uses, so that
	// "a rejected write changes nothing" is observed on a non-empty store.
	var resident []m.Tuple
	var companion *m.Tuple
	for _, cd := range c.Cands {
		t := cd.Tuple()
		if cd.PadLen > 0 || ValidForWrite(mo, t) != OK {
			continue
		}
		typ, id := m.SplitObject(t.Object)
		rt := t
		rt.Object = typ + ":res" + id
		if ValidForWrite(mo, rt) != OK {
			continue
		}
		dup := false
		for _, x := range resident {
			dup = dup || x.Key() == rt.Key()
		}
		if dup {
			continue
		}
		if len(resident) < 3 {
			resident = append(resident, rt)
		} else if companion == nil {
			ct := t
			ct.Object = typ + ":cmp" + id
			if ValidForWrite(mo, ct) == OK {
				companion = &ct
			}
		}
	}
	if len(resident) > 0 {
		if err := d.WriteAPI(storeID, modelID, resident); err != nil {
			if fail("C18/write-rejects-valid", "Write rejected resident tuples the reference accepts: %v: %v", resident, err) {
				return stop
			}
			resident = nil
		}
	}
	before, err := d.ReadAll(storeID)
	if err != nil {
		return fw.Failf("harness/read-failed", "ReadAll: %v", err)
	}

	classes := map[string]int{}
	var accepted, rejected []m.Tuple
	type verdict struct {
		t   m.Tuple
		exp Reason
	}
	var verdicts []verdict
	for _, cd := range c.Cands {
		t := cd.Tuple()
		exp := ValidForWrite(mo, t)
		if exp == NearLimit {
			env.Rec.Add("near_limit_skipped", 1)
			continue
		}
		origin := cd.Origin
		if origin == "" {
			origin = "unlabelled"
		}
		classes["origin:"+origin]++
		classes["user:"+userShape(t.User)]++
		verdicts = append(verdicts, verdict{t, exp})
		tk := conv.TupleKey(t)

		// (a) Write, alone
		_, werr := d.Srv.Write(bg, &openfgav1.WriteRequest{StoreId: storeID, AuthorizationModelId: modelID,
			Writes: &openfgav1.WriteRequestWrites{TupleKeys: []*openfgav1.TupleKey{tk}}})
		wo := classify(werr)
		classes["write:"+exp.Label()]++
		after, err := d.ReadAll(storeID)
		if err != nil {
			return fw.Failf("harness/read-failed", "ReadAll: %v", err)
		}
		switch {
		case exp == OK && wo.rejected:
			if fail("C18/write-rejects-valid", "Write rejected %s although every clause holds: %s", cd, wo.err) {
				return stop
			}
		case exp != OK && !wo.rejected:
			if fail("C18/write-accepts-invalid:"+string(exp), "Write accepted %s; the reference rejects it (%s)", cd, exp) {
				return stop
			}
		case exp != OK && wo.class != "validation":
			if fail("C18/write-reject-not-validation-error:"+string(exp), "Write rejected %s (%s) with a non-validation error [%s]: %s", cd, exp, wo.class, wo.err) {
				return stop
			}
		}
		if wo.rejected {
			if !sameTuples(before, after) {
				if fail("C18/rejected-write-changed-store", "Write of %s failed (%s) but the store changed: before %v after %v", cd, wo.err, before, after) {
					return stop
				}
			}
			// a rejected tuple also takes down the valid tuple written next to it
			if companion != nil && companion.Key() != t.Key() {
				_, berr := d.Srv.Write(bg, &openfgav1.WriteRequest{StoreId: storeID, AuthorizationModelId: modelID,
					Writes: &openfgav1.WriteRequestWrites{TupleKeys: []*openfgav1.TupleKey{conv.TupleKey(*companion), tk}}})
				after2, err := d.ReadAll(storeID)
				if err != nil {
					return fw.Failf("harness/read-failed", "ReadAll: %v", err)
				}
				classes["write-batch:"+exp.Label()]++
				if berr == nil && exp != OK {
					if fail("C18/write-accepts-invalid:"+string(exp), "Write accepted [%s, %s] although it rejects the second tuple alone (%s)", *companion, cd, exp) {
						return stop
					}
				}
				if berr != nil && !sameTuples(before, after2) {
					if fail("C18/rejected-write-changed-store", "Write of [%s, %s] failed (%v) but the store changed: before %v after %v", *companion, cd, berr, before, after2) {
						return stop
					}
				}
				if berr == nil {
					_ = d.DeleteAPI(storeID, modelID, []m.Tuple{*companion, t})
				}
			}
		} else {
			want := append(append([]m.Tuple{}, before...), conv.FromTupleKey(tk))
			sort.Slice(want, func(i, j int) bool { return want[i].Key() < want[j].Key() })
			if !sameTuples(want, after) {
				if fail("C18/accepted-write-not-stored", "Write of %s succeeded but the store holds %v, expected %v", cd, after, want) {
					return stop
				}
			}
			if err := d.DeleteAPI(storeID, modelID, []m.Tuple{t}); err != nil {
				return fw.Failf("harness/delete-failed", "cannot delete %s again: %v", cd, err)
			}
		}
		if exp == OK && !wo.rejected {
			accepted = append(accepted, t)
		}
		if exp != OK && wo.rejected {
			rejected = append(rejected, t)
		}

		// (b) as the single contextual tuple
		v1Agrees := true
		for _, s := range surfaces {
			got := s.call(bg, []*openfgav1.TupleKey{tk})
			verd := "accept"
			if got.rejected {
				verd = "reject"
			}
			classes[s.name+":"+exp.Label()]++
			if got.class == "evaluation" {
				// the tuple passed validation and its condition was then evaluated
				// on the request: not a validation verdict
				env.Rec.Add("evaluation_error_after_accept:"+s.name, 1)
				got = outcome{}
			}
			bad := ""
			switch {
			case exp == OK && got.rejected:
				bad = fmt.Sprintf("%s rejected the contextual tuple %s although every clause holds: [%s] %s", s.name, cd, got.class, got.err)
			case exp != OK && !got.rejected:
				bad = fmt.Sprintf("%s accepted the contextual tuple %s; the reference rejects it (%s)", s.name, cd, exp)
			}
			if bad != "" {
				if s.name == "check" {
					v1Agrees = false
				}
				if fail(contextualSig(s, exp, got, v1Agrees), "%s", bad) {
					return stop
				}
				continue
			}
			if exp != OK && got.class != "validation" {
				if fail("C18/contextual-reject-not-validation-error:"+s.name, "%s rejected the contextual tuple %s (%s) with a non-validation error [%s]: %s (%s)", s.name, cd, exp, got.class, got.err, verd) {
					return stop
				}
			}
		}
	}

	// NT: accepted and rejected candidates exist, and some rejected candidate
	// is exactly one field away from an accepted one.
	oneAway := false
	for _, r := range rejected {
		for _, a := range accepted {
			if fieldsDiffering(r, a) == 1 {
				oneAway = true
			}
		}
	}
	nt := len(accepted) > 0 && len(rejected) > 0 && oneAway
	var sample any
	if nt {
		sample = map[string]any{"model": mo.DSL(), "candidates": len(verdicts), "accepted": len(accepted), "rejected": len(rejected),
			"first_accepted": accepted[0].String(), "first_rejected": rejected[0].String()}
	}
	for _, k := range gen.SortedKeys(classes) {
		env.Rec.Add("class:"+k, classes[k])
	}
	env.Rec.Add("candidates", len(verdicts))
	env.Rec.Case(c, nt, sample)
	return nil
}

func userShape(u string) string {
	p, ok := ParseUser(u)
	if !ok {
		return "malformed"
	}
	return p.Kind
}

func TestC18(t *testing.T) { fw.Run(t, "C18", genC18, checkC18) }
