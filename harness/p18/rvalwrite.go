// Package p18 decides property C18: "tuple validation accepts exactly what the
// model allows".
//
// This file is R-val-write, an independent restatement of the property
// sentence over the harness's own model AST (package m). It never calls into
// the repository: well-formedness follows the documented grammar
// (object = type:id, user = type:id | type:* | type:id#relation, relation and
// type names without ':', '#', '@' or whitespace, ids without '#', ':' or
// whitespace), validity follows the sentence clause by clause.
package p18

import (
	"strings"
	"unicode"

	"github.com/openfga/openfga/verifharness/m"
	"github.com/openfga/openfga/verifharness/refsem"
)

// Reason is the first clause of the property sentence a tuple fails ("" = all
// clauses hold, the tuple must be accepted).
type Reason string

const (
	OK                  Reason = ""
	MalformedObject     Reason = "malformed-object"
	MalformedRelation   Reason = "malformed-relation"
	MalformedUser       Reason = "malformed-user"
	UnknownObjectType   Reason = "unknown-object-type"
	UnknownRelation     Reason = "unknown-relation"
	UnknownUserType     Reason = "unknown-user-type"
	UnknownUserRelation Reason = "unknown-user-relation"
	TuplesetUser        Reason = "tupleset-needs-concrete-object"
	NotAssignable       Reason = "relation-not-directly-assignable"
	NoRestriction       Reason = "no-matching-type-restriction"
	BadConditionName    Reason = "condition-name-forbidden-chars"
	UnknownCondition    Reason = "unknown-condition"
	ConditionMissing    Reason = "condition-missing"
	ConditionNotAllowed Reason = "condition-not-allowed-by-matching-restriction"
	ContextUndeclared   Reason = "context-undeclared-key"
	ContextMistyped     Reason = "context-mistyped-value"
	ContextOversize     Reason = "context-oversize"
	SelfReference       Reason = "self-referencing-userset"
	// NearLimit is not a verdict: the context size is too close to the
	// documented limit for the size estimate below to decide; callers drop
	// such candidates.
	NearLimit Reason = "near-size-limit"
)

func (r Reason) Label() string {
	if r == OK {
		return "ok"
	}
	return string(r)
}

// ContextLimit is the documented limit on the size of a tuple's condition
// context (32 KiB).
const ContextLimit = 32 * 1024

func hasSpaceOrControl(s string) bool {
	for _, r := range s {
		if unicode.IsSpace(r) || unicode.IsControl(r) {
			return true
		}
	}
	return false
}

// validName: type, relation (documented pattern [^:#@\s]{1,N}).
func validName(s string, max int) bool {
	return s != "" && len(s) <= max && !strings.ContainsAny(s, ":#@") && !hasSpaceOrControl(s)
}

// validID: object id (documented pattern [^#:\s]+); "*" is reserved for the
// typed wildcard.
func validID(s string) bool {
	return s != "" && !strings.ContainsAny(s, ":#") && !hasSpaceOrControl(s)
}

// parseObject parses "type:id" (id may be "*": caller decides).
func parseObject(s string) (typ, id string, ok bool) {
	i := strings.IndexByte(s, ':')
	if i < 0 {
		return "", "", false
	}
	typ, id = s[:i], s[i+1:]
	if !validName(typ, 254) || !validID(id) {
		return "", "", false
	}
	return typ, id, true
}

// User is a parsed user string.
type User struct {
	Kind string // "object", "wildcard", "userset"
	Type string
	ID   string
	Rel  string
}

// ParseUser parses type:id | type:* | type:id#relation.
func ParseUser(s string) (User, bool) {
	obj, rel := s, ""
	hasRel := false
	if i := strings.IndexByte(s, '#'); i >= 0 {
		obj, rel, hasRel = s[:i], s[i+1:], true
	}
	typ, id, ok := parseObject(obj)
	if !ok {
		return User{}, false
	}
	if hasRel {
		if !validName(rel, 50) || id == "*" {
			return User{}, false
		}
		return User{Kind: "userset", Type: typ, ID: id, Rel: rel}, true
	}
	if id == "*" {
		return User{Kind: "wildcard", Type: typ}, true
	}
	if strings.Contains(id, "*") {
		// ids containing '*' next to other characters are outside the
		// vocabulary this check generates
		return User{}, false
	}
	return User{Kind: "object", Type: typ, ID: id}, true
}

// approxContextSize is a serialisation-independent estimate of the size of a
// context: keys and string payloads byte for byte, 9 bytes per scalar, plus
// a small per-entry overhead.
func approxContextSize(v any) int {
	switch x := v.(type) {
	case map[string]any:
		n := 0
		for k, it := range x {
			n += len(k) + 6 + approxContextSize(it)
		}
		return n
	case []any:
		n := 0
		for _, it := range x {
			n += 4 + approxContextSize(it)
		}
		return n
	case string:
		return len(x) + 3
	case nil:
		return 2
	}
	return 9
}

// ValidForWrite decides whether the tuple must be accepted by Write / as a
// contextual tuple under the model, clause by clause.
func ValidForWrite(mo *m.Model, t m.Tuple) Reason {
	// well-formedness (documented grammar)
	otype, oid, ok := parseObject(t.Object)
	if !ok || oid == "*" || strings.Contains(oid, "*") {
		return MalformedObject
	}
	if !validName(t.Relation, 50) {
		return MalformedRelation
	}
	u, ok := ParseUser(t.User)
	if !ok {
		return MalformedUser
	}
	// "its object type and relation exist"
	if mo.Type(otype) == nil {
		return UnknownObjectType
	}
	rel := mo.Relation(otype, t.Relation)
	if rel == nil {
		return UnknownRelation
	}
	// the user must be expressible in the model at all
	if mo.Type(u.Type) == nil {
		return UnknownUserType
	}
	if u.Kind == "userset" && mo.Relation(u.Type, u.Rel) == nil {
		return UnknownUserRelation
	}
	// "tupleset relations receive only concrete objects"
	if mo.IsTupleset(otype, t.Relation) && u.Kind != "object" {
		return TuplesetUser
	}
	// "its user matches one of the relation's type restrictions (object type,
	// type wildcard or userset)"
	if len(rel.Restr) == 0 {
		return NotAssignable
	}
	var matching []m.Restriction
	for _, r := range rel.Restr {
		if r.Type != u.Type || r.Kind() != u.Kind {
			continue
		}
		if u.Kind == "userset" && r.Rel != u.Rel {
			continue
		}
		matching = append(matching, r)
	}
	if len(matching) == 0 {
		return NoRestriction
	}
	// "its condition is one the matching restriction allows"
	allowed := false
	for _, r := range matching {
		if r.Cond == t.Cond {
			allowed = true
		}
	}
	if t.Cond == "" {
		if !allowed {
			return ConditionMissing
		}
	} else {
		if hasSpaceOrControl(t.Cond) {
			return BadConditionName
		}
		c := mo.Cond(t.Cond)
		if c == nil {
			return UnknownCondition
		}
		if !allowed {
			return ConditionNotAllowed
		}
		// "with a context that fits the declared parameter types" (a stored
		// context may be partial: missing parameters come from the request)
		undeclared, mistyped := false, false
		for k, v := range t.Ctx {
			var p *m.Param
			for i := range c.Params {
				if c.Params[i].Name == k {
					p = &c.Params[i]
				}
			}
			if p == nil {
				undeclared = true
				continue
			}
			if _, ok := refsem.Convert(p.Type, v); !ok {
				mistyped = true
			}
		}
		if undeclared {
			return ContextUndeclared
		}
		if mistyped {
			return ContextMistyped
		}
		// "and the size limit"
		if len(t.Ctx) > 0 {
			sz := approxContextSize(map[string]any(t.Ctx))
			switch {
			case sz > ContextLimit*5/4:
				return ContextOversize
			case sz > ContextLimit*3/4:
				return NearLimit
			}
		}
	}
	// "and it is not a userset pointing at itself"
	if u.Kind == "userset" && u.Type+":"+u.ID == t.Object && u.Rel == t.Relation {
		return SelfReference
	}
	return OK
}
