package p26

import (
	"context"
	"fmt"
	"sort"
	"strings"
	"testing"

	"github.com/oklog/ulid/v2"
	openfgav1 "github.com/openfga/api/proto/openfga/v1"
	parser "github.com/openfga/language/pkg/go/transformer"
	"google.golang.org/grpc/codes"
	"google.golang.org/grpc/metadata"
	"google.golang.org/grpc/status"
	"pgregory.net/rapid"

	"github.com/openfga/openfga/pkg/authclaims"
	"github.com/openfga/openfga/pkg/server"
	"github.com/openfga/openfga/pkg/storage"
	"github.com/openfga/openfga/pkg/storage/memory"

	"github.com/openfga/openfga/verifharness/conv"
	"github.com/openfga/openfga/verifharness/fw"
	"github.com/openfga/openfga/verifharness/m"
	"github.com/openfga/openfga/verifharness/refsem"
)

// C26 — API access control allows exactly what the control store grants.
//
// A case is: 2-3 target stores (each with a model whose types / relations
// carry module metadata), a set of grant tuples in the access-control store and
// a list of API calls with a caller identity. The oracle is the harness's own
// reference semantics (refsem) evaluated on the access-control model and the
// grant tuples; nothing of internal/authz is used to compute expectations.

// acModelDSL is the FGA-on-FGA model of the access-control store (verbatim
// from pkg/server/server_authz_test.go, which mirrors the documented one).
const acModelDSL = `
		  model
			schema 1.1

		type system
			relations
			define can_call_create_stores: [application, application:*] or admin
			define can_call_list_stores: [application, application:*] or admin
			define admin: [application]

		type application

		type module
			relations
			define can_call_write: [application] or writer or writer from store
			define store: [store]
			define writer: [application]

		type store
			relations
			define system: [system]
			define creator: [application]
			define can_call_delete_store: [application] or admin
			define can_call_get_store: [application] or admin
			define can_call_check: [application] or reader
			define can_call_expand: [application] or reader
			define can_call_list_objects: [application] or reader
			define can_call_list_users: [application] or reader
			define can_call_read: [application] or reader
			define can_call_read_assertions: [application] or reader or model_writer
			define can_call_read_authorization_models: [application] or reader or model_writer
			define can_call_read_changes: [application] or reader
			define can_call_write: [application] or writer
			define can_call_write_assertions: [application] or model_writer
			define can_call_write_authorization_models: [application] or model_writer
			define model_writer: [application] or admin
			define reader: [application] or admin
			define writer: [application] or admin
			define admin: [application] or creator or admin from system
		`

// fixedULID builds a deterministic, valid ULID from a Crockford-base32 tag.
func fixedULID(tag string) string {
	s := "01J" + tag + strings.Repeat("0", 26)
	s = s[:26]
	if _, err := ulid.ParseStrict(s); err != nil {
		panic(fmt.Sprintf("fixedULID(%q)=%q: %v", tag, s, err))
	}
	return s
}

var (
	acStoreID = fixedULID("ACST")
	acModelID = fixedULID("ACMD")
	// targetIDs[i] replaces the token "$i" of a case. "$2" may name a store that
	// does not exist in the case (grant on "some other store").
	targetIDs = [3]string{fixedULID("TGT0"), fixedULID("TGT1"), fixedULID("TGT2")}

	acProto = parser.MustTransformDSLToProto(acModelDSL)
	acModel = conv.FromModel(acProto)
)

const forbiddenCode = codes.Code(openfgav1.AuthErrorCode_forbidden)

// ---- target-store models with modules ----

type relSpec struct{ Name, Module string }
type typeSpec struct {
	Name, Module string
	Rels         []relSpec
}

// templates are the models of the target stores. Every relation is `[user]`.
// The module of a tuple is the module of its relation when the relation has
// its own module (a relation added by `extend type` in another module),
// otherwise the module of its type (modular-models documentation).
var templates = [][]typeSpec{
	{ // 0: two module types, one relation owned by another module, one type outside any module
		{Name: "user"},
		{Name: "doc", Module: "core", Rels: []relSpec{{"viewer", ""}, {"editor", "extra"}}},
		{Name: "folder", Module: "fs", Rels: []relSpec{{"viewer", ""}}},
		{Name: "group", Rels: []relSpec{{"member", ""}}},
	},
	{ // 1: every writable type belongs to a module (four modules)
		{Name: "user", Module: "core"},
		{Name: "doc", Module: "core", Rels: []relSpec{{"viewer", ""}, {"editor", "extra"}}},
		{Name: "folder", Module: "fs", Rels: []relSpec{{"viewer", ""}}},
		{Name: "team", Module: "org", Rels: []relSpec{{"member", ""}}},
	},
	{ // 2: no modules at all
		{Name: "user"},
		{Name: "doc", Rels: []relSpec{{"viewer", ""}, {"editor", ""}}},
		{Name: "folder", Rels: []relSpec{{"viewer", ""}}},
	},
}

var moduleNames = []string{"core", "extra", "fs", "org", "ghost"}

func templateProto(tpl int) []*openfgav1.TypeDefinition {
	var out []*openfgav1.TypeDefinition
	for _, ts := range templates[tpl] {
		td := &openfgav1.TypeDefinition{Type: ts.Name}
		if ts.Module != "" || len(ts.Rels) > 0 {
			td.Metadata = &openfgav1.Metadata{Module: ts.Module}
		}
		if len(ts.Rels) > 0 {
			td.Relations = map[string]*openfgav1.Userset{}
			td.Metadata.Relations = map[string]*openfgav1.RelationMetadata{}
			for _, r := range ts.Rels {
				td.Relations[r.Name] = &openfgav1.Userset{Userset: &openfgav1.Userset_This{This: &openfgav1.DirectUserset{}}}
				td.Metadata.Relations[r.Name] = &openfgav1.RelationMetadata{
					Module:                   r.Module,
					DirectlyRelatedUserTypes: []*openfgav1.RelationReference{{Type: "user"}},
				}
			}
		}
		out = append(out, td)
	}
	return out
}

// tupleModule returns the module that owns a tuple of the template
// (known=false: the type or relation is not in the model).
func tupleModule(tpl int, t m.Tuple) (module string, known bool) {
	typ, _ := m.SplitObject(t.Object)
	for _, ts := range templates[tpl] {
		if ts.Name != typ {
			continue
		}
		for _, r := range ts.Rels {
			if r.Name == t.Relation {
				if r.Module != "" {
					return r.Module, true
				}
				return ts.Module, true
			}
		}
	}
	return "", false
}

// ---- case ----

type StoreSpec struct {
	Template int       `json:"template"`
	Seed     []m.Tuple `json:"seed,omitempty"`
}

// Caller kinds.
const (
	callerA     = "A"
	callerB     = "B"
	callerEmpty = "empty" // claims present, client id ""
	callerNone  = "none"  // no claims in the context
)

type Call struct {
	Method  string    `json:"method"`
	Store   int       `json:"store"` // index into Stores (ignored by CreateStore / ListStores)
	Caller  string    `json:"caller"`
	Writes  []m.Tuple `json:"writes,omitempty"`
	Deletes []m.Tuple `json:"deletes,omitempty"`
	Inject  string    `json:"inject,omitempty"` // datastore failure on the access-control store during the call
	// InjectAfter (Inject == "late"): the first InjectAfter datastore operations on
	// the access-control store succeed, every later one fails.
	InjectAfter int `json:"inject_after,omitempty"`
	// Template is the model a WriteAuthorizationModel call writes (it becomes the
	// store's latest model, which decides the modules of later writes).
	Template int `json:"template,omitempty"`
}

type Case struct {
	Stores []StoreSpec `json:"stores"`
	// Grants are tuples of the access-control store; "$i" stands for the id of target store i.
	Grants []m.Tuple `json:"grants"`
	Calls  []Call    `json:"calls"`
}

// methodRelation: which relation of the access-control model guards a method
// (names as documented: can_call_<method>); "" + system=true for the two
// system-level methods.
var methodRelation = map[string]string{
	"Check": "can_call_check", "BatchCheck": "can_call_check",
	"ListObjects": "can_call_list_objects", "StreamedListObjects": "can_call_list_objects",
	"ListUsers": "can_call_list_users", "Expand": "can_call_expand", "Read": "can_call_read",
	"Write": "can_call_write", "ReadChanges": "can_call_read_changes",
	"WriteAuthorizationModel": "can_call_write_authorization_models",
	"ReadAuthorizationModel":  "can_call_read_authorization_models",
	"ReadAuthorizationModels": "can_call_read_authorization_models",
	"WriteAssertions":         "can_call_write_assertions", "ReadAssertions": "can_call_read_assertions",
	"GetStore": "can_call_get_store", "DeleteStore": "can_call_delete_store",
	"CreateStore": "can_call_create_stores", "ListStores": "can_call_list_stores",
}

var storeMethods = []string{"Check", "BatchCheck", "ListObjects", "StreamedListObjects", "ListUsers", "Expand", "Read", "Write",
	"ReadChanges", "WriteAuthorizationModel", "ReadAuthorizationModel", "ReadAuthorizationModels", "WriteAssertions",
	"ReadAssertions", "GetStore", "DeleteStore"}

var allMethods = append(append([]string{}, storeMethods...), "CreateStore", "ListStores", "Write", "Write", "Write", "ListStores")

var storeRelations = func() []string {
	var out []string
	for _, r := range acModel.Type("store").Relations {
		if strings.HasPrefix(r.Name, "can_call_") {
			out = append(out, r.Name)
		}
	}
	return out
}()

func isSystemMethod(mth string) bool { return mth == "CreateStore" || mth == "ListStores" }

// ---- generator ----

// genTuple draws a tuple of the template; onlyModules (when non-empty and
// matched by some relation) restricts it to relations of those modules.
func genTuple(t *rapid.T, tpl int, label string, onlyModules ...string) m.Tuple {
	if rapid.IntRange(0, 39).Draw(t, label+"Unknown") == 0 {
		return m.Tuple{Object: "ghost:1", Relation: "viewer", User: "user:u1"}
	}
	var cands, pref []m.Tuple
	for _, ts := range templates[tpl] {
		for _, r := range ts.Rels {
			c := m.Tuple{Object: ts.Name + ":", Relation: r.Name}
			cands = append(cands, c)
			if mod, _ := tupleModule(tpl, c); contains(onlyModules, mod) {
				pref = append(pref, c)
			}
		}
	}
	if len(pref) > 0 {
		cands = pref
	}
	c := cands[rapid.IntRange(0, len(cands)-1).Draw(t, label+"Rel")]
	c.Object += fmt.Sprint(rapid.IntRange(1, 2).Draw(t, label+"Obj"))
	c.User = "user:u" + fmt.Sprint(rapid.IntRange(1, 2).Draw(t, label+"User"))
	return c
}

func dedupe(ts []m.Tuple) []m.Tuple {
	seen := map[string]bool{}
	var out []m.Tuple
	for _, t := range ts {
		if !seen[t.Key()] {
			seen[t.Key()] = true
			out = append(out, t)
		}
	}
	return out
}

func genGrant(t *rapid.T, nStores int) []m.Tuple {
	return genGrant1(t, nStores)
}

func genGrant1(t *rapid.T, nStores int) []m.Tuple {
	client := "application:A"
	if rapid.IntRange(0, 3).Draw(t, "grantClient") == 0 {
		client = "application:B"
	}
	// "$2" may be a store that does not exist in the case.
	store := fmt.Sprintf("$%d", rapid.IntRange(0, 2).Draw(t, "grantStore"))
	mod := moduleNames[rapid.IntRange(0, len(moduleNames)-1).Draw(t, "grantModule")]
	switch rapid.IntRange(0, 19).Draw(t, "grantKind") {
	case 18, 19:
		// a lister: may list stores and may get some of them
		out := []m.Tuple{{Object: "system:fga", Relation: "can_call_list_stores", User: client}}
		for i := 0; i < 3; i++ {
			switch rapid.IntRange(0, 3).Draw(t, fmt.Sprintf("lister-%d", i)) {
			case 0:
				out = append(out, m.Tuple{Object: fmt.Sprintf("store:$%d", i), Relation: "can_call_get_store", User: client})
			case 1:
				out = append(out, m.Tuple{Object: fmt.Sprintf("store:$%d", i), Relation: "admin", User: client})
			}
		}
		return out
	case 16, 17:
		// a bundle of module grants on one store (every module of a multi-module write granted)
		var out []m.Tuple
		for _, mo := range moduleNames[:4] {
			if rapid.IntRange(0, 3).Draw(t, "bundle-"+mo) > 0 {
				out = append(out, m.Tuple{Object: "module:" + store + "|" + mo, Relation: "can_call_write", User: client})
			}
		}
		return out
	case 0, 1, 2, 3:
		rel := storeRelations[rapid.IntRange(0, len(storeRelations)-1).Draw(t, "grantRel")]
		return []m.Tuple{m.Tuple{Object: "store:" + store, Relation: rel, User: client}}
	case 4, 5:
		role := []string{"reader", "writer", "model_writer", "admin", "creator"}[rapid.IntRange(0, 4).Draw(t, "grantRole")]
		return []m.Tuple{m.Tuple{Object: "store:" + store, Relation: role, User: client}}
	case 6:
		return []m.Tuple{m.Tuple{Object: "store:" + store, Relation: "can_call_get_store", User: client}}
	case 7:
		return []m.Tuple{m.Tuple{Object: "store:" + store, Relation: "can_call_write", User: client}}
	case 8, 9:
		return []m.Tuple{m.Tuple{Object: "module:" + store + "|" + mod, Relation: "can_call_write", User: client}}
	case 10:
		return []m.Tuple{m.Tuple{Object: "module:" + store + "|" + mod, Relation: "writer", User: client}}
	case 11:
		// stored module -> store link, possibly to another store
		other := fmt.Sprintf("$%d", rapid.IntRange(0, 2).Draw(t, "grantLinkStore"))
		return []m.Tuple{m.Tuple{Object: "module:" + store + "|" + mod, Relation: "store", User: "store:" + other}}
	case 12, 13:
		rel := []string{"can_call_list_stores", "can_call_create_stores"}[rapid.IntRange(0, 1).Draw(t, "grantSysRel")]
		if rapid.IntRange(0, 4).Draw(t, "grantWildcard") == 0 {
			client = "application:*"
		}
		return []m.Tuple{m.Tuple{Object: "system:fga", Relation: rel, User: client}}
	case 14:
		return []m.Tuple{m.Tuple{Object: "system:fga", Relation: "admin", User: client}}
	default:
		return []m.Tuple{m.Tuple{Object: "store:" + store, Relation: "system", User: "system:fga"}}
	}
}

func genCall(t *rapid.T, c *Case) Call {
	call := Call{}
	call.Method = allMethods[rapid.IntRange(0, len(allMethods)-1).Draw(t, "method")]
	call.Store = rapid.IntRange(0, len(c.Stores)-1).Draw(t, "callStore")
	switch rapid.IntRange(0, 9).Draw(t, "caller") {
	case 0:
		call.Caller = callerEmpty
	case 1:
		call.Caller = callerNone
	case 2, 3:
		call.Caller = callerB
	default:
		call.Caller = callerA
	}
	// Aimed call: derive caller / method / store from one of the grants so that
	// granted calls and near misses (same grant, other store) are frequent.
	if len(c.Grants) > 0 && rapid.IntRange(0, 1).Draw(t, "aimed") == 0 {
		g := c.Grants[rapid.IntRange(0, len(c.Grants)-1).Draw(t, "aimGrant")]
		if strings.HasPrefix(g.User, "application:") && !strings.HasSuffix(g.User, "*") {
			call.Caller = strings.TrimPrefix(g.User, "application:")
		}
		typ, id := m.SplitObject(g.Object)
		sameStore := rapid.IntRange(0, 2).Draw(t, "aimSameStore") > 0
		gs := -1
		if i := strings.IndexByte(id, '$'); i >= 0 && i+1 < len(id) {
			gs = int(id[i+1] - '0')
		}
		if gs >= 0 && gs < len(c.Stores) && sameStore {
			call.Store = gs
		}
		switch {
		case typ == "module":
			call.Method = "Write"
		case typ == "system" && strings.HasPrefix(g.Relation, "can_call_"):
			call.Method = map[string]string{"can_call_list_stores": "ListStores", "can_call_create_stores": "CreateStore"}[g.Relation]
		case typ == "store" && strings.HasPrefix(g.Relation, "can_call_"):
			var ms []string
			for _, mth := range storeMethods {
				if methodRelation[mth] == g.Relation {
					ms = append(ms, mth)
				}
			}
			call.Method = ms[rapid.IntRange(0, len(ms)-1).Draw(t, "aimMethod")]
		}
	}
	if call.Method == "WriteAuthorizationModel" {
		// mostly the store's own template again (a new model id, same modules)
		call.Template = c.Stores[call.Store].Template
		if rapid.IntRange(0, 2).Draw(t, "changeTemplate") == 0 {
			call.Template = rapid.IntRange(0, len(templates)-1).Draw(t, "newTemplate")
		}
	}
	if call.Method == "Write" {
		// the template the store has at this point if every earlier model write passes
		tpl := c.Stores[call.Store].Template
		for _, prev := range c.Calls {
			if prev.Method == "WriteAuthorizationModel" && prev.Store == call.Store {
				tpl = prev.Template
			}
		}
		n := rapid.IntRange(1, 4).Draw(t, "nWriteTuples")
		// Half of the writes stay inside one module (when the template has one).
		oneModule := rapid.IntRange(0, 1).Draw(t, "oneModule") == 0
		// A third of the writes touch only modules on which the caller holds a direct grant.
		var only []string
		if rapid.IntRange(0, 2).Draw(t, "grantedModulesOnly") == 0 {
			prefix := fmt.Sprintf("module:$%d|", call.Store)
			for _, g := range c.Grants {
				if g.User == "application:"+call.Caller && strings.HasPrefix(g.Object, prefix) {
					only = append(only, strings.TrimPrefix(g.Object, prefix))
				}
			}
		}
		var first m.Tuple
		for i := 0; i < n; i++ {
			tu := genTuple(t, tpl, "w", only...)
			if i == 0 {
				first = tu
			} else if oneModule {
				fm, _ := tupleModule(tpl, first)
				tm, _ := tupleModule(tpl, tu)
				if fm != tm {
					tu.Object, tu.Relation = first.Object, first.Relation
				}
			}
			if rapid.IntRange(0, 3).Draw(t, "isDelete") == 0 {
				call.Deletes = append(call.Deletes, tu)
			} else {
				call.Writes = append(call.Writes, tu)
			}
		}
		call.Writes, call.Deletes = dedupe(call.Writes), dedupe(call.Deletes)
		// a tuple may not be both written and deleted in one request
		del := map[string]bool{}
		for _, d := range call.Deletes {
			del[d.Key()] = true
		}
		var ws []m.Tuple
		for _, w := range call.Writes {
			if !del[w.Key()] {
				ws = append(ws, w)
			}
		}
		call.Writes = ws
	}
	switch rapid.IntRange(0, 19).Draw(t, "inject") {
	case 0:
		call.Inject = injectCall
	case 1:
		call.Inject = injectIter
	case 2, 3:
		call.Inject = injectLate
		call.InjectAfter = rapid.IntRange(1, 16).Draw(t, "injectAfter")
	case 4, 5, 6, 7:
		// ListStores decides in two steps (may list? which stores?): fail between them more often
		if call.Method == "ListStores" {
			call.Inject = injectLate
			call.InjectAfter = rapid.IntRange(1, 24).Draw(t, "injectAfterList")
		}
	}
	return call
}

func genC26(t *rapid.T) Case {
	c := Case{}
	nStores := rapid.IntRange(2, 3).Draw(t, "nStores")
	for i := 0; i < nStores; i++ {
		tpl := []int{0, 0, 1, 1, 2}[rapid.IntRange(0, 4).Draw(t, "template")]
		sp := StoreSpec{Template: tpl}
		for j, n := 0, rapid.IntRange(0, 3).Draw(t, "nSeed"); j < n; j++ {
			tu := genTuple(t, tpl, "seed")
			if _, known := tupleModule(tpl, tu); known {
				sp.Seed = append(sp.Seed, tu)
			}
		}
		sp.Seed = dedupe(sp.Seed)
		c.Stores = append(c.Stores, sp)
	}
	for i, n := 0, rapid.IntRange(0, 8).Draw(t, "nGrants"); i < n; i++ {
		c.Grants = append(c.Grants, genGrant(t, nStores)...)
	}
	c.Grants = dedupe(c.Grants)
	lo, hi := 12, 28
	if fw.TierIsThorough() {
		lo, hi = 16, 40
	}
	for i, n := 0, rapid.IntRange(lo, hi).Draw(t, "nCalls"); i < n; i++ {
		c.Calls = append(c.Calls, genCall(t, &c))
	}
	return c
}

// ---- reference decision ----

func subst(s string) string {
	for i, id := range targetIDs {
		s = strings.ReplaceAll(s, fmt.Sprintf("$%d", i), id)
	}
	return s
}

func substTuples(ts []m.Tuple) []m.Tuple {
	out := make([]m.Tuple, len(ts))
	for i, t := range ts {
		out[i] = m.Tuple{Object: subst(t.Object), Relation: t.Relation, User: subst(t.User)}
	}
	return out
}

// oracle evaluates the access-control model over the grant tuples.
type oracle struct {
	grants []m.Tuple // substituted
}

func (o *oracle) holds(client, relation, object string, contextual ...m.Tuple) bool {
	ts := append(append([]m.Tuple{}, o.grants...), contextual...)
	ev := refsem.NewEval(acModel, ts, "application:"+client, nil, object)
	return ev.Holds(object, relation) == refsem.True
}

func systemLink(storeID string) m.Tuple {
	return m.Tuple{Object: "store:" + storeID, Relation: "system", User: "system:fga"}
}

// storeGranted: the caller has the relation on the store. Every store is a
// child of the root system object (documented: the server supplies that link
// with each authorization query).
func (o *oracle) storeGranted(client, relation, storeID string) bool {
	return o.holds(client, relation, "store:"+storeID, systemLink(storeID))
}

// storeGrantedStored: same, from stored tuples alone (what a listing of the
// access-control store can see).
func (o *oracle) storeGrantedStored(client, relation, storeID string) bool {
	return o.holds(client, relation, "store:"+storeID)
}

func (o *oracle) moduleGranted(client, storeID, module string) bool {
	obj := "module:" + storeID + "|" + module
	return o.holds(client, "can_call_write", obj,
		m.Tuple{Object: obj, Relation: "store", User: "store:" + storeID}, systemLink(storeID))
}

func (o *oracle) systemGranted(client, relation string) bool {
	return o.holds(client, relation, "system:fga")
}

// writeModules: the modules a write request touches, per the documented rule:
// if any tuple is of a type / relation outside every module the request is a
// store-level write (nil); ok=false when some tuple's type or relation is not
// in the model (module resolution fails).
func writeModules(tpl int, call Call) (mods []string, ok bool) {
	set := map[string]bool{}
	storeLevel := false
	for _, t := range append(append([]m.Tuple{}, call.Writes...), call.Deletes...) {
		mod, known := tupleModule(tpl, t)
		if !known {
			return nil, false
		}
		if mod == "" {
			storeLevel = true
		}
		set[mod] = true
	}
	if storeLevel {
		return nil, true
	}
	for k := range set {
		mods = append(mods, k)
	}
	sort.Strings(mods)
	return mods, true
}

// ---- fake stream for StreamedListObjects ----

type fakeStream struct {
	ctx context.Context
	n   int
}

func (f *fakeStream) Send(*openfgav1.StreamedListObjectsResponse) error { f.n++; return nil }
func (f *fakeStream) SetHeader(metadata.MD) error                       { return nil }
func (f *fakeStream) SendHeader(metadata.MD) error                      { return nil }
func (f *fakeStream) SetTrailer(metadata.MD)                            {}
func (f *fakeStream) Context() context.Context                          { return f.ctx }
func (f *fakeStream) SendMsg(any) error                                 { return nil }
func (f *fakeStream) RecvMsg(any) error                                 { return nil }

// ---- the world of one case ----

type world struct {
	rec     *recDS
	inner   storage.OpenFGADatastore
	srv     *server.Server
	models  []string // model id per target store (written by setup)
	curTpl  []int    // template of the latest model per target store
	created []string // stores created by granted CreateStore calls
	deleted map[string]bool
}

func callerCtx(caller string) context.Context {
	switch caller {
	case callerNone:
		return context.Background()
	case callerEmpty:
		return authclaims.ContextWithAuthClaims(context.Background(), &authclaims.AuthClaims{ClientID: ""})
	}
	return authclaims.ContextWithAuthClaims(context.Background(), &authclaims.AuthClaims{ClientID: caller})
}

func without(ts []m.Tuple) []*openfgav1.TupleKeyWithoutCondition {
	var out []*openfgav1.TupleKeyWithoutCondition
	for _, t := range ts {
		out = append(out, &openfgav1.TupleKeyWithoutCondition{Object: t.Object, Relation: t.Relation, User: t.User})
	}
	return out
}

// invoke performs the call and returns its error and, for ListStores, the ids.
func (w *world) invoke(call Call) (err error, listed []string, createdID string) {
	ctx := callerCtx(call.Caller)
	sid := targetIDs[call.Store]
	var mid string
	if call.Store < len(w.models) {
		mid = w.models[call.Store]
	}
	checkKey := &openfgav1.CheckRequestTupleKey{Object: "doc:1", Relation: "viewer", User: "user:u1"}
	switch call.Method {
	case "Check":
		_, err = w.srv.Check(ctx, &openfgav1.CheckRequest{StoreId: sid, TupleKey: checkKey})
	case "BatchCheck":
		_, err = w.srv.BatchCheck(ctx, &openfgav1.BatchCheckRequest{StoreId: sid, Checks: []*openfgav1.BatchCheckItem{{
			TupleKey: checkKey, CorrelationId: "c1"}}})
	case "ListObjects":
		_, err = w.srv.ListObjects(ctx, &openfgav1.ListObjectsRequest{StoreId: sid, Type: "doc", Relation: "viewer", User: "user:u1"})
	case "StreamedListObjects":
		err = w.srv.StreamedListObjects(&openfgav1.StreamedListObjectsRequest{StoreId: sid, Type: "doc", Relation: "viewer", User: "user:u1"}, &fakeStream{ctx: ctx})
	case "ListUsers":
		_, err = w.srv.ListUsers(ctx, &openfgav1.ListUsersRequest{StoreId: sid, Object: &openfgav1.Object{Type: "doc", Id: "1"},
			Relation: "viewer", UserFilters: []*openfgav1.UserTypeFilter{{Type: "user"}}})
	case "Expand":
		_, err = w.srv.Expand(ctx, &openfgav1.ExpandRequest{StoreId: sid, TupleKey: &openfgav1.ExpandRequestTupleKey{Object: "doc:1", Relation: "viewer"}})
	case "Read":
		_, err = w.srv.Read(ctx, &openfgav1.ReadRequest{StoreId: sid})
	case "Write":
		req := &openfgav1.WriteRequest{StoreId: sid}
		if len(call.Writes) > 0 {
			req.Writes = &openfgav1.WriteRequestWrites{TupleKeys: conv.TupleKeys(call.Writes)}
		}
		if len(call.Deletes) > 0 {
			req.Deletes = &openfgav1.WriteRequestDeletes{TupleKeys: without(call.Deletes)}
		}
		_, err = w.srv.Write(ctx, req)
	case "ReadChanges":
		_, err = w.srv.ReadChanges(ctx, &openfgav1.ReadChangesRequest{StoreId: sid})
	case "WriteAuthorizationModel":
		_, err = w.srv.WriteAuthorizationModel(ctx, &openfgav1.WriteAuthorizationModelRequest{StoreId: sid, SchemaVersion: "1.1",
			TypeDefinitions: templateProto(call.Template)})
	case "ReadAuthorizationModel":
		_, err = w.srv.ReadAuthorizationModel(ctx, &openfgav1.ReadAuthorizationModelRequest{StoreId: sid, Id: mid})
	case "ReadAuthorizationModels":
		_, err = w.srv.ReadAuthorizationModels(ctx, &openfgav1.ReadAuthorizationModelsRequest{StoreId: sid})
	case "WriteAssertions":
		_, err = w.srv.WriteAssertions(ctx, &openfgav1.WriteAssertionsRequest{StoreId: sid, AuthorizationModelId: mid,
			Assertions: []*openfgav1.Assertion{{TupleKey: &openfgav1.AssertionTupleKey{Object: "doc:1", Relation: "viewer", User: "user:u1"}, Expectation: true}}})
	case "ReadAssertions":
		_, err = w.srv.ReadAssertions(ctx, &openfgav1.ReadAssertionsRequest{StoreId: sid, AuthorizationModelId: mid})
	case "GetStore":
		_, err = w.srv.GetStore(ctx, &openfgav1.GetStoreRequest{StoreId: sid})
	case "DeleteStore":
		_, err = w.srv.DeleteStore(ctx, &openfgav1.DeleteStoreRequest{StoreId: sid})
	case "CreateStore":
		var resp *openfgav1.CreateStoreResponse
		resp, err = w.srv.CreateStore(ctx, &openfgav1.CreateStoreRequest{Name: "created-by-call"})
		if err == nil {
			createdID = resp.GetId()
		}
	case "ListStores":
		token := ""
		for page := 0; page < 50; page++ {
			var resp *openfgav1.ListStoresResponse
			resp, err = w.srv.ListStores(ctx, &openfgav1.ListStoresRequest{ContinuationToken: token})
			if err != nil {
				return err, nil, ""
			}
			for _, s := range resp.GetStores() {
				listed = append(listed, s.GetId())
			}
			token = resp.GetContinuationToken()
			if token == "" {
				break
			}
		}
		sort.Strings(listed)
	default:
		panic("unknown method " + call.Method)
	}
	return err, listed, createdID
}

// snapshot renders the observable state of a store read straight from the
// inner datastore (not recorded).
func (w *world) snapshot(storeID string) string {
	ctx := context.Background()
	var b strings.Builder
	if _, err := w.inner.GetStore(ctx, storeID); err != nil {
		b.WriteString("store: absent\n")
	} else {
		b.WriteString("store: present\n")
	}
	if it, err := w.inner.Read(ctx, storeID, storage.ReadFilter{}, storage.ReadOptions{}); err == nil {
		var keys []string
		for {
			t, err := it.Next(ctx)
			if err != nil {
				break
			}
			keys = append(keys, conv.FromTupleKey(t.GetKey()).String())
		}
		it.Stop()
		sort.Strings(keys)
		b.WriteString("tuples: " + strings.Join(keys, " ") + "\n")
	}
	models, _, _ := w.inner.ReadAuthorizationModels(ctx, storeID, storage.ReadAuthorizationModelsOptions{Pagination: storage.NewPaginationOptions(100, "")})
	for _, mo := range models {
		as, _ := w.inner.ReadAssertions(ctx, storeID, mo.GetId())
		fmt.Fprintf(&b, "model %s assertions=%d\n", mo.GetId(), len(as))
	}
	ch, _, _ := w.inner.ReadChanges(ctx, storeID, storage.ReadChangesFilter{}, storage.ReadChangesOptions{Pagination: storage.NewPaginationOptions(100, "")})
	fmt.Fprintf(&b, "changes: %d\n", len(ch))
	return b.String()
}

func (w *world) allStoreIDs() []string {
	var out []string
	token := ""
	for {
		stores, next, err := w.inner.ListStores(context.Background(), storage.ListStoresOptions{Pagination: storage.NewPaginationOptions(100, token)})
		if err != nil {
			panic(err)
		}
		for _, s := range stores {
			out = append(out, s.GetId())
		}
		if next == "" {
			break
		}
		token = next
	}
	sort.Strings(out)
	return out
}

func setup(c Case) (*world, *fw.Failure) {
	ctx := context.Background()
	inner := memory.New()
	rec := &recDS{OpenFGADatastore: inner}
	if _, err := inner.CreateStore(ctx, &openfgav1.Store{Id: acStoreID, Name: "access-control"}); err != nil {
		return nil, fw.Failf("harness/setup", "create access-control store: %v", err)
	}
	acm := &openfgav1.AuthorizationModel{Id: acModelID, SchemaVersion: "1.1", TypeDefinitions: acProto.GetTypeDefinitions()}
	if err := inner.WriteAuthorizationModel(ctx, acStoreID, acm); err != nil {
		return nil, fw.Failf("harness/setup", "write access-control model: %v", err)
	}
	srv, err := server.NewServerWithOpts(
		server.WithDatastore(rec),
		server.WithExperimentals("enable-access-control"),
		server.WithAccessControlParams(true, acStoreID, acModelID, "oidc"),
	)
	if err != nil {
		inner.Close()
		return nil, fw.Failf("harness/setup", "server: %v", err)
	}
	w := &world{rec: rec, inner: inner, srv: srv, deleted: map[string]bool{}}
	if !srv.IsAccessControlEnabled() {
		w.close()
		return nil, fw.Failf("harness/setup", "access control is not enabled")
	}
	// Setup goes through the API (so that models and grant tuples are validated)
	// with the internal "skip authorization" marker.
	skip := authclaims.ContextWithSkipAuthzCheck(ctx, true)
	for i, sp := range c.Stores {
		sid := targetIDs[i]
		if _, err := inner.CreateStore(ctx, &openfgav1.Store{Id: sid, Name: fmt.Sprintf("target-%d", i)}); err != nil {
			w.close()
			return nil, fw.Failf("harness/setup", "create store: %v", err)
		}
		resp, err := srv.WriteAuthorizationModel(skip, &openfgav1.WriteAuthorizationModelRequest{StoreId: sid, SchemaVersion: "1.1", TypeDefinitions: templateProto(sp.Template)})
		if err != nil {
			w.close()
			return nil, fw.Failf("harness/setup", "write model of template %d: %v", sp.Template, err)
		}
		w.models = append(w.models, resp.GetAuthorizationModelId())
		w.curTpl = append(w.curTpl, sp.Template)
		if len(sp.Seed) > 0 {
			if _, err := srv.Write(skip, &openfgav1.WriteRequest{StoreId: sid, Writes: &openfgav1.WriteRequestWrites{TupleKeys: conv.TupleKeys(sp.Seed)}}); err != nil {
				w.close()
				return nil, fw.Failf("harness/setup", "seed tuples %v: %v", sp.Seed, err)
			}
		}
	}
	if g := substTuples(c.Grants); len(g) > 0 {
		if _, err := srv.Write(skip, &openfgav1.WriteRequest{StoreId: acStoreID, AuthorizationModelId: acModelID,
			Writes: &openfgav1.WriteRequestWrites{TupleKeys: conv.TupleKeys(g)}}); err != nil {
			w.close()
			return nil, fw.Failf("harness/setup", "write grants %v: %v", g, err)
		}
	}
	rec.take()
	return w, nil
}

func (w *world) close() {
	w.srv.Close()
	w.inner.Close()
}

// grantKind labels what kind of grants the caller holds relative to the target
// of the call (coarse; for the class histogram and the NT rule).
func grantKind(c Case, call Call) string {
	if call.Caller == callerEmpty || call.Caller == callerNone {
		return "no-identity"
	}
	user := "application:" + call.Caller
	target := fmt.Sprintf("$%d", call.Store)
	var onTarget, onTargetModule, onSystem, onOther bool
	for _, g := range c.Grants {
		if g.User != user && !(g.User == "application:*") {
			continue
		}
		typ, id := m.SplitObject(g.Object)
		switch {
		case typ == "system":
			onSystem = true
		case isSystemMethod(call.Method):
			onOther = true
		case typ == "store" && id == target:
			onTarget = true
		case typ == "module" && strings.HasPrefix(id, target+"|"):
			onTargetModule = true
		default:
			onOther = true
		}
	}
	switch {
	case isSystemMethod(call.Method) && onSystem:
		return "system"
	case isSystemMethod(call.Method) && onOther:
		return "store-grants-only"
	case onTarget:
		return "target-store"
	case onSystem:
		return "system"
	case onTargetModule:
		return "module-only"
	case onOther:
		return "other-store-only"
	}
	return "none"
}

func contains(xs []string, x string) bool {
	for _, y := range xs {
		if x == y {
			return true
		}
	}
	return false
}

func describe(c Case, call Call) string {
	return fmt.Sprintf("call=%+v\ngrants=%v\nstores=%+v", call, c.Grants, c.Stores)
}

func checkC26(env *fw.Env, c Case) *fw.Failure {
	if len(c.Stores) < 1 || len(c.Stores) > 3 {
		env.Rec.Discard("bad-store-count")
		return nil
	}
	for _, sp := range c.Stores {
		if sp.Template < 0 || sp.Template >= len(templates) {
			env.Rec.Discard("bad-template")
			return nil
		}
	}
	for _, call := range c.Calls {
		if call.Template < 0 || call.Template >= len(templates) || methodRelation[call.Method] == "" {
			env.Rec.Discard("bad-call")
			return nil
		}
	}
	w, f := setup(c)
	if f != nil {
		return f
	}
	defer w.close()
	orc := &oracle{grants: substTuples(c.Grants)}

	var classes []string
	nt := false
	var sample map[string]any
	var pendingKnown *fw.Failure

	for ci, call := range c.Calls {
		if call.Store < 0 || call.Store >= len(c.Stores) {
			env.Rec.Add("calls_skipped_bad_store", 1)
			continue
		}
		sid := targetIDs[call.Store]
		system := isSystemMethod(call.Method)
		rel := methodRelation[call.Method]
		if !system && w.deleted[sid] && call.Method == "Write" {
			// The model of a deleted store may be gone; Write resolves it before authorizing.
			env.Rec.Add("calls_skipped_write_after_delete", 1)
			continue
		}
		identity := call.Caller == callerA || call.Caller == callerB

		// ---- expectation ----
		granted, definite := false, true // definite=false: only "not granted => denied" is asserted
		via := "store"
		if identity {
			switch {
			case system:
				granted = orc.systemGranted(call.Caller, rel)
			case call.Method == "Write":
				granted = orc.storeGranted(call.Caller, rel, sid)
				mods, ok := writeModules(w.curTpl[call.Store], call)
				if !ok {
					// a tuple of an unknown type: module resolution fails. Denied unless the
					// store-level grant exists, in which case the statement leaves it open.
					definite = !granted
					granted = false
					via = "unresolvable"
				} else if !granted && len(mods) == 1 {
					granted = orc.moduleGranted(call.Caller, sid, mods[0])
					via = "module"
				} else if !granted {
					via = fmt.Sprintf("modules=%d", len(mods))
				}
			default:
				granted = orc.storeGranted(call.Caller, rel, sid)
			}
		}
		// must-pass: granted and nothing fails. either: granted but the datastore
		// starts failing somewhere during the decision (the grant may or may not
		// have been established before the failure; what must still hold is that a
		// failure never widens access). must-deny: everything else.
		mode := "must-deny"
		switch {
		case !definite:
			mode = "open"
		case identity && granted && call.Inject == injectNone:
			mode = "must-pass"
		case identity && granted && call.Inject == injectLate:
			mode = "either"
		}

		var before string
		if !system {
			before = w.snapshot(sid)
		}
		storesBefore := w.allStoreIDs()

		w.rec.take()
		w.rec.setInject(acStoreID, call.Inject, call.InjectAfter)
		err, listed, createdID := w.invoke(call)
		hits := w.rec.hits()
		w.rec.setInject("", injectNone, 0)
		ops := w.rec.take()
		if createdID != "" {
			w.created = append(w.created, createdID)
		}

		forbidden := err != nil && status.Code(err) == forbiddenCode
		gk := grantKind(c, call)
		decision := "denied"
		switch {
		case !identity:
			decision = "denied-no-identity"
		case mode == "open":
			decision = "open"
		case mode == "either" && forbidden:
			decision = "late-error:denied"
		case mode == "either":
			decision = "late-error:passed"
		case call.Inject != injectNone && granted && hits > 0:
			decision = "denied-by-injected-error"
		case call.Inject != injectNone:
			decision = "denied+injection"
		case granted:
			decision = "granted"
		}
		classes = append(classes, call.Method+":"+decision+":"+gk)
		if call.Method == "Write" {
			classes = append(classes, "write-via:"+via+":"+decision)
		}

		if mode == "must-pass" && forbidden {
			return fw.Failf("C26/granted-call-denied", "call #%d by %s is granted by the access-control store (reference: relation %s, via %s) but was denied: %v\n%s",
				ci, call.Caller, rel, via, err, describe(c, call))
		}
		if mode == "must-deny" && !forbidden {
			sig := "C26/ungranted-call-passed-authorization"
			why := fmt.Sprintf("the access-control store does not grant %s (via %s)", rel, via)
			switch {
			case !identity:
				sig, why = "C26/no-identity-call-passed-authorization", "the call carries no client identity"
			case call.Inject != injectNone && granted:
				sig, why = "C26/decision-error-not-denied", fmt.Sprintf("every datastore operation on the access-control store failed (%s, %d operations hit) while deciding", call.Inject, hits)
			}
			return fw.Failf(sig, "call #%d by caller %q got past authorization (error: %v) although %s\n%s", ci, call.Caller, err, why, describe(c, call))
		}
		if !forbidden {
			// the call went past authorization: follow its effects
			if call.Method == "DeleteStore" && err == nil {
				w.deleted[sid] = true
			}
			if call.Method == "WriteAuthorizationModel" && err == nil {
				w.curTpl[call.Store] = call.Template
			}
			if call.Method == "ListStores" && mode != "open" {
				if f := checkListed(env, c, w, orc, call, ci, listed, mode == "must-pass", &classes); f != nil {
					if !fw.IsKnown(f.Signature) {
						return f
					}
					// a recorded open defect: keep evaluating the remaining calls, report it at the end
					if pendingKnown == nil {
						pendingKnown = f
					}
				}
			}
			continue
		}
		if mode == "open" {
			continue
		}

		// ---- the call was denied ----
		// no side effect on the target
		for _, o := range ops {
			bad := false
			switch {
			case system && call.Method == "CreateStore":
				bad = o.Name == "CreateStore"
			case system:
				bad = o.Kind == opStoreList
			case o.Store != sid:
				// operations on the access-control store are the decision itself
				bad = o.Kind == opMutation
			case o.Kind == opModelRead:
				// documented exception: Write reads the model to find the modules
				bad = call.Method != "Write"
			default:
				bad = true
			}
			if bad {
				return fw.Failf("C26/denied-call-touches-data", "denied call #%d performed datastore operation %s (%s) on store %s\nops=%v\n%s", ci, o.Name, o.Kind, o.Store, ops, describe(c, call))
			}
		}
		if !system {
			if after := w.snapshot(sid); after != before {
				return fw.Failf("C26/denied-call-changed-state", "denied call #%d changed the target store:\nbefore:\n%s\nafter:\n%s\n%s", ci, before, after, describe(c, call))
			}
		}
		if after := w.allStoreIDs(); strings.Join(after, ",") != strings.Join(storesBefore, ",") {
			return fw.Failf("C26/denied-call-changed-state", "denied call #%d changed the set of stores: %v -> %v\n%s", ci, storesBefore, after, describe(c, call))
		}

		// NT: the caller holds a grant on some store but not on the target, or only a module grant.
		if mode == "must-deny" && identity && call.Inject == injectNone && (gk == "other-store-only" || gk == "module-only") {
			if !nt {
				sample = map[string]any{"grants": tupleStrings(c.Grants), "denied_call": fmt.Sprintf("%+v", call), "grant_kind": gk}
			}
			nt = true
		}
	}
	// a module-only grant that lets a one-module write pass is non-trivial too
	for _, cl := range classes {
		if cl == "write-via:module:granted" {
			if !nt {
				sample = map[string]any{"grants": tupleStrings(c.Grants), "note": "write passed on a module grant"}
			}
			nt = true
		}
	}
	env.Rec.Case(c, nt, sample, dedupeStrings(classes)...)
	return pendingKnown
}

// checkListed: ListStores returns only stores the caller may get, and every
// store the stored grants let the caller get.
func checkListed(env *fw.Env, c Case, w *world, orc *oracle, call Call, ci int, listed []string, complete bool, classes *[]string) *fw.Failure {
	existing := w.allStoreIDs()
	var mayGet, mustGet []string
	for _, sid := range existing {
		if orc.storeGranted(call.Caller, "can_call_get_store", sid) {
			mayGet = append(mayGet, sid)
		}
		if orc.storeGrantedStored(call.Caller, "can_call_get_store", sid) {
			mustGet = append(mustGet, sid)
		}
	}
	*classes = append(*classes, fmt.Sprintf("liststores:authorized=%d", min(len(mustGet), 3)))
	if len(mayGet) > len(mustGet) {
		*classes = append(*classes, "liststores:system-admin-unlinked-stores")
	}
	var extra []string
	for _, id := range listed {
		if !contains(mayGet, id) {
			extra = append(extra, id)
		}
	}
	if len(extra) > 0 {
		sig := "C26/liststores-returns-unauthorized-store"
		if len(mustGet) == 0 {
			// structural signature: the set of authorized stores is empty and the listing is unfiltered
			sig = "C26/liststores-empty-authorized-set-returns-all"
		}
		return fw.Failf(sig, "ListStores (call #%d) by %s returned stores %v on which the caller has no can_call_get_store; returned=%v authorized(stored grants)=%v may-get=%v all=%v\n%s",
			ci, call.Caller, extra, listed, mustGet, mayGet, existing, describe(c, call))
	}
	for _, id := range mustGet {
		if complete && !contains(listed, id) {
			return fw.Failf("C26/liststores-omits-authorized-store", "ListStores (call #%d) by %s omitted store %s although the stored grants give can_call_get_store; returned=%v\n%s",
				ci, call.Caller, id, listed, describe(c, call))
		}
	}
	return nil
}

func tupleStrings(ts []m.Tuple) []string {
	out := make([]string, len(ts))
	for i, t := range ts {
		out[i] = t.String()
	}
	return out
}

func dedupeStrings(xs []string) []string {
	seen := map[string]bool{}
	var out []string
	for _, x := range xs {
		if !seen[x] {
			seen[x] = true
			out = append(out, x)
		}
	}
	return out
}

func TestC26(t *testing.T) { fw.Run(t, "C26", genC26, checkC26) }
