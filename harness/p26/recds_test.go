package p26

import (
	"context"
	"errors"
	"sync"
	"sync/atomic"

	openfgav1 "github.com/openfga/api/proto/openfga/v1"

	"github.com/openfga/openfga/pkg/storage"
)

// recDS is the recording datastore: it embeds the real datastore, logs every
// store-scoped operation (kind + store id) and can be told to fail every
// operation on one store (the access-control store) for the duration of a call.

// Operation kinds.
const (
	opTupleRead   = "tuple-read"
	opModelRead   = "model-read"
	opAssertRead  = "assertion-read"
	opChangesRead = "changelog-read"
	opStoreRead   = "store-read"
	opStoreList   = "store-list"
	opMutation    = "mutation"
)

type op struct {
	Kind  string
	Name  string
	Store string
}

var errInjected = errors.New("verif: injected datastore failure")

// Injection modes.
const (
	injectNone = ""
	injectCall = "call" // every datastore call on the store fails
	injectIter = "iter" // reads succeed, the iterators (and single-tuple reads) fail
	injectLate = "late" // the first N datastore calls on the store succeed, the later ones fail
)

type recDS struct {
	storage.OpenFGADatastore

	mu        sync.Mutex
	log       []op
	failStore string
	failMode  string
	failAfter int
	failOps   int // operations seen on failStore while a mode is set
	failHits  int // operations that were failed
}

func (d *recDS) rec(kind, name, store string) {
	d.mu.Lock()
	d.log = append(d.log, op{kind, name, store})
	d.mu.Unlock()
}

// take returns and clears the log.
func (d *recDS) take() []op {
	d.mu.Lock()
	defer d.mu.Unlock()
	l := d.log
	d.log = nil
	return l
}

func (d *recDS) setInject(store, mode string, after int) {
	d.mu.Lock()
	d.failStore, d.failMode, d.failAfter, d.failOps, d.failHits = store, mode, after, 0, 0
	d.mu.Unlock()
}

func (d *recDS) hits() int {
	d.mu.Lock()
	defer d.mu.Unlock()
	return d.failHits
}

// inject reports the injection mode that applies to an operation on store.
func (d *recDS) inject(store string) string {
	d.mu.Lock()
	defer d.mu.Unlock()
	if d.failMode == injectNone || store != d.failStore {
		return injectNone
	}
	d.failOps++
	if d.failMode == injectLate {
		if d.failOps <= d.failAfter {
			return injectNone
		}
		d.failHits++
		return injectCall
	}
	d.failHits++
	return d.failMode
}

// failingIter fails until it is stopped (after Stop an iterator must report
// ErrIteratorDone, per the storage.Iterator contract).
type failingIter struct{ stopped atomic.Bool }

func (f *failingIter) Next(context.Context) (*openfgav1.Tuple, error) {
	if f.stopped.Load() {
		return nil, storage.ErrIteratorDone
	}
	return nil, errInjected
}
func (f *failingIter) Head(ctx context.Context) (*openfgav1.Tuple, error) { return f.Next(ctx) }
func (f *failingIter) Stop()                                              { f.stopped.Store(true) }
func (f *failingIter) IsOrdered() bool                                    { return false }

func (d *recDS) Read(ctx context.Context, store string, f storage.ReadFilter, o storage.ReadOptions) (storage.TupleIterator, error) {
	d.rec(opTupleRead, "Read", store)
	switch d.inject(store) {
	case injectCall:
		return nil, errInjected
	case injectIter:
		return &failingIter{}, nil
	}
	return d.OpenFGADatastore.Read(ctx, store, f, o)
}

func (d *recDS) ReadPage(ctx context.Context, store string, f storage.ReadFilter, o storage.ReadPageOptions) ([]*openfgav1.Tuple, string, error) {
	d.rec(opTupleRead, "ReadPage", store)
	if d.inject(store) != injectNone {
		return nil, "", errInjected
	}
	return d.OpenFGADatastore.ReadPage(ctx, store, f, o)
}

func (d *recDS) ReadUserTuple(ctx context.Context, store string, f storage.ReadUserTupleFilter, o storage.ReadUserTupleOptions) (*openfgav1.Tuple, error) {
	d.rec(opTupleRead, "ReadUserTuple", store)
	if d.inject(store) != injectNone {
		return nil, errInjected
	}
	return d.OpenFGADatastore.ReadUserTuple(ctx, store, f, o)
}

func (d *recDS) ReadUsersetTuples(ctx context.Context, store string, f storage.ReadUsersetTuplesFilter, o storage.ReadUsersetTuplesOptions) (storage.TupleIterator, error) {
	d.rec(opTupleRead, "ReadUsersetTuples", store)
	switch d.inject(store) {
	case injectCall:
		return nil, errInjected
	case injectIter:
		return &failingIter{}, nil
	}
	return d.OpenFGADatastore.ReadUsersetTuples(ctx, store, f, o)
}

func (d *recDS) ReadStartingWithUser(ctx context.Context, store string, f storage.ReadStartingWithUserFilter, o storage.ReadStartingWithUserOptions) (storage.TupleIterator, error) {
	d.rec(opTupleRead, "ReadStartingWithUser", store)
	switch d.inject(store) {
	case injectCall:
		return nil, errInjected
	case injectIter:
		return &failingIter{}, nil
	}
	return d.OpenFGADatastore.ReadStartingWithUser(ctx, store, f, o)
}

func (d *recDS) Write(ctx context.Context, store string, del storage.Deletes, w storage.Writes, opts ...storage.TupleWriteOption) error {
	d.rec(opMutation, "Write", store)
	if d.inject(store) != injectNone {
		return errInjected
	}
	return d.OpenFGADatastore.Write(ctx, store, del, w, opts...)
}

func (d *recDS) ReadAuthorizationModel(ctx context.Context, store, id string) (*openfgav1.AuthorizationModel, error) {
	d.rec(opModelRead, "ReadAuthorizationModel", store)
	if d.inject(store) == injectCall {
		return nil, errInjected
	}
	return d.OpenFGADatastore.ReadAuthorizationModel(ctx, store, id)
}

func (d *recDS) ReadAuthorizationModels(ctx context.Context, store string, o storage.ReadAuthorizationModelsOptions) ([]*openfgav1.AuthorizationModel, string, error) {
	d.rec(opModelRead, "ReadAuthorizationModels", store)
	if d.inject(store) == injectCall {
		return nil, "", errInjected
	}
	return d.OpenFGADatastore.ReadAuthorizationModels(ctx, store, o)
}

func (d *recDS) FindLatestAuthorizationModel(ctx context.Context, store string) (*openfgav1.AuthorizationModel, error) {
	d.rec(opModelRead, "FindLatestAuthorizationModel", store)
	if d.inject(store) == injectCall {
		return nil, errInjected
	}
	return d.OpenFGADatastore.FindLatestAuthorizationModel(ctx, store)
}

func (d *recDS) WriteAuthorizationModel(ctx context.Context, store string, model *openfgav1.AuthorizationModel) error {
	d.rec(opMutation, "WriteAuthorizationModel", store)
	return d.OpenFGADatastore.WriteAuthorizationModel(ctx, store, model)
}

func (d *recDS) WriteAssertions(ctx context.Context, store, modelID string, as []*openfgav1.Assertion) error {
	d.rec(opMutation, "WriteAssertions", store)
	return d.OpenFGADatastore.WriteAssertions(ctx, store, modelID, as)
}

func (d *recDS) ReadAssertions(ctx context.Context, store, modelID string) ([]*openfgav1.Assertion, error) {
	d.rec(opAssertRead, "ReadAssertions", store)
	return d.OpenFGADatastore.ReadAssertions(ctx, store, modelID)
}

func (d *recDS) ReadChanges(ctx context.Context, store string, f storage.ReadChangesFilter, o storage.ReadChangesOptions) ([]*openfgav1.TupleChange, string, error) {
	d.rec(opChangesRead, "ReadChanges", store)
	return d.OpenFGADatastore.ReadChanges(ctx, store, f, o)
}

func (d *recDS) CreateStore(ctx context.Context, s *openfgav1.Store) (*openfgav1.Store, error) {
	d.rec(opMutation, "CreateStore", s.GetId())
	return d.OpenFGADatastore.CreateStore(ctx, s)
}

func (d *recDS) DeleteStore(ctx context.Context, id string) error {
	d.rec(opMutation, "DeleteStore", id)
	return d.OpenFGADatastore.DeleteStore(ctx, id)
}

func (d *recDS) GetStore(ctx context.Context, id string) (*openfgav1.Store, error) {
	d.rec(opStoreRead, "GetStore", id)
	return d.OpenFGADatastore.GetStore(ctx, id)
}

func (d *recDS) ListStores(ctx context.Context, o storage.ListStoresOptions) ([]*openfgav1.Store, string, error) {
	d.rec(opStoreList, "ListStores", "")
	return d.OpenFGADatastore.ListStores(ctx, o)
}
