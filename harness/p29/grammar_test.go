package p29

// The documented grammar of tuple / object / user strings, written from the documentation only:
//
//   - property C29: "The validity checks accept exactly the documented grammar: one type prefix, at
//     most one relation, and no spaces or control characters."
//   - pkg/tuple doc comments:
//     IsValidObject   "A valid object contains exactly one `:` and no `#` or spaces."
//     IsValidRelation "does not contain any `:`, `#`, `@`, or spaces."
//     IsValidUser     "A valid user contains at most one `:`, at most one `#` and no spaces."
//     IsObjectRelation "returns true if the given string specifies a valid object and relation."
//     IsTypedWildcard "A typed wildcard has the form 'type:*'."  IsWildcard "'*' or 'type:*'".
//     ObjectKey       "the string 'objectType:objectId'";  ToObjectRelationString "object#relation";
//     ParseTupleString "'document:1#viewer@user:jon'"; UserProtoToString "'user:maria' or 'group:fga#member'".
//   - callers (internal/validation): a user is '*', an object 'type:id', a typed wildcard 'type:*' or
//     a userset 'type:id#relation'; schema 1.0 additionally allows a bare user id.
//
// Resulting grammar (every component is non-empty; no component contains U+0020 or a control
// character, category Cc = U+0000-001F, U+007F-009F):
//
//	type, id   := no ':' and no '#'
//	relation   := no ':', no '#', no '@'
//	userid     := no ':' and no '#'                    (bare id, no type prefix)
//	object     := type ':' id                          (exactly one ':')
//	userset    := object '#' relation                  (exactly one '#')
//	user       := '*' | userid | object | userset      (a typed wildcard is the object 'type:*')
//	tuple      := object '#' relation '@' user
//
// The verdict is three-valued: the documentation says "spaces" and "control characters" without
// saying whether Unicode space separators other than U+0020 (U+00A0, U+2028, U+3000, ...) or bytes
// that are not UTF-8 count, and it is silent about '*' inside the id or relation part of a userset.
// A string that would be valid except for such a character is "unspecified": nothing is asserted
// about it (it is only counted).

import (
	"strings"
	"unicode"
	"unicode/utf8"
)

type verdict int

const (
	invalid verdict = iota
	unspecified
	valid
)

func (v verdict) String() string { return [...]string{"invalid", "unspecified", "valid"}[v] }

func and3(vs ...verdict) verdict {
	out := valid
	for _, v := range vs {
		if v < out {
			out = v
		}
	}
	return out
}

func or3(vs ...verdict) verdict {
	out := invalid
	for _, v := range vs {
		if v > out {
			out = v
		}
	}
	return out
}

// isControl: Unicode general category Cc, spelled out.
func isControl(r rune) bool { return r <= 0x1f || (r >= 0x7f && r <= 0x9f) }

// isMurky: characters on which the documentation is silent (see above).
func isMurky(r rune, size int) bool {
	if r == utf8.RuneError && size <= 1 {
		return true // not UTF-8
	}
	return r != ' ' && (unicode.Is(unicode.Zs, r) || r == 0x2028 || r == 0x2029)
}

// component: a non-empty run of characters without space, control characters and the given separators.
func component(s string, seps string) verdict {
	if s == "" {
		return invalid
	}
	v := valid
	for i := 0; i < len(s); {
		r, size := utf8.DecodeRuneInString(s[i:])
		i += size
		if r == utf8.RuneError && size <= 1 {
			v = unspecified
			continue
		}
		if r == ' ' || isControl(r) || strings.ContainsRune(seps, r) {
			return invalid
		}
		if isMurky(r, size) {
			v = unspecified
		}
	}
	return v
}

func typeG(s string) verdict     { return component(s, ":#") }
func idG(s string) verdict       { return component(s, ":#") }
func relationG(s string) verdict { return component(s, ":#@") }
func userIDG(s string) verdict   { return component(s, ":#") }

func objectG(s string) (v verdict, typ, id string) {
	if strings.Count(s, ":") != 1 || strings.Contains(s, "#") {
		return invalid, "", ""
	}
	typ, id, _ = strings.Cut(s, ":")
	return and3(typeG(typ), idG(id)), typ, id
}

func usersetG(s string) (v verdict, obj, rel string) {
	if strings.Count(s, "#") != 1 {
		return invalid, "", ""
	}
	obj, rel, _ = strings.Cut(s, "#")
	ov, _, id := objectG(obj)
	v = and3(ov, relationG(rel))
	if v != invalid && starInUserset(id, rel) {
		// Documentation gap, not a defect: composing the documented object and relation grammars would
		// accept 'type:*#rel', 'type:a*#rel' and 'type:id#r*', but a wildcard inside a userset is
		// meaningless and the repository deliberately refuses it. A userset whose ONLY problem is a '*'
		// in its id or relation part is therefore unspecified (counted, never asserted).
		v = unspecified
	}
	return v, obj, rel
}

func starInUserset(id, rel string) bool {
	return strings.Contains(id, "*") || strings.Contains(rel, "*")
}

// usersetStarOnly reports whether s is a userset that is unspecified only because of a '*' in its id
// or relation part (class label).
func usersetStarOnly(s string) bool {
	if strings.Count(s, "#") != 1 {
		return false
	}
	obj, rel, _ := strings.Cut(s, "#")
	ov, _, id := objectG(obj)
	return and3(ov, relationG(rel)) == valid && starInUserset(id, rel)
}

func userG(s string) verdict {
	if s == "*" {
		return valid
	}
	ov, _, _ := objectG(s)
	uv, _, _ := usersetG(s)
	return or3(userIDG(s), ov, uv)
}

// tupleG: the object cannot contain '#', so the first '#' ends it; the relation cannot contain '@',
// so the first '@' after that ends the relation: the decomposition is unique.
func tupleG(s string) (v verdict, obj, rel, user string) {
	obj, rest, ok := strings.Cut(s, "#")
	if !ok {
		return invalid, "", "", ""
	}
	rel, user, ok = strings.Cut(rest, "@")
	if !ok {
		return invalid, "", "", ""
	}
	ov, _, _ := objectG(obj)
	return and3(ov, relationG(rel), userG(user)), obj, rel, user
}

// typedWildcardG: "has the form 'type:*'".
func typedWildcardG(s string) verdict {
	t, ok := strings.CutSuffix(s, ":*")
	if !ok || t == "" {
		return invalid
	}
	if strings.Contains(t, ":") {
		return unspecified // 'a:b:*': is 'a:b' a type? the form is not defined further
	}
	return valid
}

func wildcardG(s string) verdict {
	if s == "*" {
		return valid
	}
	return typedWildcardG(s)
}

// special reports the characters that play a role in the grammar.
func isSpecial(r rune, size int) bool {
	return strings.ContainsRune(":#@*|", r) || r == ' ' || isControl(r) || isMurky(r, size)
}

func plain(s string) bool {
	if s == "" {
		return false
	}
	for i := 0; i < len(s); {
		r, size := utf8.DecodeRuneInString(s[i:])
		i += size
		if isSpecial(r, size) {
			return false
		}
	}
	return true
}

func plainObject(s string) bool {
	t, id, ok := strings.Cut(s, ":")
	return ok && plain(t) && (plain(id) || id == "*")
}

func plainUser(s string) bool {
	if s == "*" || plain(s) || plainObject(s) {
		return true
	}
	o, r, ok := strings.Cut(s, "#")
	return ok && plainObject(o) && !strings.HasSuffix(o, ":*") && plain(r)
}

// canonical: the string is one of the textbook shapes (id, type:id, type:*, *, type:id#rel,
// type:id#rel@user) whose components contain no separator, space, control or murky character,
// i.e. every separator sits in its canonical position.
func canonical(s string) bool {
	if plainUser(s) {
		return true
	}
	o, rest, ok := strings.Cut(s, "#")
	if !ok || !plainObject(o) || strings.HasSuffix(o, ":*") {
		return false
	}
	r, u, ok := strings.Cut(rest, "@")
	return ok && plain(r) && plainUser(u)
}

func hasSpecial(s string) bool {
	for i := 0; i < len(s); {
		r, size := utf8.DecodeRuneInString(s[i:])
		i += size
		if isSpecial(r, size) {
			return true
		}
	}
	return false
}

// nonCanonical is the NT predicate of DESIGN.md: the string contains at least one separator
// (or space / control) character in a non-canonical position.
func nonCanonical(s string) bool { return hasSpecial(s) && !canonical(s) }
