// Package p29 checks property C29: tuple and user string encodings round-trip, and the validity
// predicates of pkg/tuple accept exactly the documented grammar.
//
// Statement: "Rendering a valid tuple, object, userset or typed wildcard to its string form and
// parsing it back yields the original value, and user values convert losslessly between their
// structured and string forms. The validity checks accept exactly the documented grammar: one type
// prefix, at most one relation, and no spaces or control characters."
//
// Code under test: /repo/pkg/tuple/tuple.go. The reference grammar is in grammar_test.go.
package p29

import (
	"encoding/json"
	"fmt"
	"strconv"
	"strings"
	"testing"
	"unicode/utf8"

	openfgav1 "github.com/openfga/api/proto/openfga/v1"
	"google.golang.org/protobuf/proto"
	"pgregory.net/rapid"

	"github.com/openfga/openfga/pkg/tuple"
	"github.com/openfga/openfga/verifharness/fw"
)

// ---------------------------------------------------------------------------------------------
// Case
// ---------------------------------------------------------------------------------------------

// Case: S and Left are arbitrary byte strings stored Go-quoted in ASCII (strconv.QuoteToASCII), so
// that strings that are not UTF-8 survive the JSON round trip of replay files. The other fields are
// the components of a structured value (valid UTF-8).
type Case struct {
	S string `json:"s"` // quoted arbitrary string: fed to every predicate, splitter and parser

	// structured tuple: object Type:ID, relation Rel, user of kind UKind, optional condition
	Type  string `json:"type"`
	ID    string `json:"id"`
	Rel   string `json:"rel"`
	UKind string `json:"ukind"` // object | userset | wildcard | star | userid
	UType string `json:"utype,omitempty"`
	UID   string `json:"uid,omitempty"`
	URel  string `json:"urel,omitempty"`
	Cond  string `json:"cond,omitempty"`

	Left string `json:"left"` // quoted arbitrary left-hand side for ToObjectRelationString(Left, Rel)
}

func quote(s string) string { return strconv.QuoteToASCII(s) }

func unquote(q string) (string, bool) {
	s, err := strconv.Unquote(q)
	return s, err == nil
}

// ---------------------------------------------------------------------------------------------
// Generator
// ---------------------------------------------------------------------------------------------

// uni draws 0..n-1 (n <= 1024) uniformly from ten fair coin flips (rapid's integer and index draws
// are deliberately biased towards small values, which would skew the class mix).
func uni(t *rapid.T, label string, n int) int {
	v := 0
	for i := 0; i < 10; i++ {
		if rapid.Bool().Draw(t, label) {
			v |= 1 << i
		}
	}
	return v * n / 1024
}

var (
	plainRunes = []rune("abcdefghijklmnopqrstuvwxyz0123456789_-.ABC\u00e9\u0145\u65e5\U0001F600")
	// legal but unusual characters per component (legal according to the documented grammar)
	oddTypeID = []string{"@", "*", "|", "=", "/", "+", "\u200b", "\ufeff", "\u00f1"}
	oddRel    = []string{"*", "|", "=", "/", "\u200b"}
	// characters inserted by edits: separators, space, control (C0, DEL, C1), multi-byte, murky
	// (Unicode space separators), broken UTF-8
	hostile = []string{":", ":", "#", "#", "@", "@", "*", "*", "|", " ", " ", "\t", "\n", "\r", "\x00", "\x1f", "\x7f",
		"\u0085", "\u009f", "\u00a0", "\u2028", "\u3000", "\u202f", "\u200b", "\u00e9", "\u0145", "\u65e5", "\U0001F600",
		"\xff", "\x85", "\xc5", "\xe6\x97"}
	fixedStrings = []string{"", "*", ":", "#", "@", " ", ":*", "*:*", "a:*", "a:*#b", "a:b#*", "a:b*#c", "a:b#c*", "a*:b#c", "a:b#c@d",
		"a:b#@", "a#b:c", "group#member:fga", "a::b", "a:b:c", "a:b#c#d", "a:b#", "a:#b", ":a", "a:", "#a", "a#", "@a", "a@b", "a@b:c",
		"a:b#c@d:e#f@g", "a:b#c@*", "a:b#c@d:*", "a:b#c@e", "a b", "a:b c", "a:b\n", "\x00", "a:b#c@d:e#f", "a:b#c@@", "a:b#c@", "a:b@c#d"}
)

func genPlain(t *rapid.T, label string, min, max int) string {
	return rapid.StringOfN(rapid.RuneFrom(plainRunes), min, max, -1).Draw(t, label)
}

// genComponent draws a grammar-valid component: mostly plain, sometimes with a legal odd character.
func genComponent(t *rapid.T, label string, odd []string) string {
	s := genPlain(t, label, 1, 6)
	if uni(t, label+"Odd", 100) < 20 {
		o := odd[uni(t, label+"OddCh", len(odd))]
		switch uni(t, label+"OddPos", 4) {
		case 0:
			s = o + s
		case 1:
			s = s + o
		case 2:
			s = o
		default:
			r := []rune(s)
			i := uni(t, label+"OddAt", len(r)+1)
			s = string(r[:i]) + o + string(r[i:])
		}
	}
	return s
}

func genUserString(t *rapid.T, label string, kind int) string {
	switch kind {
	case 0:
		return "*"
	case 1:
		return genComponent(t, label+"UID", oddTypeID)
	case 2:
		return genComponent(t, label+"UT", oddTypeID) + ":*"
	case 3:
		return genComponent(t, label+"UT", oddTypeID) + ":" + genComponent(t, label+"UI", oddTypeID)
	}
	return genComponent(t, label+"UT", oddTypeID) + ":" + genComponent(t, label+"UI", oddTypeID) + "#" + genComponent(t, label+"UR", oddRel)
}

// genString draws the arbitrary string: a well-formed template (or soup) followed by 0-2 edits that
// put separators, spaces, control, multi-byte, murky or broken characters at separator-adjacent,
// boundary or random positions, delete a byte, or duplicate/replace a separator.
func genString(t *rapid.T) string {
	var s string
	switch k := uni(t, "shape", 20); {
	case k < 2:
		s = genUserString(t, "s", 1)
	case k < 5:
		s = genUserString(t, "s", 3)
	case k < 6:
		s = genUserString(t, "s", 2)
	case k < 10:
		s = genUserString(t, "s", 4)
	case k < 15:
		s = genUserString(t, "sO", 3) + "#" + genComponent(t, "sR", oddRel) + "@" + genUserString(t, "sU", uni(t, "sUK", 5))
	case k < 17:
		n := uni(t, "soupLen", 10)
		var sb strings.Builder
		for i := 0; i < n; i++ {
			if rapid.Bool().Draw(t, "soupHostile") {
				sb.WriteString(hostile[uni(t, "soupCh", len(hostile))])
			} else {
				sb.WriteRune(plainRunes[uni(t, "soupPl", len(plainRunes))])
			}
		}
		s = sb.String()
	case k < 19:
		s = fixedStrings[uni(t, "fixed", len(fixedStrings))]
	default:
		s = rapid.String().Draw(t, "anyString")
	}
	nEdits := []int{0, 0, 1, 1, 1, 1, 2, 2}[uni(t, "nEdits", 8)]
	for e := 0; e < nEdits; e++ {
		// position: start, end, next to an existing separator, or anywhere (byte offsets)
		pos := 0
		var seps []int
		for i := 0; i < len(s); i++ {
			if strings.IndexByte(":#@*", s[i]) >= 0 {
				seps = append(seps, i)
			}
		}
		switch w := uni(t, "editWhere", 8); {
		case w == 0:
			pos = 0
		case w == 1:
			pos = len(s)
		case w < 5 && len(seps) > 0:
			pos = seps[uni(t, "editSep", len(seps))] + uni(t, "editSide", 2)
		default:
			pos = uni(t, "editAt", len(s)+1)
		}
		switch op := uni(t, "editOp", 10); {
		case op < 6:
			s = s[:pos] + hostile[uni(t, "editCh", len(hostile))] + s[pos:]
		case op < 7 && len(s) > 0:
			if pos >= len(s) {
				pos = len(s) - 1
			}
			s = s[:pos] + s[pos+1:]
		case op < 9 && len(seps) > 0:
			i := seps[uni(t, "editDup", len(seps))]
			s = s[:i] + s[i:i+1] + s[i:]
		case len(seps) > 0:
			i := seps[uni(t, "editRepl", len(seps))]
			s = s[:i] + string(":#@*"[uni(t, "editReplCh", 4)]) + s[i+1:]
		default:
			s = s[:pos] + hostile[uni(t, "editCh", len(hostile))] + s[pos:]
		}
	}
	return s
}

func gen(t *rapid.T) Case {
	c := Case{S: quote(genString(t))}
	c.Type = genComponent(t, "type", oddTypeID)
	c.ID = genComponent(t, "id", oddTypeID)
	c.Rel = genComponent(t, "rel", oddRel)
	c.UKind = []string{"object", "object", "userset", "userset", "wildcard", "star", "userid"}[uni(t, "ukind", 7)]
	switch c.UKind {
	case "object":
		c.UType, c.UID = genComponent(t, "utype", oddTypeID), genComponent(t, "uid", oddTypeID)
	case "userset":
		c.UType, c.UID, c.URel = genComponent(t, "utype", oddTypeID), genComponent(t, "uid", oddTypeID), genComponent(t, "urel", oddRel)
	case "wildcard":
		c.UType = genComponent(t, "utype", oddTypeID)
	case "userid":
		c.UID = genComponent(t, "uid", oddTypeID)
	}
	if uni(t, "withCond", 4) == 0 {
		c.Cond = genPlain(t, "cond", 1, 6)
	}
	// left-hand side of an object#relation string: an object, an object whose type carries a relation
	// (the documented 'group#member:fga' form), or an arbitrary string
	switch uni(t, "leftKind", 4) {
	case 0:
		c.Left = quote(c.Type + ":" + c.ID)
	case 1:
		c.Left = quote(c.Type + "#" + genComponent(t, "leftRel", oddRel) + ":" + c.ID)
	default:
		c.Left = quote(genString(t))
	}
	return c
}

// ---------------------------------------------------------------------------------------------
// Oracle
// ---------------------------------------------------------------------------------------------

// Signature of the one place where the implementation and the documented grammar are known to
// disagree (known/C29-userset-relation-with-at.json); every other disagreement gets a per-predicate
// signature.
const sigAtInUsersetRelation = "C29/userset-relation-with-at-accepted"

type result struct {
	discard string
	nt      bool
	classes []string
	sample  any
	fails   []*fw.Failure
}

func (r *result) class(format string, a ...any) {
	r.classes = append(r.classes, fmt.Sprintf(format, a...))
}
func (r *result) failf(sig, format string, a ...any) {
	r.fails = append(r.fails, fw.Failf(sig, format, a...))
}

// failure returns the failure to report: an unclassified / unknown one wins over a known one, so
// that a known finding never masks a new one in the same case.
func (r *result) failure() *fw.Failure {
	var known *fw.Failure
	for _, f := range r.fails {
		if !fw.IsKnown(f.Signature) {
			return f
		}
		if known == nil {
			known = f
		}
	}
	return known
}

// usersetPart returns the part of s in which a userset would sit for the given predicate.
func classifyAccept(pred, s string) string {
	u := s
	if pred == "ParseTupleString" {
		_, _, _, u = tupleG(s)
	}
	if strings.Count(u, "#") == 1 {
		o, r, _ := strings.Cut(u, "#")
		if strings.Contains(r, "@") {
			if v, _, _ := usersetG(o + "#" + strings.ReplaceAll(r, "@", "x")); v != invalid {
				return sigAtInUsersetRelation
			}
		}
	}
	return "C29/" + pred + "/accepts-outside-documented-grammar"
}

func classifyReject(pred, s string) string {
	return "C29/" + pred + "/rejects-documented-grammar"
}

// comparePred compares one predicate's answer with the grammar's verdict.
func (r *result) comparePred(pred, s string, got bool, want verdict) {
	r.class("%s:%s", pred, want)
	switch {
	case want == unspecified:
	case got && want == invalid:
		r.failf(classifyAccept(pred, s), "%s(%q) = true, but the documented grammar rejects it", pred, s)
	case !got && want == valid:
		r.failf(classifyReject(pred, s), "%s(%q) = false, but the documented grammar accepts it", pred, s)
	}
}

func shapeClasses(r *result, s string) {
	cnt := func(ch string) string {
		switch n := strings.Count(s, ch); {
		case n >= 2:
			return "2+"
		default:
			return strconv.Itoa(n)
		}
	}
	r.class("shape:colons=%s", cnt(":"))
	r.class("shape:hashes=%s", cnt("#"))
	r.class("shape:ats=%s", cnt("@"))
	if strings.Contains(s, "*") {
		r.class("shape:has-star")
	}
	if s == "" {
		r.class("shape:empty")
		return
	}
	if strings.IndexByte(":#@", s[0]) >= 0 {
		r.class("sep-pos:leading-%c", s[0])
	}
	if strings.IndexByte(":#@", s[len(s)-1]) >= 0 {
		r.class("sep-pos:trailing-%c", s[len(s)-1])
	}
	for i := 0; i+1 < len(s); i++ {
		if strings.IndexByte(":#@", s[i]) >= 0 && strings.IndexByte(":#@", s[i+1]) >= 0 {
			r.class("sep-pos:adjacent-separators")
			break
		}
	}
	ci, hi, ai := strings.Index(s, ":"), strings.Index(s, "#"), strings.Index(s, "@")
	if hi >= 0 && ci > hi && (ai < 0 || ci < ai) {
		r.class("sep-pos:colon-after-hash")
	}
	if ai >= 0 && hi > ai {
		r.class("sep-pos:hash-after-at")
	}
	if ai >= 0 && (hi < 0 || ai < hi) {
		r.class("sep-pos:at-before-hash")
	}
	if li := strings.LastIndex(s, "#"); li >= 0 && strings.Contains(s[li:], "@") && strings.Count(s, "#") == 1 && ci >= 0 && ci < li {
		r.class("sep-pos:at-after-single-hash")
	}
	var sp, ctl, c1, mb, murkySp, bad bool
	for i := 0; i < len(s); {
		rn, size := utf8.DecodeRuneInString(s[i:])
		i += size
		switch {
		case rn == utf8.RuneError && size <= 1:
			bad = true
		case rn == ' ':
			sp = true
		case rn >= 0x80 && rn <= 0x9f:
			c1 = true
		case isControl(rn):
			ctl = true
		case isMurky(rn, size):
			murkySp = true
		case rn >= 0x80:
			mb = true
		}
	}
	for _, f := range []struct {
		on   bool
		name string
	}{{sp, "space"}, {ctl, "ascii-control"}, {c1, "c1-control"}, {mb, "multibyte"}, {murkySp, "unicode-space(unspecified)"}, {bad, "invalid-utf8(unspecified)"}} {
		if f.on {
			r.class("char:%s", f.name)
		}
	}
}

// evalString checks every law that is stated for arbitrary strings.
func evalString(r *result, s string) {
	shapeClasses(r, s)

	// --- validity predicates vs. the documented grammar ---
	ov, otyp, oid := objectG(s)
	uv, uobj, urel := usersetG(s)
	usv := userG(s)
	tv, tobj, trel, tuser := tupleG(s)
	if usersetStarOnly(s) || usersetStarOnly(tuser) {
		r.class("userset:star-in-id-or-relation(unspecified)")
	}
	r.comparePred("IsValidObject", s, tuple.IsValidObject(s), ov)
	r.comparePred("IsValidRelation", s, tuple.IsValidRelation(s), relationG(s))
	r.comparePred("IsValidUserset", s, tuple.IsValidUserset(s), uv)
	r.comparePred("IsObjectRelation", s, tuple.IsObjectRelation(s), uv)
	r.comparePred("IsValidUser", s, tuple.IsValidUser(s), usv)
	r.comparePred("IsTypedWildcard", s, tuple.IsTypedWildcard(s), typedWildcardG(s))
	r.comparePred("IsWildcard", s, tuple.IsWildcard(s), wildcardG(s))
	tk, perr := tuple.ParseTupleString(s)
	r.comparePred("ParseTupleString", s, perr == nil, tv)
	if perr == nil && tk == nil {
		r.failf("C29/ParseTupleString/nil-without-error", "ParseTupleString(%q) returned nil, nil", s)
	}

	// --- parse(s) followed by render gives s back, and the parts are the grammar's parts ---
	if perr == nil && tk != nil {
		if got := tuple.TupleKeyToString(tk); got != s {
			r.failf("C29/tuple-render-of-parse", "TupleKeyToString(ParseTupleString(%q)) = %q", s, got)
		}
		if tv == valid && (tk.GetObject() != tobj || tk.GetRelation() != trel || tk.GetUser() != tuser) {
			r.failf("C29/tuple-parse-parts", "ParseTupleString(%q) = (%q,%q,%q), the grammar's only decomposition is (%q,%q,%q)",
				s, tk.GetObject(), tk.GetRelation(), tk.GetUser(), tobj, trel, tuser)
		}
	}
	if ov == valid {
		t, id := tuple.SplitObject(s)
		if t != otyp || id != oid {
			r.failf("C29/object-split", "SplitObject(%q) = (%q,%q), want (%q,%q)", s, t, id, otyp, oid)
		}
		if got := tuple.BuildObject(t, id); got != s {
			r.failf("C29/object-roundtrip", "BuildObject(SplitObject(%q)) = %q", s, got)
		}
		if got := tuple.GetType(s); got != otyp {
			r.failf("C29/object-split", "GetType(%q) = %q, want %q", s, got, otyp)
		}
	}
	if uv == valid {
		o, rel := tuple.SplitObjectRelation(s)
		if o != uobj || rel != urel {
			r.failf("C29/userset-split", "SplitObjectRelation(%q) = (%q,%q), want (%q,%q)", s, o, rel, uobj, urel)
		}
		if got := tuple.GetRelation(s); got != urel {
			r.failf("C29/userset-split", "GetRelation(%q) = %q, want %q", s, got, urel)
		}
	}
	// documented for every string: "ToObjectRelationString ... is the inverse of SplitObjectRelation",
	// "If no relation is present, it returns the original string and an empty relation",
	// SplitObject: "'anne' returns '' and 'anne'".
	o, rel := tuple.SplitObjectRelation(s)
	if rel != "" {
		if got := tuple.ToObjectRelationString(o, rel); got != s {
			r.failf("C29/userset-join-of-split", "ToObjectRelationString(SplitObjectRelation(%q)=(%q,%q)) = %q", s, o, rel, got)
		}
	} else if !strings.Contains(s, "#") && o != s {
		r.failf("C29/userset-split", "SplitObjectRelation(%q) = (%q,%q): no relation present, want the original string", s, o, rel)
	}
	st, sid := tuple.SplitObject(s)
	if !strings.Contains(s, ":") {
		if st != "" || sid != s {
			r.failf("C29/object-split", "SplitObject(%q) = (%q,%q), want (\"\",%q)", s, st, sid, s)
		}
	} else if st+":"+sid != s {
		r.failf("C29/object-split", "SplitObject(%q) = (%q,%q): does not rejoin", s, st, sid)
	}

	// --- user strings <-> parts <-> protos (valid users only) ---
	if usv == valid {
		a, b, c := tuple.ToUserParts(s)
		if got := tuple.FromUserParts(a, b, c); got != s {
			r.failf("C29/user-parts-roundtrip", "FromUserParts(ToUserParts(%q)=(%q,%q,%q)) = %q", s, a, b, c, got)
		}
		if ov == valid || uv == valid { // typed forms: object, typed wildcard, userset
			r.class("user-proto-from-string")
			p := tuple.StringToUserProto(s)
			if got := tuple.UserProtoToString(p); got != s {
				r.failf("C29/user-proto-roundtrip", "UserProtoToString(StringToUserProto(%q)) = %q", s, got)
			}
			wantT, wantID, wantRel := otyp, oid, ""
			if uv == valid {
				_, wantT, wantID = objectG(uobj)
				wantRel = urel
			}
			if a != wantT || b != wantID || c != wantRel {
				r.failf("C29/user-parts", "ToUserParts(%q) = (%q,%q,%q), want (%q,%q,%q)", s, a, b, c, wantT, wantID, wantRel)
			}
			var want *openfgav1.User
			switch {
			case wantRel != "":
				want = &openfgav1.User{User: &openfgav1.User_Userset{Userset: &openfgav1.UsersetUser{Type: wantT, Id: wantID, Relation: wantRel}}}
			case wantID == "*":
				want = &openfgav1.User{User: &openfgav1.User_Wildcard{Wildcard: &openfgav1.TypedWildcard{Type: wantT}}}
			default:
				want = &openfgav1.User{User: &openfgav1.User_Object{Object: &openfgav1.Object{Type: wantT, Id: wantID}}}
			}
			if !proto.Equal(p, want) {
				r.failf("C29/user-proto-parse", "StringToUserProto(%q) = %v, want %v", s, p, want)
			}
		}
	}
}

// evalStructured checks render-then-parse on a structured value whose components are valid
// according to the grammar (anything else is outside "valid v" and skipped).
func evalStructured(r *result, c Case, left string) (rendered string) {
	if typeG(c.Type) != valid || idG(c.ID) != valid || relationG(c.Rel) != valid {
		r.class("structured:skipped(invalid-component)")
		return ""
	}
	// object
	obj := tuple.BuildObject(c.Type, c.ID)
	if want := c.Type + ":" + c.ID; obj != want {
		r.failf("C29/object-render", "BuildObject(%q,%q) = %q, want %q", c.Type, c.ID, obj, want)
		return ""
	}
	if got := tuple.ObjectKey(&openfgav1.Object{Type: c.Type, Id: c.ID}); got != obj {
		r.failf("C29/object-render", "ObjectKey({%q,%q}) = %q, want %q", c.Type, c.ID, got, obj)
	}
	if t, id := tuple.SplitObject(obj); t != c.Type || id != c.ID {
		r.failf("C29/object-roundtrip", "SplitObject(BuildObject(%q,%q)) = (%q,%q)", c.Type, c.ID, t, id)
	}
	if got := tuple.TypedPublicWildcard(c.Type); got != c.Type+":*" || !tuple.IsTypedWildcard(got) || !tuple.IsWildcard(got) {
		r.failf("C29/wildcard-render", "TypedPublicWildcard(%q) = %q (IsTypedWildcard=%v)", c.Type, got, tuple.IsTypedWildcard(got))
	}
	// userset: object#relation with any left-hand side
	for _, l := range []string{obj, left} {
		us := tuple.ToObjectRelationString(l, c.Rel)
		if us != l+"#"+c.Rel {
			r.failf("C29/userset-render", "ToObjectRelationString(%q,%q) = %q", l, c.Rel, us)
			continue
		}
		if o, rel := tuple.SplitObjectRelation(us); o != l || rel != c.Rel {
			sig := "C29/userset-roundtrip"
			if strings.Contains(l, "#") {
				sig = "C29/userset-roundtrip-left-with-hash"
			}
			r.failf(sig, "SplitObjectRelation(ToObjectRelationString(%q,%q)) = (%q,%q)", l, c.Rel, o, rel)
		}
		if got := tuple.GetObjectRelationAsString(&openfgav1.ObjectRelation{Object: l, Relation: c.Rel}); got != us {
			r.failf("C29/userset-render", "GetObjectRelationAsString({%q,%q}) = %q, want %q", l, c.Rel, got, us)
		}
	}
	if strings.Contains(left, "#") {
		r.class("left:with-hash")
	}
	if got := tuple.GetObjectRelationAsString(&openfgav1.ObjectRelation{Object: obj}); got != obj {
		r.failf("C29/userset-render", "GetObjectRelationAsString({%q,\"\"}) = %q, want the object", obj, got)
	}

	// user
	var user string
	var up *openfgav1.User
	switch c.UKind {
	case "object":
		if typeG(c.UType) != valid || idG(c.UID) != valid {
			r.class("structured:skipped(invalid-component)")
			return ""
		}
		user = c.UType + ":" + c.UID
		if c.UID != "*" { // the object 'type:*' is the typed wildcard, not an object value
			up = &openfgav1.User{User: &openfgav1.User_Object{Object: &openfgav1.Object{Type: c.UType, Id: c.UID}}}
		} else {
			r.class("user:object-id-is-star(proto-skipped)")
		}
	case "userset":
		if typeG(c.UType) != valid || idG(c.UID) != valid || relationG(c.URel) != valid {
			r.class("structured:skipped(invalid-component)")
			return ""
		}
		user = c.UType + ":" + c.UID + "#" + c.URel
		if usersetStarOnly(user) {
			// not a "valid v": validity of such a userset is unspecified, only the pure renderings below are checked
			r.class("user:userset-with-star(unspecified,proto-and-parse-skipped)")
		} else {
			up = &openfgav1.User{User: &openfgav1.User_Userset{Userset: &openfgav1.UsersetUser{Type: c.UType, Id: c.UID, Relation: c.URel}}}
		}
	case "wildcard":
		if typeG(c.UType) != valid {
			r.class("structured:skipped(invalid-component)")
			return ""
		}
		user = c.UType + ":*"
		up = &openfgav1.User{User: &openfgav1.User_Wildcard{Wildcard: &openfgav1.TypedWildcard{Type: c.UType}}}
	case "star":
		user = "*"
	case "userid":
		if userIDG(c.UID) != valid {
			r.class("structured:skipped(invalid-component)")
			return ""
		}
		user = c.UID
	default:
		r.class("structured:skipped(unknown-user-kind)")
		return ""
	}
	r.class("user:%s", c.UKind)
	if up != nil {
		us := tuple.UserProtoToString(up)
		if us != user {
			r.failf("C29/user-proto-render", "UserProtoToString(%v) = %q, want %q", up, us, user)
		} else if back := tuple.StringToUserProto(us); !proto.Equal(back, up) {
			r.failf("C29/user-proto-roundtrip", "StringToUserProto(UserProtoToString(%v)=%q) = %v", up, us, back)
		}
	}
	userV := userG(user) // valid, or unspecified for a userset with '*' in its id / relation
	a, b, cc := tuple.ToUserParts(user)
	if got := tuple.FromUserParts(a, b, cc); userV == valid && got != user {
		r.failf("C29/user-parts-roundtrip", "FromUserParts(ToUserParts(%q)=(%q,%q,%q)) = %q", user, a, b, cc, got)
	}
	if userV == valid && c.UKind != "star" && c.UKind != "userid" {
		urel := "" // only a userset carries a relation (other kinds ignore the field of the case)
		if c.UKind == "userset" {
			urel = c.URel
		}
		if got := tuple.FromUserParts(c.UType, orStar(c), urel); got != user {
			r.failf("C29/user-parts-render", "FromUserParts(%q,%q,%q) = %q, want %q", c.UType, orStar(c), urel, got, user)
		}
		if a != c.UType || b != orStar(c) || cc != urel {
			r.failf("C29/user-parts", "ToUserParts(%q) = (%q,%q,%q)", user, a, b, cc)
		}
	}

	// tuple
	tk := &openfgav1.TupleKey{Object: obj, Relation: c.Rel, User: user}
	if c.Cond != "" {
		tk.Condition = &openfgav1.RelationshipCondition{Name: c.Cond}
		r.class("tuple:with-condition")
	}
	rendered = tuple.TupleKeyToString(tk)
	if want := obj + "#" + c.Rel + "@" + user; rendered != want {
		r.failf("C29/tuple-render", "TupleKeyToString(%v) = %q, want %q", tk, rendered, want)
		return rendered
	}
	if got := tuple.From(tk).String(); got != rendered {
		r.failf("C29/tuple-render", "Tuple.String() = %q, TupleKeyToString = %q", got, rendered)
	}
	wc := tuple.TupleKeyWithConditionToString(tk)
	if c.Cond == "" && wc != rendered {
		r.failf("C29/tuple-render", "TupleKeyWithConditionToString without condition = %q, want %q", wc, rendered)
	}
	if c.Cond != "" && !(strings.HasPrefix(wc, rendered) && strings.Contains(wc[len(rendered):], c.Cond)) {
		r.failf("C29/tuple-render", "TupleKeyWithConditionToString(%v) = %q: must start with %q and name the condition", tk, wc, rendered)
	}
	back, err := tuple.ParseTupleString(rendered)
	switch {
	case userV != valid:
		// unspecified user (userset with '*'): acceptance is not asserted; if it parses, the parts must still be right
		if err == nil && (back.GetObject() != obj || back.GetRelation() != c.Rel || back.GetUser() != user) {
			r.failf("C29/tuple-roundtrip", "ParseTupleString(%q) = (%q,%q,%q), want (%q,%q,%q)", rendered, back.GetObject(), back.GetRelation(), back.GetUser(), obj, c.Rel, user)
		}
	case err != nil:
		r.failf(classifyReject("ParseTupleString", rendered), "ParseTupleString(TupleKeyToString(%q,%q,%q)=%q) failed: %v", obj, c.Rel, user, rendered, err)
	case back.GetObject() != obj || back.GetRelation() != c.Rel || back.GetUser() != user:
		r.failf("C29/tuple-roundtrip", "ParseTupleString(%q) = (%q,%q,%q), want (%q,%q,%q)", rendered, back.GetObject(), back.GetRelation(), back.GetUser(), obj, c.Rel, user)
	}
	// the rendered parts are valid for the predicates too
	r.comparePred("IsValidObject", obj, tuple.IsValidObject(obj), valid)
	r.comparePred("IsValidRelation", c.Rel, tuple.IsValidRelation(c.Rel), valid)
	r.comparePred("IsValidUser", user, tuple.IsValidUser(user), userV)
	return rendered
}

func orStar(c Case) string {
	if c.UKind == "wildcard" {
		return "*"
	}
	return c.UID
}

// eval is the whole check as a pure function of the case (shared by TestC29 and FuzzC29).
//
// Non-trivial (NT, DESIGN.md): the arbitrary string, or the rendered tuple of the structured value,
// contains at least one separator (':' '#' '@' '*' '|'), space, control or murky character in a
// non-canonical position, i.e. it is not one of the textbook shapes id / type:id / type:* / * /
// type:id#rel / type:id#rel@user with separator-free components. Distinct: hash of the whole case.
func eval(c Case) (res result) {
	s, ok1 := unquote(c.S)
	left, ok2 := unquote(c.Left)
	if !ok1 || !ok2 {
		res.discard = "malformed-case"
		return
	}
	evalString(&res, s)
	rendered := evalStructured(&res, c, left)
	ntS, ntR := nonCanonical(s), rendered != "" && nonCanonical(rendered)
	if ntS {
		res.class("nt:string")
	}
	if ntR {
		res.class("nt:structured")
	}
	res.nt = ntS || ntR
	if res.nt {
		res.sample = map[string]any{"s": c.S, "tuple": quote(rendered), "object": fmt.Sprint(tuple.IsValidObject(s)), "user": fmt.Sprint(tuple.IsValidUser(s)), "userset": fmt.Sprint(tuple.IsValidUserset(s))}
	}
	return
}

func check(env *fw.Env, c Case) *fw.Failure {
	r := eval(c)
	if f := r.failure(); f != nil {
		return f
	}
	if r.discard != "" {
		env.Rec.Discard(r.discard)
		return nil
	}
	env.Rec.Case(c, r.nt, r.sample, r.classes...)
	return nil
}

func TestC29(t *testing.T) { fw.Run(t, "C29", gen, check) }

// TestC29CaseJSON: generated cases survive the JSON round trip the replay files rely on.
func TestC29CaseJSON(t *testing.T) {
	rapid.Check(t, func(rt *rapid.T) {
		c := gen(rt)
		b, err := json.Marshal(c)
		if err != nil {
			rt.Fatalf("marshal: %v", err)
		}
		var d Case
		if err := json.Unmarshal(b, &d); err != nil {
			rt.Fatalf("unmarshal: %v", err)
		}
		if c != d {
			rt.Fatalf("case does not survive JSON: %+v vs %+v", c, d)
		}
	})
}

// ---------------------------------------------------------------------------------------------
// Native fuzz target: same oracle (eval); the fuzzer owns the arbitrary string and the components.
// A crasher is printed as a replay file; save it and run `VERIF_REPLAY=<file> go test ./p29/ -run TestC29`.
// ---------------------------------------------------------------------------------------------

func FuzzC29(f *testing.F) {
	for i, s := range fixedStrings {
		f.Add(s, "document", "1", "viewer", uint8(i), "user", "jon", "member", "", "group#member:fga")
	}
	for _, h := range hostile {
		f.Add("document:1"+h+"#viewer@user:jon", "doc"+h, "1", "viewer", uint8(2), "group", "eng"+h, "member", "c", "a"+h+"#b")
		f.Add("document:1#viewer@group:eng#mem"+h+"ber", "doc", h+"1", "view"+h, uint8(0), "group", "eng", "mem"+h, "", h)
	}
	kinds := []string{"object", "object", "userset", "userset", "wildcard", "star", "userid"}
	f.Fuzz(func(t *testing.T, s, typ, id, rel string, ukind uint8, utype, uid, urel, cond, left string) {
		v := func(x string) string { return strings.ToValidUTF8(x, "\uFFFD") } // components must survive JSON
		c := Case{S: quote(s), Type: v(typ), ID: v(id), Rel: v(rel), UKind: kinds[int(ukind)%len(kinds)], UType: v(utype), UID: v(uid), URel: v(urel), Cond: v(cond), Left: quote(left)}
		r := eval(c)
		if fl := r.failure(); fl != nil && !fw.IsKnown(fl.Signature) {
			b, _ := json.MarshalIndent(map[string]any{"property": "C29", "signature": fl.Signature, "msg": fl.Msg, "case": c}, "", " ")
			t.Fatalf("property C29 violated [%s]: %s\nreplay file:\n%s", fl.Signature, fl.Msg, b)
		}
	})
}
