package p23

import "sort"

// This file holds the oracle: pure slice-level specifications written from the
// documented contract of each adapter (doc comments in /repo/internal/iterator,
// /repo/pkg/storage/tuple_iterators.go and the storage.Iterator interface), not
// from their code.

// Input is one input sequence of a case.
type Input struct {
	// Items are values from a small alphabet (0..5), sorted where the adapter requires it.
	Items []int `json:"items"`
	// ErrAt is -1 (never fails) or k in 0..len(Items): the input yields Items[:k]
	// and then fails with errInjected (k==len: fails instead of reporting done).
	ErrAt int `json:"err_at"`
	// Nil: the input is handed to the adapter as a nil iterator (combined / ordered).
	Nil bool `json:"nil,omitempty"`
	// Verd is the per-item verdict of the filter function(s): 0 pass, 1 reject, 2 error.
	Verd []int `json:"verd,omitempty"`
	// plain (set by the check for skipto / stream): elements are rendered as
	// their bare object so that an element can be equal to a skip target.
	plain bool
}

const (
	vPass = 0
	vFail = 1
	vErr  = 2
)

// visible returns the items an input can ever deliver.
func visible(in Input, idx int) []item {
	n := len(in.Items)
	if in.ErrAt >= 0 && in.ErrAt < n {
		n = in.ErrAt
	}
	out := make([]item, 0, n)
	for p := 0; p < n; p++ {
		out = append(out, item{V: in.Items[p], I: idx, P: p, Plain: in.plain})
	}
	return out
}

func ids(items []item) []string {
	out := make([]string, 0, len(items))
	for _, it := range items {
		out = append(out, it.id())
	}
	return out
}

// expect is what a consumer must observe from an adapter.
type expect struct {
	// items: the exact elements in order; when keyed only their keys are fixed
	// and the element itself must be an unused input element with that key.
	items []string
	keyed bool
	pool  map[string]bool
	// term: what follows the last item: nil = ErrIteratorDone, otherwise this error.
	term error
	// lenient: the adapter has no documented point at which an input failure
	// surfaces (it may look ahead), so errInjected may replace any item; it must
	// still surface before the sequence ends (term == errInjected).
	lenient bool
}

// specSequence: one input, delivered unchanged (static, tuple-key view, SkipTo base, shared clone).
func specSequence(in Input, idx int) expect {
	e := expect{items: ids(visible(in, idx))}
	if in.ErrAt >= 0 {
		e.term = errInjected
	}
	return e
}

// specConcat: "first yields all items from iter1, then all items from iter2"
// (Concat), "yields all the values from all iterators, duplicates can be
// returned" (NewCombinedIterator, nil inputs ignored), and iterators received
// on a channel in channel order (FromChannel); a failing input / an error
// message ends the sequence with that error at that point.
func specConcat(inputs []Input, msgErrAt int) expect {
	var e expect
	for i, in := range inputs {
		if i == msgErrAt {
			e.term = errMsg
			return e
		}
		if in.Nil {
			continue
		}
		e.items = append(e.items, ids(visible(in, i))...)
		if in.ErrAt >= 0 {
			e.term = errInjected
			return e
		}
	}
	if msgErrAt == len(inputs) {
		e.term = errMsg
	}
	return e
}

// specPlainFilter: NewFilteredTupleKeyIterator "filters out all tuples that don't meet the filter".
func specPlainFilter(in Input, idx int) expect {
	var e expect
	for _, it := range visible(in, idx) {
		if in.Verd[it.P] == vPass {
			e.items = append(e.items, it.id())
		}
	}
	if in.ErrAt >= 0 {
		e.term = errInjected
	}
	return e
}

// specValidate: Validate skips items the validator rejects and fails with the
// validator's error; a nil validator accepts everything.
func specValidate(in Input, idx int, nilValidator bool, errs map[string]error) expect {
	var e expect
	for _, it := range visible(in, idx) {
		v := vPass
		if !nilValidator {
			v = in.Verd[it.P]
		}
		switch v {
		case vPass:
			e.items = append(e.items, it.id())
		case vErr:
			e.term = errs[it.id()]
			return e
		}
	}
	if in.ErrAt >= 0 {
		e.term = errInjected
	}
	return e
}

// specDeferredFilter: TupleKeyConditionFilterFunc / iterator.filter: "Errors
// will be treated as false. If none of the tuples are valid AND there are
// errors, Next() will return the last error." A failure of the input itself is
// an iterator error and is returned where it happens.
func specDeferredFilter(in Input, idx int, errs map[string]error) expect {
	var e expect
	var last error
	for _, it := range visible(in, idx) {
		switch in.Verd[it.P] {
		case vPass:
			e.items = append(e.items, it.id())
		case vErr:
			last = errs[it.id()]
		}
	}
	switch {
	case in.ErrAt >= 0:
		e.term = errInjected
	case len(e.items) == 0 && last != nil:
		e.term = last
	}
	return e
}

func poolOf(inputs []Input) map[string]bool {
	pool := map[string]bool{}
	for i, in := range inputs {
		if in.Nil {
			continue
		}
		for _, it := range visible(in, i) {
			pool[it.id()] = true
		}
	}
	return pool
}

func anyErr(inputs []Input) bool {
	for _, in := range inputs {
		if !in.Nil && in.ErrAt >= 0 {
			return true
		}
	}
	return false
}

// specMerge: ordered merge of two sorted inputs: the output is sorted under the
// compare function and a pair of elements that compare equal across the two
// inputs is emitted once, i.e. every key appears max(count in a, count in b) times.
func specMerge(inputs []Input) expect {
	e := expect{keyed: true, pool: poolOf(inputs), lenient: anyErr(inputs)}
	cnt := [2]map[int]int{{}, {}}
	vals := map[int]bool{}
	for i := 0; i < 2; i++ {
		for _, it := range visible(inputs[i], i) {
			cnt[i][it.V]++
			vals[it.V] = true
		}
	}
	for _, v := range sortedKeys(vals) {
		n := cnt[0][v]
		if cnt[1][v] > n {
			n = cnt[1][v]
		}
		for k := 0; k < n; k++ {
			e.items = append(e.items, item{V: v}.key())
		}
	}
	if e.lenient {
		e.term = errInjected
	}
	return e
}

// specOrdered: NewOrderedCombinedIterator "combines a list of iterators into a
// single ordered iterator ... Iterators can yield the same value (as defined by
// mapper) multiple times, but it will only be returned once": the distinct
// mapper keys in ascending order.
func specOrdered(inputs []Input) expect {
	e := expect{keyed: true, pool: poolOf(inputs), lenient: anyErr(inputs)}
	vals := map[int]bool{}
	for i, in := range inputs {
		if in.Nil {
			continue
		}
		for _, it := range visible(in, i) {
			vals[it.V] = true
		}
	}
	for _, v := range sortedKeys(vals) {
		e.items = append(e.items, item{V: v}.key())
	}
	if e.lenient {
		e.term = errInjected
	}
	return e
}

func sortedKeys(m map[int]bool) []int {
	out := make([]int, 0, len(m))
	for k := range m {
		out = append(out, k)
	}
	sort.Ints(out)
	return out
}
