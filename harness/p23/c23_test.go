package p23

import (
	"context"
	"errors"
	"fmt"
	"sort"
	"strings"
	"testing"
	"time"

	openfgav1 "github.com/openfga/api/proto/openfga/v1"
	"pgregory.net/rapid"

	"github.com/openfga/openfga/internal/iterator"
	"github.com/openfga/openfga/pkg/storage"
	"github.com/openfga/openfga/pkg/storage/storagewrappers/sharediterator"
	"github.com/openfga/openfga/verifharness/fw"
)

// C23 — iterator adapters and shared iterators yield their specified sequences.
//
// A case names one adapter, its input sequences (one of them may fail at a
// chosen position) and a call script of Next/Head/Stop (+SkipTo, fetch, drain
// where the adapter has them). The adapter is built through its exported
// constructor over counting fake inputs, the script is executed, and every
// observed result is compared with the slice-level specification in
// spec_test.go. Nothing is asserted after an error has been returned (no
// documented contract), except that Stop still releases every input.

// Op is one call of the script.
type Op struct {
	// K: "next", "head", "stop", "drain" (Next until the end), "skip" (SkipTo /
	// SkipToTargetObject with target doc:<T>), "fetch" (Streams.CleanDone).
	K string `json:"k"`
	// C: which clone (shared iterator only).
	C int `json:"c,omitempty"`
	// T: skip target value.
	T int `json:"t,omitempty"`
}

type Case struct {
	Adapter string  `json:"adapter"`
	Inputs  []Input `json:"inputs"`
	// Variant selects a constructor flavour: static 0 generic / 1 tuple / 2 tuple key;
	// filter: number of filter functions = 1 + Variant%2; skipto: 0 over a plain
	// iterator / 1 over FromChannel; shared: which read method (Variant%3).
	Variant int `json:"variant,omitempty"`
	// NilValidator: Validate is given a nil validator.
	NilValidator bool `json:"nil_validator,omitempty"`
	// MsgErrAt (fromchannel, stream, fanin): an error message precedes input MsgErrAt
	// on the channel (== len(Inputs): it is the last message); -1: none.
	MsgErrAt int `json:"msg_err_at"`
	// Chans (fanin): which channel carries which messages (message m is input m,
	// message len(Inputs) is the error message), in channel order.
	Chans [][]int `json:"chans,omitempty"`
	// Recv (fanin): number of messages received before the context is cancelled; -1: never cancelled.
	Recv int `json:"recv,omitempty"`
	// Clones (shared): number of consumers.
	Clones int  `json:"clones,omitempty"`
	Script []Op `json:"script"`
}

// rapid favours the front of a sampled slice: the adapters with the largest
// state space come first, the trivial ones last.
var adapters = []string{
	"shared", "stream", "ordered", "merge", "condfilter", "fanin", "fromchannel", "shared", "filter", "skipto",
	"validate", "combined", "concat", "filtered", "shared", "tuplekey", "static",
}

var (
	hasHead    = map[string]bool{"static": true, "tuplekey": true, "combined": true, "ordered": true, "validate": true, "filtered": true, "condfilter": true, "skipto": true, "fromchannel": true, "stream": true, "shared": true}
	needSorted = map[string]bool{"merge": true, "ordered": true, "skipto": true, "stream": true}
	canFail    = map[string]bool{"tuplekey": true, "concat": true, "combined": true, "merge": true, "ordered": true, "filter": true, "validate": true, "filtered": true, "condfilter": true, "skipto": true, "fromchannel": true, "stream": true, "shared": true}
	hasVerdict = map[string]bool{"filter": true, "validate": true, "filtered": true, "condfilter": true}
	canBeNil   = map[string]bool{"combined": true, "ordered": true}
)

const maxLen = 12

func genInput(t *rapid.T, adapter string, label string) Input {
	n := rapid.IntRange(0, maxLen).Draw(t, label+"Len")
	in := Input{ErrAt: -1}
	for i := 0; i < n; i++ {
		in.Items = append(in.Items, rapid.IntRange(0, 5).Draw(t, label+"Item"))
	}
	if needSorted[adapter] {
		sort.Ints(in.Items)
	}
	if hasVerdict[adapter] {
		for i := 0; i < n; i++ {
			v := rapid.SampledFrom([]int{vPass, vPass, vPass, vFail, vFail, vErr}).Draw(t, label+"Verd")
			if adapter == "filtered" && v == vErr {
				v = vFail
			}
			in.Verd = append(in.Verd, v)
		}
	}
	return in
}

func genC23(t *rapid.T) Case {
	c := Case{MsgErrAt: -1, Recv: -1}
	c.Adapter = rapid.SampledFrom(adapters).Draw(t, "adapter")
	a := c.Adapter
	nIn := 1
	switch a {
	case "concat", "merge":
		nIn = 2
	case "combined":
		nIn = rapid.IntRange(1, 4).Draw(t, "nInputs")
	case "ordered":
		nIn = rapid.IntRange(1, 3).Draw(t, "nInputs")
	case "fromchannel", "stream":
		nIn = rapid.IntRange(0, 3).Draw(t, "nInputs")
	case "fanin":
		nIn = rapid.IntRange(0, 5).Draw(t, "nInputs")
	}
	for i := 0; i < nIn; i++ {
		in := genInput(t, a, fmt.Sprintf("in%d", i))
		if canBeNil[a] && rapid.IntRange(0, 7).Draw(t, "nil") == 0 {
			in = Input{ErrAt: -1, Nil: true}
		}
		c.Inputs = append(c.Inputs, in)
	}
	c.Variant = rapid.IntRange(0, 2).Draw(t, "variant")
	if a == "validate" {
		c.NilValidator = rapid.IntRange(0, 9).Draw(t, "nilValidator") == 0
	}

	// one injected input error: none / at 0 / strictly inside / at the end
	if canFail[a] {
		var cand []int
		for i, in := range c.Inputs {
			if !in.Nil {
				cand = append(cand, i)
			}
		}
		mode := rapid.SampledFrom([]string{"none", "none", "none", "inside", "inside", "inside", "zero", "end"}).Draw(t, "errMode")
		if mode != "none" && len(cand) > 0 {
			i := rapid.SampledFrom(cand).Draw(t, "errInput")
			n := len(c.Inputs[i].Items)
			switch {
			case mode == "inside" && n >= 2:
				c.Inputs[i].ErrAt = rapid.IntRange(1, n-1).Draw(t, "errAt")
			case mode == "zero":
				c.Inputs[i].ErrAt = 0
			default:
				c.Inputs[i].ErrAt = n
			}
		}
	}

	total := 0
	for _, in := range c.Inputs {
		total += len(in.Items)
	}

	switch a {
	case "fromchannel", "stream", "fanin":
		if rapid.IntRange(0, 3).Draw(t, "msgErr") == 0 {
			c.MsgErrAt = rapid.IntRange(0, nIn).Draw(t, "msgErrAt")
		}
	}

	switch a {
	case "fanin":
		nMsgs := nIn
		if c.MsgErrAt >= 0 {
			nMsgs++
		}
		nCh := rapid.IntRange(0, 3).Draw(t, "nChans")
		c.Chans = make([][]int, nCh)
		if nCh > 0 {
			// message order on the channels: inputs in index order, error message (index nIn) at its place
			for m := 0; m < nMsgs; m++ {
				ch := rapid.IntRange(0, nCh-1).Draw(t, "chanOf")
				c.Chans[ch] = append(c.Chans[ch], m)
			}
		} else {
			c.Inputs = nil
			c.MsgErrAt = -1
		}
		if rapid.Bool().Draw(t, "cancel") {
			c.Recv = rapid.IntRange(0, nMsgs).Draw(t, "recv")
		}
		return c
	case "shared":
		c.Clones = rapid.IntRange(2, 4).Draw(t, "clones")
		if fw.TierIsThorough() && rapid.IntRange(0, 5).Draw(t, "long") == 0 {
			// thorough tier: sequences longer than one fetch round of the shared buffer (100 items)
			in := Input{ErrAt: -1}
			n := rapid.IntRange(90, 230).Draw(t, "longLen")
			for i := 0; i < n; i++ {
				in.Items = append(in.Items, rapid.IntRange(0, 5).Draw(t, "longItem"))
			}
			if rapid.Bool().Draw(t, "longErr") {
				in.ErrAt = rapid.IntRange(1, n-1).Draw(t, "longErrAt")
			}
			c.Inputs = []Input{in}
			total = 8
		}
	}

	// call script
	nOps := rapid.IntRange(1, 2*total+8).Draw(t, "nOps")
	if a == "shared" {
		nOps = rapid.IntRange(1, c.Clones*(total+4)).Draw(t, "nOpsShared")
	}
	kinds := []string{"next", "next", "next", "next", "next", "next", "next", "next", "drain", "stop"}
	if hasHead[a] {
		kinds = append(kinds, "head", "head", "head", "head", "head")
	}
	if a == "skipto" || a == "stream" {
		kinds = append(kinds, "skip", "skip")
	}
	if a == "stream" {
		kinds = append(kinds, "fetch", "fetch", "fetch", "fetch", "fetch")
	}
	stopped := map[int]int{} // clone -> ops issued after its stop
	for i := 0; i < nOps; i++ {
		op := Op{}
		if a == "shared" {
			op.C = rapid.IntRange(0, c.Clones-1).Draw(t, "clone")
		}
		if n, ok := stopped[op.C]; ok {
			// after Stop only Next is specified ("must return ErrIteratorDone")
			if n >= 2 {
				if a == "shared" {
					continue
				}
				break
			}
			stopped[op.C] = n + 1
			op.K = "next"
			c.Script = append(c.Script, op)
			continue
		}
		op.K = rapid.SampledFrom(kinds).Draw(t, "op")
		if op.K == "skip" {
			op.T = rapid.IntRange(0, 6).Draw(t, "target")
		}
		if op.K == "stop" {
			stopped[op.C] = 0
		}
		c.Script = append(c.Script, op)
	}
	return c
}

// ---------------------------------------------------------------------------
// script runner for one iterator

type handle struct {
	next func() (string, error)
	head func() (string, error)
	stop func()
	skip func(target string) error
}

func mkHandle[T any](it storage.Iterator[T], render func(T) string, head bool) handle {
	ctx := context.Background()
	h := handle{
		next: func() (string, error) {
			v, err := it.Next(ctx)
			if err != nil {
				return "", err
			}
			return render(v), nil
		},
		stop: it.Stop,
	}
	if head {
		h.head = func() (string, error) {
			v, err := it.Head(ctx)
			if err != nil {
				return "", err
			}
			return render(v), nil
		}
	}
	return h
}

const (
	stLive = iota
	stErrored
	stStopped
)

type runner struct {
	name string // adapter (and clone) for messages and signatures
	h    handle
	e    expect
	// deferredOK: the adapter documents that pending filter errors are returned
	// when the input ends, which after Stop competes with "Next must return
	// ErrIteratorDone": either is accepted there.
	deferredOK bool

	pos      int
	state    int
	done     bool // ErrIteratorDone observed
	headSeen *string
	used     map[string]bool
	log      []string

	nNext, nHead                                     int
	sawErr, earlyStop, afterStop, reachedEnd, skipOp bool
}

func (r *runner) sig(kind string) string {
	n := r.name
	if i := strings.IndexByte(n, '['); i >= 0 {
		n = n[:i]
	}
	return "C23/" + kind + ":" + n
}

func (r *runner) fail(kind, format string, a ...any) *fw.Failure {
	return fw.Failf(r.sig(kind), "%s: %s\nexpected items %v then %s (lenient=%v)\ncalls so far: %s",
		r.name, fmt.Sprintf(format, a...), r.e.items, termString(r.e.term), r.e.lenient, strings.Join(r.log, " "))
}

func termString(err error) string {
	if err == nil {
		return "ErrIteratorDone"
	}
	return "error(" + err.Error() + ")"
}

func (r *runner) wantString() string {
	if r.pos < len(r.e.items) {
		return r.e.items[r.pos]
	}
	return termString(r.e.term)
}

// observe compares one Next (adv) or Head result with the specification.
func (r *runner) observe(call, got string, err error, adv bool) *fw.Failure {
	if err != nil {
		r.log = append(r.log, call+"->"+err.Error())
	} else {
		r.log = append(r.log, call+"->"+got)
	}
	if err != nil {
		if r.headSeen != nil {
			return r.fail("head-next-disagree", "Head returned %s but the following %s returned %v", *r.headSeen, call, err)
		}
		if errors.Is(err, storage.ErrIteratorDone) {
			if r.pos < len(r.e.items) {
				return r.fail("items-lost", "%s reported done, expected %s", call, r.wantString())
			}
			if r.e.term != nil {
				return r.fail("error-swallowed", "%s reported done, expected %s", call, r.wantString())
			}
			r.done, r.reachedEnd = true, true
			return nil
		}
		ok := (r.pos == len(r.e.items) && r.e.term != nil && errors.Is(err, r.e.term)) ||
			(r.e.lenient && errors.Is(err, errInjected))
		if !ok {
			return r.fail("unexpected-error", "%s returned error %v, expected %s", call, err, r.wantString())
		}
		r.state, r.sawErr, r.reachedEnd = stErrored, true, true
		return nil
	}
	if r.pos >= len(r.e.items) {
		return r.fail("extra-item", "%s returned %s, expected %s", call, got, r.wantString())
	}
	if r.e.keyed {
		if keyOfID(got) != r.e.items[r.pos] {
			return r.fail("wrong-item", "%s returned %s, expected an element with key %s", call, got, r.e.items[r.pos])
		}
		if !r.e.pool[got] || r.used[got] {
			return r.fail("wrong-item", "%s returned %s which is not an unused input element", call, got)
		}
	} else if got != r.e.items[r.pos] {
		return r.fail("wrong-item", "%s returned %s, expected %s", call, got, r.wantString())
	}
	if r.headSeen != nil && *r.headSeen != got {
		return r.fail("head-next-disagree", "Head returned %s but the following %s returned %s", *r.headSeen, call, got)
	}
	if adv {
		r.pos++
		r.headSeen = nil
		if r.used == nil {
			r.used = map[string]bool{}
		}
		r.used[got] = true
	} else {
		g := got
		r.headSeen = &g
	}
	return nil
}

func (r *runner) step(op Op) *fw.Failure {
	switch op.K {
	case "next":
		if r.state == stStopped {
			// storage.Iterator: "Stop terminates iteration. Any subsequent calls to Next must return ErrIteratorDone."
			r.afterStop = true
			got, err := r.h.next()
			r.log = append(r.log, fmt.Sprintf("next-after-stop->%s/%v", got, err))
			if errors.Is(err, storage.ErrIteratorDone) {
				return nil
			}
			if r.deferredOK && err != nil && !errors.Is(err, errInjected) {
				return nil
			}
			return r.fail("next-after-stop-not-done", "Next after Stop returned (%q, %v), the Iterator contract requires ErrIteratorDone", got, err)
		}
		if r.state != stLive {
			return nil
		}
		r.nNext++
		got, err := r.h.next()
		return r.observe("next", got, err, true)
	case "head":
		if r.state != stLive || r.h.head == nil {
			return nil
		}
		r.nHead++
		got, err := r.h.head()
		return r.observe("head", got, err, false)
	case "drain":
		for i := 0; r.state == stLive && !r.done && i < len(r.e.items)+3; i++ {
			r.nNext++
			got, err := r.h.next()
			if f := r.observe("next", got, err, true); f != nil {
				return f
			}
		}
		return nil
	case "skip":
		if r.state != stLive || r.h.skip == nil {
			return nil
		}
		r.skipOp = true
		target := item{V: op.T}.key()
		// specification: drop the leading elements whose object is < target
		for r.pos < len(r.e.items) && keyOfID(r.e.items[r.pos]) < target {
			r.pos++
		}
		r.headSeen = nil
		var want error
		if r.pos == len(r.e.items) {
			want = r.e.term
		}
		err := r.h.skip(target)
		r.log = append(r.log, fmt.Sprintf("skip(%s)->%v", target, err))
		if want == nil && err != nil {
			return r.fail("skip-unexpected-error", "SkipTo(%s) returned %v, expected nil", target, err)
		}
		if want != nil {
			if !errors.Is(err, want) {
				return r.fail("skip-error-swallowed", "SkipTo(%s) returned %v, expected %v", target, err, want)
			}
			r.state, r.sawErr, r.reachedEnd = stErrored, true, true
		}
		return nil
	case "stop":
		r.stopNow()
		return nil
	}
	return nil
}

func (r *runner) stopNow() {
	if r.state == stStopped {
		return
	}
	if r.state == stLive && !r.done {
		r.earlyStop = true
	}
	r.log = append(r.log, "stop")
	r.h.stop()
	r.state = stStopped
}

// ---------------------------------------------------------------------------
// building the adapter under test

type built struct {
	h          handle
	e          expect
	fakes      []stopCounter
	deferredOK bool
}

func strFake(in Input, idx int) *fake[string] {
	all := make([]string, len(in.Items))
	for p, v := range in.Items {
		all[p] = item{V: v, I: idx, P: p, Plain: in.plain}.id()
	}
	return newFake(all, in.ErrAt)
}

func tupleFake(in Input, idx int) *fake[*openfgav1.Tuple] {
	all := make([]*openfgav1.Tuple, len(in.Items))
	for p, v := range in.Items {
		all[p] = item{V: v, I: idx, P: p}.tuple()
	}
	return newFake(all, in.ErrAt)
}

func keyFake(in Input, idx int) *fake[*openfgav1.TupleKey] {
	all := make([]*openfgav1.TupleKey, len(in.Items))
	for p, v := range in.Items {
		all[p] = item{V: v, I: idx, P: p}.tupleKey()
	}
	return newFake(all, in.ErrAt)
}

func cmpKey(a, b string) int { return strings.Compare(keyOfID(a), keyOfID(b)) }

// verdicts of the filter function(s) by element identity, and one distinct error per element.
func verdictTables(in Input, idx int) (map[string]int, map[string]error) {
	verd := map[string]int{}
	errs := map[string]error{}
	for p, v := range in.Items {
		id := item{V: v, I: idx, P: p}.id()
		if p < len(in.Verd) {
			verd[id] = in.Verd[p]
		}
		errs[id] = fmt.Errorf("filter error on %s", id)
	}
	return verd, errs
}

// channelOf sends the inputs (and the error message) on a closed buffered channel.
func channelOf(c Case) (chan *iterator.Msg, []stopCounter) {
	ch := make(chan *iterator.Msg, len(c.Inputs)+1)
	var fakes []stopCounter
	for i, in := range c.Inputs {
		if i == c.MsgErrAt {
			ch <- &iterator.Msg{Err: errMsg}
		}
		f := strFake(in, i)
		fakes = append(fakes, f)
		ch <- &iterator.Msg{Iter: f}
	}
	if c.MsgErrAt == len(c.Inputs) {
		ch <- &iterator.Msg{Err: errMsg}
	}
	close(ch)
	return ch, fakes
}

func build(c Case) (*built, error) {
	ctx := context.Background()
	b := &built{}
	in0 := Input{ErrAt: -1}
	if len(c.Inputs) > 0 {
		in0 = c.Inputs[0]
	}
	switch c.Adapter {
	case "static":
		b.e = specSequence(in0, 0)
		switch c.Variant % 3 {
		case 0:
			b.h = mkHandle(storage.NewStaticIterator(strFake(in0, 0).items), renderString, true)
		case 1:
			b.h = mkHandle[*openfgav1.Tuple](storage.NewStaticTupleIterator(tupleFake(in0, 0).items), renderTuple, true)
		default:
			b.h = mkHandle[*openfgav1.TupleKey](storage.NewStaticTupleKeyIterator(keyFake(in0, 0).items), renderTupleKey, true)
		}
	case "tuplekey":
		f := tupleFake(in0, 0)
		b.fakes = []stopCounter{f}
		b.e = specSequence(in0, 0)
		b.h = mkHandle[*openfgav1.TupleKey](storage.NewTupleKeyIteratorFromTupleIterator(f), renderTupleKey, true)
	case "concat":
		f1, f2 := strFake(c.Inputs[0], 0), strFake(c.Inputs[1], 1)
		b.fakes = []stopCounter{f1, f2}
		b.e = specConcat(c.Inputs, -1)
		b.h = mkHandle(iterator.Concat[string](f1, f2), renderString, false)
	case "combined":
		var its []storage.Iterator[string]
		for i, in := range c.Inputs {
			if in.Nil {
				its = append(its, nil)
				continue
			}
			f := strFake(in, i)
			b.fakes = append(b.fakes, f)
			its = append(its, f)
		}
		b.e = specConcat(c.Inputs, -1)
		b.h = mkHandle(storage.NewCombinedIterator(its...), renderString, true)
	case "merge":
		f1, f2 := strFake(c.Inputs[0], 0), strFake(c.Inputs[1], 1)
		b.fakes = []stopCounter{f1, f2}
		b.e = specMerge(c.Inputs)
		b.h = mkHandle(iterator.Merge[string](f1, f2, cmpKey), renderString, false)
	case "ordered":
		var its []storage.TupleIterator
		for i, in := range c.Inputs {
			if in.Nil {
				its = append(its, nil)
				continue
			}
			f := tupleFake(in, i)
			b.fakes = append(b.fakes, f)
			its = append(its, f)
		}
		b.e = specOrdered(c.Inputs)
		b.h = mkHandle[*openfgav1.Tuple](storage.NewOrderedCombinedIterator(storage.ObjectMapper(), its...), renderTuple, true)
	case "filter":
		f := strFake(in0, 0)
		b.fakes = []stopCounter{f}
		verd, errs := verdictTables(in0, 0)
		b.e = specDeferredFilter(in0, 0, errs)
		b.deferredOK = true
		n := 1 + c.Variant%2
		var fns []iterator.FilterFunc[string]
		for j := 0; j < n; j++ {
			j := j
			fns = append(fns, func(s string) (bool, error) {
				// the verdict of an element is delivered by exactly one of the filter functions, the others accept it
				var p int
				fmt.Sscanf(s[strings.IndexByte(s, '.')+1:], "%d", &p)
				if p%n != j {
					return true, nil
				}
				switch verd[s] {
				case vPass:
					return true, nil
				case vFail:
					return false, nil
				}
				return false, errs[s]
			})
		}
		b.h = mkHandle(iterator.NewFilteredIterator[string](f, fns...), renderString, false)
	case "validate":
		f := strFake(in0, 0)
		b.fakes = []stopCounter{f}
		verd, errs := verdictTables(in0, 0)
		b.e = specValidate(in0, 0, c.NilValidator, errs)
		var fn func(string) (bool, error)
		if !c.NilValidator {
			fn = func(s string) (bool, error) {
				switch verd[s] {
				case vPass:
					return true, nil
				case vFail:
					return false, nil
				}
				return false, errs[s]
			}
		}
		b.h = mkHandle(iterator.Validate[string](f, fn), renderString, true)
	case "filtered":
		f := keyFake(in0, 0)
		b.fakes = []stopCounter{f}
		verd, _ := verdictTables(in0, 0)
		b.e = specPlainFilter(in0, 0)
		b.h = mkHandle[*openfgav1.TupleKey](storage.NewFilteredTupleKeyIterator(f, func(k *openfgav1.TupleKey) bool {
			return verd[renderTupleKey(k)] == vPass
		}), renderTupleKey, true)
	case "condfilter":
		f := keyFake(in0, 0)
		b.fakes = []stopCounter{f}
		verd, errs := verdictTables(in0, 0)
		b.e = specDeferredFilter(in0, 0, errs)
		b.deferredOK = true
		b.h = mkHandle[*openfgav1.TupleKey](storage.NewConditionsFilteredTupleKeyIterator(f, func(k *openfgav1.TupleKey) (bool, error) {
			id := renderTupleKey(k)
			switch verd[id] {
			case vPass:
				return true, nil
			case vFail:
				return false, nil
			}
			return false, errs[id]
		}), renderTupleKey, true)
	case "skipto":
		f := strFake(in0, 0)
		b.fakes = []stopCounter{f}
		b.e = specSequence(in0, 0)
		var base storage.Iterator[string] = f
		if c.Variant%2 == 1 {
			ch := make(chan *iterator.Msg, 1)
			ch <- &iterator.Msg{Iter: f}
			close(ch)
			base = iterator.FromChannel(ch)
		}
		b.h = mkHandle(base, renderString, true)
		b.h.skip = func(target string) error { return iterator.SkipTo(ctx, base, target) }
	case "fromchannel":
		ch, fakes := channelOf(c)
		b.fakes = fakes
		b.e = specConcat(c.Inputs, c.MsgErrAt)
		b.h = mkHandle(iterator.FromChannel(ch), renderString, true)
	default:
		return nil, fmt.Errorf("unknown adapter %q", c.Adapter)
	}
	return b, nil
}

// asyncStop: adapters that release not yet consumed inputs from a background
// goroutine (iterator.Drain); the leak check waits (bounded) for them.
var asyncStop = map[string]bool{"fromchannel": true, "stream": true, "skipto": true}

// leakCheck: after Stop every input handed to the adapter has been stopped exactly once.
func leakCheck(adapter string, fakes []stopCounter, log []string) *fw.Failure {
	wait := time.Duration(0)
	if asyncStop[adapter] {
		wait = 5 * time.Second
	}
	if !awaitStops(fakes, wait) {
		var cnt []int
		for _, f := range fakes {
			cnt = append(cnt, f.stopCount())
		}
		return fw.Failf("C23/input-not-stopped:"+adapter, "%s: after Stop some input iterator was never stopped (stop counts %v)\ncalls: %s", adapter, cnt, strings.Join(log, " "))
	}
	for i, f := range fakes {
		if n := f.stopCount(); n != 1 {
			return fw.Failf("C23/input-stopped-twice:"+adapter, "%s: input %d was stopped %d times\ncalls: %s", adapter, i, n, strings.Join(log, " "))
		}
	}
	return nil
}

// ---------------------------------------------------------------------------

type shape struct {
	nNext, nHead                                          int
	sawErr, earlyStop, afterStop, reachedEnd, skip, fetch bool
}

func (s *shape) add(r *runner) {
	s.nNext += r.nNext
	s.nHead += r.nHead
	s.sawErr = s.sawErr || r.sawErr
	s.earlyStop = s.earlyStop || r.earlyStop
	s.afterStop = s.afterStop || r.afterStop
	s.reachedEnd = s.reachedEnd || r.reachedEnd
	s.skip = s.skip || r.skipOp
}

func errClass(c Case) (string, bool) {
	for _, in := range c.Inputs {
		if in.Nil || in.ErrAt < 0 {
			continue
		}
		switch {
		case in.ErrAt == 0:
			return "err:at-0", false
		case in.ErrAt < len(in.Items):
			return "err:inside", true
		default:
			return "err:at-end", false
		}
	}
	return "err:none", false
}

func checkC23(env *fw.Env, c Case) *fw.Failure {
	if c.Adapter == "skipto" || c.Adapter == "stream" {
		c.Inputs = append([]Input(nil), c.Inputs...)
		for i := range c.Inputs {
			c.Inputs[i].plain = true
		}
	}
	var sh shape
	var extra []string
	var ntShared bool
	switch c.Adapter {
	case "stream":
		f, cl := runStream(c, &sh)
		if f != nil {
			return f
		}
		extra = cl
	case "fanin":
		f, cl := runFanIn(c)
		if f != nil {
			return f
		}
		extra = cl
	case "shared":
		f, cl, nt := runShared(c, &sh)
		if f != nil {
			return f
		}
		extra, ntShared = cl, nt
	default:
		b, err := build(c)
		if err != nil {
			env.Rec.Discard("unknown-adapter")
			return nil
		}
		r := &runner{name: c.Adapter, h: b.h, e: b.e, deferredOK: b.deferredOK}
		leakChecked := false
		for _, op := range c.Script {
			if f := r.step(op); f != nil {
				return f
			}
			// the release of the inputs is judged right after Stop: what calls
			// made after Stop do to already stopped inputs is not specified
			if r.state == stStopped && !leakChecked {
				leakChecked = true
				if f := leakCheck(c.Adapter, b.fakes, r.log); f != nil {
					return f
				}
			}
		}
		if !leakChecked {
			r.stopNow()
			if f := leakCheck(c.Adapter, b.fakes, r.log); f != nil {
				return f
			}
		}
		sh.add(r)
		if b.e.term != nil && b.e.term != errInjected && b.e.term != errMsg && r.sawErr {
			extra = append(extra, "filter-error-surfaced")
		}
	}

	ec, inside := errClass(c)
	a := c.Adapter
	classes := append([]string{"adapter:" + a, ec, a + "/" + ec}, extra...)
	mix := sh.nHead > 0 && sh.nNext > 0
	switch {
	case a == "fanin":
	case mix:
		classes = append(classes, "script:head+next", a+"/head+next")
	case sh.nNext > 0:
		classes = append(classes, "script:next-only")
	case sh.nHead > 0:
		classes = append(classes, "script:head-only")
	default:
		classes = append(classes, "script:no-reads")
	}
	if sh.earlyStop {
		classes = append(classes, "script:early-stop", a+"/early-stop")
	}
	if sh.reachedEnd {
		classes = append(classes, "script:reached-end")
	}
	if sh.sawErr {
		classes = append(classes, "script:error-observed", a+"/error-observed")
	}
	if sh.afterStop {
		classes = append(classes, "script:next-after-stop")
	}
	if sh.skip {
		classes = append(classes, "script:skip")
	}
	if sh.fetch {
		classes = append(classes, "script:fetch")
	}
	if c.MsgErrAt >= 0 {
		classes = append(classes, "msg-error")
	}

	// NT (DESIGN.md C23): the script mixes Head and Next and the error position
	// is strictly inside an input; for shared iterators also: >= 2 clones with
	// different stop points. Adapters without Head (concat, merge, filter): >= 2
	// Next calls instead of the Head/Next mix. static has no failing input:
	// Head/Next mix with an early stop. fanin has no script: cancelled midway
	// with messages on >= 2 channels.
	nt := false
	switch {
	case a == "shared":
		nt = ntShared || (mix && inside)
	case a == "fanin":
		for _, x := range extra {
			if x == "fanin:cancel-midway" {
				nt = len(c.Chans) >= 2
			}
		}
	case a == "static":
		nt = mix && sh.earlyStop
	case hasHead[a]:
		nt = mix && inside
	default:
		nt = sh.nNext >= 2 && inside
	}
	var sample any
	if nt {
		classes = append(classes, a+"/nt")
		sample = map[string]any{"adapter": a, "inputs": c.Inputs, "script": scriptString(c.Script)}
	}
	env.Rec.Case(c, nt, sample, classes...)
	return nil
}

func scriptString(s []Op) string {
	var sb strings.Builder
	for i, op := range s {
		if i > 0 {
			sb.WriteByte(' ')
		}
		sb.WriteString(op.K)
		if op.K == "skip" {
			fmt.Fprintf(&sb, "(%d)", op.T)
		}
		if op.C > 0 {
			fmt.Fprintf(&sb, "@%d", op.C)
		}
	}
	return sb.String()
}

func TestC23(t *testing.T) {
	skipForeignReplay(t, "adapter")
	fw.Run(t, "C23", genC23, checkC23)
}

// ---------------------------------------------------------------------------
// shared iterator: clones created through the shared-iterator datastore wrapper
// (identical reads share one underlying iterator), driven by one interleaved script.

func runShared(c Case, sh *shape) (*fw.Failure, []string, bool) {
	in := Input{ErrAt: -1}
	if len(c.Inputs) > 0 {
		in = c.Inputs[0]
	}
	ds := &fakeDS{items: tupleFake(in, 0).items, errAt: in.ErrAt}
	wrapped := sharediterator.NewSharedIteratorDatastore(ds, sharediterator.NewSharedIteratorDatastoreStorage())
	n := c.Clones
	if n < 1 {
		n = 1
	}
	runners := make([]*runner, n)
	var opened []int
	open := func(i int) *fw.Failure {
		if runners[i] != nil {
			return nil
		}
		it, err := openShared(wrapped, c.Variant)
		if err != nil || it == nil {
			return fw.Failf("C23/shared-open-failed", "opening clone %d: iterator %v, error %v", i, it, err)
		}
		runners[i] = &runner{name: fmt.Sprintf("shared[clone %d]", i), h: mkHandle(it, renderTuple, true), e: specSequence(in, 0)}
		opened = append(opened, i)
		return nil
	}
	anyLive := func() bool {
		for _, r := range runners {
			if r != nil && r.state != stStopped {
				return true
			}
		}
		return false
	}
	var trace []string
	lateOpen := false
	for _, op := range c.Script {
		i := op.C
		if i < 0 || i >= n {
			continue
		}
		if runners[i] == nil {
			if len(trace) > 0 && len(opened) > 0 {
				lateOpen = true
			}
			if f := open(i); f != nil {
				return f, nil, false
			}
		}
		before := len(runners[i].log)
		f := runners[i].step(op)
		for _, l := range runners[i].log[before:] {
			trace = append(trace, fmt.Sprintf("%d:%s", i, l))
		}
		if f != nil {
			f.Msg += "\ninterleaving: " + strings.Join(trace, " ")
			return f, nil, false
		}
		// a consumer that has not stopped keeps the underlying iterator alive
		if us := ds.underlying(); len(us) == 1 && anyLive() && us[0].stopCount() != 0 {
			return fw.Failf("C23/shared-underlying-stopped-early", "underlying iterator stopped while a clone is still live\ninterleaving: %s", strings.Join(trace, " ")), nil, false
		}
	}
	for i := 0; i < n; i++ {
		if f := open(i); f != nil {
			return f, nil, false
		}
	}
	stops := map[int]bool{}
	for _, r := range runners {
		if r.state == stStopped {
			stops[r.pos] = true
		} else {
			stops[-1] = true
		}
		r.stopNow()
		sh.add(r)
	}
	us := ds.underlying()
	for k, u := range us {
		if u.stopCount() > 1 {
			return fw.Failf("C23/input-stopped-twice:shared", "underlying iterator %d stopped %d times\ninterleaving: %s", k, u.stopCount(), strings.Join(trace, " ")), nil, false
		}
	}
	classes := []string{fmt.Sprintf("shared:clones=%d", n), fmt.Sprintf("shared:underlying=%d", len(us)), fmt.Sprintf("shared:reader=%d", c.Variant%3)}
	if lateOpen {
		classes = append(classes, "shared:late-open")
	}
	diff := len(stops) >= 2
	if diff {
		classes = append(classes, "shared:different-stop-points")
	}
	return nil, classes, diff && n >= 2
}

// ---------------------------------------------------------------------------
// Stream: "aggregates multiple iterators that are sent to a source channel into
// one iterator". Streams.CleanDone fetches the next iterator when the buffer is
// empty and drops streams whose source is closed and whose buffer is drained;
// Next/Head on an exhausted buffer report done and release it;
// SkipToTargetObject "moves the buffer until the buffer's head object is >=
// target"; Drain returns what is left in the buffer.

func runStream(c Case, sh *shape) (*fw.Failure, []string) {
	ctx := context.Background()
	src, fakes := channelOf(c)
	s := iterator.NewStream(0, src)
	streams := iterator.NewStreams([]*iterator.Stream{s})

	type msg struct {
		input int // -1: error message
	}
	var msgs []msg
	for i := range c.Inputs {
		if i == c.MsgErrAt {
			msgs = append(msgs, msg{-1})
		}
		msgs = append(msgs, msg{i})
	}
	if c.MsgErrAt == len(c.Inputs) {
		msgs = append(msgs, msg{-1})
	}

	// model
	qi, cur, curPos := 0, -1, 0
	var vis []item
	closed, removed := false, false
	state := stLive
	var headSeen *string
	var log []string
	fail := func(kind, format string, a ...any) *fw.Failure {
		return fw.Failf("C23/"+kind+":stream", "stream: %s\ninputs %+v msgErrAt %d\ncalls: %s", fmt.Sprintf(format, a...), c.Inputs, c.MsgErrAt, strings.Join(log, " "))
	}
	// what Next/Head must return now: item, or done (buffer released), or the input's error
	want := func() (string, error) {
		if cur < 0 {
			return "", storage.ErrIteratorDone
		}
		if curPos < len(vis) {
			return vis[curPos].id(), nil
		}
		if c.Inputs[cur].ErrAt >= 0 {
			return "", errInjected
		}
		return "", storage.ErrIteratorDone
	}
	read := func(call string, adv bool) *fw.Failure {
		var got string
		var err error
		if adv {
			got, err = s.Next(ctx)
		} else {
			got, err = s.Head(ctx)
		}
		log = append(log, fmt.Sprintf("%s->%s/%v", call, got, err))
		w, werr := want()
		if werr != nil {
			if !errors.Is(err, werr) {
				return fail("wrong-result", "%s returned (%q, %v), expected %v", call, got, err, werr)
			}
			if werr == errInjected {
				state = stErrored
				sh.sawErr, sh.reachedEnd = true, true
			} else if cur >= 0 {
				cur = -1 // exhausted buffer is released
			}
			headSeen = nil
			return nil
		}
		if err != nil || got != w {
			return fail("wrong-result", "%s returned (%q, %v), expected %s", call, got, err, w)
		}
		if headSeen != nil && *headSeen != got {
			return fail("head-next-disagree", "Head returned %s, following %s returned %s", *headSeen, call, got)
		}
		if adv {
			curPos++
			headSeen = nil
		} else {
			headSeen = &got
		}
		return nil
	}
	var leak *fw.Failure
	stop := func() {
		if state == stStopped {
			return
		}
		if state == stLive && !(closed && cur < 0) {
			sh.earlyStop = true
		}
		log = append(log, "stop")
		s.Stop()
		state = stStopped
		leak = leakCheck("stream", fakes, log)
	}

	for _, op := range c.Script {
		if leak != nil {
			return leak, nil
		}
		switch op.K {
		case "next":
			if state == stStopped {
				sh.afterStop = true
				got, err := s.Next(ctx)
				log = append(log, fmt.Sprintf("next-after-stop->%s/%v", got, err))
				if !errors.Is(err, storage.ErrIteratorDone) {
					return fail("next-after-stop-not-done", "Next after Stop returned (%q, %v)", got, err), nil
				}
				continue
			}
			if state != stLive {
				continue
			}
			sh.nNext++
			if f := read("next", true); f != nil {
				return f, nil
			}
		case "head":
			if state != stLive {
				continue
			}
			sh.nHead++
			if f := read("head", false); f != nil {
				return f, nil
			}
		case "drain":
			if state != stLive {
				continue
			}
			sh.nNext++
			batch, err := s.Drain(ctx)
			log = append(log, fmt.Sprintf("drain->%v/%v", batch, err))
			headSeen = nil
			if cur < 0 {
				if err != nil || len(batch) != 0 {
					return fail("wrong-result", "Drain on an empty buffer returned (%v, %v)", batch, err), nil
				}
				continue
			}
			rest := ids(vis[curPos:])
			if c.Inputs[cur].ErrAt >= 0 {
				if !errors.Is(err, errInjected) {
					return fail("error-swallowed", "Drain returned (%v, %v), expected the input's error", batch, err), nil
				}
				state = stErrored
				sh.sawErr, sh.reachedEnd = true, true
				continue
			}
			if err != nil || strings.Join(batch, ",") != strings.Join(rest, ",") {
				return fail("wrong-result", "Drain returned (%v, %v), expected %v", batch, err, rest), nil
			}
			cur = -1
		case "skip":
			if state != stLive {
				continue
			}
			sh.skip = true
			target := item{V: op.T}.key()
			var werr error
			if cur >= 0 {
				for curPos < len(vis) && vis[curPos].key() < target {
					curPos++
				}
				if curPos == len(vis) {
					if c.Inputs[cur].ErrAt >= 0 {
						werr = errInjected
					} else {
						cur = -1 // "If the buffer is drained and no more items, it will set to stop and buffer will be nil."
					}
				}
			}
			headSeen = nil
			err := s.SkipToTargetObject(ctx, target)
			log = append(log, fmt.Sprintf("skip(%s)->%v", target, err))
			if werr == nil && err != nil {
				return fail("skip-unexpected-error", "SkipToTargetObject(%s) returned %v", target, err), nil
			}
			if werr != nil {
				if !errors.Is(err, werr) {
					return fail("skip-error-swallowed", "SkipToTargetObject(%s) returned %v, expected %v", target, err, werr), nil
				}
				state = stErrored
				sh.sawErr, sh.reachedEnd = true, true
			}
		case "fetch":
			if state != stLive {
				continue
			}
			sh.fetch = true
			var werr error
			if !removed && cur < 0 && !closed {
				if qi == len(msgs) {
					closed = true
					sh.reachedEnd = true
				} else {
					m := msgs[qi]
					qi++
					if m.input < 0 {
						werr = errMsg
					} else {
						cur, curPos, vis = m.input, 0, visible(c.Inputs[m.input], m.input)
					}
				}
			}
			active, err := streams.CleanDone(ctx)
			log = append(log, fmt.Sprintf("fetch->%d/%v", len(active), err))
			if werr != nil {
				if !errors.Is(err, werr) {
					return fail("error-swallowed", "CleanDone returned error %v, expected %v", err, werr), nil
				}
				// nothing is documented about a stream after its source delivered an error
				state = stErrored
				sh.sawErr = true
				continue
			}
			if err != nil {
				return fail("wrong-result", "CleanDone returned error %v", err), nil
			}
			wantActive := !removed && !(closed && cur < 0)
			if (len(active) == 1) != wantActive {
				return fail("wrong-active-set", "CleanDone returned %d active streams, expected active=%v (source closed=%v, buffer empty=%v)", len(active), wantActive, closed, cur < 0), nil
			}
			if !wantActive {
				removed = true
			}
		case "stop":
			stop()
		}
	}
	stop()
	if leak != nil {
		return leak, nil
	}
	return nil, []string{fmt.Sprintf("stream:msgs=%d", len(msgs))}
}

// ---------------------------------------------------------------------------
// FanInIteratorChannels: every message of every input channel arrives exactly
// once on the output channel, the order within one input channel is kept, the
// output is closed when all inputs are closed; after cancellation a message is
// either delivered or its iterator is stopped by the fan-in, never both and
// never neither.

func runFanIn(c Case) (*fw.Failure, []string) {
	ctx, cancel := context.WithCancel(context.Background())
	defer cancel()
	nIn := len(c.Inputs)
	type ref struct{ ch, pos int }
	where := map[*iterator.Msg]ref{}
	fakeOf := map[*iterator.Msg]*fake[string]{}
	var chans []<-chan *iterator.Msg
	total := 0
	for ci, list := range c.Chans {
		ch := make(chan *iterator.Msg, len(list))
		for p, m := range list {
			var msg *iterator.Msg
			if m >= 0 && m < nIn {
				f := strFake(c.Inputs[m], m)
				msg = &iterator.Msg{Iter: f}
				fakeOf[msg] = f
			} else {
				msg = &iterator.Msg{Err: errMsg}
			}
			where[msg] = ref{ci, p}
			ch <- msg
			total++
		}
		close(ch)
		chans = append(chans, ch)
	}
	fail := func(kind, format string, a ...any) *fw.Failure {
		return fw.Failf("C23/"+kind+":fanin", "fanin: %s\nchans %v recv %d", fmt.Sprintf(format, a...), c.Chans, c.Recv)
	}
	out := iterator.FanInIteratorChannels(ctx, chans)
	received := map[*iterator.Msg]int{}
	lastPos := map[int]int{}
	timeout := time.After(10 * time.Second)
	recv := func() (bool, *fw.Failure) {
		select {
		case m, ok := <-out:
			if !ok {
				return false, nil
			}
			r, known := where[m]
			if !known {
				return false, fail("unknown-message", "received a message that was never sent")
			}
			received[m]++
			if received[m] > 1 {
				return false, fail("duplicate-message", "message %v delivered twice", r)
			}
			if lp, seen := lastPos[r.ch]; seen && r.pos < lp {
				return false, fail("channel-order", "channel %d: message %d delivered after message %d", r.ch, r.pos, lp)
			}
			lastPos[r.ch] = r.pos
			return true, nil
		case <-timeout:
			return false, fail("output-not-closed", "output channel neither delivered nor closed within 10s")
		}
	}
	cancelled := false
	for n := 0; ; n++ {
		if c.Recv >= 0 && n == c.Recv && !cancelled {
			cancel()
			cancelled = true
		}
		ok, f := recv()
		if f != nil {
			return f, nil
		}
		if !ok {
			break
		}
	}
	// output closed: all fan-in workers are finished, so the counts are final
	nStopped := 0
	for m, r := range where {
		f := fakeOf[m]
		stops := 0
		if f != nil {
			stops = f.stopCount()
		}
		switch {
		case received[m] == 1 && stops != 0:
			return fail("delivered-and-stopped", "message %v was delivered although its iterator was stopped", r), nil
		case received[m] == 0 && !cancelled:
			return fail("message-lost", "message %v never arrived", r), nil
		case received[m] == 0 && f != nil && stops != 1:
			return fail("input-not-stopped", "undelivered message %v: iterator stopped %d times", r, stops), nil
		}
		if received[m] == 0 {
			nStopped++
		}
	}
	classes := []string{fmt.Sprintf("fanin:chans=%d", len(c.Chans))}
	switch {
	case !cancelled:
		classes = append(classes, "fanin:drained")
	case c.Recv > 0 && c.Recv < total:
		classes = append(classes, "fanin:cancel-midway")
	default:
		classes = append(classes, "fanin:cancel-edge")
	}
	if nStopped > 0 {
		classes = append(classes, "fanin:undelivered-stopped")
	}
	return nil, classes
}
