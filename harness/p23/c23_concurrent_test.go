package p23

import (
	"context"
	"encoding/json"
	"errors"
	"fmt"
	"os"
	"runtime"
	"strings"
	"sync"
	"testing"
	"time"

	"pgregory.net/rapid"

	"github.com/openfga/openfga/pkg/storage"
	"github.com/openfga/openfga/pkg/storage/storagewrappers/sharediterator"
	"github.com/openfga/openfga/verifharness/fw"
)

// C23 (concurrent variant, meant for -race): the consumers of one shared
// iterator run in real goroutines; each opens its clone itself (concurrent
// identical reads share one underlying iterator), reads with its own mix of
// Head/Next and stops at its own point. Every consumer must observe exactly
// the prefix of the underlying sequence it asked for, and the input's error or
// ErrIteratorDone when it reads to the end. The Go scheduler owns the
// interleaving here; the single-threaded TestC23 owns the deterministic ones.

type ConcClone struct {
	// StopAfter: number of Next calls before Stop; -1: read to the end.
	StopAfter int `json:"stop_after"`
	// HeadEvery: 0 never; n: call Head (twice) before every n-th Next.
	HeadEvery int `json:"head_every,omitempty"`
	// Yield: call runtime.Gosched between reads.
	Yield bool `json:"yield,omitempty"`
	// CancelAt: k > 0: this consumer's own context reports cancellation from its k-th Err call on
	// (k odd: between the wrapper's look at the context and the underlying read it drives).
	CancelAt int `json:"cancel_at,omitempty"`
	// DeadlineUs: > 0: this consumer reads under a real deadline that many microseconds away
	// (with a slow source it expires while the consumer drives a fetch).
	DeadlineUs int `json:"deadline_us,omitempty"`
}

type ConcCase struct {
	// SlowUs: the source sleeps that long in every Next (a slow datastore read)
	SlowUs int         `json:"slow_us,omitempty"`
	Input  Input       `json:"input"`
	Reader int         `json:"reader"`
	Clones []ConcClone `json:"clones"`
}

func genConc(t *rapid.T) ConcCase {
	var c ConcCase
	n := rapid.IntRange(0, maxLen).Draw(t, "len")
	if rapid.IntRange(0, 3).Draw(t, "long") == 0 {
		// more than one fetch round of the shared buffer (100 items per round)
		n = rapid.IntRange(90, 260).Draw(t, "longLen")
	}
	c.Input.ErrAt = -1
	for i := 0; i < n; i++ {
		c.Input.Items = append(c.Input.Items, rapid.IntRange(0, 5).Draw(t, "item"))
	}
	switch rapid.SampledFrom([]string{"none", "none", "inside", "inside", "zero", "end"}).Draw(t, "errMode") {
	case "inside":
		if n >= 2 {
			c.Input.ErrAt = rapid.IntRange(1, n-1).Draw(t, "errAt")
		}
	case "zero":
		c.Input.ErrAt = 0
	case "end":
		c.Input.ErrAt = n
	}
	c.Reader = rapid.IntRange(0, 2).Draw(t, "reader")
	k := rapid.IntRange(2, 4).Draw(t, "clones")
	for i := 0; i < k; i++ {
		cl := ConcClone{StopAfter: -1}
		if rapid.Bool().Draw(t, "stopsEarly") {
			cl.StopAfter = rapid.IntRange(0, n+1).Draw(t, "stopAfter")
		}
		if rapid.Bool().Draw(t, "heads") {
			cl.HeadEvery = rapid.IntRange(1, 3).Draw(t, "headEvery")
		}
		cl.Yield = rapid.Bool().Draw(t, "yield")
		switch rapid.IntRange(0, 5).Draw(t, "cancelled") {
		case 0, 1:
			if i > 0 {
				cl.CancelAt = rapid.IntRange(1, 12).Draw(t, "cancelAt")
			}
		case 2:
			cl.DeadlineUs = rapid.IntRange(50, 3000).Draw(t, "deadlineUs")
			c.SlowUs = rapid.IntRange(20, 300).Draw(t, "slowUs")
		}
		c.Clones = append(c.Clones, cl)
	}
	return c
}

type concResult struct {
	seen    []string
	endErr  error // error that ended the reading (nil: stopped by its own choice)
	problem string
}

func checkConc(env *fw.Env, c ConcCase) *fw.Failure {
	if len(c.Clones) == 0 {
		env.Rec.Discard("not-a-concurrent-case") // e.g. a replay file of TestC23
		return nil
	}
	ctx := context.Background()
	ds := &fakeDS{items: tupleFake(c.Input, 0).items, errAt: c.Input.ErrAt, slow: time.Duration(c.SlowUs) * time.Microsecond}
	wrapped := sharediterator.NewSharedIteratorDatastore(ds, sharediterator.NewSharedIteratorDatastoreStorage())
	want := specSequence(c.Input, 0)

	res := make([]concResult, len(c.Clones))
	start := make(chan struct{})
	var wg sync.WaitGroup
	for i := range c.Clones {
		wg.Add(1)
		go func(i int) {
			defer wg.Done()
			cl := c.Clones[i]
			r := &res[i]
			ctx := ctx
			if cl.CancelAt > 0 {
				ctx = &flipCtx{Context: context.Background(), at: cl.CancelAt}
			}
			if cl.DeadlineUs > 0 {
				var cancel context.CancelFunc
				ctx, cancel = context.WithTimeout(context.Background(), time.Duration(cl.DeadlineUs)*time.Microsecond)
				defer cancel()
			}
			<-start
			it, err := openShared(wrapped, c.Reader)
			if err != nil || it == nil {
				r.problem = fmt.Sprintf("open: iterator %v, error %v", it, err)
				return
			}
			defer it.Stop()
			for n := 0; cl.StopAfter < 0 || n < cl.StopAfter; n++ {
				var headVal *string
				var headErr error
				headed := false
				if cl.HeadEvery > 0 && n%cl.HeadEvery == 0 {
					for k := 0; k < 2; k++ {
						h, err := it.Head(ctx)
						if ownCtxErr(cl, err) {
							r.endErr = err
							return
						}
						hs := renderTuple(h)
						if k == 1 && (!sameErr(err, headErr) || (err == nil && hs != *headVal)) {
							r.problem = fmt.Sprintf("read %d: two consecutive Head calls disagree: (%v,%v) then (%s,%v)", n, deref(headVal), headErr, hs, err)
							return
						}
						headVal, headErr, headed = &hs, err, true
					}
				}
				if cl.Yield {
					runtime.Gosched()
				}
				t, err := it.Next(ctx)
				if ownCtxErr(cl, err) {
					r.endErr = err
					return
				}
				if headed && (!sameErr(err, headErr) || (err == nil && renderTuple(t) != *headVal)) {
					r.problem = fmt.Sprintf("read %d: Head returned (%v,%v) but the following Next returned (%s,%v)", n, deref(headVal), headErr, renderTuple(t), err)
					return
				}
				if err != nil {
					r.endErr = err
					return
				}
				r.seen = append(r.seen, renderTuple(t))
			}
		}(i)
	}
	close(start)
	finished := make(chan struct{})
	go func() { wg.Wait(); close(finished) }()
	select {
	case <-finished:
	case <-time.After(60 * time.Second):
		return fw.Failf("C23/shared-consumers-hang", "consumers of a shared iterator did not finish within 60s: %+v", c)
	}

	stops := map[int]bool{}
	cancelled := false
	for i, r := range res {
		cl := c.Clones[i]
		if r.problem != "" {
			return fw.Failf("C23/shared-concurrent-head-next-disagree", "clone %d: %s", i, r.problem)
		}
		// expected: the first StopAfter items, or everything followed by the terminal result
		n := len(want.items)
		full := true
		if cl.StopAfter >= 0 && cl.StopAfter <= n {
			n, full = cl.StopAfter, false
		}
		if ownCtxErr(cl, r.endErr) {
			// a consumer whose own request was cancelled: what it saw before is a prefix; nothing else is asked of it
			if len(r.seen) > len(want.items) || strings.Join(r.seen, ",") != strings.Join(want.items[:len(r.seen)], ",") {
				return fw.Failf("C23/shared-concurrent-wrong-sequence", "cancelled clone %d (%+v) saw %v, not a prefix of %v", i, cl, r.seen, want.items)
			}
			cancelled = true
			continue
		}
		if strings.Join(r.seen, ",") != strings.Join(want.items[:n], ",") {
			return fw.Failf("C23/shared-concurrent-wrong-sequence", "clone %d (%+v) saw %d items %v, expected %d items %v", i, cl, len(r.seen), r.seen, n, want.items[:n])
		}
		if full {
			switch {
			case want.term == nil && !errors.Is(r.endErr, storage.ErrIteratorDone):
				return fw.Failf("C23/shared-concurrent-wrong-end", "clone %d ended with %v, expected ErrIteratorDone", i, r.endErr)
			case want.term != nil && !errors.Is(r.endErr, want.term):
				return fw.Failf("C23/shared-concurrent-wrong-end", "clone %d ended with %v, expected %v", i, r.endErr, want.term)
			}
		} else if r.endErr != nil {
			return fw.Failf("C23/shared-concurrent-wrong-end", "clone %d ended with %v after %d items, expected to stop by itself after %d", i, r.endErr, len(r.seen), n)
		}
		stops[n] = true
		if full {
			stops[-1] = true
		}
	}
	us := ds.underlying()
	for k, u := range us {
		if u.stopCount() > 1 {
			return fw.Failf("C23/input-stopped-twice:shared", "underlying iterator %d stopped %d times", k, u.stopCount())
		}
	}

	ec, inside := errClass(Case{Inputs: []Input{c.Input}})
	classes := []string{"concurrent", "concurrent/" + ec, fmt.Sprintf("concurrent:clones=%d", len(c.Clones)), fmt.Sprintf("concurrent:underlying=%d", len(us))}
	if len(c.Input.Items) > 100 {
		classes = append(classes, "concurrent:multi-fetch")
	}
	heads := false
	for _, cl := range c.Clones {
		if cl.HeadEvery > 0 {
			heads = true
		}
	}
	if heads {
		classes = append(classes, "concurrent:head+next")
	}
	if cancelled {
		classes = append(classes, "concurrent:a-consumer-cancelled-midway")
	}
	diff := len(stops) >= 2
	if diff {
		classes = append(classes, "concurrent:different-stop-points")
	}
	// NT: >= 2 clones with different stop points (or Head/Next mix with the error strictly inside).
	nt := diff || (heads && inside)
	var sample any
	if nt {
		sample = map[string]any{"len": len(c.Input.Items), "err_at": c.Input.ErrAt, "clones": c.Clones}
	}
	env.Rec.Case(c, nt, sample, classes...)
	return nil
}

// ownCtxErr: the error is the consumer's own cancellation or deadline.
func ownCtxErr(cl ConcClone, err error) bool {
	return (cl.CancelAt > 0 && errors.Is(err, context.Canceled)) || (cl.DeadlineUs > 0 && errors.Is(err, context.DeadlineExceeded))
}

func sameErr(a, b error) bool {
	if a == nil || b == nil {
		return a == nil && b == nil
	}
	return errors.Is(a, b) || errors.Is(b, a)
}

func deref(s *string) string {
	if s == nil {
		return "<none>"
	}
	return *s
}

func TestC23Concurrent(t *testing.T) {
	skipForeignReplay(t, "clones")
	fw.Run(t, "C23", genConc, checkConc)
}

// skipForeignReplay: both tests of this package run under property id C23; a
// replay file (VERIF_REPLAY) belongs to the test whose case type has the field.
func skipForeignReplay(t *testing.T, field string) {
	p := os.Getenv("VERIF_REPLAY")
	if p == "" {
		return
	}
	b, err := os.ReadFile(p)
	if err != nil {
		return
	}
	var rf struct {
		Property string                     `json:"property"`
		Case     map[string]json.RawMessage `json:"case"`
	}
	if json.Unmarshal(b, &rf) != nil || rf.Property != "C23" {
		return
	}
	if _, ok := rf.Case[field]; !ok {
		t.Skipf("replay file is for the other C23 test (no %q field)", field)
	}
}
