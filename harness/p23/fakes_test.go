package p23

import (
	"context"
	"errors"
	"fmt"
	"strings"
	"sync"
	"sync/atomic"
	"time"

	openfgav1 "github.com/openfga/api/proto/openfga/v1"

	"github.com/openfga/openfga/pkg/storage"
)

// item is one element of an input sequence: value V (from a small alphabet, so
// duplicates occur) that came from input I at position P. (I,P) makes every
// element distinguishable, so skipped / repeated / reordered elements are seen.
type item struct {
	V, I, P int
	Plain   bool // rendered without the (I,P) suffix
}

func (it item) key() string { return fmt.Sprintf("doc:%d", it.V) }
func (it item) id() string {
	if it.Plain {
		return it.key()
	}
	return fmt.Sprintf("doc:%d#%d.%d", it.V, it.I, it.P)
}

func keyOfID(id string) string {
	if i := strings.IndexByte(id, '#'); i >= 0 {
		return id[:i]
	}
	return id
}

func (it item) tupleKey() *openfgav1.TupleKey {
	return &openfgav1.TupleKey{Object: it.key(), Relation: "r", User: fmt.Sprintf("user:%d.%d", it.I, it.P)}
}
func (it item) tuple() *openfgav1.Tuple { return &openfgav1.Tuple{Key: it.tupleKey()} }

func renderString(s string) string { return s }
func renderTupleKey(k *openfgav1.TupleKey) string {
	if k == nil {
		return "<nil>"
	}
	return k.GetObject() + "#" + strings.TrimPrefix(k.GetUser(), "user:")
}
func renderTuple(t *openfgav1.Tuple) string {
	if t == nil {
		return "<nil>"
	}
	return renderTupleKey(t.GetKey())
}

// errInjected is the single error injected into an input sequence of a case.
var errInjected = errors.New("injected input error")

// errMsg is the error carried by an error message on a channel of iterators.
var errMsg = errors.New("injected channel message error")

// fake is a counting input iterator. It honours the storage.Iterator contract:
// Head is an idempotent peek, a failure at position errAt is sticky, after Stop
// both Next and Head return ErrIteratorDone.
type fake[T any] struct {
	mu      sync.Mutex
	items   []T
	errAt   int // -1: never fails; k: the call that would deliver items[k] (or Done if k==len) fails
	pos     int
	stops   int
	stopped bool
	slow    time.Duration // sleep in every Next: a slow datastore read
}

func newFake[T any](items []T, errAt int) *fake[T] { return &fake[T]{items: items, errAt: errAt} }

func (f *fake[T]) cur(adv bool) (T, error) {
	var zero T
	f.mu.Lock()
	defer f.mu.Unlock()
	if f.stopped {
		return zero, storage.ErrIteratorDone
	}
	if f.errAt >= 0 && f.pos >= f.errAt {
		return zero, errInjected
	}
	if f.pos >= len(f.items) {
		return zero, storage.ErrIteratorDone
	}
	v := f.items[f.pos]
	if adv {
		f.pos++
	}
	return v, nil
}

// like the datastore iterators and storage.StaticIterator, the fake honours its caller's context
func (f *fake[T]) Next(ctx context.Context) (T, error) {
	if f.slow > 0 {
		time.Sleep(f.slow)
	}
	if err := ctx.Err(); err != nil {
		var zero T
		return zero, err
	}
	return f.cur(true)
}
func (f *fake[T]) Head(ctx context.Context) (T, error) {
	if err := ctx.Err(); err != nil {
		var zero T
		return zero, err
	}
	return f.cur(false)
}

// flipCtx is a context that reports cancellation from its k-th Err call on: the
// harness, not the scheduler, decides between which two looks at the context a
// consumer's request is cancelled.
type flipCtx struct {
	context.Context
	mu    sync.Mutex
	calls int
	at    int
}

func (c *flipCtx) Err() error {
	c.mu.Lock()
	defer c.mu.Unlock()
	c.calls++
	if c.calls >= c.at {
		return context.Canceled
	}
	return nil
}
func (f *fake[T]) IsOrdered() bool                 { return true }
func (f *fake[T]) Stop() {
	f.mu.Lock()
	defer f.mu.Unlock()
	f.stops++
	f.stopped = true
}
func (f *fake[T]) stopCount() int {
	f.mu.Lock()
	defer f.mu.Unlock()
	return f.stops
}

// stopCounter lets the leak check treat fakes of different element types alike.
type stopCounter interface{ stopCount() int }

// leakSeen: a leak was already reported in this process; later waits (shrinking) are short.
var leakSeen atomic.Bool

// awaitStops waits (bounded) until every counter has been stopped at least
// once; some adapters stop pending inputs from a background goroutine.
func awaitStops(cs []stopCounter, d time.Duration) bool {
	if leakSeen.Load() && d > 200*time.Millisecond {
		d = 200 * time.Millisecond
	}
	deadline := time.Now().Add(d)
	for {
		all := true
		for _, c := range cs {
			if c.stopCount() < 1 {
				all = false
				break
			}
		}
		if all {
			return true
		}
		if time.Now().After(deadline) {
			leakSeen.Store(true)
			return false
		}
		time.Sleep(50 * time.Microsecond)
	}
}

// fakeDS is the in-memory datastore below the shared-iterator wrapper: every
// read creates a fresh counting iterator over the same sequence.
type fakeDS struct {
	storage.RelationshipTupleReader
	mu    sync.Mutex
	items []*openfgav1.Tuple
	errAt int
	slow  time.Duration
	made  []*fake[*openfgav1.Tuple]
}

func (d *fakeDS) mk() storage.TupleIterator {
	d.mu.Lock()
	defer d.mu.Unlock()
	f := newFake(d.items, d.errAt)
	f.slow = d.slow
	d.made = append(d.made, f)
	return f
}

func (d *fakeDS) underlying() []*fake[*openfgav1.Tuple] {
	d.mu.Lock()
	defer d.mu.Unlock()
	return append([]*fake[*openfgav1.Tuple](nil), d.made...)
}

func (d *fakeDS) Read(context.Context, string, storage.ReadFilter, storage.ReadOptions) (storage.TupleIterator, error) {
	return d.mk(), nil
}

func (d *fakeDS) ReadUsersetTuples(context.Context, string, storage.ReadUsersetTuplesFilter, storage.ReadUsersetTuplesOptions) (storage.TupleIterator, error) {
	return d.mk(), nil
}

func (d *fakeDS) ReadStartingWithUser(context.Context, string, storage.ReadStartingWithUserFilter, storage.ReadStartingWithUserOptions) (storage.TupleIterator, error) {
	return d.mk(), nil
}

// open performs one of the three shared reads (all clones of a case use the same one).
func openShared(ds storage.RelationshipTupleReader, reader int) (storage.TupleIterator, error) {
	ctx := context.Background()
	switch reader % 3 {
	case 0:
		return ds.Read(ctx, "store", storage.ReadFilter{Object: "doc:", Relation: "r"}, storage.ReadOptions{})
	case 1:
		return ds.ReadUsersetTuples(ctx, "store", storage.ReadUsersetTuplesFilter{Object: "doc:1", Relation: "r"}, storage.ReadUsersetTuplesOptions{})
	default:
		return ds.ReadStartingWithUser(ctx, "store", storage.ReadStartingWithUserFilter{
			ObjectType: "doc", Relation: "r", UserFilter: []*openfgav1.ObjectRelation{{Object: "user:1"}},
		}, storage.ReadStartingWithUserOptions{})
	}
}
