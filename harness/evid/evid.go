// Package evid collects what a test process actually covered (cases,
// distinct non-trivial cases, class histogram, samples) and writes it as a
// shard file that the driver merges into /verif/evidence/<id>.json.
package evid

import (
	"encoding/json"
	"hash/fnv"
	"os"
	"sort"
	"sync"
)

const maxHashes = 1_500_000

// Shard is the on-disk shard format.
type Shard struct {
	Property      string         `json:"property"`
	Evaluations   int            `json:"evaluations"`
	NonTrivial    int            `json:"nontrivial"`
	Hashes        []uint64       `json:"hashes"`
	HashOverflow  int            `json:"hash_overflow"`
	Classes       map[string]int `json:"classes"`
	Samples       []any          `json:"samples"`
	ExcludedKnown map[string]int `json:"excluded_known"`
	Inconclusive  int            `json:"inconclusive"`
	Discarded     map[string]int `json:"discarded"`
	Extra         map[string]int `json:"extra"`
	Failed        bool           `json:"failed"`
}

// Recorder accumulates evidence for one property in one process.
type Recorder struct {
	mu     sync.Mutex
	sh     Shard
	seen   map[uint64]struct{}
	maxSmp int
}

func New(property string) *Recorder {
	return &Recorder{sh: Shard{Property: property, Classes: map[string]int{}, ExcludedKnown: map[string]int{},
		Discarded: map[string]int{}, Extra: map[string]int{}}, seen: map[uint64]struct{}{}, maxSmp: 4}
}

// Hash returns the 64-bit FNV-1a hash of v's JSON encoding (maps are encoded
// with sorted keys by encoding/json, so the encoding is canonical).
func Hash(v any) uint64 {
	b, _ := json.Marshal(v)
	h := fnv.New64a()
	h.Write(b)
	return h.Sum64()
}

// Case records one evaluated case. key identifies the case for the distinct
// count; sample is stored for the first few non-trivial cases.
func (r *Recorder) Case(key any, nontrivial bool, sample any, classes ...string) {
	r.mu.Lock()
	defer r.mu.Unlock()
	r.sh.Evaluations++
	for _, c := range classes {
		r.sh.Classes[c]++
	}
	if !nontrivial {
		return
	}
	r.sh.NonTrivial++
	h := Hash(key)
	if _, ok := r.seen[h]; ok {
		return
	}
	if len(r.seen) >= maxHashes {
		r.sh.HashOverflow++
		return
	}
	r.seen[h] = struct{}{}
	if len(r.sh.Samples) < r.maxSmp && sample != nil {
		r.sh.Samples = append(r.sh.Samples, sample)
	}
}

func (r *Recorder) Class(c string) { r.Add("class:"+c, 1) }

// Add adds n to a named counter ("class:x" goes to the class histogram).
func (r *Recorder) Add(name string, n int) {
	r.mu.Lock()
	defer r.mu.Unlock()
	if len(name) > 6 && name[:6] == "class:" {
		r.sh.Classes[name[6:]] += n
		return
	}
	r.sh.Extra[name] += n
}

func (r *Recorder) Known(signature string) {
	r.mu.Lock()
	defer r.mu.Unlock()
	r.sh.ExcludedKnown[signature]++
}

func (r *Recorder) Inconclusive() {
	r.mu.Lock()
	defer r.mu.Unlock()
	r.sh.Inconclusive++
}

func (r *Recorder) Discard(reason string) {
	r.mu.Lock()
	defer r.mu.Unlock()
	r.sh.Discarded[reason]++
}

func (r *Recorder) SetFailed() {
	r.mu.Lock()
	defer r.mu.Unlock()
	r.sh.Failed = true
}

// Flush writes the shard to path (no-op when path is empty).
func (r *Recorder) Flush(path string) error {
	if path == "" {
		return nil
	}
	r.mu.Lock()
	defer r.mu.Unlock()
	r.sh.Hashes = r.sh.Hashes[:0]
	for h := range r.seen {
		r.sh.Hashes = append(r.sh.Hashes, h)
	}
	sort.Slice(r.sh.Hashes, func(i, j int) bool { return r.sh.Hashes[i] < r.sh.Hashes[j] })
	b, err := json.Marshal(&r.sh)
	if err != nil {
		return err
	}
	return os.WriteFile(path, b, 0o644)
}
