package m

import (
	"fmt"
	"strconv"
	"strings"
)

// Expr is a condition expression over the declared parameters. The grammar is
// the subset of CEL whose semantics the reference evaluator (refsem.EvalExpr)
// implements itself.
//
// Kinds:
//
//	lit      literal; T is the CEL type (bool,int,uint,double,string,duration,timestamp), V the value
//	var      parameter reference (Name)
//	not      !A
//	and, or  A && B, A || B
//	cmp      A Op B with Op in == != < <= > >=  (operands of the same CEL type)
//	in       A in B          (B a list)
//	index    A[B]            (A a map<T>, B a string)
//	add      A + B           (int+int, timestamp+duration, duration+duration, string+string)
//	cidr     A.in_cidr(S)    (A an ipaddress, S a string literal in Name)
//	starts   A.startsWith(B)
//	size     size(A)         (list, map or string) -> int
type Expr struct {
	Kind string `json:"k"`
	T    string `json:"t,omitempty"`
	V    any    `json:"v,omitempty"`
	Name string `json:"name,omitempty"`
	Op   string `json:"op,omitempty"`
	A    *Expr  `json:"a,omitempty"`
	B    *Expr  `json:"b,omitempty"`
}

func Lit(t string, v any) *Expr       { return &Expr{Kind: "lit", T: t, V: v} }
func Var(name string) *Expr           { return &Expr{Kind: "var", Name: name} }
func Not(a *Expr) *Expr               { return &Expr{Kind: "not", A: a} }
func And(a, b *Expr) *Expr            { return &Expr{Kind: "and", A: a, B: b} }
func Or(a, b *Expr) *Expr             { return &Expr{Kind: "or", A: a, B: b} }
func Cmp(op string, a, b *Expr) *Expr { return &Expr{Kind: "cmp", Op: op, A: a, B: b} }

// CEL renders the expression as CEL source.
func (e *Expr) CEL() string {
	switch e.Kind {
	case "lit":
		switch e.T {
		case "bool":
			return fmt.Sprint(e.V)
		case "int":
			return fmt.Sprint(toInt64(e.V))
		case "uint":
			return fmt.Sprint(uint64(toInt64(e.V))) + "u"
		case "double":
			s := strconv.FormatFloat(toFloat(e.V), 'f', -1, 64)
			if !strings.ContainsAny(s, ".") {
				s += ".0"
			}
			return s
		case "string":
			return strconv.Quote(fmt.Sprint(e.V))
		case "duration":
			return "duration(" + strconv.Quote(fmt.Sprint(e.V)) + ")"
		case "timestamp":
			return "timestamp(" + strconv.Quote(fmt.Sprint(e.V)) + ")"
		}
		return "?lit"
	case "var":
		return e.Name
	case "not":
		return "!(" + e.A.CEL() + ")"
	case "and":
		return "(" + e.A.CEL() + " && " + e.B.CEL() + ")"
	case "or":
		return "(" + e.A.CEL() + " || " + e.B.CEL() + ")"
	case "cmp":
		return "(" + e.A.CEL() + " " + e.Op + " " + e.B.CEL() + ")"
	case "in":
		return "(" + e.A.CEL() + " in " + e.B.CEL() + ")"
	case "index":
		return e.A.CEL() + "[" + e.B.CEL() + "]"
	case "add":
		return "(" + e.A.CEL() + " + " + e.B.CEL() + ")"
	case "cidr":
		return e.A.CEL() + ".in_cidr(" + strconv.Quote(e.Name) + ")"
	case "starts":
		return e.A.CEL() + ".startsWith(" + e.B.CEL() + ")"
	case "size":
		return "size(" + e.A.CEL() + ")"
	}
	return "?"
}

func toInt64(v any) int64 {
	switch x := v.(type) {
	case int:
		return int64(x)
	case int64:
		return x
	case float64:
		return int64(x)
	case uint64:
		return int64(x)
	}
	return 0
}

func toFloat(v any) float64 {
	switch x := v.(type) {
	case int:
		return float64(x)
	case int64:
		return float64(x)
	case float64:
		return x
	}
	return 0
}
