package m

import (
	"fmt"
	"strconv"
	"strings"
)

// Expr is a condition expression over the declared parameters. The grammar is
// the subset of CEL whose semantics the reference evaluator (refsem.EvalExpr)
// implements itself.
//
// Kinds:
//
//	lit      literal; T is the CEL type (bool,int,uint,double,string,duration,timestamp), V the value
//	var      parameter reference (Name)
//	not      !A
//	and, or  A && B, A || B
//	cmp      A Op B with Op in == != < <= > >=  (operands of the same CEL type)
//	in       A in B          (B a list)
//	index    A[B]            (A a map<T>, B a string)
//	add      A + B           (int+int, timestamp+duration, duration+duration, string+string)
//	cidr     A.in_cidr(S)    (A an ipaddress, S a string literal in Name)
//	starts   A.startsWith(B)
//	size     size(A)         (list, map or string) -> int
//
// Kinds added for C25 (all additive):
//
//	index    also A[B] with A a list and B an int
//	sub, mul, div, mod   A - B, A * B, A / B, A % B (checked integer arithmetic, IEEE doubles, timestamp/duration)
//	ite      Args[0] ? Args[1] : Args[2]
//	list     [Args...]       list literal
//	sel      A.Name          field selection on a map (same as A["Name"])
//	has      has(A.Name)     key presence test on a map
//	contains A.contains(B), ends  A.endsWith(B)
//	lit      additionally T = ipaddress (ipaddress("...")) and T = null; int/uint literals may carry
//	         their value as a decimal string in V (values beyond 2^53 survive a JSON round trip that way)
type Expr struct {
	Kind string  `json:"k"`
	T    string  `json:"t,omitempty"`
	V    any     `json:"v,omitempty"`
	Name string  `json:"name,omitempty"`
	Op   string  `json:"op,omitempty"`
	A    *Expr   `json:"a,omitempty"`
	B    *Expr   `json:"b,omitempty"`
	Args []*Expr `json:"args,omitempty"`
}

func Lit(t string, v any) *Expr       { return &Expr{Kind: "lit", T: t, V: v} }
func Var(name string) *Expr           { return &Expr{Kind: "var", Name: name} }
func Not(a *Expr) *Expr               { return &Expr{Kind: "not", A: a} }
func And(a, b *Expr) *Expr            { return &Expr{Kind: "and", A: a, B: b} }
func Or(a, b *Expr) *Expr             { return &Expr{Kind: "or", A: a, B: b} }
func Cmp(op string, a, b *Expr) *Expr { return &Expr{Kind: "cmp", Op: op, A: a, B: b} }

// Bin builds a binary node of the given kind (in, index, add, sub, mul, div, mod, starts, contains, ends).
func Bin(kind string, a, b *Expr) *Expr { return &Expr{Kind: kind, A: a, B: b} }
func Ite(c, a, b *Expr) *Expr           { return &Expr{Kind: "ite", Args: []*Expr{c, a, b}} }
func List(items ...*Expr) *Expr         { return &Expr{Kind: "list", Args: items} }
func Sel(a *Expr, field string) *Expr   { return &Expr{Kind: "sel", A: a, Name: field} }
func Has(a *Expr, field string) *Expr   { return &Expr{Kind: "has", A: a, Name: field} }
func Cidr(a *Expr, cidr string) *Expr   { return &Expr{Kind: "cidr", A: a, Name: cidr} }
func Size(a *Expr) *Expr                { return &Expr{Kind: "size", A: a} }

// Walk calls f on every node of the expression (pre-order).
func (e *Expr) Walk(f func(*Expr)) {
	if e == nil {
		return
	}
	f(e)
	e.A.Walk(f)
	e.B.Walk(f)
	for _, a := range e.Args {
		a.Walk(f)
	}
}

// CEL renders the expression as CEL source.
func (e *Expr) CEL() string {
	switch e.Kind {
	case "lit":
		switch e.T {
		case "bool":
			return fmt.Sprint(e.V)
		case "int":
			return fmt.Sprint(toInt64(e.V))
		case "uint":
			return fmt.Sprint(toUint64(e.V)) + "u"
		case "double":
			s := strconv.FormatFloat(toFloat(e.V), 'f', -1, 64)
			if !strings.ContainsAny(s, ".") {
				s += ".0"
			}
			return s
		case "string":
			return strconv.Quote(fmt.Sprint(e.V))
		case "duration":
			return "duration(" + strconv.Quote(fmt.Sprint(e.V)) + ")"
		case "timestamp":
			return "timestamp(" + strconv.Quote(fmt.Sprint(e.V)) + ")"
		case "ipaddress":
			return "ipaddress(" + strconv.Quote(fmt.Sprint(e.V)) + ")"
		case "null":
			return "null"
		}
		return "?lit"
	case "var":
		return e.Name
	case "not":
		return "!(" + e.A.CEL() + ")"
	case "and":
		return "(" + e.A.CEL() + " && " + e.B.CEL() + ")"
	case "or":
		return "(" + e.A.CEL() + " || " + e.B.CEL() + ")"
	case "cmp":
		return "(" + e.A.CEL() + " " + e.Op + " " + e.B.CEL() + ")"
	case "in":
		return "(" + e.A.CEL() + " in " + e.B.CEL() + ")"
	case "index":
		return e.A.CEL() + "[" + e.B.CEL() + "]"
	case "add":
		return "(" + e.A.CEL() + " + " + e.B.CEL() + ")"
	case "cidr":
		return e.A.CEL() + ".in_cidr(" + strconv.Quote(e.Name) + ")"
	case "starts":
		return e.A.CEL() + ".startsWith(" + e.B.CEL() + ")"
	case "size":
		return "size(" + e.A.CEL() + ")"
	case "sub":
		return "(" + e.A.CEL() + " - " + e.B.CEL() + ")"
	case "mul":
		return "(" + e.A.CEL() + " * " + e.B.CEL() + ")"
	case "div":
		return "(" + e.A.CEL() + " / " + e.B.CEL() + ")"
	case "mod":
		return "(" + e.A.CEL() + " % " + e.B.CEL() + ")"
	case "ite":
		if len(e.Args) != 3 {
			return "?ite"
		}
		return "(" + e.Args[0].CEL() + " ? " + e.Args[1].CEL() + " : " + e.Args[2].CEL() + ")"
	case "list":
		parts := make([]string, len(e.Args))
		for i, a := range e.Args {
			parts[i] = a.CEL()
		}
		return "[" + strings.Join(parts, ", ") + "]"
	case "sel":
		return e.A.CEL() + "." + e.Name
	case "has":
		return "has(" + e.A.CEL() + "." + e.Name + ")"
	case "contains":
		return e.A.CEL() + ".contains(" + e.B.CEL() + ")"
	case "ends":
		return e.A.CEL() + ".endsWith(" + e.B.CEL() + ")"
	}
	return "?"
}

// LitInt64 and LitUint64 return the value of an int / uint literal (V may be a
// Go integer, a float64 after a JSON round trip, or a decimal string).
func LitInt64(v any) int64   { return toInt64(v) }
func LitUint64(v any) uint64 { return toUint64(v) }

func toUint64(v any) uint64 {
	switch x := v.(type) {
	case uint64:
		return x
	case string:
		n, _ := strconv.ParseUint(x, 10, 64)
		return n
	case float64:
		if x < 0 {
			return 0
		}
		return uint64(x)
	}
	return uint64(toInt64(v))
}

func toInt64(v any) int64 {
	switch x := v.(type) {
	case int:
		return int64(x)
	case int64:
		return x
	case float64:
		return int64(x)
	case uint64:
		return int64(x)
	case string:
		n, _ := strconv.ParseInt(x, 10, 64)
		return n
	}
	return 0
}

func toFloat(v any) float64 {
	switch x := v.(type) {
	case int:
		return float64(x)
	case int64:
		return float64(x)
	case float64:
		return x
	}
	return 0
}
